package main

import (
	"fmt"
	"go/ast"
	"go/token"
	"go/types"
	"strings"

	"golang.org/x/tools/go/ssa"
)

func init() {
	register(&Rule{ID: "CLONE-fields", Props: []string{"C17", "C20"}, Min: 25,
		Doc: "O: in every clone function, each store into a reference-typed field (pointer, map, slice, interface, func, or struct containing one) of a struct being produced takes its value from a cloner call, the cloner's runtime, a fresh make/alloc whose elements are themselves cloned, or nil - never from the input object directly - unless the field/type is in the reviewed immutable table; a bulk copy *out = *in obliges every such field to be overwritten; struct literals built while cloning set every field of their type",
		Run: ruleCloneFields})
	register(&Rule{ID: "CLONE-positional", Props: []string{"C17", "C14", "C19"}, Min: 30,
		Doc: "T: in the positional global{...} literal of (*runtime).clone, the i-th element is cloner.object(rt.global.<i-th field of struct global>): reordering the struct or the literal cross-wires the intrinsics of every copy",
		Run: ruleClonePositional})
	register(&Rule{ID: "CLONE-runtime-fields", Props: []string{"C17"}, Min: 10,
		Doc: "O: every field of struct runtime is either assigned on the copy by (*runtime).clone / Otto.clone or listed in the reviewed table of fields whose zero value is right for a fresh copy",
		Run: ruleCloneRuntimeFields})
}

func isRefLike(t types.Type, depth int) bool {
	if depth > 4 {
		return false
	}
	switch x := t.Underlying().(type) {
	case *types.Pointer, *types.Map, *types.Slice, *types.Interface, *types.Chan, *types.Signature:
		return true
	case *types.Struct:
		for i := 0; i < x.NumFields(); i++ {
			if isRefLike(x.Field(i).Type(), depth+1) {
				return true
			}
		}
	case *types.Array:
		return isRefLike(x.Elem(), depth+1)
	}
	return false
}

// Reviewed: values that may be shared between a runtime and its copies.
var cloneSharedFields = map[string]string{
	"object.objectClass": "pointer to an immutable package-level method table (OWN-global: never written after init)",
	"runtime.debugger":   "host-supplied Go function, outside the JavaScript heap",
	"runtime.random":     "host-supplied Go function, outside the JavaScript heap",
}

func cloneSharedType(t types.Type) (string, bool) {
	n := derefNamed(t)
	if n == nil {
		return "", false
	}
	switch n.Obj().Name() {
	case "nativeFunctionObject":
		return "Go function values and strings of a built-in: shared by design (state captured by closures is CLOSURE-capture's concern)", true
	case "nodeFunctionLiteral", "nodeProgram":
		return "compiled nodes are immutable after compilation (OWN-node)", true
	case "objectClass":
		return "immutable method table", true
	}
	return "", false
}

func isClonerType(t types.Type) bool { return typeIs(t, ottoPath, "cloner") }

// cloneFunctions: functions with a *cloner parameter or receiver, plus (*runtime).clone.
func cloneFunctions(c *Ctx) []*ssa.Function {
	var out []*ssa.Function
	for _, fn := range c.AllSrcFuncs("") {
		if fn.Parent() != nil {
			continue
		}
		is := false
		for _, p := range fn.Params {
			if isClonerType(p.Type()) {
				is = true
			}
		}
		if fn.Name() == "clone" && fn.Signature.Recv() != nil && typeIs(fn.Signature.Recv().Type(), ottoPath, "runtime") {
			is = true
		}
		if is {
			out = append(out, fn)
		}
	}
	return out
}

type prov int

const (
	provOK prov = iota
	provAlias
	provUnknown
)

type provCtx struct {
	fn   *ssa.Function
	seen map[ssa.Value]bool
	why  string
}

func (p *provCtx) of(v ssa.Value, depth int) prov {
	if v == nil || depth > 10 {
		return provUnknown
	}
	if p.seen[v] {
		return provOK
	}
	p.seen[v] = true
	switch x := v.(type) {
	case *ssa.Const:
		return provOK
	case *ssa.MakeMap, *ssa.MakeSlice, *ssa.Alloc, *ssa.MakeClosure, *ssa.Function:
		return provOK
	case *ssa.Parameter:
		if isClonerType(x.Type()) {
			return provOK
		}
		p.why = "the input parameter " + x.Name() + " itself"
		return provAlias
	case *ssa.Call:
		if bi, ok := x.Call.Value.(*ssa.Builtin); ok {
			if bi.Name() == "append" {
				// append(dst, src...) : result shares elements of both
				worst := provOK
				for _, a := range x.Call.Args {
					if r := p.of(a, depth+1); r > worst {
						// a shallow append of non-reference elements from the input into a fresh slice is a copy
						if sl, ok := a.Type().Underlying().(*types.Slice); ok && !isRefLike(sl.Elem(), 0) && a != x.Call.Args[0] {
							continue
						}
						worst = r
					}
				}
				return worst
			}
			return provOK
		}
		callee := x.Call.StaticCallee()
		if callee != nil {
			if callee.Signature.Recv() != nil && isClonerType(callee.Signature.Recv().Type()) {
				return provOK
			}
			for _, prm := range callee.Params {
				if isClonerType(prm.Type()) {
					return provOK
				}
			}
		}
		if x.Call.IsInvoke() {
			for _, a := range x.Call.Args {
				if isClonerType(a.Type()) {
					return provOK // interface method taking the cloner (stasher.clone, objectClass.clone slot)
				}
			}
		}
		// dynamic call through a func-typed slot taking the cloner
		for _, a := range x.Call.Args {
			if isClonerType(a.Type()) {
				return provOK
			}
		}
		// any other call: result is as good as its arguments
		worst := provOK
		for _, a := range x.Call.Args {
			if isRefLike(a.Type(), 0) {
				if r := p.of(a, depth+1); r > worst {
					worst = r
				}
			}
		}
		return worst
	case *ssa.UnOp:
		return p.addr(x.X, depth+1)
	case *ssa.MakeInterface:
		return p.of(x.X, depth+1)
	case *ssa.ChangeInterface:
		return p.of(x.X, depth+1)
	case *ssa.ChangeType:
		return p.of(x.X, depth+1)
	case *ssa.Convert:
		return p.of(x.X, depth+1)
	case *ssa.Slice:
		return p.of(x.X, depth+1)
	case *ssa.Field:
		return p.of(x.X, depth+1)
	case *ssa.Extract:
		return p.of(x.Tuple, depth+1)
	case *ssa.TypeAssert:
		return p.of(x.X, depth+1)
	case *ssa.Lookup:
		return p.of(x.X, depth+1)
	case *ssa.Index:
		return p.of(x.X, depth+1)
	case *ssa.Next:
		return p.of(x.Iter, depth+1)
	case *ssa.Range:
		return p.of(x.X, depth+1)
	case *ssa.Phi:
		worst := provOK
		for _, e := range x.Edges {
			if r := p.of(e, depth+1); r > worst {
				worst = r
			}
		}
		return worst
	case *ssa.BinOp:
		return provOK
	}
	p.why = fmt.Sprintf("value of kind %T", v)
	return provUnknown
}

// addr: provenance of the value loaded from an address.
func (p *provCtx) addr(a ssa.Value, depth int) prov {
	switch x := a.(type) {
	case *ssa.FieldAddr:
		// c.runtime : the copy's own runtime
		if pt, ok := x.X.Type().Underlying().(*types.Pointer); ok && isClonerType(pt.Elem()) {
			return provOK
		}
		return p.addrBase(x.X, depth+1)
	case *ssa.IndexAddr:
		return p.addrBase(x.X, depth+1)
	case *ssa.Alloc:
		// a local: look at what was stored into it
		worst := provOK
		for _, ref := range *x.Referrers() {
			if st, ok := ref.(*ssa.Store); ok && st.Addr == ssa.Value(x) {
				if r := p.of(st.Val, depth+1); r > worst {
					worst = r
				}
			}
		}
		if worst != provOK {
			// a struct copied whole from the input and then repaired field by field (v := in; v.f = clone(in.f)): as good
			// as its fields when every reference-typed field is overwritten with a good value
			if pt, ok := x.Type().Underlying().(*types.Pointer); ok {
				if stt, ok := pt.Elem().Underlying().(*types.Struct); ok {
					repaired := map[int]bool{}
					for _, ref := range *x.Referrers() {
						fa, ok := ref.(*ssa.FieldAddr)
						if !ok {
							continue
						}
						for _, r2 := range *fa.Referrers() {
							if st, ok := r2.(*ssa.Store); ok && st.Addr == ssa.Value(fa) {
								sub := &provCtx{fn: p.fn, seen: map[ssa.Value]bool{}}
								if sub.of(st.Val, depth+1) == provOK {
									repaired[fa.Field] = true
								}
							}
						}
					}
					all := true
					for i := 0; i < stt.NumFields(); i++ {
						if isRefLike(stt.Field(i).Type(), 0) && !repaired[i] {
							all = false
						}
					}
					if all {
						return provOK
					}
				}
			}
		}
		return worst
	case *ssa.Global:
		return provOK
	case *ssa.FreeVar:
		return provUnknown
	}
	return p.of(a, depth+1)
}

// addrBase: where does the struct/array being addressed come from?
func (p *provCtx) addrBase(b ssa.Value, depth int) prov {
	switch x := b.(type) {
	case *ssa.FieldAddr:
		if pt, ok := x.X.Type().Underlying().(*types.Pointer); ok && isClonerType(pt.Elem()) {
			return provOK
		}
		return p.addrBase(x.X, depth+1)
	case *ssa.IndexAddr:
		return p.addrBase(x.X, depth+1)
	case *ssa.Parameter:
		if isClonerType(x.Type()) {
			return provOK
		}
		p.why = "a field of the input " + x.Name()
		return provAlias
	case *ssa.Alloc:
		// a struct local: under construction in this function (fine), unless it is a spilled copy of an input value
		worst := provOK
		for _, ref := range *x.Referrers() {
			if st, ok := ref.(*ssa.Store); ok && st.Addr == ssa.Value(x) {
				if r := p.of(st.Val, depth+1); r > worst {
					worst = r
				}
			}
		}
		return worst
	}
	return p.of(b, depth+1)
}

func ruleCloneFields(c *Ctx, r *R) {
	fns := cloneFunctions(c)
	if len(fns) < 8 {
		r.undecided("clone-functions", "-", fmt.Sprintf("only %d clone functions found (anchor lost)", len(fns)))
	}
	for _, fn := range fns {
		fname := ssaFuncName(fn)
		// output parameters: pointer params that receive a bulk copy or field stores
		bulk := map[ssa.Value]*ssa.Store{} // out pointer -> bulk copy store
		stored := map[ssa.Value]map[string]bool{}
		for _, b := range fn.Blocks {
			for _, ins := range b.Instrs {
				switch x := ins.(type) {
				case *ssa.Store:
					site := c.Pos(instrPos(ins))
					// a struct parameter (or value receiver) spilled to a local that is then returned: `o.f = ...; return o` is a
					// bulk copy of the input as well
					if al, isAlloc := x.Addr.(*ssa.Alloc); isAlloc {
						if prm, isParam := x.Val.(*ssa.Parameter); isParam {
							if _, isStruct := prm.Type().Underlying().(*types.Struct); isStruct && returnsLoadOf(fn, al) {
								bulk[x.Addr] = x
								continue
							}
						}
					}
					// bulk struct copy *out = *in
					if _, isParam := x.Addr.(*ssa.Parameter); isParam {
						if ld, ok := x.Val.(*ssa.UnOp); ok {
							if _, fromParam := ld.X.(*ssa.Parameter); fromParam {
								bulk[x.Addr] = x
								continue
							}
						}
					}
					nt, f := fieldOfAddr(x.Addr)
					if nt == nil || f == nil {
						// element store into a slice/array
						if ia, ok := x.Addr.(*ssa.IndexAddr); ok && isRefLike(x.Val.Type(), 0) {
							if al, ok := ia.X.(*ssa.Alloc); ok && al.Comment == "varargs" {
								continue // argument array of a variadic call (fmt.Errorf ...), not part of the copy
							}
							pc := &provCtx{fn: fn, seen: map[ssa.Value]bool{}}
							pr := pc.of(x.Val, 0)
							key := fmt.Sprintf("elem:%s:%s", fname, types.TypeString(ia.X.Type(), func(*types.Package) string { return "" }))
							r.check(pr == provOK, key, site, "element is cloned", "slice element of reference type is copied from the input without cloning ("+pc.why+"): the copy shares it with the original")
						}
						continue
					}
					fa := x.Addr.(*ssa.FieldAddr)
					if stored[fa.X] == nil {
						stored[fa.X] = map[string]bool{}
					}
					stored[fa.X][f.Name()] = true
					if !isRefLike(f.Type(), 0) {
						continue
					}
					key := fmt.Sprintf("field:%s:%s.%s", fname, nt.Obj().Name(), f.Name())
					if why, ok := cloneSharedFields[nt.Obj().Name()+"."+f.Name()]; ok {
						r.ok(key, site, "shared by design: "+why)
						continue
					}
					if why, ok := cloneSharedType(x.Val.Type()); ok {
						r.ok(key, site, "shared by design: "+why)
						continue
					}
					if mi, ok := x.Val.(*ssa.MakeInterface); ok {
						if why, ok := cloneSharedType(mi.X.Type()); ok {
							r.ok(key, site, "shared by design: "+why)
							continue
						}
					}
					pc := &provCtx{fn: fn, seen: map[ssa.Value]bool{}}
					switch pc.of(x.Val, 0) {
					case provOK:
						r.ok(key, site, "value comes from the cloner / a fresh allocation")
					case provAlias:
						r.bad(key, site, fmt.Sprintf("%s.%s of the copy is set to %s without going through the cloner: original and copy share mutable state, so a change made in one runtime is observable in the other", nt.Obj().Name(), f.Name(), pc.why))
					default:
						r.undecided(key, site, "cannot determine where the stored value comes from: "+pc.why)
					}
				case *ssa.MapUpdate:
					if !isRefLike(x.Value.Type(), 0) {
						continue
					}
					site := c.Pos(instrPos(ins))
					pc := &provCtx{fn: fn, seen: map[ssa.Value]bool{}}
					pr := pc.of(x.Value, 0)
					key := fmt.Sprintf("mapelem:%s:%s", fname, types.TypeString(x.Map.Type(), func(*types.Package) string { return "" }))
					r.check(pr == provOK, key, site, "map element is cloned", "map element of reference type is copied from the input without cloning ("+pc.why+")")
				case *ssa.Call:
					if bi, ok := x.Call.Value.(*ssa.Builtin); ok && bi.Name() == "copy" {
						site := c.Pos(instrPos(ins))
						sl, _ := x.Call.Args[0].Type().Underlying().(*types.Slice)
						key := fmt.Sprintf("copy:%s:%s", fname, types.TypeString(x.Call.Args[0].Type(), func(*types.Package) string { return "" }))
						if sl != nil && isRefLike(sl.Elem(), 0) {
							r.bad(key, site, "copy() of a slice whose elements are references: a shallow copy, the elements still belong to the original runtime")
						} else {
							r.ok(key, site, "copy of non-reference elements")
						}
					}
				}
			}
		}
		// bulk copies: every reference field must be overwritten afterwards
		for out, st := range bulk {
			pt, _ := out.Type().Underlying().(*types.Pointer)
			if pt == nil {
				continue
			}
			nt, _ := pt.Elem().(*types.Named)
			stt, _ := pt.Elem().Underlying().(*types.Struct)
			if nt == nil || stt == nil {
				continue
			}
			for i := 0; i < stt.NumFields(); i++ {
				f := stt.Field(i)
				if !isRefLike(f.Type(), 0) {
					continue
				}
				key := fmt.Sprintf("bulk:%s:%s.%s", fname, nt.Obj().Name(), f.Name())
				if why, ok := cloneSharedFields[nt.Obj().Name()+"."+f.Name()]; ok {
					r.ok(key, c.Pos(instrPos(st)), "shared by design: "+why)
					continue
				}
				r.check(stored[out][f.Name()], key, c.Pos(instrPos(st)), "overwritten after the bulk copy", fmt.Sprintf("after *out = *in the reference field %s.%s is never overwritten: the copy aliases the original's %s", nt.Obj().Name(), f.Name(), f.Name()))
			}
		}
		// struct literals under construction: all fields set
		for _, b := range fn.Blocks {
			for _, ins := range b.Instrs {
				al, ok := ins.(*ssa.Alloc)
				if !ok || al.Comment != "complit" {
					continue
				}
				nt, _ := al.Type().Underlying().(*types.Pointer).Elem().(*types.Named)
				if nt == nil || nt.Obj().Pkg() == nil || nt.Obj().Pkg().Path() != ottoPath {
					continue
				}
				stt, ok := nt.Underlying().(*types.Struct)
				if !ok || nt.Obj().Name() == "cloner" {
					continue
				}
				if len(stored[ssa.Value(al)]) == 0 {
					continue // an empty placeholder (memo entry) that is filled later by a whole-struct store
				}
				for i := 0; i < stt.NumFields(); i++ {
					f := stt.Field(i)
					if !isRefLike(f.Type(), 0) {
						continue
					}
					key := fmt.Sprintf("literal:%s:%s.%s", fname, nt.Obj().Name(), f.Name())
					if nt.Obj().Name() == "runtime" {
						continue // covered by CLONE-runtime-fields
					}
					r.check(stored[ssa.Value(al)][f.Name()], key, c.Pos(al.Pos()), "set in the literal", fmt.Sprintf("the %s literal built while cloning leaves %s unset (zero): that part of the original is lost in the copy", nt.Obj().Name(), f.Name()))
				}
			}
		}
	}
	// payload types stored in object.value that own runtime references must be handled by objectClone's switch
	checkClonePayloadSwitch(c, r)
}

// checkClonePayloadSwitch: OBJ-PAYLOAD types (MakeInterface into object.value anywhere) that contain a reference to
// runtime-owned data (*object, *runtime, stasher, Value) must have a case in the payload type switch of the
// function installed in classObject's clone slot.
func checkClonePayloadSwitch(c *Ctx, r *R) {
	payloads := map[string]types.Type{}
	for _, fn := range c.AllSrcFuncs("") {
		for _, b := range fn.Blocks {
			for _, ins := range b.Instrs {
				st, ok := ins.(*ssa.Store)
				if !ok || !isFieldAddr(st.Addr, "object", "value") {
					continue
				}
				if mi, ok := st.Val.(*ssa.MakeInterface); ok {
					payloads[types.TypeString(mi.X.Type(), func(*types.Package) string { return "" })] = mi.X.Type()
				}
			}
		}
	}
	ownsRuntimeData := func(t types.Type) bool {
		var walk func(t types.Type, d int) bool
		walk = func(t types.Type, d int) bool {
			if d > 4 {
				return false
			}
			if n := derefNamed(t); n != nil && n.Obj().Pkg() != nil && n.Obj().Pkg().Path() == ottoPath {
				switch n.Obj().Name() {
				case "object", "runtime", "stasher", "dclStash", "fnStash", "objectStash":
					return true
				}
			}
			switch x := t.Underlying().(type) {
			case *types.Pointer:
				return walk(x.Elem(), d+1)
			case *types.Struct:
				for i := 0; i < x.NumFields(); i++ {
					if walk(x.Field(i).Type(), d+1) {
						return true
					}
				}
			case *types.Slice:
				return walk(x.Elem(), d+1)
			case *types.Map:
				return walk(x.Elem(), d+1)
			}
			return false
		}
		return walk(t, 0)
	}
	var sw *tswitch
	for _, s := range c.typeSwitches("") {
		if s.fn.Name.Name == "objectClone" || (s.fn.Recv == nil && hasClonerParam(c, s.fn)) {
			if sel, ok := unparen(s.tagExpr).(*ast.SelectorExpr); ok && sel.Sel.Name == "value" {
				if sw == nil || len(s.cases) > len(sw.cases) {
					sw = s
				}
			} else if id, ok := unparen(s.tagExpr).(*ast.Ident); ok && s.fn.Recv == nil {
				// the switch moved into a helper that receives the payload as an interface parameter
				if v, ok := c.Otto().TypesInfo.Uses[id].(*types.Var); ok {
					if _, isIface := v.Type().Underlying().(*types.Interface); isIface {
						for _, fl := range s.fn.Type.Params.List {
							for _, nm := range fl.Names {
								if c.Otto().TypesInfo.Defs[nm] == v && (sw == nil || len(s.cases) > len(sw.cases)) {
									sw = s
								}
							}
						}
					}
				}
			}
		}
	}
	if sw == nil {
		r.undecided("payload-switch", "-", "UNRESOLVED payload type switch in the object clone function")
		return
	}
	has := map[string]bool{}
	for _, tc := range sw.cases {
		for _, t := range tc.types {
			has[types.TypeString(t, func(*types.Package) string { return "" })] = true
		}
	}
	for _, name := range sortedKeys(payloads) {
		t := payloads[name]
		key := "payload:" + name
		// a pointer payload whose fields are written after construction is shared mutable state between copies, whatever
		// it points to: it needs a case of its own (a fresh wrapper)
		if site := mutatedAfterConstruction(c, t); site != "" {
			r.check(has[name], "mutable-"+key, c.Pos(sw.stmt.Pos()), "pointer payload with fields written after construction (at "+site+") has a case in the clone payload switch",
				fmt.Sprintf("object payload type %s is a pointer to a struct whose fields are written after construction (%s) and it has no case in the clone function's payload switch: every copy shares the one wrapper, so `s.push(4)` on one copy of a bridged Go slice changes `s.length` in the template and in the other copies, and concurrent copies race on it", name, site))
			if has[name] {
				continue
			}
		}
		if !ownsRuntimeData(t) {
			r.ok(key, "-", "payload holds no reference into the JavaScript heap: sharing it is harmless")
			continue
		}
		if why, ok := clonePayloadExempt[name]; ok {
			r.ok(key, "-", "exempt: "+why)
			continue
		}
		r.check(has[name], key, c.Pos(sw.stmt.Pos()), "has a case in the clone payload switch", fmt.Sprintf("object payload type %s holds references into the runtime's heap but has no case in the clone function's payload switch: copies keep pointing into the original runtime", name))
	}
}

// mutatedAfterConstruction: t is *T and some function stores to a field of a T it did not allocate itself. Returns the
// site of one such store.
func mutatedAfterConstruction(c *Ctx, t types.Type) string {
	pt, ok := t.Underlying().(*types.Pointer)
	if !ok {
		return ""
	}
	nt, ok := pt.Elem().(*types.Named)
	if !ok {
		return ""
	}
	if _, ok := nt.Underlying().(*types.Struct); !ok {
		return ""
	}
	for _, fn := range c.AllSrcFuncs("") {
		for _, b := range fn.Blocks {
			for _, ins := range b.Instrs {
				st, ok := ins.(*ssa.Store)
				if !ok {
					continue
				}
				fa, ok := st.Addr.(*ssa.FieldAddr)
				if !ok {
					continue
				}
				n2, _ := fieldOfAddr(fa)
				if n2 == nil || n2.Obj() != nt.Obj() {
					continue
				}
				if _, fresh := fa.X.(*ssa.Alloc); fresh {
					continue // a literal under construction
				}
				return c.Pos(instrPos(st))
			}
		}
	}
	return ""
}

var clonePayloadExempt = map[string]string{
	"Value":           "payload of Boolean/Number wrapper objects: always a primitive (stored by newPrimitiveObject from ToNumber/ToBoolean results), never an object",
	"*goStructObject": "bridged host value (outside the pure-JavaScript heap the property quantifies over)",
	"*goMapObject":    "bridged host value",
	"*goArrayObject":  "bridged host value",
	"*goSliceObject":  "bridged host value (the wrapper itself is mutable and is checked by the mutable-payload obligation)",
	"goMapObject":     "bridged host value",
	"goStructObject":  "bridged host value",
	"ottoError":       "error payload: name, message and a captured trace of frames (strings and positions); the frames' fn back-pointers are used for display only",
}

// returnsLoadOf: some return of fn returns the value loaded from the local al.
func returnsLoadOf(fn *ssa.Function, al *ssa.Alloc) bool {
	for _, b := range fn.Blocks {
		ret, ok := b.Instrs[len(b.Instrs)-1].(*ssa.Return)
		if !ok {
			continue
		}
		for _, res := range ret.Results {
			if ld, ok := res.(*ssa.UnOp); ok && ld.Op == token.MUL && ld.X == ssa.Value(al) {
				if nothingToClone(fn, b) {
					continue // the input is handed back where it holds no reference into the runtime (a primitive payload)
				}
				return true
			}
		}
	}
	return false
}

// nothingToClone: block b is reached only after a comma-ok assertion of a payload to *object has failed - the test the
// cloner's own value method makes: a Value whose payload is not an object holds nothing of the original runtime.
func nothingToClone(fn *ssa.Function, b *ssa.BasicBlock) bool {
	for _, tb := range fn.Blocks {
		iff, ok := tb.Instrs[len(tb.Instrs)-1].(*ssa.If)
		if !ok {
			continue
		}
		ex, ok := iff.Cond.(*ssa.Extract)
		if !ok || ex.Index != 1 {
			continue
		}
		ta, ok := ex.Tuple.(*ssa.TypeAssert)
		if !ok || !ta.CommaOk || !typeIs(ta.AssertedType, ottoPath, "object") {
			continue
		}
		if valueOfPayload(ta.X) == nil {
			continue
		}
		no := tb.Succs[1]
		if len(no.Preds) == 1 && (no == b || no.Dominates(b)) {
			return true
		}
	}
	return false
}

func hasClonerParam(c *Ctx, fd *ast.FuncDecl) bool {
	info := c.Otto().TypesInfo
	for _, fl := range fd.Type.Params.List {
		if isClonerType(info.TypeOf(fl.Type)) {
			return true
		}
	}
	return false
}

func ruleClonePositional(c *Ctx, r *R) {
	g := c.LookupType("", "global")
	if g == nil {
		r.undecided("anchors", "-", "UNRESOLVED struct global")
		return
	}
	st := g.Underlying().(*types.Struct)
	info := c.Otto().TypesInfo
	// the literal that builds the copy's table: a global{...} whose elements are calls of cloner methods (wherever the
	// clone code keeps it: in (*runtime).clone or in a helper of the cloner)
	var lit *ast.CompositeLit
	for _, f := range c.Otto().Syntax {
		ast.Inspect(f, func(n ast.Node) bool {
			cl, ok := n.(*ast.CompositeLit)
			if !ok {
				return true
			}
			if nt := derefNamed(info.TypeOf(cl)); nt == nil || nt.Obj() != g.Obj() {
				return true
			}
			for _, el := range cl.Elts {
				var val ast.Expr = el
				if kv, ok := el.(*ast.KeyValueExpr); ok {
					val = kv.Value
				}
				if call, ok := unparen(val).(*ast.CallExpr); ok {
					if sel, ok := unparen(call.Fun).(*ast.SelectorExpr); ok && isClonerType(info.TypeOf(sel.X)) {
						lit = cl
					}
				}
			}
			return true
		})
	}
	if lit == nil {
		r.undecided("literal", "-", "no global{...} literal built from cloner calls in package otto")
		return
	}
	r.check(len(lit.Elts) == st.NumFields(), "arity", c.Pos(lit.Pos()), fmt.Sprintf("%d elements", len(lit.Elts)), fmt.Sprintf("literal has %d elements for %d fields", len(lit.Elts), st.NumFields()))
	for i, el := range lit.Elts {
		if i >= st.NumFields() {
			break
		}
		want := st.Field(i).Name()
		target := want
		var val ast.Expr = el
		if kv, ok := el.(*ast.KeyValueExpr); ok {
			target = kv.Key.(*ast.Ident).Name
			val = kv.Value
		}
		// val must be <cloner>.object(<rt>.global.<target>)
		got := ""
		if call, ok := unparen(val).(*ast.CallExpr); ok && len(call.Args) == 1 {
			if sel, ok := unparen(call.Fun).(*ast.SelectorExpr); ok && isClonerType(info.TypeOf(sel.X)) {
				if a, ok := unparen(call.Args[0]).(*ast.SelectorExpr); ok {
					// <something of type global or *global>.<field>
					if nt := derefNamed(info.TypeOf(a.X)); nt != nil && nt.Obj() == g.Obj() {
						got = a.Sel.Name
					}
				}
			}
		}
		r.check(got == target, "slot:"+target, c.Pos(el.Pos()), "clone of rt.global."+got, fmt.Sprintf("field global.%s of the copy is initialised from rt.global.%s: the copy's intrinsics are cross-wired", target, got))
	}
}

// Fields of runtime whose zero value is correct for a fresh copy (reviewed).
var runtimeZeroOK = map[string]string{
	"scope":  "a copy starts with an empty call stack",
	"labels": "label state is at rest between runs",
	"lck":    "a fresh mutex",
	"otto":   "set by Otto.clone, which wraps the cloned runtime",
}

func ruleCloneRuntimeFields(c *Ctx, r *R) {
	rtT := c.LookupType("", "runtime")
	if rtT == nil {
		r.undecided("anchor", "-", "UNRESOLVED struct runtime")
		return
	}
	st := rtT.Underlying().(*types.Struct)
	assigned := map[string]bool{}
	for _, fn := range c.AllSrcFuncs("") {
		if fn.Signature.Recv() == nil {
			continue
		}
		recv := fn.Signature.Recv().Type()
		// the clone functions of the runtime and of Otto, and the methods of the cloner (which may hold part of the work)
		if !(fn.Name() == "clone" && (typeIs(recv, ottoPath, "runtime") || typeIs(recv, ottoPath, "Otto"))) && !isClonerType(recv) {
			continue
		}
		for _, b := range fn.Blocks {
			for _, ins := range b.Instrs {
				if s, ok := ins.(*ssa.Store); ok {
					if nt, f := fieldOfAddr(s.Addr); nt != nil && nt.Obj() == rtT.Obj() {
						// only stores on the new runtime (not the receiver)
						fa := s.Addr.(*ssa.FieldAddr)
						if p, isParam := fa.X.(*ssa.Parameter); isParam && p == fn.Params[0] && !isClonerType(recv) {
							continue // the runtime being copied (the receiver of clone), not the copy
						}
						assigned[f.Name()] = true
					}
				}
			}
		}
	}
	for i := 0; i < st.NumFields(); i++ {
		f := st.Field(i)
		key := "runtime." + f.Name()
		if assigned[f.Name()] {
			r.ok(key, c.Pos(f.Pos()), "assigned on the copy")
			continue
		}
		if why, ok := runtimeZeroOK[f.Name()]; ok {
			r.ok(key, c.Pos(f.Pos()), "zero value is right: "+why)
			continue
		}
		r.bad(key, c.Pos(f.Pos()), fmt.Sprintf("field runtime.%s is neither assigned on the copy by the clone functions nor in the reviewed zero-is-right table: Copy() silently drops it", f.Name()))
	}
}

var _ = strings.TrimSpace
