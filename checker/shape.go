package main

// SHAPE fact base: an abstract interpretation (over the syntax tree, with go/types
// constant folding) of the straight-line composite-literal program in
// (*runtime).newContext / newConsole. It yields, for the heap of a fresh runtime,
// every intrinsic object with its class, prototype link, payload and ordered
// property table. Nothing is matched by text; identifiers are resolved through
// types.Info.

import (
	"fmt"
	"go/ast"
	"go/constant"
	"go/token"
	"go/types"
	"sort"
	"strings"
)

type SObj struct {
	Pos         token.Pos
	GlobalField string // rt.global.<field> this object was first stored in ("" for nested literals)
	Path        string // JavaScript path from the global object, e.g. "Object.prototype.toString"
	Fields      map[string]ast.Expr
	Class       string // constant value of `class`
	ClassOK     bool
	ObjectClass types.Object // the variable stored in objectClass
	Proto       *SObj
	ProtoNil    bool // prototype: nil (explicit or omitted)
	ProtoExpr   ast.Expr
	Extensible  *bool
	Value       SVal
	Props       map[string]*SProp
	PropKeys    []string // keys in literal order (with duplicates, as written)
	Order       []string
	OrderSet    bool
	Native      *SNative
}

type SProp struct {
	Pos    token.Pos
	Name   string
	Mode   int64
	ModeOK bool
	Value  SVal
}

// SVal is one of *SValue, *SObj, *SNative, SConst, SVar, SFunc, SExpr.
type SVal interface{}

type SValue struct { // a Value{kind:, value:} literal
	Pos     token.Pos
	Kind    string // name of the valueKind constant
	Payload SVal   // nil if omitted
}
type SNative struct {
	Pos       token.Pos
	Name      string
	NameOK    bool
	Call      SVal
	Construct SVal
}
type SConst struct {
	Val  constant.Value
	Type types.Type
	Spec string // "NaN", "+Inf", "-Inf" for the math calls
}
type SVar struct{ Obj types.Object }
type SFunc struct{ Fn *types.Func }
type SExpr struct{ E ast.Expr }

type Shape struct {
	Objs       []*SObj // all object literals in evaluation order
	Global     *SObj   // rt.globalObject
	Console    *SObj
	ByField    map[string]*SObj // rt.global.<field>
	ByPath     map[string]*SObj
	OrderErrs  []string // reads of rt.global.F before its assignment
	Unhandled  []string // statements/expressions the evaluator did not understand
	FieldReads int
	Builtins   map[*types.Func][]string // Go function -> JS paths bound to it (call or construct)
	info       *types.Info
	c          *Ctx
}

func (c *Ctx) Shape() *Shape {
	if c.shape != nil {
		return c.shape
	}
	s := &Shape{ByField: map[string]*SObj{}, ByPath: map[string]*SObj{}, Builtins: map[*types.Func][]string{}, c: c}
	c.shape = s
	p := c.Otto()
	s.info = p.TypesInfo
	nc := c.Decl(c.LookupFunc("", "runtime.newContext"))
	if nc == nil {
		s.Unhandled = append(s.Unhandled, "UNRESOLVED (*runtime).newContext")
		return s
	}
	s.Global = &SObj{GlobalField: "<globalObject>", Props: map[string]*SProp{}, Fields: map[string]ast.Expr{}, Pos: nc.Pos()}
	for _, st := range nc.Body.List {
		s.stmt(st)
	}
	if cons := c.Decl(c.LookupFunc("", "runtime.newConsole")); cons != nil && len(cons.Body.List) == 1 {
		if ret, ok := cons.Body.List[0].(*ast.ReturnStmt); ok && len(ret.Results) == 1 {
			if o, ok := s.eval(ret.Results[0]).(*SObj); ok {
				s.Console = o
			}
		}
	}
	if s.Console == nil {
		s.Unhandled = append(s.Unhandled, "UNRESOLVED (*runtime).newConsole: not a single return of an object literal")
	}
	s.namePaths()
	return s
}

// rtGlobalField recognises rt.global.<F> (returns F) and rt.globalObject (returns "<globalObject>").
func (s *Shape) rtGlobalField(e ast.Expr) (string, bool) {
	sel, ok := unparen(e).(*ast.SelectorExpr)
	if !ok {
		return "", false
	}
	if inner, ok := unparen(sel.X).(*ast.SelectorExpr); ok {
		if inner.Sel.Name == "global" && s.isRuntimeRecv(inner.X) {
			return sel.Sel.Name, true
		}
	}
	if sel.Sel.Name == "globalObject" && s.isRuntimeRecv(sel.X) {
		return "<globalObject>", true
	}
	return "", false
}

func (s *Shape) isRuntimeRecv(e ast.Expr) bool {
	t := s.info.TypeOf(e)
	if t == nil {
		return false
	}
	if p, ok := t.(*types.Pointer); ok {
		t = p.Elem()
	}
	n, ok := t.(*types.Named)
	return ok && n.Obj().Name() == "runtime" && n.Obj().Pkg().Path() == ottoPath
}

func (s *Shape) lookupField(f string, at token.Pos) *SObj {
	s.FieldReads++
	if f == "<globalObject>" {
		return s.Global
	}
	o := s.ByField[f]
	if o == nil {
		s.OrderErrs = append(s.OrderErrs, fmt.Sprintf("%s: rt.global.%s is read before it is assigned", s.c.Pos(at), f))
	}
	return o
}

func (s *Shape) stmt(st ast.Stmt) {
	as, ok := st.(*ast.AssignStmt)
	if !ok || len(as.Lhs) != 1 || len(as.Rhs) != 1 || as.Tok != token.ASSIGN {
		s.Unhandled = append(s.Unhandled, fmt.Sprintf("%s: statement form not understood", s.c.Pos(st.Pos())))
		return
	}
	lhs, rhs := unparen(as.Lhs[0]), as.Rhs[0]
	// rt.global.X = &object{...}
	if f, ok := s.rtGlobalField(lhs); ok && f != "<globalObject>" {
		v := s.eval(rhs)
		o, ok := v.(*SObj)
		if !ok {
			s.Unhandled = append(s.Unhandled, fmt.Sprintf("%s: rt.global.%s assigned a non-literal", s.c.Pos(st.Pos()), f))
			return
		}
		if o.GlobalField == "" {
			o.GlobalField = f
		}
		s.ByField[f] = o
		return
	}
	// rt.global.X.property = map..., rt.global.X.propertyOrder = []string{...}
	if sel, ok := lhs.(*ast.SelectorExpr); ok {
		if f, ok := s.rtGlobalField(sel.X); ok {
			o := s.lookupField(f, sel.Pos())
			if o == nil {
				return
			}
			switch sel.Sel.Name {
			case "property":
				s.setProps(o, rhs)
				return
			case "propertyOrder":
				s.setOrder(o, rhs)
				return
			}
		}
	}
	// rt.global.X.property[K] = property{...}
	if ix, ok := lhs.(*ast.IndexExpr); ok {
		if sel, ok := unparen(ix.X).(*ast.SelectorExpr); ok && sel.Sel.Name == "property" {
			if f, ok := s.rtGlobalField(sel.X); ok {
				o := s.lookupField(f, sel.Pos())
				if o == nil {
					return
				}
				k, ok := s.constString(ix.Index)
				if !ok {
					s.Unhandled = append(s.Unhandled, fmt.Sprintf("%s: non-constant property key", s.c.Pos(ix.Pos())))
					return
				}
				p := s.evalProp(k, rhs)
				if p == nil {
					return
				}
				if o.Props == nil {
					o.Props = map[string]*SProp{}
				}
				o.Props[k] = p
				o.PropKeys = append(o.PropKeys, k)
				return
			}
		}
	}
	s.Unhandled = append(s.Unhandled, fmt.Sprintf("%s: assignment target not understood", s.c.Pos(st.Pos())))
}

func (s *Shape) constString(e ast.Expr) (string, bool) {
	tv, ok := s.info.Types[e]
	if !ok || tv.Value == nil || tv.Value.Kind() != constant.String {
		return "", false
	}
	return constant.StringVal(tv.Value), true
}

func (s *Shape) setProps(o *SObj, e ast.Expr) {
	cl, ok := unparen(e).(*ast.CompositeLit)
	if !ok {
		s.Unhandled = append(s.Unhandled, fmt.Sprintf("%s: property table is not a literal", s.c.Pos(e.Pos())))
		return
	}
	if o.Props == nil {
		o.Props = map[string]*SProp{}
	}
	for _, el := range cl.Elts {
		kv, ok := el.(*ast.KeyValueExpr)
		if !ok {
			continue
		}
		k, ok := s.constString(kv.Key)
		if !ok {
			s.Unhandled = append(s.Unhandled, fmt.Sprintf("%s: non-constant property key", s.c.Pos(kv.Pos())))
			continue
		}
		if p := s.evalProp(k, kv.Value); p != nil {
			o.Props[k] = p
			o.PropKeys = append(o.PropKeys, k)
		}
	}
}

func (s *Shape) setOrder(o *SObj, e ast.Expr) {
	cl, ok := unparen(e).(*ast.CompositeLit)
	if !ok {
		s.Unhandled = append(s.Unhandled, fmt.Sprintf("%s: propertyOrder is not a literal", s.c.Pos(e.Pos())))
		return
	}
	o.OrderSet = true
	o.Order = nil
	for _, el := range cl.Elts {
		k, ok := s.constString(el)
		if !ok {
			s.Unhandled = append(s.Unhandled, fmt.Sprintf("%s: non-constant propertyOrder element", s.c.Pos(el.Pos())))
			continue
		}
		o.Order = append(o.Order, k)
	}
}

func (s *Shape) evalProp(name string, e ast.Expr) *SProp {
	cl, ok := unparen(e).(*ast.CompositeLit)
	if !ok {
		s.Unhandled = append(s.Unhandled, fmt.Sprintf("%s: property %q is not a literal", s.c.Pos(e.Pos()), name))
		return nil
	}
	p := &SProp{Pos: cl.Pos(), Name: name}
	for _, el := range cl.Elts {
		kv, ok := el.(*ast.KeyValueExpr)
		if !ok {
			s.Unhandled = append(s.Unhandled, fmt.Sprintf("%s: positional property literal", s.c.Pos(cl.Pos())))
			return nil
		}
		switch kv.Key.(*ast.Ident).Name {
		case "mode":
			if tv, ok := s.info.Types[kv.Value]; ok && tv.Value != nil {
				if v, exact := constant.Int64Val(constant.ToInt(tv.Value)); exact {
					p.Mode, p.ModeOK = v, true
				}
			}
		case "value":
			p.Value = s.eval(kv.Value)
		}
	}
	// an omitted mode is the zero value 0 (all attributes off)
	hasMode := false
	for _, el := range cl.Elts {
		if kv, ok := el.(*ast.KeyValueExpr); ok && kv.Key.(*ast.Ident).Name == "mode" {
			hasMode = true
		}
	}
	if !hasMode {
		p.Mode, p.ModeOK = 0, true
	}
	return p
}

func (s *Shape) namedTypeName(t types.Type) string {
	if t == nil {
		return ""
	}
	if p, ok := t.(*types.Pointer); ok {
		t = p.Elem()
	}
	if n, ok := t.(*types.Named); ok && n.Obj().Pkg() != nil && n.Obj().Pkg().Path() == ottoPath {
		return n.Obj().Name()
	}
	return ""
}

func (s *Shape) eval(e ast.Expr) SVal {
	e = unparen(e)
	if u, ok := e.(*ast.UnaryExpr); ok && u.Op == token.AND {
		if cl, ok := unparen(u.X).(*ast.CompositeLit); ok && s.namedTypeName(s.info.TypeOf(cl)) == "object" {
			return s.evalObj(cl)
		}
	}
	if f, ok := s.rtGlobalField(e); ok {
		if o := s.lookupField(f, e.Pos()); o != nil {
			return o
		}
		return SExpr{e}
	}
	if tv, ok := s.info.Types[e]; ok && tv.Value != nil {
		return SConst{Val: tv.Value, Type: tv.Type}
	}
	switch x := e.(type) {
	case *ast.CompositeLit:
		switch s.namedTypeName(s.info.TypeOf(x)) {
		case "Value":
			v := &SValue{Pos: x.Pos()}
			for _, el := range x.Elts {
				kv, ok := el.(*ast.KeyValueExpr)
				if !ok {
					s.Unhandled = append(s.Unhandled, fmt.Sprintf("%s: positional Value literal", s.c.Pos(x.Pos())))
					return SExpr{e}
				}
				switch kv.Key.(*ast.Ident).Name {
				case "kind":
					if id, ok := unparen(kv.Value).(*ast.Ident); ok {
						if cobj, ok := s.info.Uses[id].(*types.Const); ok {
							v.Kind = cobj.Name()
						}
					}
				case "value":
					v.Payload = s.eval(kv.Value)
				}
			}
			if v.Kind == "" {
				// zero kind is the first constant of valueKind; resolve below by value 0
				v.Kind = s.kindName(0)
			}
			return v
		case "nativeFunctionObject":
			n := &SNative{Pos: x.Pos()}
			for _, el := range x.Elts {
				kv, ok := el.(*ast.KeyValueExpr)
				if !ok {
					continue
				}
				switch kv.Key.(*ast.Ident).Name {
				case "name":
					n.Name, n.NameOK = s.constString(kv.Value)
				case "call":
					n.Call = s.eval(kv.Value)
				case "construct":
					n.Construct = s.eval(kv.Value)
				}
			}
			return n
		}
	case *ast.Ident:
		switch obj := s.info.Uses[x].(type) {
		case *types.Func:
			return SFunc{obj}
		case *types.Var:
			return SVar{obj}
		case *types.Nil:
			return nil
		}
	case *ast.CallExpr:
		if sel, ok := unparen(x.Fun).(*ast.SelectorExpr); ok {
			if fn, ok := s.info.Uses[sel.Sel].(*types.Func); ok && fn.Pkg() != nil && fn.Pkg().Path() == "math" {
				switch fn.Name() {
				case "NaN":
					return SConst{Spec: "NaN", Type: types.Typ[types.Float64]}
				case "Inf":
					if len(x.Args) == 1 {
						if tv, ok := s.info.Types[x.Args[0]]; ok && tv.Value != nil {
							if constant.Sign(tv.Value) >= 0 {
								return SConst{Spec: "+Inf", Type: types.Typ[types.Float64]}
							}
							return SConst{Spec: "-Inf", Type: types.Typ[types.Float64]}
						}
					}
				}
			}
		}
	}
	return SExpr{e}
}

func (s *Shape) kindName(v int64) string {
	scope := s.c.Otto().Types.Scope()
	for _, n := range scope.Names() {
		if cobj, ok := scope.Lookup(n).(*types.Const); ok && s.namedTypeName(cobj.Type()) == "valueKind" {
			if x, ok := constant.Int64Val(cobj.Val()); ok && x == v {
				return cobj.Name()
			}
		}
	}
	return fmt.Sprintf("valueKind(%d)", v)
}

func (s *Shape) evalObj(cl *ast.CompositeLit) *SObj {
	o := &SObj{Pos: cl.Pos(), Fields: map[string]ast.Expr{}, ProtoNil: true}
	s.Objs = append(s.Objs, o)
	for _, el := range cl.Elts {
		kv, ok := el.(*ast.KeyValueExpr)
		if !ok {
			s.Unhandled = append(s.Unhandled, fmt.Sprintf("%s: positional object literal", s.c.Pos(cl.Pos())))
			return o
		}
		name := kv.Key.(*ast.Ident).Name
		o.Fields[name] = kv.Value
		switch name {
		case "class":
			o.Class, o.ClassOK = s.constString(kv.Value)
		case "objectClass":
			if id, ok := unparen(kv.Value).(*ast.Ident); ok {
				o.ObjectClass = s.info.Uses[id]
			}
		case "prototype":
			o.ProtoExpr = kv.Value
			v := s.eval(kv.Value)
			if po, ok := v.(*SObj); ok {
				o.Proto, o.ProtoNil = po, false
			} else if v == nil {
				o.ProtoNil = true
			} else {
				o.ProtoNil = false // unknown expression
			}
		case "extensible":
			if tv, ok := s.info.Types[kv.Value]; ok && tv.Value != nil && tv.Value.Kind() == constant.Bool {
				b := constant.BoolVal(tv.Value)
				o.Extensible = &b
			}
		case "value":
			o.Value = s.eval(kv.Value)
			if sv, ok := o.Value.(SVar); ok && s.namedTypeName(sv.Obj.Type()) == "nativeFunctionObject" {
				// a package-level nativeFunctionObject (Function.prototype's payload): evaluate its initialiser
				if init := s.c.VarInit(sv.Obj); init != nil {
					if n, ok := s.eval(init).(*SNative); ok {
						o.Native = n
					}
				}
			}
			if n, ok := o.Value.(*SNative); ok {
				o.Native = n
			}
		case "property":
			s.setProps(o, kv.Value)
		case "propertyOrder":
			s.setOrder(o, kv.Value)
		case "runtime":
		default:
			s.Unhandled = append(s.Unhandled, fmt.Sprintf("%s: unknown object field %s", s.c.Pos(kv.Pos()), name))
		}
	}
	return o
}

// objOf returns the object a property holds, if it is a data property holding an object.
func (p *SProp) objOf() *SObj {
	if v, ok := p.Value.(*SValue); ok && v.Kind == "valueObject" {
		if o, ok := v.Payload.(*SObj); ok {
			return o
		}
	}
	return nil
}

func (s *Shape) namePaths() {
	if s.Global == nil {
		return
	}
	s.Global.Path = "<global>"
	queue := []*SObj{s.Global}
	if s.Console != nil {
		s.Console.Path = "console"
		s.ByPath["console"] = s.Console
	}
	visit := func(o *SObj) []*SObj {
		var next []*SObj
		names := append([]string(nil), o.Order...)
		seen := map[string]bool{}
		for _, n := range names {
			seen[n] = true
		}
		for _, k := range sortedKeys(o.Props) {
			if !seen[k] {
				names = append(names, k)
			}
		}
		for _, n := range names {
			p := o.Props[n]
			if p == nil {
				continue
			}
			if ch := p.objOf(); ch != nil && ch.Path == "" {
				if o == s.Global {
					ch.Path = n
				} else {
					ch.Path = o.Path + "." + n
				}
				s.ByPath[ch.Path] = ch
				next = append(next, ch)
			}
		}
		return next
	}
	for len(queue) > 0 {
		o := queue[0]
		queue = queue[1:]
		queue = append(queue, visit(o)...)
	}
	if s.Console != nil {
		queue = []*SObj{s.Console}
		for len(queue) > 0 {
			o := queue[0]
			queue = queue[1:]
			queue = append(queue, visit(o)...)
		}
	}
	for _, o := range s.Objs {
		if o.Native == nil {
			continue
		}
		for _, v := range []SVal{o.Native.Call, o.Native.Construct} {
			if f, ok := v.(SFunc); ok {
				s.Builtins[f.Fn] = append(s.Builtins[f.Fn], o.Path)
			}
		}
	}
	for _, ps := range s.Builtins {
		sort.Strings(ps)
	}
}

// BuiltinFuncs returns the Go functions bound in the shape table in a stable order.
func (s *Shape) BuiltinFuncs() []*types.Func {
	var fs []*types.Func
	for f := range s.Builtins {
		fs = append(fs, f)
	}
	sort.Slice(fs, func(i, j int) bool { return fs[i].Name() < fs[j].Name() })
	return fs
}

// BoundOn returns Go functions bound as `call` of function-valued properties of the object at path.
func (s *Shape) BoundOn(path string) map[string]*types.Func {
	out := map[string]*types.Func{}
	o := s.ByPath[path]
	if o == nil {
		return out
	}
	for name, p := range o.Props {
		if ch := p.objOf(); ch != nil && ch.Native != nil {
			if f, ok := ch.Native.Call.(SFunc); ok {
				out[name] = f.Fn
			}
		}
	}
	return out
}

func modeString(m int64) string {
	b := []byte("---")
	if m&0o700 == 0o100 {
		b[0] = 'w'
	} else if m&0o700 != 0 {
		b[0] = '?'
	}
	if m&0o070 == 0o010 {
		b[1] = 'e'
	} else if m&0o070 != 0 {
		b[1] = '?'
	}
	if m&0o007 == 0o001 {
		b[2] = 'c'
	} else if m&0o007 != 0 {
		b[2] = '?'
	}
	return string(b)
}

func svalString(v SVal) string {
	switch x := v.(type) {
	case nil:
		return "nil"
	case *SObj:
		if x.Path != "" {
			return "object(" + x.Path + ")"
		}
		return "object(rt.global." + x.GlobalField + ")"
	case *SValue:
		return x.Kind + "(" + svalString(x.Payload) + ")"
	case SConst:
		if x.Spec != "" {
			return x.Spec
		}
		return strings.TrimSpace(x.Val.ExactString())
	case SVar:
		return x.Obj.Name()
	case SFunc:
		return x.Fn.Name()
	case *SNative:
		return "native(" + x.Name + ")"
	case SExpr:
		return "expr(" + types.ExprString(x.E) + ")"
	}
	return fmt.Sprintf("%T", v)
}
