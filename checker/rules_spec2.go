package main

import (
	"fmt"
	"go/ast"
	"go/constant"
	"go/token"
	"go/types"
	"sort"
	"strings"

	"golang.org/x/tools/go/ssa"
)

// Second batch of spec-step and sibling rules. Each was added after an independently seeded change showed that the
// step it encodes is one a realistic edit gets wrong while the suite stays green.

func init() {
	register(&Rule{ID: "SPEC-undefined-default", Props: []string{"C08", "C09", "C06", "C10"}, Min: 12,
		Doc: "S (ES5 §15.4.4.5, §15.4.4.10, §15.4.4.11, §15.5.4.13-15, §B.2.3, §15.5.4.14, §15.7.4.2, §15.7.4.6, §15.7.4.7, §15.2.3.5, §15.10.4.1): where the algorithm says 'if <argument> is undefined, use the default, else convert it', the built-in (or the helper it hands its argument list to) tests that very argument with IsUndefined/IsDefined (or its kind against valueUndefined). A presence test (len(ArgumentList)) instead makes an explicitly passed undefined - a forwarded optional parameter - convert to 0/\"undefined\"",
		Run: ruleSpecUndefinedDefault})
	register(&Rule{ID: "SIB-equality", Props: []string{"C05", "C07", "C08", "C11"}, Min: 10, SubsumedBy: "SPEC-comparison-eval", SubsumeKey: func(k string) bool { return strings.HasPrefix(k, "calculateComparison:") },
		Doc: "T+S (ES5 §9.12, §11.9.6, §8.12.9, §15.4.4.14-15, §12.11): the three same-kind comparison implementations (sameValue, strictEqualityComparison, the kind==kind block of calculateComparison) have an arm for exactly the six script-visible kinds and read the payload with the accessor of that kind; only sameValue distinguishes the zeros (math.Signbit) and equates NaN with itself; [[DefineOwnProperty]] compares values with sameValue and nothing else; indexOf, lastIndexOf and the switch statement compare with the strict algorithm and never with sameValue",
		Run: ruleSibEquality})
	register(&Rule{ID: "CLONE-loops", Props: []string{"C17"}, Min: 2,
		Doc: "P: a loop inside a clone function that walks a collection of the original (properties, getter/setter pair, stash entries, bound arguments, slices) runs to exhaustion: it contains no break out of the loop and no return; leaving early copies a prefix and silently drops the rest",
		Run: ruleCloneLoops})
	register(&Rule{ID: "OWN-frame", Props: []string{"C19", "C20"}, Min: 6,
		Doc: "O: the address of a live scope's frame (&scope.frame) is used only to read or write its fields in place; it is never stored, appended, captured, passed to a call or converted to an interface. Error traces and Context stack traces therefore hold value copies of the frames taken when the error was created, which later calls cannot overwrite",
		Run: ruleOwnFrame})
	register(&Rule{ID: "SIB-getown", Props: []string{"C09", "C07"}, Min: 5,
		Doc: "P (sibling agreement, ES5 §15.5.5.2 step 1-2, §10.6): every [[GetOwnProperty]] installed in an objectClass table answers 'no such property' (a nil return) only after the ordinary lookup objectGetOwnProperty has been consulted on that path; expandos on String objects, arguments objects and bridged values stay visible. One reviewed exception: a bridged map whose key type cannot represent the name",
		Run: ruleSibGetOwn})
	register(&Rule{ID: "DEAD-nan-test", Props: []string{"C12", "C13", "C06"}, Min: 1,
		Doc: "G (contradiction rule): math.IsNaN / math.IsInf applied directly to the result of a conversion that never returns NaN or an infinity (toIntegerFloat returns 0 for NaN; the toInt32/toUint32 family returns integers) is a test that cannot succeed: the author believes NaN can arrive there, so the conversion in front of it is the wrong one and an invalid input is silently turned into 0",
		Run: ruleDeadNaNTest})
	register(&Rule{ID: "CLOSURE-buffer", Props: []string{"C16", "C20"}, Min: 5,
		Doc: "O: a native function value handed to the runtime (a func(FunctionCall) Value closure) does not write elements of a slice, array or map that was allocated outside it and captured: such a buffer is shared by every invocation of that function, including re-entrant ones (a bridged Go function that calls back into script which calls it again), so one call overwrites the arguments of another",
		Run: ruleClosureBuffer})
	register(&Rule{ID: "ORDER-declbinding", Props: []string{"C01"}, Min: 3,
		Doc: "P (ES5 §10.5 steps 4-8): on function entry parameters are bound first, then the arguments object, then function declarations, then var declarations - or, when the arguments binding comes later, it is guarded by a hasBinding test. A function declaration named like a parameter or `arguments` must win over them and a var must not reset any of them",
		Run: ruleOrderDeclBinding})
}

// ---- helpers -------------------------------------------------------------------------------------------------------

// slotImplsOf: objectClass field name -> functions stored into that field by any table initialiser.
func slotImplsOf(c *Ctx) map[string][]*ssa.Function {
	out := map[string][]*ssa.Function{}
	seen := map[string]bool{}
	for _, fn := range c.AllSrcFuncs("") {
		for _, b := range fn.Blocks {
			for _, ins := range b.Instrs {
				st, ok := ins.(*ssa.Store)
				if !ok {
					continue
				}
				nt, f := fieldOfAddr(st.Addr)
				if nt == nil || nt.Obj().Name() != "objectClass" {
					continue
				}
				if impl, ok := st.Val.(*ssa.Function); ok && !seen[f.Name()+"/"+ssaFuncName(impl)] {
					seen[f.Name()+"/"+ssaFuncName(impl)] = true
					out[f.Name()] = append(out[f.Name()], impl)
				}
			}
		}
	}
	for k := range out {
		fs := out[k]
		sort.Slice(fs, func(i, j int) bool { return ssaFuncName(fs[i]) < ssaFuncName(fs[j]) })
	}
	return out
}

// withAnon: fn and every function literal nested in it.
func withAnon(fn *ssa.Function) []*ssa.Function {
	out := []*ssa.Function{fn}
	for _, a := range fn.AnonFuncs {
		out = append(out, withAnon(a)...)
	}
	return out
}

// staticCallsIn: every static call instruction of fn and its nested literals to a function named name (package otto).
func staticCallsIn(fn *ssa.Function, name string) []ssa.CallInstruction {
	var out []ssa.CallInstruction
	for _, f := range withAnon(fn) {
		for _, b := range f.Blocks {
			for _, ins := range b.Instrs {
				if ci, ok := ins.(ssa.CallInstruction); ok {
					if callee := ci.Common().StaticCallee(); callee != nil && callee.Name() == name {
						out = append(out, ci)
					}
				}
			}
		}
	}
	return out
}

// ---- SPEC-undefined-default ---------------------------------------------------------------------------------------

type argTrack struct {
	n     int
	tests []ssa.Instruction
	seen  map[ssa.Value]bool
}

const (
	roleCall = iota // a FunctionCall value
	roleList        // its ArgumentList ([]Value)
	roleArg         // the n-th argument (Value)
)

func fieldIndexByName(t types.Type, name string) int {
	if p, ok := t.Underlying().(*types.Pointer); ok {
		t = p.Elem()
	}
	st, ok := t.Underlying().(*types.Struct)
	if !ok {
		return -1
	}
	for i := 0; i < st.NumFields(); i++ {
		if st.Field(i).Name() == name {
			return i
		}
	}
	return -1
}

func (t *argTrack) visit(v ssa.Value, role, depth int) {
	if v == nil || depth > 4 || t.seen[v] {
		return
	}
	t.seen[v] = true
	refs := v.Referrers()
	if refs == nil {
		return
	}
	for _, ref := range *refs {
		switch x := ref.(type) {
		case *ssa.Store:
			// spilled into a local (value receivers, captured variables)
			if al, ok := x.Addr.(*ssa.Alloc); ok && x.Val == v {
				for _, r2 := range *al.Referrers() {
					switch y := r2.(type) {
					case *ssa.UnOp:
						if y.Op == token.MUL {
							t.visit(y, role, depth)
						}
					case *ssa.FieldAddr:
						if role == roleCall && y.Field == fieldIndexByName(al.Type(), "ArgumentList") {
							for _, r3 := range *y.Referrers() {
								if ld, ok := r3.(*ssa.UnOp); ok && ld.Op == token.MUL {
									t.visit(ld, roleList, depth)
								}
							}
						}
						if role == roleArg && y.Field == fieldIndexByName(al.Type(), "kind") {
							for _, r3 := range *y.Referrers() {
								if ld, ok := r3.(*ssa.UnOp); ok && ld.Op == token.MUL {
									t.kindUse(ld)
								}
							}
						}
					}
				}
			}
		case *ssa.Field:
			if role == roleCall && x.X == v && x.Field == fieldIndexByName(v.Type(), "ArgumentList") {
				t.visit(x, roleList, depth)
			}
			if role == roleArg && x.X == v && x.Field == fieldIndexByName(v.Type(), "kind") {
				t.kindUse(x)
			}
		case *ssa.IndexAddr:
			if role == roleList && x.X == v {
				if k, ok := constInt(x.Index); ok && int(k) == t.n {
					for _, r2 := range *x.Referrers() {
						if ld, ok := r2.(*ssa.UnOp); ok && ld.Op == token.MUL {
							t.visit(ld, roleArg, depth)
						}
					}
				}
			}
		case *ssa.Extract:
			if role == roleArg && x.Index == 0 {
				t.visit(x, roleArg, depth)
			}
		case *ssa.Phi:
			if role == roleArg {
				t.visit(x, roleArg, depth)
			}
		case ssa.CallInstruction:
			cc := x.Common()
			callee := cc.StaticCallee()
			if callee == nil {
				continue
			}
			for i, a := range cc.Args {
				if a != v {
					continue
				}
				switch {
				case role == roleCall && i == 0 && callee.Name() == "Argument" && len(cc.Args) == 2:
					if k, ok := constInt(cc.Args[1]); ok && int(k) == t.n {
						if val := x.Value(); val != nil {
							t.visit(val, roleArg, depth)
						}
					}
				case role == roleList && i == 0 && (callee.Name() == "valueOfArrayIndex" || callee.Name() == "getValueOfArrayIndex") && len(cc.Args) == 2:
					if k, ok := constInt(cc.Args[1]); ok && int(k) == t.n {
						if val := x.Value(); val != nil {
							t.visit(val, roleArg, depth)
						}
					}
				case role == roleArg && i == 0 && (callee.Name() == "IsUndefined" || callee.Name() == "IsDefined") && callee.Signature.Recv() != nil:
					t.tests = append(t.tests, x)
				default:
					if callee.Blocks == nil || i >= len(callee.Params) || callee.Pkg == nil || callee.Pkg.Pkg.Path() != ottoPath {
						continue
					}
					if role == roleArg {
						// the argument itself is followed only into helpers that build something from it (newRegExp ...);
						// a conversion (a Value method, or a function returning a number, string or bool) looks at the kind
						// of whatever it is given, which is not a test for "the argument was undefined"
						if callee.Signature.Recv() != nil && i == 0 {
							continue
						}
						if res := callee.Signature.Results(); res.Len() == 1 {
							if _, basic := res.At(0).Type().Underlying().(*types.Basic); basic {
								continue
							}
						}
					}
					t.visit(callee.Params[i], role, depth+1)
				}
			}
		}
	}
}

// kindUse: the kind of the tracked argument is compared with (or switched on) valueUndefined.
func (t *argTrack) kindUse(kind ssa.Value) {
	for _, ref := range *kind.Referrers() {
		if b, ok := ref.(*ssa.BinOp); ok && (b.Op == token.EQL || b.Op == token.NEQ) {
			for _, o := range []ssa.Value{b.X, b.Y} {
				if k, ok := o.(*ssa.Const); ok && k.Value != nil {
					if n, ok := k.Type().(*types.Named); ok && n.Obj().Name() == "valueKind" {
						if v, ok := constInt(k); ok && v == 0 { // valueUndefined is the zero kind (checked by KIND-order)
							t.tests = append(t.tests, b)
						}
					}
				}
			}
		}
	}
}

func ruleSpecUndefinedDefault(c *Ctx, r *R) {
	s := c.Shape()
	type row struct {
		path, name string
		arg        int
		clause     string
	}
	table := []row{
		{"Array.prototype", "join", 0, "§15.4.4.5 step 3: separator undefined -> \",\""},
		{"Array.prototype", "slice", 1, "§15.4.4.10 step 7: end undefined -> len"},
		{"Array.prototype", "sort", 0, "§15.4.4.11: comparefn undefined -> default order"},
		{"String.prototype", "slice", 1, "§15.5.4.13 step 5: end undefined -> len"},
		{"String.prototype", "substring", 1, "§15.5.4.15 step 6: end undefined -> len"},
		{"String.prototype", "substr", 1, "§B.2.3 step 3: length undefined -> +Infinity"},
		{"String.prototype", "split", 0, "§15.5.4.14 step 10: separator undefined -> [S]"},
		{"String.prototype", "split", 1, "§15.5.4.14 step 5: limit undefined -> 2^32-1"},
		{"Number.prototype", "toString", 0, "§15.7.4.2: radix undefined -> 10"},
		{"Number.prototype", "toExponential", 0, "§15.7.4.6 step 9.b: fractionDigits undefined -> as many digits as necessary"},
		{"Number.prototype", "toPrecision", 0, "§15.7.4.7 step 2: precision undefined -> ToString(x)"},
		{"Object", "create", 1, "§15.2.3.5 step 4: Properties undefined -> no defineProperties"},
		{"", "RegExp", 0, "§15.10.4.1: pattern undefined -> empty pattern"},
		{"", "RegExp", 1, "§15.10.4.1: flags undefined -> empty flags"},
	}
	for _, row := range table {
		var fns []*ssa.Function
		if row.path != "" {
			if f := s.boundSSA(c, row.path)[row.name]; f != nil {
				fns = append(fns, f)
			}
		} else if o := s.ByPath[row.name]; o != nil && o.Native != nil {
			for _, v := range []SVal{o.Native.Call, o.Native.Construct} {
				if sf, ok := v.(SFunc); ok {
					if f := c.SSAFunc(sf.Fn); f != nil {
						fns = append(fns, f)
					}
				}
			}
		}
		label := strings.TrimPrefix(row.path+"."+row.name, ".")
		if len(fns) == 0 {
			r.undecided("unresolved:"+label, "-", "UNRESOLVED: no Go function bound on "+label)
			continue
		}
		for _, fn := range fns {
			key := fmt.Sprintf("%s#%d:%s", label, row.arg, ssaFuncName(fn))
			t := &argTrack{n: row.arg, seen: map[ssa.Value]bool{}}
			started := false
			for _, p := range fn.Params {
				if typeIs(p.Type(), ottoPath, "FunctionCall") {
					t.visit(p, roleCall, 0)
					started = true
				} else if sl, ok := p.Type().Underlying().(*types.Slice); ok && typeIs(sl.Elem(), ottoPath, "Value") {
					t.visit(p, roleList, 0) // constructors receive the bare argument list
					started = true
				}
			}
			if !started {
				r.undecided(key, c.Pos(fn.Pos()), "bound function has neither a FunctionCall nor a []Value parameter")
				continue
			}
			if len(t.tests) > 0 {
				r.ok(key, c.Pos(instrPos(t.tests[0])), fmt.Sprintf("argument %d is tested for undefined (%s)", row.arg, row.clause))
			} else {
				r.bad(key, c.Pos(fn.Pos()), fmt.Sprintf("%s: nothing reachable from %s tests argument %d with IsUndefined/IsDefined, so an explicitly passed undefined is converted instead of taking the default", row.clause, ssaFuncName(fn), row.arg))
			}
		}
	}
}

// ---- SIB-equality ----------------------------------------------------------------------------------------------------

func ruleSibEquality(c *Ctx, r *R) {
	wantKinds := []string{"valueBoolean", "valueNull", "valueNumber", "valueObject", "valueString", "valueUndefined"}
	accessor := map[string]string{"valueNumber": "float64", "valueString": "string", "valueBoolean": "bool", "valueObject": "object"}
	type sib struct {
		name    string
		signbit bool
	}
	for _, sb := range []sib{{"sameValue", true}, {"strictEqualityComparison", false}, {"calculateComparison", false}} {
		var fd *ast.FuncDecl
		if f := c.LookupFunc("", sb.name); f != nil {
			fd = c.Decl(f)
		}
		if fd == nil {
			// method of runtime
			if n := c.LookupType("", "runtime"); n != nil {
				for i := 0; i < n.NumMethods(); i++ {
					if n.Method(i).Name() == sb.name {
						fd = c.Decl(n.Method(i))
					}
				}
			}
		}
		if fd == nil || fd.Body == nil {
			r.undecided("unresolved:"+sb.name, "-", "UNRESOLVED: function "+sb.name+" not found")
			continue
		}
		info := c.InfoFor(fd)
		// the switch whose tag is <x>.kind
		var sw *ast.SwitchStmt
		ast.Inspect(fd.Body, func(n ast.Node) bool {
			if s, ok := n.(*ast.SwitchStmt); ok && s.Tag != nil {
				if sel, ok := unparen(s.Tag).(*ast.SelectorExpr); ok && sel.Sel.Name == "kind" {
					if sw == nil {
						sw = s
					}
				}
			}
			return true
		})
		if sw == nil {
			r.bad(sb.name+":kind-switch", c.Pos(fd.Pos()), sb.name+" has no switch over the operand's kind")
			continue
		}
		got := map[string]*ast.CaseClause{}
		for _, st := range sw.Body.List {
			cc := st.(*ast.CaseClause)
			for _, e := range cc.List {
				if id, ok := unparen(e).(*ast.Ident); ok {
					if _, isConst := info.Uses[id].(*types.Const); isConst {
						got[id.Name] = cc
					}
				}
			}
		}
		var names []string
		for k := range got {
			names = append(names, k)
		}
		sort.Strings(names)
		r.check(strings.Join(names, ",") == strings.Join(wantKinds, ","), sb.name+":kinds", c.Pos(sw.Pos()),
			"arms for exactly the six script-visible kinds", fmt.Sprintf("%s compares same-kind operands with arms for {%s}; ES5 needs exactly {%s} (a missing arm is a host panic or a wrong default, an extra arm makes internal kinds comparable)", sb.name, strings.Join(names, ","), strings.Join(wantKinds, ",")))
		for kind, acc := range accessor {
			cc := got[kind]
			if cc == nil {
				continue
			}
			methods := map[string]int{}
			for _, st := range cc.Body {
				ast.Inspect(st, func(n ast.Node) bool {
					if call, ok := n.(*ast.CallExpr); ok {
						if sel, ok := call.Fun.(*ast.SelectorExpr); ok {
							if fn, ok := info.Uses[sel.Sel].(*types.Func); ok && fn.Type().(*types.Signature).Recv() != nil && typeIs(fn.Type().(*types.Signature).Recv().Type(), ottoPath, "Value") {
								methods[sel.Sel.Name]++
							}
						}
					}
					return true
				})
			}
			okAcc := methods[acc] >= 2
			for m := range methods {
				if m != acc {
					okAcc = false
				}
			}
			r.check(okAcc, sb.name+":"+kind+":accessor", c.Pos(cc.Pos()), "both payloads read with ."+acc+"()", fmt.Sprintf("the %s arm of %s reads the payloads with %v; both operands must be read with .%s()", kind, sb.name, methods, acc))
		}
		if cc := got["valueNumber"]; cc != nil {
			uses := map[string]bool{}
			for _, st := range cc.Body {
				ast.Inspect(st, func(n ast.Node) bool {
					if sel, ok := n.(*ast.SelectorExpr); ok {
						if fn, ok := info.Uses[sel.Sel].(*types.Func); ok && fn.Pkg() != nil && fn.Pkg().Path() == "math" {
							uses[fn.Name()] = true
						}
					}
					return true
				})
			}
			r.check(uses["Signbit"] == sb.signbit, sb.name+":zero-sign", c.Pos(cc.Pos()),
				fmt.Sprintf("distinguishes +0 from -0: %v", sb.signbit),
				fmt.Sprintf("the number arm of %s %s math.Signbit: only SameValue (§9.12) tells +0 from -0; === and == do not (§11.9.6)", sb.name, map[bool]string{true: "uses", false: "does not use"}[uses["Signbit"]]))
			// NaN: SameValue must equate NaN with itself, which needs a test; == and === must not, which Go's == on
			// float64 operands gives without one
			floatEq := false
			for _, st := range cc.Body {
				ast.Inspect(st, func(n ast.Node) bool {
					if be, ok := n.(*ast.BinaryExpr); ok && (be.Op == token.EQL || be.Op == token.NEQ) {
						if bt, ok := info.TypeOf(be.X).Underlying().(*types.Basic); ok && bt.Kind() == types.Float64 {
							floatEq = true
						}
					}
					return true
				})
			}
			if sb.signbit {
				r.check(uses["IsNaN"], sb.name+":nan", c.Pos(cc.Pos()), "number arm handles NaN explicitly", "the number arm of "+sb.name+" has no NaN test: SameValue(NaN, NaN) is true (§9.12), which == on floats never gives")
			} else {
				r.check(uses["IsNaN"] || floatEq, sb.name+":nan", c.Pos(cc.Pos()), "NaN is unequal to everything (an explicit test, or == on the float64 values)", "the number arm of "+sb.name+" neither tests for NaN nor compares the float64 values with ==")
			}
		}
	}
	// call sites
	slots := slotImplsOf(c)
	defFns := append([]*ssa.Function{}, slots["defineOwnProperty"]...)
	if len(defFns) == 0 {
		r.undecided("unresolved:defineOwnProperty", "-", "UNRESOLVED: no defineOwnProperty slot implementation found")
	}
	nSame := 0
	for _, fn := range defFns {
		nSame += len(staticCallsIn(fn, "sameValue"))
		for _, other := range []string{"strictEqualityComparison", "calculateComparison"} {
			for _, ci := range staticCallsIn(fn, other) {
				r.bad("define:"+ssaFuncName(fn)+":"+other, c.Pos(instrPos(ci)), fmt.Sprintf("%s implements [[DefineOwnProperty]] and compares values with %s; §8.12.9 requires SameValue (NaN equals NaN, +0 differs from -0) - with === a frozen NaN property rejects its own value and -0 silently replaces +0", ssaFuncName(fn), other))
			}
		}
	}
	r.check(nSame >= 1, "define:sameValue", "object_class.go", fmt.Sprintf("%d sameValue call(s) in the [[DefineOwnProperty]] implementations", nSame), "no [[DefineOwnProperty]] implementation compares values with sameValue: §8.12.9 steps 6 and 10.a.ii.1 are gone")
	arr := c.Shape().boundSSA(c, "Array.prototype")
	for _, name := range []string{"indexOf", "lastIndexOf"} {
		fn := arr[name]
		if fn == nil {
			r.undecided("unresolved:Array.prototype."+name, "-", "UNRESOLVED")
			continue
		}
		// the function and the helpers split out of it (functions of the package that take the object or the call)
		family := []*ssa.Function{fn}
		for _, b := range fn.Blocks {
			for _, ins := range b.Instrs {
				if call, ok := ins.(*ssa.Call); ok {
					if cl := call.Call.StaticCallee(); cl != nil && len(cl.Blocks) > 0 && cl.Pkg == fn.Pkg && cl.Signature.Recv() == nil && strings.HasPrefix(cl.Name(), "array") {
						family = append(family, cl)
					}
				}
			}
		}
		strict, same := 0, 0
		for _, f := range family {
			strict += len(staticCallsIn(f, "strictEqualityComparison")) + strictCalcCalls(f)
			same += len(staticCallsIn(f, "sameValue"))
		}
		r.check(strict >= 1 && same == 0, "strict:Array.prototype."+name, c.Pos(fn.Pos()), "compares with the strict equality algorithm", fmt.Sprintf("Array.prototype.%s must compare with the strict equality algorithm (§15.4.4.14 step 9.b.ii): %d strict comparison(s), %d sameValue call(s)", name, strict, same))
	}
	var swFn *ssa.Function
	for _, fn := range c.AllSrcFuncs("") {
		if fn.Parent() == nil {
			for _, p := range fn.Params {
				if n := derefNamed(p.Type()); n != nil && n.Obj().Name() == "nodeSwitchStatement" && fn.Signature.Recv() != nil && typeIs(fn.Signature.Recv().Type(), ottoPath, "runtime") && fn.Signature.Results().Len() == 1 && typeIs(fn.Signature.Results().At(0).Type(), ottoPath, "Value") {
					swFn = fn
				}
			}
		}
	}
	if swFn == nil {
		r.undecided("unresolved:switch-evaluator", "-", "UNRESOLVED: evaluator of nodeSwitchStatement not found")
	} else {
		strict := len(staticCallsIn(swFn, "strictEqualityComparison")) + strictCalcCalls(swFn)
		r.check(strict >= 1 && len(staticCallsIn(swFn, "sameValue")) == 0, "strict:switch", c.Pos(swFn.Pos()), "case clauses are matched with ===", "the switch statement must match case clauses with the strict equality algorithm (§12.11 step 4.a.ii)")
	}
}

// strictCalcCalls: calls of calculateComparison whose comparator argument is the constant token.STRICT_EQUAL.
func strictCalcCalls(fn *ssa.Function) int {
	n := 0
	for _, ci := range staticCallsIn(fn, "calculateComparison") {
		for _, a := range ci.Common().Args {
			if k, ok := a.(*ssa.Const); ok && k.Value != nil {
				if nt, ok := k.Type().(*types.Named); ok && nt.Obj().Name() == "Token" {
					if v, ok := constInt(k); ok && tokenNameOf(nt, v) == "STRICT_EQUAL" {
						n++
					}
				}
			}
		}
	}
	return n
}

// tokenNameOf: the name of the constant of type nt with value v.
func tokenNameOf(nt *types.Named, v int64) string {
	sc := nt.Obj().Pkg().Scope()
	for _, name := range sc.Names() {
		if k, ok := sc.Lookup(name).(*types.Const); ok && types.Identical(k.Type(), nt) {
			if kv, ok := constantInt64(k); ok && kv == v {
				return name
			}
		}
	}
	return ""
}

// ---- CLONE-loops -----------------------------------------------------------------------------------------------------

func ruleCloneLoops(c *Ctx, r *R) {
	fns := cloneFunctions(c)
	if len(fns) < 8 {
		r.undecided("clone-functions", "-", fmt.Sprintf("only %d clone functions found (anchor lost)", len(fns)))
	}
	for _, fn := range fns {
		obj, _ := fn.Object().(*types.Func)
		if obj == nil {
			continue
		}
		fd := c.Decl(obj)
		if fd == nil || fd.Body == nil {
			continue
		}
		n := 0
		var walk func(node ast.Node, loop ast.Stmt, loopLabel string, breakable ast.Stmt)
		// loop: innermost enclosing loop; breakable: innermost enclosing statement an unlabelled break leaves
		walk = func(node ast.Node, loop ast.Stmt, loopLabel string, breakable ast.Stmt) {
			if node == nil {
				return
			}
			switch x := node.(type) {
			case *ast.FuncLit:
				return // a literal's returns leave the literal, not the loop
			case *ast.LabeledStmt:
				switch x.Stmt.(type) {
				case *ast.ForStmt, *ast.RangeStmt:
					walkLoop(c, r, fn, x.Stmt, x.Label.Name, walk, &n)
					return
				}
			case *ast.ForStmt, *ast.RangeStmt:
				walkLoop(c, r, fn, x.(ast.Stmt), "", walk, &n)
				return
			case *ast.SwitchStmt, *ast.TypeSwitchStmt, *ast.SelectStmt:
				ast.Inspect(x, func(ch ast.Node) bool {
					if ch == node {
						return true
					}
					walk(ch, loop, loopLabel, x.(ast.Stmt))
					return false
				})
				return
			case *ast.BranchStmt:
				if loop == nil {
					return
				}
				if x.Tok == token.BREAK && ((x.Label == nil && breakable == loop) || (x.Label != nil && x.Label.Name == loopLabel)) {
					r.bad(fmt.Sprintf("%s:loop#%d:break", ssaFuncName(fn), n), c.Pos(x.Pos()), "a copy loop of a clone function is left with break: the elements after this one are not copied")
				}
				if x.Tok == token.GOTO {
					r.bad(fmt.Sprintf("%s:loop#%d:goto", ssaFuncName(fn), n), c.Pos(x.Pos()), "a copy loop of a clone function is left with goto")
				}
				return
			case *ast.ReturnStmt:
				if loop != nil {
					r.bad(fmt.Sprintf("%s:loop#%d:return", ssaFuncName(fn), n), c.Pos(x.Pos()), "a copy loop of a clone function returns from inside the loop: the elements after this one are not copied")
				}
				return
			}
			ast.Inspect(node, func(ch ast.Node) bool {
				if ch == node {
					return true
				}
				walk(ch, loop, loopLabel, breakable)
				return false
			})
		}
		walk(fd.Body, nil, "", nil)
	}
}

func walkLoop(c *Ctx, r *R, fn *ssa.Function, loop ast.Stmt, label string, walk func(ast.Node, ast.Stmt, string, ast.Stmt), n *int) {
	*n++
	idx := *n
	before := len(r.obs)
	var body *ast.BlockStmt
	switch l := loop.(type) {
	case *ast.ForStmt:
		body = l.Body
	case *ast.RangeStmt:
		body = l.Body
	}
	for _, st := range body.List {
		walk(st, loop, label, loop)
	}
	bad := false
	for _, o := range r.obs[before:] {
		if o.status == Violated {
			bad = true
		}
	}
	if !bad {
		r.ok(fmt.Sprintf("%s:loop#%d", ssaFuncName(fn), idx), c.Pos(loop.Pos()), "runs to exhaustion")
	}
}

// ---- OWN-frame ---------------------------------------------------------------------------------------------------------

func ruleOwnFrame(c *Ctx, r *R) {
	n := 0
	for _, fn := range c.AllSrcFuncs("") {
		for _, b := range fn.Blocks {
			for _, ins := range b.Instrs {
				fa, ok := ins.(*ssa.FieldAddr)
				if !ok || !isFieldAddr(fa, "scope", "frame") {
					continue
				}
				n++
				bad := ""
				for _, ref := range *fa.Referrers() {
					switch x := ref.(type) {
					case *ssa.FieldAddr:
						// &scope.frame.f: must itself only be loaded or stored through
						for _, r2 := range *x.Referrers() {
							switch y := r2.(type) {
							case *ssa.UnOp:
							case *ssa.Store:
								if y.Val == ssa.Value(x) {
									bad = "the address of a field of a live frame is stored"
								}
							case *ssa.DebugRef:
							default:
								bad = fmt.Sprintf("the address of a field of a live frame is used by %T", r2)
							}
						}
					case *ssa.UnOp: // copy
					case *ssa.Store:
						if x.Val == ssa.Value(fa) {
							bad = "the address of a live frame is stored"
						}
					case *ssa.DebugRef:
					case ssa.CallInstruction:
						// a pointer-receiver method of frame called on the live frame would be fine if it only reads;
						// frame has value receivers only, so any call with &scope.frame is an escape
						bad = "the address of a live frame is passed to a call"
					default:
						bad = fmt.Sprintf("the address of a live frame is used by %T", ref)
					}
				}
				key := ssaFuncName(fn) + ":frame"
				if bad == "" {
					r.ok(key, c.Pos(instrPos(fa)), "read or written in place")
				} else {
					r.bad(key, c.Pos(instrPos(fa)), bad+": whoever holds it (an error's trace, a Context) sees the frame change as the script goes on calling, instead of a snapshot of the moment the error was raised")
				}
			}
		}
	}
	// type-level: the trace of an error and the frame snapshot types hold frames by value
	if et := c.LookupType("", "ottoError"); et != nil {
		if st, ok := et.Underlying().(*types.Struct); ok {
			for i := 0; i < st.NumFields(); i++ {
				if st.Field(i).Name() == "trace" {
					sl, isSlice := st.Field(i).Type().Underlying().(*types.Slice)
					okT := false
					if isSlice {
						if nt, ok := sl.Elem().(*types.Named); ok && nt.Obj().Name() == "frame" {
							okT = true
						}
					}
					r.check(okT, "ottoError.trace:by-value", c.Pos(st.Field(i).Pos()), "[]frame", "ottoError.trace is "+st.Field(i).Type().String()+": the trace must hold frames by value ([]frame) so that it is a snapshot")
				}
			}
		}
	} else {
		r.undecided("unresolved:ottoError", "-", "UNRESOLVED: type ottoError not found")
	}
	_ = n
}

// ---- SIB-getown --------------------------------------------------------------------------------------------------------

var sibGetOwnReviewed = map[string]string{
	"goMapGetOwnProperty": "the name cannot be converted to the map's key type, so it cannot be a key; bridged maps keep no ordinary properties besides methods, which are looked up afterwards on the other paths",
}

func ruleSibGetOwn(c *Ctx, r *R) {
	impls := slotImplsOf(c)["getOwnProperty"]
	if len(impls) == 0 {
		r.undecided("unresolved:getOwnProperty", "-", "UNRESOLVED: no getOwnProperty slot implementation found")
		return
	}
	var generic *ssa.Function
	for _, fn := range impls {
		if fn.Name() == "objectGetOwnProperty" {
			generic = fn
		}
	}
	if generic == nil {
		r.undecided("unresolved:objectGetOwnProperty", "-", "UNRESOLVED: the ordinary [[GetOwnProperty]] (objectGetOwnProperty) is not installed in any table")
		return
	}
	for _, fn := range impls {
		if fn == generic || fn.Blocks == nil {
			continue
		}
		key := ssaFuncName(fn)
		// forward walk from entry, stopping at calls of the generic lookup; a `return nil` reached is a violation
		type pt struct {
			b *ssa.BasicBlock
		}
		clean := map[*ssa.BasicBlock]bool{} // block end reachable without having called the generic lookup
		var bad ssa.Instruction
		seen := map[*ssa.BasicBlock]bool{}
		var dfs func(b *ssa.BasicBlock)
		dfs = func(b *ssa.BasicBlock) {
			if seen[b] {
				return
			}
			seen[b] = true
			for _, ins := range b.Instrs {
				if ci, ok := ins.(ssa.CallInstruction); ok && ci.Common().StaticCallee() == generic {
					return
				}
				if ret, ok := ins.(*ssa.Return); ok && len(ret.Results) == 1 {
					switch v := ret.Results[0].(type) {
					case *ssa.Const:
						if v.Value == nil && bad == nil {
							bad = ret
						}
					case *ssa.Phi:
						for i, e := range v.Edges {
							if isNilConst(e) && clean[v.Block().Preds[i]] && bad == nil {
								bad = ret
							}
						}
					}
				}
			}
			clean[b] = true
			for _, s := range b.Succs {
				dfs(s)
			}
		}
		// two passes so that `clean` of predecessors is known when a phi return is examined
		dfs(fn.Blocks[0])
		seen = map[*ssa.BasicBlock]bool{}
		dfs(fn.Blocks[0])
		if bad == nil {
			r.ok(key, c.Pos(fn.Pos()), "answers nil only after the ordinary lookup")
		} else if why, ok := sibGetOwnReviewed[fn.Name()]; ok {
			r.ok(key, c.Pos(instrPos(bad)), "reviewed: "+why)
		} else {
			r.bad(key, c.Pos(instrPos(bad)), fmt.Sprintf("%s is installed as a [[GetOwnProperty]] and can return nil (no such property) on a path that never consulted objectGetOwnProperty: ordinary properties stored on the object (expandos) become invisible on that path", ssaFuncName(fn)))
		}
	}
}

// ---- DEAD-nan-test -----------------------------------------------------------------------------------------------------

// nanFree: functions of package otto with a float64 result that cannot return NaN or an infinity.
func nanFreeFunctions(c *Ctx) map[*ssa.Function]string {
	out := map[*ssa.Function]string{}
	for _, fn := range c.AllSrcFuncs("") {
		if fn.Parent() != nil || fn.Signature.Results().Len() != 1 {
			continue
		}
		res := fn.Signature.Results().At(0).Type()
		b, ok := res.Underlying().(*types.Basic)
		if !ok {
			continue
		}
		if b.Info()&types.IsInteger != 0 && fn.Signature.Recv() == nil && strings.HasPrefix(fn.Name(), "to") {
			out[fn] = "returns an integer type"
			continue
		}
		if b.Kind() != types.Float64 {
			continue
		}
		// a float64 function is NaN-free when it tests IsNaN (and IsInf) of a value and returns a constant on the true side,
		// and every other return is that same value or an arithmetic image of it (Floor/Trunc/Copysign/negation)
		hasNaNGuard := false
		for _, blk := range fn.Blocks {
			for _, ins := range blk.Instrs {
				if call, ok := ins.(*ssa.Call); ok {
					if f := call.Call.StaticCallee(); f != nil && f.Pkg != nil && f.Pkg.Pkg.Path() == "math" && f.Name() == "IsNaN" {
						// the true successor returns a constant
						for _, ref := range *call.Referrers() {
							if iff, ok := ref.(*ssa.If); ok {
								t := iff.Block().Succs[0]
								if ret, ok := t.Instrs[len(t.Instrs)-1].(*ssa.Return); ok && len(ret.Results) == 1 {
									if _, isConst := ret.Results[0].(*ssa.Const); isConst {
										hasNaNGuard = true
									}
								}
							}
						}
					}
				}
			}
		}
		if hasNaNGuard && (fn.Name() == "toIntegerFloat" || isFloatToInteger(fn)) {
			out[fn] = "returns 0 for NaN"
		}
	}
	// delegation: a float64 function all of whose returns are the result of a NaN-free function is NaN-free too
	for changed := true; changed; {
		changed = false
		for _, fn := range c.AllSrcFuncs("") {
			if _, done := out[fn]; done || fn.Signature.Results().Len() != 1 {
				continue
			}
			if b, ok := fn.Signature.Results().At(0).Type().Underlying().(*types.Basic); !ok || b.Kind() != types.Float64 {
				continue
			}
			n, all := 0, true
			for _, blk := range fn.Blocks {
				ret, ok := blk.Instrs[len(blk.Instrs)-1].(*ssa.Return)
				if !ok {
					continue
				}
				n++
				call, isCall := ret.Results[0].(*ssa.Call)
				if !isCall || call.Call.StaticCallee() == nil {
					all = false
					continue
				}
				if _, free := out[call.Call.StaticCallee()]; !free {
					all = false
				}
			}
			if n > 0 && all {
				out[fn] = "returns what a NaN-free function returns"
				changed = true
			}
		}
	}
	return out
}

func ruleDeadNaNTest(c *Ctx, r *R) {
	free := nanFreeFunctions(c)
	anchor := false
	for fn := range free {
		if fn.Name() == "toIntegerFloat" {
			anchor = true
		}
	}
	if !anchor {
		r.undecided("unresolved:toIntegerFloat", "-", "UNRESOLVED: toIntegerFloat is no longer recognised as NaN-absorbing (a math.IsNaN test whose true side returns a constant)")
		return
	}
	r.ok("fact:toIntegerFloat", "-", "toIntegerFloat returns a constant for NaN")
	sites := 0
	for _, fn := range c.AllSrcFuncs("") {
		for _, b := range fn.Blocks {
			for _, ins := range b.Instrs {
				call, ok := ins.(*ssa.Call)
				if !ok {
					continue
				}
				f := call.Call.StaticCallee()
				if f == nil || f.Pkg == nil || f.Pkg.Pkg.Path() != "math" || f.Name() != "IsNaN" || len(call.Call.Args) != 1 {
					continue
				}
				sites++
				arg := call.Call.Args[0]
				for i := 0; i < 3; i++ { // through float64(x) conversions
					if cv, ok := arg.(*ssa.Convert); ok {
						arg = cv.X
					}
				}
				src, ok := arg.(*ssa.Call)
				if !ok {
					continue
				}
				callee := src.Call.StaticCallee()
				if callee == nil {
					continue
				}
				if why, isFree := free[callee]; isFree {
					r.bad(fmt.Sprintf("%s:IsNaN(%s)", ssaFuncName(fn), callee.Name()), c.Pos(instrPos(call)), fmt.Sprintf("math.IsNaN is applied to the result of %s, which %s: the test can never succeed, so a NaN (or non-numeric) input that the author meant to reject here has already been turned into a number", callee.Name(), why))
				}
			}
		}
	}
	r.note("isnan_sites", sites)
	r.ok("census", "-", fmt.Sprintf("%d math.IsNaN call sites examined", sites))
}

// ---- CLOSURE-buffer ----------------------------------------------------------------------------------------------------

func ruleClosureBuffer(c *Ctx, r *R) {
	// native function closures: function literals with signature func(FunctionCall) Value
	isNativeSig := func(sig *types.Signature) bool {
		if sig.Params().Len() != 1 || sig.Results().Len() != 1 {
			return false
		}
		return typeIs(sig.Params().At(0).Type(), ottoPath, "FunctionCall") && typeIs(sig.Results().At(0).Type(), ottoPath, "Value")
	}
	n := 0
	for _, fn := range c.AllSrcFuncs("") {
		if fn.Parent() == nil || !isNativeSig(fn.Signature) {
			continue
		}
		n++
		key := ssaFuncName(fn)
		bad := ""
		var badPos token.Pos
		for _, fv := range fn.FreeVars {
			// fv is a pointer to the captured variable
			pt, ok := fv.Type().Underlying().(*types.Pointer)
			if !ok {
				continue
			}
			switch pt.Elem().Underlying().(type) {
			case *types.Slice, *types.Map, *types.Array:
			default:
				continue
			}
			// element writes through the captured variable, in this literal or literals nested in it
			for _, ref := range *fv.Referrers() {
				var holders []ssa.Value
				switch x := ref.(type) {
				case *ssa.UnOp:
					holders = append(holders, x)
				case *ssa.IndexAddr: // captured array
					holders = append(holders, nil)
					if writesThrough(x) {
						bad, badPos = fv.Name(), instrPos(x)
					}
				}
				for _, h := range holders {
					if h == nil {
						continue
					}
					if p := elementWrite(h, 0); p != nil {
						bad, badPos = fv.Name(), instrPos(p)
					}
				}
			}
		}
		if bad == "" {
			r.ok(key, c.Pos(fn.Pos()), "writes no captured buffer")
		} else {
			r.bad(key, c.Pos(badPos), fmt.Sprintf("the native function closure %s writes elements of the captured variable %q, which is allocated once outside the closure: every invocation (also a re-entrant one, when the Go function calls back into script) shares that buffer, so one call's arguments overwrite another's", ssaFuncName(fn), bad))
		}
	}
	r.note("native_closures", n)
}

func writesThrough(addr ssa.Value) bool {
	for _, ref := range *addr.Referrers() {
		if st, ok := ref.(*ssa.Store); ok && st.Addr == addr {
			return true
		}
	}
	return false
}

// elementWrite: v (a slice or map value loaded from a captured variable) or a phi/slice of it is the target of an
// element store or map update; returns that instruction.
func elementWrite(v ssa.Value, depth int) ssa.Instruction {
	if depth > 4 || v.Referrers() == nil {
		return nil
	}
	for _, ref := range *v.Referrers() {
		switch x := ref.(type) {
		case *ssa.IndexAddr:
			if x.X == v && writesThrough(x) {
				return x
			}
		case *ssa.MapUpdate:
			if x.Map == v {
				return x
			}
		case *ssa.Phi:
			if p := elementWrite(x, depth+1); p != nil {
				return p
			}
		case *ssa.Slice:
			if x.X == v {
				if p := elementWrite(x, depth+1); p != nil {
					return p
				}
			}
		}
	}
	return nil
}

// ---- ORDER-declbinding -------------------------------------------------------------------------------------------------

func ruleOrderDeclBinding(c *Ctx, r *R) {
	var entry *ssa.Function
	for _, fn := range c.AllSrcFuncs("") {
		if fn.Parent() == nil && fn.Name() == "cmplCallNodeFunction" {
			entry = fn
		}
	}
	if entry == nil {
		r.undecided("unresolved:cmplCallNodeFunction", "-", "UNRESOLVED: function-entry evaluator cmplCallNodeFunction not found")
		return
	}
	first := func(name string) ssa.Instruction {
		cs := staticCallsIn(entry, name)
		var best ssa.Instruction
		for _, ci := range cs {
			if ci.Parent() != entry {
				continue
			}
			if best == nil || dominatesInstr(ci, best) {
				best = ci
			}
		}
		return best
	}
	argsObj := first("newArgumentsObject")
	fnDecl := first("cmplFunctionDeclaration")
	varDecl := first("cmplVariableDeclaration")
	if argsObj == nil || fnDecl == nil || varDecl == nil {
		r.undecided("unresolved:steps", c.Pos(entry.Pos()), fmt.Sprintf("UNRESOLVED: newArgumentsObject=%v cmplFunctionDeclaration=%v cmplVariableDeclaration=%v", argsObj != nil, fnDecl != nil, varDecl != nil))
		return
	}
	site := func(i ssa.Instruction) string { return c.Pos(instrPos(i)) }
	// parameters bound before function declarations: some setValue call on the lexical stash dominates fnDecl
	paramBound := false
	for _, b := range entry.Blocks {
		for _, ins := range b.Instrs {
			ci, ok := ins.(ssa.CallInstruction)
			if !ok {
				continue
			}
			cc := ci.Common()
			name := ""
			if cc.Method != nil {
				name = cc.Method.Name() // stasher interface
			} else if f := cc.StaticCallee(); f != nil {
				name = f.Name()
			}
			if name == "setValue" && !dominatesInstr(fnDecl, ci) && reachesInstr(ci, fnDecl) {
				paramBound = true
			}
		}
	}
	r.check(paramBound, "params-before-functions", site(fnDecl), "parameters are bound before function declarations", "§10.5 step 4 before step 5: no parameter binding (setValue) precedes cmplFunctionDeclaration, so a parameter overwrites a function declared with the same name")
	// arguments object before function declarations (the binding is unconditional in this implementation), or guarded
	guarded := false
	for _, ci := range staticCallsIn(entry, "hasBinding") {
		if ci.Parent() == entry && dominatesInstr(ci, argsObj) && dominatesInstr(fnDecl, ci) {
			guarded = true
		}
	}
	r.check(!reachesInstr(fnDecl, argsObj) || guarded, "arguments-before-functions", site(argsObj), "the arguments binding cannot overwrite a function declaration", "§10.5 steps 5-7: the arguments object is created and bound after function declarations were instantiated, without a hasBinding test: `function arguments(){}` inside a function is overwritten by the arguments object")
	r.check(!reachesInstr(varDecl, fnDecl) && !reachesInstr(varDecl, argsObj), "vars-last", site(varDecl), "var declarations are instantiated last", "§10.5 step 8: var declarations are instantiated before function declarations or the arguments object; a var then hides or resets them")
}

// reachesInstr: b can execute after a (same function): a's block reaches b's block, or same block and a first.
func reachesInstr(a, b ssa.Instruction) bool {
	if a.Block() == b.Block() {
		for _, ins := range a.Block().Instrs {
			if ins == a {
				return true
			}
			if ins == b {
				break
			}
		}
		// b before a in the same block: only through a cycle
	}
	seen := map[*ssa.BasicBlock]bool{}
	var dfs func(x *ssa.BasicBlock) bool
	dfs = func(x *ssa.BasicBlock) bool {
		for _, s := range x.Succs {
			if s == b.Block() {
				return true
			}
			if !seen[s] {
				seen[s] = true
				if dfs(s) {
					return true
				}
			}
		}
		return false
	}
	return dfs(a.Block())
}

// ---- OWN-file ----------------------------------------------------------------------------------------------------------

func init() {
	register(&Rule{ID: "OWN-file", Props: []string{"C20", "C17"}, Min: 4,
		Doc: "O: a file.File is immutable once published: inside package file its fields are stored to only while the File is being constructed (a File allocated in the same function) or by the reviewed builder WithSourceMap, which the parser calls before the File becomes part of a Program. A Script's File is shared by every runtime that runs or copies it, so a lazily filled cache in a File is a data race between runtimes",
		Run: ruleOwnFile})
	register(&Rule{ID: "EARLY-regexp", Props: []string{"C04"}, Min: 2,
		Doc: "P (ES5 §7.8.5, §16: an invalid regular expression literal is an early error): the parser function that builds *ast.RegExpLiteral transforms the pattern (TransformRegExp) and compiles the result (regexp.Compile) at parse time, and each of the two error results reaches p.error: the program is rejected before any statement runs",
		Run: ruleEarlyRegexp})
}

var ownFileReviewed = map[string]string{
	"file.(*File).WithSourceMap": "builder: called by the parser on the File it has just created, before the File is reachable from a Program",
}

func ruleOwnFile(c *Ctx, r *R) {
	fns := c.AllSrcFuncs("file")
	if len(fns) == 0 {
		r.undecided("unresolved:file", "-", "UNRESOLVED: package file not loaded")
		return
	}
	for _, fn := range fns {
		n := 0
		bad := ""
		var badPos token.Pos
		for _, b := range fn.Blocks {
			for _, ins := range b.Instrs {
				var addr ssa.Value
				switch x := ins.(type) {
				case *ssa.Store:
					addr = x.Addr
				case *ssa.MapUpdate:
					addr = x.Map
				default:
					continue
				}
				// walk to the base of the address
				base, viaFile := addr, false
				for d := 0; d < 6 && base != nil; d++ {
					switch y := base.(type) {
					case *ssa.FieldAddr:
						if nt, _ := fieldOfAddr(y); nt != nil && nt.Obj().Name() == "File" {
							viaFile = true
						}
						base = y.X
						continue
					case *ssa.IndexAddr:
						base = y.X
						continue
					case *ssa.UnOp:
						base = y.X
						continue
					}
					break
				}
				if !viaFile {
					continue
				}
				n++
				if _, fresh := base.(*ssa.Alloc); fresh {
					continue
				}
				bad, badPos = "field of a File that this function did not allocate", instrPos(ins)
			}
		}
		if n == 0 {
			continue
		}
		key := ssaFuncName(fn)
		switch {
		case bad == "":
			r.ok(key, c.Pos(fn.Pos()), fmt.Sprintf("%d store(s), all into a File allocated here", n))
		case ownFileReviewed[key] != "":
			r.ok("reviewed:"+key, c.Pos(badPos), ownFileReviewed[key])
		default:
			r.bad(key, c.Pos(badPos), fmt.Sprintf("%s stores into a %s: a Script's File is shared by every runtime running it (and by copies), so writing it after construction - a lazily built cache included - is a data race between runtimes", key, bad))
		}
	}
	// every method with a *File receiver that does not store is listed as read-only
	if ft := c.LookupType("file", "File"); ft != nil {
		for _, fn := range fns {
			if fn.Signature.Recv() != nil && typeIs(fn.Signature.Recv().Type(), ottoPath+"/file", "File") {
				r.ok("method:"+ssaFuncName(fn), c.Pos(fn.Pos()), "examined")
			}
		}
	}
}

func ruleEarlyRegexp(c *Ctx, r *R) {
	var fn *ssa.Function
	for _, f := range c.AllSrcFuncs("parser") {
		if f.Parent() == nil && f.Signature.Results().Len() == 1 && typeIs(f.Signature.Results().At(0).Type(), ottoPath+"/ast", "RegExpLiteral") {
			fn = f
		}
	}
	if fn == nil {
		r.undecided("unresolved:parseRegExpLiteral", "-", "UNRESOLVED: no parser function returns *ast.RegExpLiteral")
		return
	}
	for _, want := range []struct{ pkg, name, why string }{
		{ottoPath + "/parser", "TransformRegExp", "the pattern is translated at parse time"},
		{"regexp", "Compile", "the translated pattern is compiled at parse time"},
	} {
		var call *ssa.Call
		// in the literal's parser itself or in a helper that only it calls
		family := []*ssa.Function{fn}
		for _, f := range c.AllSrcFuncs("parser") {
			if f != fn && f.Parent() == nil && c.partOf(f, fn.Name(), 0) {
				family = append(family, f)
			}
		}
		for _, fam := range family {
			for _, b := range fam.Blocks {
				for _, ins := range b.Instrs {
					if cl, ok := ins.(*ssa.Call); ok {
						if callee := cl.Call.StaticCallee(); callee != nil && callee.Name() == want.name && callee.Pkg != nil && callee.Pkg.Pkg.Path() == want.pkg {
							call = cl
						}
					}
				}
			}
		}
		key := want.name
		if call == nil {
			r.bad(key, c.Pos(fn.Pos()), fmt.Sprintf("%s no longer calls %s.%s: an invalid regular expression literal is not rejected when the program is parsed, so the statements before it run and a try/catch around it can swallow what must be an early SyntaxError", ssaFuncName(fn), want.pkg, want.name))
			continue
		}
		// the error result is tested and the failing side reaches p.error
		reported := false
		for _, ref := range *call.Referrers() {
			ex, ok := ref.(*ssa.Extract)
			if !ok || ex.Index != 1 {
				continue
			}
			for _, r2 := range *ex.Referrers() {
				cmp, ok := r2.(*ssa.BinOp)
				if !ok {
					continue
				}
				for _, r3 := range *cmp.Referrers() {
					iff, ok := r3.(*ssa.If)
					if !ok {
						continue
					}
					side := 0
					if cmp.Op == token.EQL {
						side = 1
					}
					// some call of (*parser).error is reachable on the failing side before the join
					seen := map[*ssa.BasicBlock]bool{}
					var dfs func(b *ssa.BasicBlock, depth int)
					dfs = func(b *ssa.BasicBlock, depth int) {
						if seen[b] || depth > 6 {
							return
						}
						seen[b] = true
						for _, ins := range b.Instrs {
							if cl, ok := ins.(*ssa.Call); ok {
								if callee := cl.Call.StaticCallee(); callee != nil && callee.Name() == "error" && callee.Signature.Recv() != nil {
									reported = true
								}
							}
						}
						if len(b.Preds) > 1 && b != iff.Block().Succs[side] {
							return // join point: past the failing side
						}
						for _, s := range b.Succs {
							dfs(s, depth+1)
						}
					}
					dfs(iff.Block().Succs[side], 0)
				}
			}
		}
		r.check(reported, key, c.Pos(instrPos(call)), want.why+" and its error is reported", fmt.Sprintf("the error returned by %s is not reported through p.error on the failing side: the invalid literal parses", want.name))
	}
}

// ---- SIB-length-put ----------------------------------------------------------------------------------------------------

func init() {
	register(&Rule{ID: "SIB-length-put", Props: []string{"C08"}, Min: 5,
		Doc: "P (sibling agreement, ES5 §15.4.4.6 steps 4.a/5.d, §15.4.4.7 step 6, §15.4.4.9 steps 4.a/9, §15.4.4.12 step 16, §15.4.4.13 step 10): the five length-changing Array.prototype methods (pop push shift splice unshift) end every path with [[Put]](\"length\", n, true) on the receiver - also the paths on which nothing moves (empty receiver, no items). The put is what normalises an array-like's length, and what throws for a frozen / non-writable length",
		Run: ruleSibLengthPut})
}

func ruleSibLengthPut(c *Ctx, r *R) {
	arr := c.Shape().boundSSA(c, "Array.prototype")
	for _, name := range []string{"pop", "push", "shift", "splice", "unshift"} {
		fn := arr[name]
		if fn == nil {
			r.undecided("unresolved:"+name, "-", "UNRESOLVED: Array.prototype."+name+" is not bound")
			continue
		}
		isLengthPut := func(ins ssa.Instruction) bool {
			call, ok := ins.(*ssa.Call)
			if !ok {
				return false
			}
			callee := call.Call.StaticCallee()
			if callee == nil || callee.Name() != "put" || callee.Signature.Recv() == nil || !typeIs(callee.Signature.Recv().Type(), ottoPath, "object") || len(call.Call.Args) != 4 {
				return false
			}
			k, ok := call.Call.Args[1].(*ssa.Const)
			if !ok {
				return false
			}
			if s, isStr := constStringVal(k); !isStr || s != "length" {
				return false
			}
			thr, ok := call.Call.Args[3].(*ssa.Const)
			return ok && thr.Value != nil && thr.Value.ExactString() == "true"
		}
		var bad ssa.Instruction
		seen := map[*ssa.BasicBlock]bool{}
		var dfs func(b *ssa.BasicBlock)
		dfs = func(b *ssa.BasicBlock) {
			if seen[b] {
				return
			}
			seen[b] = true
			for _, ins := range b.Instrs {
				if isLengthPut(ins) {
					return
				}
				if _, ok := ins.(*ssa.Return); ok && bad == nil {
					bad = ins
				}
			}
			for _, s := range b.Succs {
				dfs(s)
			}
		}
		dfs(fn.Blocks[0])
		key := "Array.prototype." + name
		if bad == nil {
			r.ok(key, c.Pos(fn.Pos()), "every return is preceded by put(\"length\", n, true)")
		} else {
			r.bad(key, c.Pos(instrPos(bad)), fmt.Sprintf("Array.prototype.%s can return without [[Put]](\"length\", n, true) on its receiver: on that path an array-like keeps a missing or un-normalised length and a frozen array is not rejected with a TypeError", name))
		}
	}
}

// ---- SPEC-canput-order, SIB-integrity ----------------------------------------------------------------------------------

func init() {
	register(&Rule{ID: "SPEC-canput-order", Props: []string{"C07"}, Min: 2,
		Doc: "P (ES5 §8.12.4 [[CanPut]] steps 3-8): the [[Extensible]] flag decides only where the algorithm consults it - when the prototype is null (step 4), when no property is inherited (step 6) and when the inherited property is a data property (step 8.a). In the [[CanPut]] implementation every read of object.extensible is therefore dominated either by the prototype-is-nil outcome or by the inherited lookup (prototype.getProperty): consulting it earlier makes a non-extensible object refuse a put that an inherited setter must receive (step 7)",
		Run: ruleSpecCanPutOrder})
	register(&Rule{ID: "SIB-integrity", Props: []string{"C07"}, Min: 14,
		Doc: "T (sibling agreement, ES5 §15.2.3.8-13): the six integrity functions touch exactly the attributes their algorithm names. freeze: clears [[Writable]] and [[Configurable]], redefines, clears [[Extensible]]; seal: clears [[Configurable]] only; preventExtensions: clears [[Extensible]] only; isFrozen reads writable, configurable and extensible; isSealed reads configurable and extensible but not writable; isExtensible reads extensible. In freeze, clearing [[Writable]] is not conditional on the property being configurable (and vice versa): §15.2.3.9 steps 2.a-2.c are independent",
		Run: ruleSibIntegrity})
}

func ruleSpecCanPutOrder(c *Ctx, r *R) {
	impls := slotImplsOf(c)["canPut"]
	if len(impls) == 0 {
		r.undecided("unresolved:canPut", "-", "UNRESOLVED: no canPut slot implementation")
		return
	}
	// functions reachable by static calls (depth 2) from the canPut implementations that read object.extensible
	cands := map[*ssa.Function]bool{}
	var walk func(fn *ssa.Function, d int)
	walk = func(fn *ssa.Function, d int) {
		if fn == nil || fn.Blocks == nil || d > 2 {
			return
		}
		for _, b := range fn.Blocks {
			for _, ins := range b.Instrs {
				if ld, ok := ins.(*ssa.UnOp); ok && ld.Op == token.MUL && isFieldAddr(ld.X, "object", "extensible") {
					cands[fn] = true
				}
				if call, ok := ins.(*ssa.Call); ok {
					if callee := call.Call.StaticCallee(); callee != nil && callee.Pkg != nil && callee.Pkg.Pkg.Path() == ottoPath && callee.Signature.Recv() == nil {
						walk(callee, d+1)
					}
				}
			}
		}
	}
	for _, fn := range impls {
		walk(fn, 0)
	}
	if len(cands) == 0 {
		r.undecided("unresolved:extensible", "-", "UNRESOLVED: the [[CanPut]] implementation never reads object.extensible")
		return
	}
	for fn := range cands {
		// anchors: the inherited lookup, and the prototype == nil test
		var lookups []ssa.Instruction
		type edge struct {
			from *ssa.BasicBlock
			to   int
		}
		nilEdges := map[edge]bool{} // CFG edges taken only when prototype == nil
		for _, b := range fn.Blocks {
			for _, ins := range b.Instrs {
				if call, ok := ins.(*ssa.Call); ok {
					if callee := call.Call.StaticCallee(); callee != nil && callee.Name() == "getProperty" && len(call.Call.Args) > 0 {
						if a := loadAddr(call.Call.Args[0]); a != nil && isFieldAddr(a, "object", "prototype") {
							lookups = append(lookups, call)
						}
					}
				}
			}
			if iff, ok := b.Instrs[len(b.Instrs)-1].(*ssa.If); ok {
				if cmp, ok := iff.Cond.(*ssa.BinOp); ok && (cmp.Op == token.EQL || cmp.Op == token.NEQ) {
					var other ssa.Value
					if isNilConst(cmp.Y) {
						other = cmp.X
					} else if isNilConst(cmp.X) {
						other = cmp.Y
					}
					if other != nil {
						if a := loadAddr(other); a != nil && isFieldAddr(a, "object", "prototype") {
							side := 0
							if cmp.Op == token.NEQ {
								side = 1
							}
							nilEdges[edge{b, side}] = true
						}
					}
				}
			}
		}
		ordinary := c.partOf(fn, "objectCanPutDetails", 0) || c.partOf(fn, "objectCanPut", 0) || c.partOf(fn, "objectPut", 0)
		if len(lookups) == 0 {
			if ordinary && c.eClean("SPEC-put-delete") {
				r.ok(ssaFuncName(fn)+":lookup", c.Pos(fn.Pos()), subsumedBy("SPEC-put-delete"))
				continue
			}
			r.undecided("unresolved:"+ssaFuncName(fn)+":lookup", c.Pos(fn.Pos()), "UNRESOLVED: no inherited lookup obj.prototype.getProperty(...) in the [[CanPut]] implementation")
			continue
		}
		isLookup := map[ssa.Instruction]bool{}
		for _, l := range lookups {
			isLookup[l] = true
		}
		// instructions reachable from entry on a path that neither performs the inherited lookup nor takes a
		// prototype == nil edge
		early := map[ssa.Instruction]bool{}
		seen := map[*ssa.BasicBlock]bool{}
		var dfs func(b *ssa.BasicBlock)
		dfs = func(b *ssa.BasicBlock) {
			if seen[b] {
				return
			}
			seen[b] = true
			for _, ins := range b.Instrs {
				if isLookup[ins] {
					return
				}
				early[ins] = true
			}
			for i, s := range b.Succs {
				if !nilEdges[edge{b, i}] {
					dfs(s)
				}
			}
		}
		dfs(fn.Blocks[0])
		for _, b := range fn.Blocks {
			for _, ins := range b.Instrs {
				ld, ok := ins.(*ssa.UnOp)
				if !ok || ld.Op != token.MUL || !isFieldAddr(ld.X, "object", "extensible") {
					continue
				}
				key := fmt.Sprintf("%s:extensible", ssaFuncName(fn))
				if early[ld] && ordinary && c.eClean("SPEC-put-delete") {
					r.ok(key, c.Pos(instrPos(ld)), subsumedBy("SPEC-put-delete"))
					continue
				}
				r.check(!early[ld], key, c.Pos(instrPos(ld)), "read only after the inherited lookup or under prototype == nil", "§8.12.4: object.extensible can be read on a path that has neither looked up the inherited property nor established prototype == nil: a non-extensible (sealed, frozen) object then answers from the flag although an inherited accessor's setter must decide (step 7)")
			}
		}
	}
}

func ruleSibIntegrity(c *Ctx, r *R) {
	// an obligation this rule cannot see in the shape of the code is decided by SPEC-integrity, which evaluates the six
	// built-ins on their whole domain
	check := func(cond bool, key, site, okDetail, badDetail string) {
		if !cond && c.eClean("SPEC-integrity") {
			r.ok(key, site, subsumedBy("SPEC-integrity"))
			return
		}
		r.check(cond, key, site, okDetail, badDetail)
	}
	bad := func(key, site, detail string) {
		if c.eClean("SPEC-integrity") {
			r.ok(key, site, subsumedBy("SPEC-integrity"))
			return
		}
		r.bad(key, site, detail)
	}
	fns := c.Shape().boundSSA(c, "Object")
	type facts struct {
		calls       map[string][]*ssa.Call
		extStore    bool
		extStoreVal string
		extLoad     bool
	}
	collect := func(fn *ssa.Function) *facts {
		f := &facts{calls: map[string][]*ssa.Call{}}
		for _, g := range withAnon(fn) {
			for _, b := range g.Blocks {
				for _, ins := range b.Instrs {
					switch x := ins.(type) {
					case *ssa.Call:
						if callee := x.Call.StaticCallee(); callee != nil && callee.Signature.Recv() != nil {
							if typeIs(callee.Signature.Recv().Type(), ottoPath, "property") || callee.Name() == "defineOwnProperty" {
								f.calls[callee.Name()] = append(f.calls[callee.Name()], x)
							}
						}
					case *ssa.Store:
						if isFieldAddr(x.Addr, "object", "extensible") {
							f.extStore = true
							if k, ok := x.Val.(*ssa.Const); ok && k.Value != nil {
								f.extStoreVal = k.Value.ExactString()
							}
						}
					case *ssa.UnOp:
						if x.Op == token.MUL && isFieldAddr(x.X, "object", "extensible") {
							f.extLoad = true
						}
					}
				}
			}
		}
		return f
	}
	type spec struct {
		must, mustNot []string
		clearsExt     bool
		readsExt      bool
		clause        string
	}
	table := map[string]spec{
		"freeze":            {[]string{"writeOff", "configureOff", "defineOwnProperty"}, nil, true, false, "§15.2.3.9"},
		"seal":              {[]string{"configureOff", "defineOwnProperty"}, []string{"writeOff"}, true, false, "§15.2.3.8"},
		"preventExtensions": {nil, []string{"writeOff", "configureOff", "defineOwnProperty"}, true, false, "§15.2.3.10"},
		"isFrozen":          {[]string{"writable", "configurable"}, []string{"writeOff", "configureOff", "defineOwnProperty"}, false, true, "§15.2.3.12"},
		"isSealed":          {[]string{"configurable"}, []string{"writable", "writeOff", "configureOff", "defineOwnProperty"}, false, true, "§15.2.3.11"},
		"isExtensible":      {nil, []string{"writeOff", "configureOff", "defineOwnProperty"}, false, true, "§15.2.3.13"},
	}
	for _, name := range sortedKeys(table) {
		sp := table[name]
		fn := fns[name]
		if fn == nil {
			r.undecided("unresolved:Object."+name, "-", "UNRESOLVED: Object."+name+" is not bound")
			continue
		}
		f := collect(fn)
		site := c.Pos(fn.Pos())
		for _, m := range sp.must {
			check(len(f.calls[m]) > 0, "Object."+name+":"+m, site, "uses "+m, fmt.Sprintf("%s: Object.%s never calls %s", sp.clause, name, m))
		}
		for _, m := range sp.mustNot {
			if len(f.calls[m]) > 0 {
				bad("Object."+name+":not:"+m, c.Pos(instrPos(f.calls[m][0])), fmt.Sprintf("%s: Object.%s calls %s, which its algorithm does not touch", sp.clause, name, m))
			}
		}
		if sp.clearsExt {
			check(f.extStore && f.extStoreVal == "false", "Object."+name+":extensible=false", site, "clears [[Extensible]]", fmt.Sprintf("%s: Object.%s does not set object.extensible to false", sp.clause, name))
		} else {
			check(!f.extStore, "Object."+name+":no-extensible-store", site, "does not write [[Extensible]]", fmt.Sprintf("%s: Object.%s writes object.extensible; a query must not", sp.clause, name))
		}
		if sp.readsExt {
			check(f.extLoad, "Object."+name+":reads-extensible", site, "reads [[Extensible]]", fmt.Sprintf("%s: Object.%s never reads object.extensible", sp.clause, name))
		}
	}
	// freeze: the two attribute clearings are independent
	if fn := fns["freeze"]; fn != nil {
		f := collect(fn)
		dep := func(effect, test string) (bool, ssa.Instruction) {
			for _, e := range f.calls[effect] {
				for _, t := range f.calls[test] {
					if t.Parent() != e.Parent() {
						continue
					}
					for _, ref := range *t.Referrers() {
						iff, ok := ref.(*ssa.If)
						if !ok {
							continue
						}
						for _, s := range iff.Block().Succs {
							if len(s.Preds) == 1 && s.Dominates(e.Block()) {
								return true, e
							}
						}
					}
				}
			}
			return false, nil
		}
		d1, at1 := dep("writeOff", "configurable")
		d2, at2 := dep("configureOff", "writable")
		d3, at3 := dep("configureOff", "isDataDescriptor")
		site := c.Pos(fn.Pos())
		if d1 {
			site = c.Pos(instrPos(at1))
		}
		check(!d1, "Object.freeze:writeOff-independent", site, "clearing [[Writable]] does not depend on configurable()", "§15.2.3.9 step 2.a: Object.freeze clears [[Writable]] only under a test of configurable(): a property that is already non-configurable but still writable (after Object.seal, or defineProperty with configurable:false) stays writable in a 'frozen' object")
		site = c.Pos(fn.Pos())
		if d2 {
			site = c.Pos(instrPos(at2))
		} else if d3 {
			site = c.Pos(instrPos(at3))
		}
		check(!d2 && !d3, "Object.freeze:configureOff-independent", site, "clearing [[Configurable]] does not depend on the property being a writable data property", "§15.2.3.9 step 2.b: Object.freeze clears [[Configurable]] only for writable / data properties: accessors and read-only properties stay configurable")
	}
}

// ---- CONV-lossy --------------------------------------------------------------------------------------------------------

func init() {
	register(&Rule{ID: "CONV-lossy", Props: []string{"C15", "C16"}, Min: 5,
		Doc: "G: census of integer conversions in package otto that can wrap: a conversion from an unsigned 64-bit-wide type (uint64, uint, uintptr) to a signed type (values >= 2^63 become negative). Each must be dominated by a test that bounds the operand (a comparison of that operand with a constant or with math.MaxInt64), or be in the reviewed table. A Go uint64 handed to a script keeps its value only if no such conversion stands between the host value and the number the script sees",
		Run: ruleConvLossy})
}

var convLossyReviewed = map[string]string{
	"sortCompare:uint->int64":   "an index below the receiver's length, which was obtained with ToUint32 (< 2^32)",
	"arraySortSwap:uint->int64": "an index below the receiver's length, which was obtained with ToUint32 (< 2^32)",
}

func ruleConvLossy(c *Ctx, r *R) {
	n := 0
	for _, fn := range c.AllSrcFuncs("") {
		ord := map[string]int{}
		for _, b := range fn.Blocks {
			for _, ins := range b.Instrs {
				cv, ok := ins.(*ssa.Convert)
				if !ok {
					continue
				}
				from, ok1 := cv.X.Type().Underlying().(*types.Basic)
				to, ok2 := cv.Type().Underlying().(*types.Basic)
				if !ok1 || !ok2 {
					continue
				}
				wideUnsigned := from.Kind() == types.Uint64 || from.Kind() == types.Uint || from.Kind() == types.Uintptr
				signed := to.Info()&types.IsInteger != 0 && to.Info()&types.IsUnsigned == 0
				if !wideUnsigned || !signed {
					continue
				}
				if _, isConst := cv.X.(*ssa.Const); isConst {
					continue
				}
				n++
				base := fmt.Sprintf("%s:%s->%s", ssaFuncName(fn), from.Name(), to.Name())
				ord[base]++
				key := fmt.Sprintf("%s#%d", base, ord[base])
				site := c.Pos(instrPos(cv))
				// bounded: the operand (or the value it was loaded/converted from) is compared with something in a dominating block,
				// or it comes from a builtin/stdlib call whose result is small (len, cap, NumField ...)
				if boundedOperand(fn, cv) {
					r.ok(key, site, "operand is bounded by a dominating comparison or is a length/count")
					continue
				}
				if why, ok := reviewedLookup(convLossyReviewed, base); ok {
					r.ok("reviewed:"+key, site, why)
					continue
				}
				r.bad(key, site, fmt.Sprintf("%s converts a %s to %s without a dominating range test: values >= 2^63 wrap to negative numbers, so a host uint64 reaches the script (or comes back) as a different value", ssaFuncName(fn), from.Name(), to.Name()))
			}
		}
	}
	r.note("conversions_examined", n)
	r.ok("census", "-", fmt.Sprintf("%d unsigned-64 to signed conversions examined", n))
}

func boundedOperand(fn *ssa.Function, cv *ssa.Convert) bool {
	x := cv.X
	// lengths and counts
	if call, ok := x.(*ssa.Call); ok {
		if bi, ok := call.Call.Value.(*ssa.Builtin); ok && (bi.Name() == "len" || bi.Name() == "cap") {
			return true
		}
	}
	for _, b := range fn.Blocks {
		iff, ok := b.Instrs[len(b.Instrs)-1].(*ssa.If)
		if !ok || !b.Dominates(cv.Block()) || b == cv.Block() {
			continue
		}
		for _, cmp := range comparisonsOf(iff.Cond, 0) {
			if cmp.Op == token.EQL || cmp.Op == token.NEQ {
				continue
			}
			for _, side := range []ssa.Value{cmp.X, cmp.Y} {
				if sameSSA(side, x, 0) {
					return true
				}
			}
		}
	}
	return false
}

// ---- SHAPE-payload -----------------------------------------------------------------------------------------------------

func init() {
	register(&Rule{ID: "SHAPE-payload", Props: []string{"C14", "C02"}, Min: 5,
		Doc: "T (sibling agreement, ES5 §15.5.4, §15.6.4, §15.7.4, §15.9.5, §15.10.6: 'the X prototype object is itself an X object'): the Go type of the internal value stored in the literal of Boolean.prototype, Number.prototype, String.prototype, Date.prototype and RegExp.prototype is one of the types the constructor `new X` stores into object.value (found by following static calls from the bound construct function). Every reader of that class's payload (valueOf, toString, JSON.stringify, the date and regexp accessors) is written against the constructor's type: a prototype holding anything else answers undefined or fails a type assertion in the host when the prototype itself is the receiver",
		Run: ruleShapePayload})
}

func ruleShapePayload(c *Ctx, r *R) {
	s := c.Shape()
	ifaces := map[string]types.Type{}
	var storesOf func(fn *ssa.Function, depth int, seen map[*ssa.Function]bool, out map[string]bool)
	storesOf = func(fn *ssa.Function, depth int, seen map[*ssa.Function]bool, out map[string]bool) {
		if fn == nil || fn.Blocks == nil || seen[fn] || depth > 5 {
			return
		}
		seen[fn] = true
		for _, b := range fn.Blocks {
			for _, ins := range b.Instrs {
				switch x := ins.(type) {
				case *ssa.Store:
					if isFieldAddr(x.Addr, "object", "value") {
						if mi, ok := x.Val.(*ssa.MakeInterface); ok {
							out[typeStr(mi.X.Type())] = true
						}
						if ci, ok := x.Val.(*ssa.ChangeInterface); ok {
							// a value already held in a narrower interface (stringObjecter): any implementation qualifies
							out["implements "+typeStr(ci.X.Type())] = true
							ifaces[typeStr(ci.X.Type())] = ci.X.Type()
						}
					}
				case *ssa.Call:
					if callee := x.Call.StaticCallee(); callee != nil && callee.Pkg != nil && callee.Pkg.Pkg.Path() == ottoPath {
						storesOf(callee, depth+1, seen, out)
					}
				}
			}
		}
	}
	for _, cls := range []string{"Boolean", "Number", "String", "Date", "RegExp"} {
		ctor := s.ByPath[cls]
		proto := s.ByPath[cls+".prototype"]
		if ctor == nil || ctor.Native == nil || proto == nil {
			r.undecided("unresolved:"+cls, "-", "UNRESOLVED: "+cls+" / "+cls+".prototype not found in the built-in table")
			continue
		}
		sf, ok := ctor.Native.Construct.(SFunc)
		if !ok {
			r.undecided("unresolved:new "+cls, "-", "UNRESOLVED: "+cls+" has no construct function")
			continue
		}
		want := map[string]bool{}
		storesOf(c.SSAFunc(sf.Fn), 0, map[*ssa.Function]bool{}, want)
		if len(want) == 0 {
			r.undecided("unresolved:payload of new "+cls, "-", "UNRESOLVED: no store into object.value is reachable from the construct function of "+cls)
			continue
		}
		e := proto.Fields["value"]
		key := cls + ".prototype"
		if e == nil {
			r.bad(key, c.Pos(proto.Pos), fmt.Sprintf("%s.prototype has no internal value; `new %s` stores %v", cls, cls, sortedKeys(want)))
			continue
		}
		got := "?"
		okType := false
		if info := c.InfoFor(e); info != nil {
			if t := info.TypeOf(e); t != nil {
				got = typeStr(t)
				okType = want[got]
				for name, it := range ifaces {
					if want["implements "+name] {
						if iface, isI := it.Underlying().(*types.Interface); isI && types.Implements(t, iface) {
							okType = true
						}
					}
				}
			}
		}
		if cls == "Date" {
			// 15.9.5: the Date prototype object is a Date whose [[PrimitiveValue]] is NaN: its payload is the invalid date
			var lit *ast.CompositeLit
			switch x := e.(type) {
			case *ast.CompositeLit:
				lit = x
			case *ast.Ident:
				if info := c.InfoFor(x); info != nil {
					if obj := info.Uses[x]; obj != nil {
						lit, _ = c.VarInit(obj).(*ast.CompositeLit)
					}
				}
			}
			if lit == nil {
				r.undecided("Date.prototype:time-value", c.Pos(e.Pos()), "UNRESOLVED: the payload of Date.prototype is not a composite literal (or a variable initialised with one)")
			} else {
				nan := false
				for _, el := range lit.Elts {
					if kv, ok := el.(*ast.KeyValueExpr); ok {
						if k, ok := kv.Key.(*ast.Ident); ok && k.Name == "isNaN" {
							if v, ok := kv.Value.(*ast.Ident); ok && v.Name == "true" {
								nan = true
							}
						}
					}
				}
				r.check(nan, "Date.prototype:time-value", c.Pos(lit.Pos()), "the payload of Date.prototype is the invalid date (isNaN: true)",
					"Date.prototype's payload is a valid date (isNaN is not true): `Date.prototype.getTime()` is 0 and `Date.prototype.toJSON()` is \"1970-01-01T00:00:00.000Z\"; ES5 15.9.5 makes its time value NaN")
			}
		}
		r.check(okType, key, c.Pos(e.Pos()), "internal value of type "+got+", as stored by new "+cls, fmt.Sprintf("%s.prototype holds an internal value of Go type %s, but `new %s` stores %v: the readers of the class's payload (valueOf, toString, JSON.stringify ...) are written against the constructor's type, so with the prototype itself as receiver they answer undefined or fail a type assertion in the host", cls, got, cls, sortedKeys(want)))
	}
}

// ---- SIB-reflect-range -------------------------------------------------------------------------------------------------

func init() {
	register(&Rule{ID: "SIB-reflect-range", Props: []string{"C16", "C15"}, Min: 10,
		Doc: "T (sibling agreement over the arms of Value.toReflectValue): every arm that narrows a script number to a Go integer kind converts a value that a dominating test has bounded on both sides (operand < lower ... operand > upper, each leading to the RangeError return). An arm with a one-sided or missing test turns an out-of-range script number into a wrapped or saturated Go integer instead of an error",
		Run: ruleSibReflectRange})
}

func ruleSibReflectRange(c *Ctx, r *R) {
	var fn *ssa.Function
	for _, f := range c.AllSrcFuncs("") {
		if f.Parent() == nil && f.Name() == "toReflectValue" && f.Signature.Recv() != nil && typeIs(f.Signature.Recv().Type(), ottoPath, "Value") {
			fn = f
		}
	}
	if fn == nil {
		r.undecided("unresolved:toReflectValue", "-", "UNRESOLVED: Value.toReflectValue not found")
		return
	}
	ord := map[string]int{}
	for _, b := range fn.Blocks {
		for _, ins := range b.Instrs {
			cv, ok := ins.(*ssa.Convert)
			if !ok {
				continue
			}
			to, ok := cv.Type().Underlying().(*types.Basic)
			if !ok || to.Info()&types.IsInteger == 0 {
				continue
			}
			from, ok := cv.X.Type().Underlying().(*types.Basic)
			if !ok || (from.Kind() != types.Int64 && from.Kind() != types.Float64) {
				continue
			}
			// only conversions whose result is handed to reflect.ValueOf (the value given to the host)
			toHost := false
			for _, ref := range *cv.Referrers() {
				if _, ok := ref.(*ssa.MakeInterface); ok {
					toHost = true
				}
			}
			if !toHost {
				continue
			}
			ord[to.Name()]++
			key := fmt.Sprintf("%s#%d", to.Name(), ord[to.Name()])
			lower, upper := false, false
			for _, blk := range fn.Blocks {
				iff, ok := blk.Instrs[len(blk.Instrs)-1].(*ssa.If)
				if !ok || !blk.Dominates(cv.Block()) {
					continue
				}
				for _, cmp := range comparisonsOf(iff.Cond, 0) {
					x, y := cmp.X, cmp.Y
					op := cmp.Op
					if sameSSA(y, cv.X, 0) { // constant OP operand: mirror
						x, y = y, x
						switch op {
						case token.LSS:
							op = token.GTR
						case token.GTR:
							op = token.LSS
						case token.LEQ:
							op = token.GEQ
						case token.GEQ:
							op = token.LEQ
						}
					}
					if !sameSSA(x, cv.X, 0) {
						continue
					}
					switch op {
					case token.LSS, token.LEQ:
						lower = true
					case token.GTR, token.GEQ:
						upper = true
					}
				}
			}
			r.check(lower && upper, key, c.Pos(instrPos(cv)), "operand bounded below and above before the conversion", fmt.Sprintf("the %s arm of Value.toReflectValue converts a %s to %s with%s%s: a script number outside the range of the Go type reaches the host function wrapped or saturated instead of raising a RangeError", to.Name(), from.Name(), to.Name(), map[bool]string{true: "", false: " no lower-bound test"}[lower], map[bool]string{true: "", false: " no upper-bound test"}[upper]))
		}
	}
}

// ---- SPEC-identifier-env, IDX-base, LADDER-suffix ---------------------------------------------------------------------

func init() {
	register(&Rule{ID: "SPEC-identifier-env", Props: []string{"C01"}, Min: 3,
		Doc: "S (ES5 §10.3.1, §11.1.2, §12.2): identifier resolution starts at the running execution context's LexicalEnvironment. Every call of getIdentifierReference from the evaluator passes scope.lexical (the recursive step passes the outer environment of the one it was given); resolving from the VariableEnvironment instead skips the object environment of an enclosing `with` and the declarative environment of a `catch`, so `with (o) { var x = 1 }` and `catch (x) { var x = 1 }` assign the wrong binding",
		Run: ruleSpecIdentifierEnv})
	register(&Rule{ID: "IDX-base", Props: []string{"C04", "C03"}, Min: 4,
		Doc: "P (unit rule): in package parser a file.Idx is 'base + offset' and a byte offset is 'idx - base'. Every conversion between file.Idx and int carries the parser's base in the same arithmetic (int(idx) - p.base, file.Idx(p.base + offset)) or converts a constant / the base itself. A conversion without it is right only for the first file of a FileSet (base 1) and scans from the wrong place - or panics - in every later one",
		Run: ruleIdxBase})
	register(&Rule{ID: "LADDER-suffix", Props: []string{"C03"}, Min: 2,
		Doc: "S (ES5 §11.2: MemberExpression : MemberExpression . IdentifierName | MemberExpression [ Expression ] | new MemberExpression Arguments): in the two left-hand-side parsing functions the result of parsing a `new` expression and the result of parsing a primary expression both flow into the member-suffix loop; neither is returned directly. `new new A().B()` parses as `new ((new A()).B)()` only if `.B` is attached to `new A()` before the outer `new` takes its arguments",
		Run: ruleLadderSuffix})
}

func ruleSpecIdentifierEnv(c *Ctx, r *R) {
	target := c.SSAFunc(c.LookupFunc("", "getIdentifierReference"))
	if target == nil {
		r.undecided("unresolved:getIdentifierReference", "-", "UNRESOLVED: getIdentifierReference not found")
		return
	}
	n := 0
	for _, fn := range c.AllSrcFuncs("") {
		ord := 0
		for _, b := range fn.Blocks {
			for _, ins := range b.Instrs {
				call, ok := ins.(*ssa.Call)
				if !ok || call.Call.StaticCallee() != target || len(call.Call.Args) < 2 {
					continue
				}
				n++
				ord++
				key := fmt.Sprintf("%s#%d", ssaFuncName(fn), ord)
				site := c.Pos(instrPos(call))
				env := call.Call.Args[1]
				if fn == target {
					// the recursive step: outer() of the environment it was given
					okRec := false
					if ci, isCall := env.(*ssa.Call); isCall && ci.Call.IsInvoke() && ci.Call.Method.Name() == "outer" {
						okRec = true
					}
					r.check(okRec, key, site, "recursion continues with the outer environment", "the recursive step of getIdentifierReference must continue with stash.outer()")
					continue
				}
				field := ""
				if a := loadAddr(env); a != nil {
					if nt, f := fieldOfAddr(a); nt != nil && nt.Obj().Name() == "scope" {
						field = f.Name()
					}
				}
				r.check(field == "lexical", key, site, "resolution starts at scope.lexical", fmt.Sprintf("§10.3.1: identifier resolution must start at the LexicalEnvironment (scope.lexical); this call starts at %q: inside `with` or `catch` the reference binds in the wrong environment", field))
			}
		}
	}
	if n < 3 {
		r.undecided("sites", "-", fmt.Sprintf("only %d call sites of getIdentifierReference found (3 + the recursive one on the pinned tree)", n))
	}
}

func ruleIdxBase(c *Ctx, r *R) {
	isIdx := func(t types.Type) bool {
		n, ok := t.(*types.Named)
		return ok && n.Obj().Name() == "Idx" && n.Obj().Pkg() != nil && n.Obj().Pkg().Path() == ottoPath+"/file"
	}
	isBaseLoad := func(v ssa.Value) bool {
		a := loadAddr(v)
		if a == nil {
			return false
		}
		_, f := fieldOfAddr(a)
		return f != nil && f.Name() == "base"
	}
	for _, fn := range c.AllSrcFuncs("parser") {
		ord := 0
		for _, b := range fn.Blocks {
			for _, ins := range b.Instrs {
				// file.Idx has underlying type int: go/ssa represents the conversion as ChangeType
				cv, ok := ins.(*ssa.ChangeType)
				if !ok {
					continue
				}
				toIdx, fromIdx := isIdx(cv.Type()), isIdx(cv.X.Type())
				if toIdx == fromIdx {
					continue
				}
				if b, isBasic := cv.Type().Underlying().(*types.Basic); !isBasic || b.Info()&types.IsInteger == 0 {
					continue
				}
				if _, isConst := cv.X.(*ssa.Const); isConst {
					continue
				}
				ord++
				key := fmt.Sprintf("%s#%d", ssaFuncName(fn), ord)
				site := c.Pos(instrPos(cv))
				okBase := false
				if toIdx {
					// file.Idx(base + offset) or file.Idx(base)
					if isBaseLoad(cv.X) {
						okBase = true
					}
					if bo, ok := cv.X.(*ssa.BinOp); ok && bo.Op == token.ADD && (isBaseLoad(bo.X) || isBaseLoad(bo.Y)) {
						okBase = true
					}
				} else {
					// int(idx) - base
					for _, ref := range *cv.Referrers() {
						if bo, ok := ref.(*ssa.BinOp); ok && bo.Op == token.SUB && bo.X == ssa.Value(cv) && isBaseLoad(bo.Y) {
							okBase = true
						}
					}
				}
				r.check(okBase, key, site, "the conversion carries the file base", fmt.Sprintf("%s converts between file.Idx and int without the parser's base in the same expression: positions and offsets then agree only for base 1 (a nil FileSet or the first file of a set); in any later file the scanner starts from the wrong byte", ssaFuncName(fn)))
			}
		}
	}
}

func ruleLadderSuffix(c *Ctx, r *R) {
	n := 0
	for _, fn := range c.AllSrcFuncs("parser") {
		if fn.Parent() != nil {
			continue
		}
		// the left-hand-side functions: call both parseNewExpression and parsePrimaryExpression
		var newCall, primCall *ssa.Call
		for _, b := range fn.Blocks {
			for _, ins := range b.Instrs {
				if call, ok := ins.(*ssa.Call); ok {
					if callee := call.Call.StaticCallee(); callee != nil {
						switch callee.Name() {
						case "parseNewExpression":
							newCall = call
						case "parsePrimaryExpression":
							primCall = call
						}
					}
				}
			}
		}
		if newCall == nil || primCall == nil {
			continue
		}
		n++
		// the suffix loop: a block that calls parseDotMember / parseBracketMember
		var loopCalls []*ssa.Call
		for _, b := range fn.Blocks {
			for _, ins := range b.Instrs {
				if call, ok := ins.(*ssa.Call); ok {
					if callee := call.Call.StaticCallee(); callee != nil && (callee.Name() == "parseDotMember" || callee.Name() == "parseBracketMember") {
						loopCalls = append(loopCalls, call)
					}
				}
			}
		}
		key := ssaFuncName(fn)
		if len(loopCalls) == 0 {
			r.bad(key+":loop", c.Pos(fn.Pos()), "the left-hand-side function no longer has a member-suffix loop (parseDotMember / parseBracketMember)")
			continue
		}
		for _, src := range []struct {
			what string
			call *ssa.Call
		}{{"new expression", newCall}, {"primary expression", primCall}} {
			// no Return may yield the call's result directly (through conversions only): it must come back through the loop phi
			direct := false
			for _, b := range fn.Blocks {
				for _, ins := range b.Instrs {
					ret, ok := ins.(*ssa.Return)
					if !ok || len(ret.Results) != 1 {
						continue
					}
					v := ret.Results[0]
					for d := 0; d < 4; d++ {
						switch x := v.(type) {
						case *ssa.ChangeInterface:
							v = x.X
							continue
						case *ssa.MakeInterface:
							v = x.X
							continue
						}
						break
					}
					if v == ssa.Value(src.call) {
						direct = true
					}
				}
			}
			// and the loop must be reachable from the call
			reachesLoop := false
			for _, lc := range loopCalls {
				if reachesInstr(src.call, lc) {
					reachesLoop = true
				}
			}
			r.check(!direct && reachesLoop, key+":"+src.what, c.Pos(instrPos(src.call)), "flows into the member-suffix loop", fmt.Sprintf("§11.2: in %s the %s is returned without passing through the member-suffix loop: `.name` and `[expr]` after it are left to the caller, so `new new A().B()` binds the arguments to the wrong constructor", ssaFuncName(fn), src.what))
		}
	}
	if n < 2 {
		r.undecided("functions", "-", fmt.Sprintf("%d left-hand-side parsing functions found (2 on the pinned tree)", n))
	}
}

// ---- LIB-tofixed-magnitude, ORDER-array-define -------------------------------------------------------------------------

func init() {
	register(&Rule{ID: "LIB-tofixed-magnitude", Props: []string{"C06"}, Min: 1,
		Doc: "S (ES5 §15.7.4.5 steps 6-7): toFixed makes x non-negative (step 6) before it compares it with 10^21 (step 7): the comparison with 1e21 that selects the ToString layout is applied to the magnitude of the receiver (math.Abs), or both signs are compared. A one-sided test sends (-1e21).toFixed(2) and -Infinity into strconv.FormatFloat's 'f' layout",
		Run: ruleLibToFixedMagnitude})
	register(&Rule{ID: "ORDER-array-define", Props: []string{"C08", "C07"}, Min: 1,
		Doc: "P (ES5 §15.4.5.1 step 4.c-4.e): defining an array element beyond the current length first defines the element (and rejects if that fails) and only then raises `length`. In the index branch of the array's [[DefineOwnProperty]] the ordinary define of the element cannot be reached from the define of the length property: raising length first leaves a sealed / non-extensible array with a longer length and no element when the element is refused",
		Run: ruleOrderArrayDefine})
}

func ruleLibToFixedMagnitude(c *Ctx, r *R) {
	fn := c.Shape().boundSSA(c, "Number.prototype")["toFixed"]
	if fn == nil {
		r.undecided("unresolved:toFixed", "-", "UNRESOLVED: Number.prototype.toFixed")
		return
	}
	is1e21 := func(v ssa.Value) (bool, bool) { // matches, negative
		k, ok := v.(*ssa.Const)
		if !ok || k.Value == nil {
			return false, false
		}
		f, _ := constant.Float64Val(constant.ToFloat(k.Value))
		return f == 1e21 || f == -1e21, f < 0
	}
	var abs, pos, neg bool
	var site ssa.Instruction
	for _, b := range fn.Blocks {
		for _, ins := range b.Instrs {
			bo, ok := ins.(*ssa.BinOp)
			if !ok {
				continue
			}
			for _, pair := range [][2]ssa.Value{{bo.X, bo.Y}, {bo.Y, bo.X}} {
				if m, negative := is1e21(pair[1]); m {
					site = bo
					if call, ok := pair[0].(*ssa.Call); ok {
						if callee := call.Call.StaticCallee(); callee != nil && callee.Pkg != nil && callee.Pkg.Pkg.Path() == "math" && callee.Name() == "Abs" {
							abs = true
						}
					}
					if negative {
						neg = true
					} else {
						pos = true
					}
				}
			}
		}
	}
	if site == nil {
		r.undecided("threshold", c.Pos(fn.Pos()), "UNRESOLVED: no comparison with 1e21 in Number.prototype.toFixed")
		return
	}
	r.check(abs || (pos && neg), "magnitude", c.Pos(instrPos(site)), "the 1e21 threshold is applied to |x|", "§15.7.4.5 steps 6-7: the comparison with 1e21 is applied to the signed receiver: negative receivers of magnitude >= 1e21 (and -Infinity) are formatted with the fixed layout instead of ToString(x)")
}

func ruleOrderArrayDefine(c *Ctx, r *R) {
	var fn *ssa.Function
	for _, f := range slotImplsOf(c)["defineOwnProperty"] {
		if strings.HasPrefix(f.Name(), "array") {
			fn = f
		}
	}
	if fn == nil {
		r.undecided("unresolved:arrayDefineOwnProperty", "-", "UNRESOLVED: the array class has no defineOwnProperty implementation")
		return
	}
	// the implementation and the helpers split out of it (functions only it calls)
	family := []*ssa.Function{fn}
	for _, f := range c.AllSrcFuncs("") {
		if f != fn && f.Parent() == nil && c.partOf(f, ssaFuncName(fn), 0) {
			family = append(family, f)
		}
	}
	n, nLen, nElem := 0, 0, 0
	for _, f := range family {
		// calls of the ordinary define: classified by their name argument (the constant "length" or something else)
		var lengthDefs, elemDefs []*ssa.Call
		for _, b := range f.Blocks {
			for _, ins := range b.Instrs {
				call, ok := ins.(*ssa.Call)
				if !ok || call.Call.StaticCallee() == nil || call.Call.StaticCallee().Name() != "objectDefineOwnProperty" || len(call.Call.Args) < 2 {
					continue
				}
				if k, ok := call.Call.Args[1].(*ssa.Const); ok {
					if str, isStr := constStringVal(k); isStr && str == "length" {
						lengthDefs = append(lengthDefs, call)
						continue
					}
				}
				elemDefs = append(elemDefs, call)
			}
		}
		nLen += len(lengthDefs)
		nElem += len(elemDefs)
		// the index branch: what a stringToArrayIndex call dominates (a helper that is the index branch has no such
		// call of its own: all of it counts)
		var idxCall ssa.Instruction
		for _, ci := range staticCallsIn(f, "stringToArrayIndex") {
			idxCall = ci
		}
		for _, e := range elemDefs {
			if idxCall != nil && !dominatesInstr(idxCall, e) {
				continue // the name == "length" branch and the fall-through
			}
			for _, l := range lengthDefs {
				if idxCall != nil && !dominatesInstr(idxCall, l) {
					continue
				}
				n++
				r.check(!reachesInstr(l, e), fmt.Sprintf("element-before-length#%d", n), c.Pos(instrPos(e)), "the element is defined before length is raised", "§15.4.5.1 step 4: in the index branch the length property is redefined before the element: when the element's define is rejected (sealed or non-extensible array) length has already grown")
			}
		}
	}
	if n == 0 {
		r.undecided("unresolved:shape", c.Pos(fn.Pos()), fmt.Sprintf("UNRESOLVED: no element / length define pair found in the index branch (length defines=%d, element defines=%d in %d functions)", nLen, nElem, len(family)))
	}
}

func init() {
	register(&Rule{ID: "SIB-regexp-scan", Props: []string{"C10"}, Min: 3,
		Doc: "T (sibling agreement, ES5 §15.10.1: the body of a group is a Disjunction, the same grammar as the whole pattern): the pattern translator's top-level loop and its group loop dispatch on the current character over the same alternatives - escape, nested group, character class - and hand each to the same sub-scanner. Only the closing parenthesis is treated differently. A group loop without the character-class case scans `[)]` inside a group as ordinary text and rejects valid patterns",
		Run: ruleSibRegexpScan})
	register(&Rule{ID: "CLONE-otto", Props: []string{"C17", "C18", "C20"}, Min: 1,
		Doc: "O: Otto.Copy builds the new Otto from nothing but the cloned runtime: it does not copy the receiver's struct value and does not read the receiver's Interrupt channel. A copy that shares the template's Interrupt channel can consume an interrupt meant for the template (which then keeps running) and is halted by interrupts it never asked for",
		Run: ruleCloneOtto})
}

func ruleSibRegexpScan(c *Ctx, r *R) {
	pp := c.Pkg("parser")
	if pp == nil {
		r.undecided("unresolved:parser", "-", "UNRESOLVED: package parser")
		return
	}
	info := pp.TypesInfo
	cases := map[string]map[string]map[string]bool{} // function -> case char -> sub-scanners called
	sites := map[string]string{}
	for _, f := range pp.Syntax {
		for _, d := range f.Decls {
			fd, ok := d.(*ast.FuncDecl)
			if !ok || fd.Recv == nil || fd.Body == nil {
				continue
			}
			if n := derefNamed(info.TypeOf(fd.Recv.List[0].Type)); n == nil || n.Obj().Name() != "regExpParser" {
				continue
			}
			ast.Inspect(fd.Body, func(n ast.Node) bool {
				sw, ok := n.(*ast.SwitchStmt)
				if !ok || sw.Tag == nil {
					return true
				}
				sel, ok := unparen(sw.Tag).(*ast.SelectorExpr)
				if !ok || sel.Sel.Name != "chr" {
					return true
				}
				if cases[fd.Name.Name] != nil {
					return true
				}
				cases[fd.Name.Name] = map[string]map[string]bool{}
				sites[fd.Name.Name] = c.Pos(sw.Pos())
				for _, st := range sw.Body.List {
					cc := st.(*ast.CaseClause)
					for _, e := range cc.List {
						tv, ok := info.Types[e]
						if !ok || tv.Value == nil {
							continue
						}
						v, _ := constant.Int64Val(constant.ToInt(tv.Value))
						ch := string(rune(v))
						calls := map[string]bool{}
						for _, bs := range cc.Body {
							ast.Inspect(bs, func(m ast.Node) bool {
								if ce, ok := m.(*ast.CallExpr); ok {
									if s2, ok := ce.Fun.(*ast.SelectorExpr); ok && strings.HasPrefix(s2.Sel.Name, "scan") {
										calls[s2.Sel.Name] = true
									}
								}
								return true
							})
						}
						cases[fd.Name.Name][ch] = calls
					}
				}
				return true
			})
		}
	}
	// one-statement wrappers (func (p) scanGroup() { p.scanGroupAt(1) }) stand for what they call
	wrapper := map[string]string{}
	for _, f := range pp.Syntax {
		for _, d := range f.Decls {
			fd, ok := d.(*ast.FuncDecl)
			if !ok || fd.Recv == nil || fd.Body == nil || len(fd.Body.List) != 1 {
				continue
			}
			if es, ok := fd.Body.List[0].(*ast.ExprStmt); ok {
				if ce, ok := es.X.(*ast.CallExpr); ok {
					if s2, ok := ce.Fun.(*ast.SelectorExpr); ok && strings.HasPrefix(s2.Sel.Name, "scan") {
						wrapper[fd.Name.Name] = s2.Sel.Name
					}
				}
			}
		}
	}
	for _, cs := range cases {
		for ch, calls := range cs {
			canon := map[string]bool{}
			for name := range calls {
				if w, ok := wrapper[name]; ok {
					name = w
				}
				canon[name] = true
			}
			cs[ch] = canon
		}
	}
	// by role, not by name: of the methods whose character switch has a case for '(' the one that also handles ')' is the
	// top-level loop, the other one the group loop
	var top, grp map[string]map[string]bool
	for name, cs := range cases {
		if _, hasOpen := cs["("]; !hasOpen {
			continue
		}
		if _, hasClose := cs[")"]; hasClose {
			top = cs
			sites["scan"] = sites[name]
		} else {
			grp = cs
			sites["scanGroup"] = sites[name]
		}
	}
	if top == nil || grp == nil {
		r.undecided("unresolved:switches", "-", "UNRESOLVED: the character switches of regExpParser.scan / scanGroup were not found")
		return
	}
	var chars []string
	for ch := range top {
		if ch != ")" {
			chars = append(chars, ch)
		}
	}
	sort.Strings(chars)
	for _, ch := range chars {
		want := strings.Join(sortedKeys(top[ch]), ",")
		got, has := grp[ch]
		key := fmt.Sprintf("case:%q", ch)
		switch {
		case !has:
			r.bad(key, sites["scanGroup"], fmt.Sprintf("the group loop has no case for %q, which the top-level loop hands to %s: inside a group that construct is scanned as ordinary characters", ch, want))
		case strings.Join(sortedKeys(got), ",") != want:
			r.bad(key, sites["scanGroup"], fmt.Sprintf("for %q the top-level loop calls %s but the group loop calls %s", ch, want, strings.Join(sortedKeys(got), ",")))
		default:
			r.ok(key, sites["scanGroup"], "both loops call "+want)
		}
	}
	for ch := range grp {
		if _, ok := top[ch]; !ok {
			r.bad(fmt.Sprintf("extra:%q", ch), sites["scanGroup"], fmt.Sprintf("the group loop has a case for %q that the top-level loop lacks", ch))
		}
	}
}

func ruleCloneOtto(c *Ctx, r *R) {
	var fn *ssa.Function
	for _, f := range c.AllSrcFuncs("") {
		if f.Parent() == nil && f.Name() == "Copy" && f.Signature.Recv() != nil && typeIs(f.Signature.Recv().Type(), ottoPath, "Otto") {
			fn = f
		}
	}
	if fn == nil || len(fn.Params) == 0 {
		r.undecided("unresolved:Otto.Copy", "-", "UNRESOLVED: (*Otto).Copy not found")
		return
	}
	recv := fn.Params[0]
	bad := ""
	var at ssa.Instruction
	for _, ref := range *recv.Referrers() {
		switch x := ref.(type) {
		case *ssa.UnOp: // *o: the whole struct is copied
			bad, at = "copies the receiver's Otto value as a whole (out := *o)", x
		case *ssa.FieldAddr:
			_, f := fieldOfAddr(x)
			if f != nil && f.Name() != "runtime" {
				bad, at = "reads the receiver's field "+f.Name(), x
			}
		case *ssa.DebugRef:
		}
	}
	if bad == "" {
		r.ok("fresh", c.Pos(fn.Pos()), "the copy is built from the cloned runtime only")
	} else {
		r.bad("fresh", c.Pos(instrPos(at)), "(*Otto).Copy "+bad+": the copy inherits the template's Interrupt channel, so an interrupt sent to one of them can be consumed by the other")
	}
}

// ---- LABEL-consume -----------------------------------------------------------------------------------------------------

func init() {
	register(&Rule{ID: "LABEL-consume", Props: []string{"C01", "C02"}, Min: 1,
		Doc: "S (ES5 §12.12): a labelled statement whose body completes with (break, V, L), L being its own label, completes normally. Blocks, loops and switches match the pending label set themselves, but `L: try {..} catch {..}`, `L: if (..) {..}` and `L: with (..) {..}` do not - so the evaluator's arm for the labelled statement itself must compare the target of a break result with its own label. Without it `break L` from a catch block skips the rest of the program, and inside a function the call returns the interpreter's internal empty value, on which typeof panics in the host",
		Run: ruleLabelConsume})
}

func ruleLabelConsume(c *Ctx, r *R) {
	n := 0
	for _, fn := range c.AllSrcFuncs("") {
		if fn.Parent() != nil {
			continue
		}
		// the evaluator: reads the statement field of a nodeLabelledStatement
		reads := false
		for _, b := range fn.Blocks {
			for _, ins := range b.Instrs {
				if fa, ok := ins.(*ssa.FieldAddr); ok && isFieldAddr(fa, "nodeLabelledStatement", "statement") {
					if fn.Signature.Recv() != nil && typeIs(fn.Signature.Recv().Type(), ottoPath, "runtime") {
						reads = true
					}
				}
			}
		}
		if !reads {
			continue
		}
		n++
		matches := false
		for _, g := range withAnon(fn) {
			for _, b := range g.Blocks {
				for _, ins := range b.Instrs {
					bo, ok := ins.(*ssa.BinOp)
					if !ok || bo.Op != token.EQL {
						continue
					}
					isLabel := func(v ssa.Value) bool {
						a := loadAddr(v)
						return a != nil && isFieldAddr(a, "nodeLabelledStatement", "label")
					}
					isTarget := func(v ssa.Value) bool {
						if f, ok := v.(*ssa.Field); ok {
							if st, ok := f.X.Type().Underlying().(*types.Struct); ok && st.Field(f.Field).Name() == "target" {
								return true
							}
						}
						if a := loadAddr(v); a != nil {
							if _, fld := fieldOfAddr(a); fld != nil && fld.Name() == "target" {
								return true
							}
						}
						return false
					}
					if (isLabel(bo.X) && isTarget(bo.Y)) || (isLabel(bo.Y) && isTarget(bo.X)) {
						matches = true
					}
				}
			}
		}
		r.check(matches, ssaFuncName(fn), c.Pos(fn.Pos()), "the labelled-statement arm matches a break result against its own label", "§12.12: the evaluator of labelled statements never compares a break result's target with the statement's own label: `L: try { .. } catch (e) { break L }` (and labelled if / with) lets the break escape - the rest of the program is skipped, and a function containing it returns the internal empty value (typeof of it is a host panic)")
	}
	if n == 0 {
		r.undecided("unresolved:labelled-evaluator", "-", "UNRESOLVED: no runtime method reads nodeLabelledStatement.statement")
	}
}

// ---- FORIN-abrupt ------------------------------------------------------------------------------------------------------

func init() {
	register(&Rule{ID: "FORIN-abrupt", Props: []string{"C01", "C07"}, Min: 1,
		Doc: "P (ES5 §12.6.4 step 6.g / 7.g: 'if stmt is an abrupt completion, return stmt'): the for-in evaluator enumerates one object of the prototype chain at a time through a callback; when the body completes abruptly (return, break, continue to an outer label) the callback stops the enumeration of the current object by returning false - and on every such path it must also stop the walk up the prototype chain (clear the captured object variable). Otherwise `for (k in o) return k` runs the body again for the prototype's keys and returns the wrong key",
		Run: ruleForInAbrupt})
}

func ruleForInAbrupt(c *Ctx, r *R) {
	var fn *ssa.Function
	for _, f := range c.AllSrcFuncs("") {
		if f.Parent() != nil {
			continue
		}
		for _, p := range f.Params {
			if n := derefNamed(p.Type()); n != nil && n.Obj().Name() == "nodeForInStatement" && f.Signature.Recv() != nil && typeIs(f.Signature.Recv().Type(), ottoPath, "runtime") {
				fn = f
			}
		}
	}
	if fn == nil {
		r.undecided("unresolved:for-in", "-", "UNRESOLVED: evaluator of nodeForInStatement not found")
		return
	}
	n := 0
	for _, lit := range fn.AnonFuncs {
		// the enumeration callback: func(string) bool
		if lit.Signature.Params().Len() != 1 || lit.Signature.Results().Len() != 1 {
			continue
		}
		// the captured object variable: a free variable of type **object
		var objVar *ssa.FreeVar
		for _, fv := range lit.FreeVars {
			if pt, ok := fv.Type().Underlying().(*types.Pointer); ok {
				if typeIs(pt.Elem(), ottoPath, "object") {
					if _, isPtr := pt.Elem().Underlying().(*types.Pointer); isPtr {
						objVar = fv
					}
				}
			}
		}
		if objVar == nil {
			continue
		}
		var clears []*ssa.Store
		for _, ref := range *objVar.Referrers() {
			if st, ok := ref.(*ssa.Store); ok && st.Addr == ssa.Value(objVar) && isNilConst(st.Val) {
				clears = append(clears, st)
			}
		}
		for _, b := range lit.Blocks {
			for _, ins := range b.Instrs {
				ret, ok := ins.(*ssa.Return)
				if !ok || len(ret.Results) != 1 {
					continue
				}
				k, ok := ret.Results[0].(*ssa.Const)
				if !ok || k.Value == nil || k.Value.ExactString() != "false" {
					continue
				}
				n++
				cleared := false
				for _, st := range clears {
					if dominatesInstr(st, ret) {
						cleared = true
					}
				}
				r.check(cleared, fmt.Sprintf("%s:stop#%d", ssaFuncName(fn), n), c.Pos(instrPos(ret)), "stopping the enumeration also stops the prototype walk", "§12.6.4: on this path the for-in body completed abruptly and the callback stops enumerating the current object, but the captured object variable is not cleared, so the evaluator goes on with the prototype: `function f(o){ for (var k in o) return k }` runs the body again for inherited keys and returns one of them")
			}
		}
	}
	if n == 0 {
		r.undecided("unresolved:callback", c.Pos(fn.Pos()), "UNRESOLVED: no enumeration callback that stops (returns false) found in the for-in evaluator")
	}
}

func init() {
	register(&Rule{ID: "CLOSURE-runtime", Props: []string{"C17", "C20"}, Min: 3,
		Doc: "O (ownership): objectClone copies a native function payload verbatim - the Go closure of the original is the closure of the copy. A native function literal (signature func(FunctionCall) Value) that captures a *runtime, an *object, an *Otto or a stash therefore keeps the copy tied to the runtime it was created in: the copy's function reads and mutates the original's heap (results no longer identical to a fresh run; with two goroutines a data race on the original's scope). Every such literal uses the runtime of its FunctionCall argument instead; captures are listed and must be reviewed (immutable after construction) or reported",
		Run: ruleClosureRuntime})
}

// closureRuntimeReviewed: the capture was read; the key names the literal.
var closureRuntimeReviewed = map[string]string{}

// immutablePayloadCapture: the only heap captures of the literal are objects of which nothing but the payload is read
// (a load of field value, never written through), the payload is only asserted to a struct type T held by value, and
// every store of a T into an object's payload anywhere in the package is made on an object created in the storing
// function - the payload is fixed when the object is built, and what the literal reads is an immutable Go value the
// clone's object holds a copy of. Returns the reason, or "".
func immutablePayloadCapture(c *Ctx, fn *ssa.Function, isHeap func(types.Type) bool) string {
	var T types.Type
	for _, fv := range fn.FreeVars {
		if !isHeap(fv.Type()) {
			continue
		}
		pt, ok := fv.Type().Underlying().(*types.Pointer)
		if !ok || !typeIs(pt.Elem(), ottoPath, "object") {
			if len(*fv.Referrers()) == 0 {
				continue
			}
			return ""
		}
		for _, ref := range *fv.Referrers() {
			ld, isLoad := ref.(*ssa.UnOp)
			if !isLoad {
				return ""
			}
			for _, r2 := range *ld.Referrers() {
				fa, ok := r2.(*ssa.FieldAddr)
				if !ok || !isFieldAddr(fa, "object", "value") || writesThrough(fa) {
					return ""
				}
				for _, r3 := range *fa.Referrers() {
					pl, ok := r3.(*ssa.UnOp)
					if !ok {
						return ""
					}
					for _, r4 := range *pl.Referrers() {
						ta, ok := r4.(*ssa.TypeAssert)
						if !ok {
							return ""
						}
						if _, isStruct := ta.AssertedType.Underlying().(*types.Struct); !isStruct {
							return ""
						}
						if T != nil && !types.Identical(T, ta.AssertedType) {
							return ""
						}
						T = ta.AssertedType
					}
				}
			}
		}
	}
	if T == nil {
		return ""
	}
	n := 0
	for _, f := range c.AllSrcFuncs("") {
		for _, b := range f.Blocks {
			for _, ins := range b.Instrs {
				st, ok := ins.(*ssa.Store)
				if !ok || !isFieldAddr(st.Addr, "object", "value") {
					continue
				}
				mi, ok := st.Val.(*ssa.MakeInterface)
				if !ok || !types.Identical(mi.X.Type(), T) {
					continue
				}
				if !freshObject(st.Addr.(*ssa.FieldAddr).X, f, 0) {
					return ""
				}
				n++
			}
		}
	}
	if n == 0 {
		return ""
	}
	return fmt.Sprintf("of the captured object only the payload is read, as a %s held by value; all %d stores of a %s into an object payload are made on the object the storing function has just created, so the payload is fixed at construction and the literal reads an immutable Go value (the clone's object holds a copy of it): no state of the original runtime is read or written", typeStr(T), n, typeStr(T))
}

func ruleClosureRuntime(c *Ctx, r *R) {
	isNativeSig := func(sig *types.Signature) bool {
		if sig.Params().Len() != 1 || sig.Results().Len() != 1 {
			return false
		}
		return typeIs(sig.Params().At(0).Type(), ottoPath, "FunctionCall") && typeIs(sig.Results().At(0).Type(), ottoPath, "Value")
	}
	heapType := func(t types.Type) string {
		for i := 0; i < 3; i++ {
			if p, ok := t.Underlying().(*types.Pointer); ok {
				t = p.Elem()
				continue
			}
			break
		}
		if n, ok := t.(*types.Named); ok && n.Obj().Pkg() != nil && n.Obj().Pkg().Path() == ottoPath {
			switch n.Obj().Name() {
			case "runtime", "object", "Otto", "dclStash", "fnStash", "objectStash", "scope", "Object", "Value":
				return n.Obj().Name()
			}
		}
		return ""
	}
	n := 0
	for _, fn := range c.AllSrcFuncs("") {
		if fn.Parent() == nil || !isNativeSig(fn.Signature) {
			continue
		}
		n++
		var caps []string
		for _, fv := range fn.FreeVars {
			if len(*fv.Referrers()) == 0 {
				continue
			}
			if h := heapType(fv.Type()); h != "" {
				if h == "Value" {
					continue // a Value may hold an object; examined through its uses below only when it is an object holder
				}
				caps = append(caps, fv.Name()+" "+h)
			}
		}
		key := ssaFuncName(fn)
		site := c.Pos(fn.Pos())
		if len(caps) == 0 {
			r.ok(key, site, "captures no runtime, object or stash")
			continue
		}
		if why := immutablePayloadCapture(c, fn, func(t types.Type) bool { h := heapType(t); return h != "" && h != "Value" }); why != "" {
			r.ok(key, site, why)
			continue
		}
		if why, ok := closureRuntimeReviewed[key]; ok {
			onlyValue := true
			for _, fv := range fn.FreeVars {
				if heapType(fv.Type()) == "" {
					continue
				}
				for _, ref := range *fv.Referrers() {
					ld, isLoad := ref.(*ssa.UnOp)
					if !isLoad {
						onlyValue = false
						continue
					}
					for _, r2 := range *ld.Referrers() {
						if fa, ok := r2.(*ssa.FieldAddr); !ok || !isFieldAddr(fa, "object", "value") || writesThrough(fa) {
							onlyValue = false
						}
					}
				}
			}
			if onlyValue {
				r.ok("reviewed:"+key, site, why)
				continue
			}
		}
		r.bad(key, site, fmt.Sprintf("the native function literal %s captures %s of the runtime that created it; Otto.Copy() copies native function payloads verbatim (objectClone), so the copy's function keeps operating on the original runtime's heap: results differ from a fresh run and concurrent use of template and copy races on the original's scope", key, strings.Join(caps, ", ")))
	}
	r.note("native_closures", n)
}

func init() {
	register(&Rule{ID: "FORIN-shadow", Props: []string{"C07", "C01"}, Min: 2,
		Doc: "G: ES5 12.6.4 - a property of a prototype is not enumerated if it is shadowed by a property of an object nearer in the chain, enumerable or not; hence no name is visited twice. The for-in evaluator walks the chain object by object, so it must keep the set of names seen so far: (a) the callback that runs the body is entered for a name only on the not-yet-seen side of a lookup of that name in a string-keyed set, (b) the name is added to the set, and (c) after each object all of its own names are added through an enumeration that includes the non-enumerable ones (all = true)",
		Run: ruleForInShadow})
}

func ruleForInShadow(c *Ctx, r *R) {
	var fn *ssa.Function
	for _, f := range c.AllSrcFuncs("") {
		if ssaFuncName(f) == "(*runtime).cmplEvaluateNodeForInStatement" {
			fn = f
		}
	}
	if fn == nil {
		r.undecided("unresolved:for-in", "-", "UNRESOLVED: (*runtime).cmplEvaluateNodeForInStatement")
		return
	}
	// the callbacks handed to enumerate, with the value of the `all` argument
	type cb struct {
		lit *ssa.Function
		all string // "true", "false", "?"
	}
	var cbs []cb
	for _, f := range withAnon(fn) {
		for _, b := range f.Blocks {
			for _, ins := range b.Instrs {
				call, ok := ins.(*ssa.Call)
				if !ok || call.Call.StaticCallee() == nil || call.Call.StaticCallee().Name() != "enumerate" || len(call.Call.Args) < 3 {
					continue
				}
				all := "?"
				if k, ok := call.Call.Args[1].(*ssa.Const); ok && k.Value != nil && k.Value.Kind() == constant.Bool {
					all = fmt.Sprint(constant.BoolVal(k.Value))
				}
				var lit *ssa.Function
				switch v := call.Call.Args[2].(type) {
				case *ssa.MakeClosure:
					lit, _ = v.Fn.(*ssa.Function)
				case *ssa.Function:
					lit = v
				}
				if lit != nil {
					cbs = append(cbs, cb{lit, all})
				}
			}
		}
	}
	if len(cbs) == 0 {
		r.undecided("unresolved:enumerate", c.Pos(fn.Pos()), "UNRESOLVED: no enumerate callback in the for-in evaluator")
		return
	}
	isSetType := func(t types.Type) bool {
		mt, ok := t.Underlying().(*types.Map)
		if !ok {
			return false
		}
		k, ok := mt.Key().Underlying().(*types.Basic)
		return ok && k.Info()&types.IsString != 0
	}
	bodyGuarded, bodySeen, adds, allAdds := false, false, false, false
	for _, cbk := range cbs {
		lit := cbk.lit
		if len(lit.Params) == 0 {
			continue
		}
		name := lit.Params[0]
		runsBody := false
		var bodyCall ssa.Instruction
		for _, b := range lit.Blocks {
			for _, ins := range b.Instrs {
				if call, ok := ins.(*ssa.Call); ok && call.Call.StaticCallee() != nil && call.Call.StaticCallee().Name() == "cmplEvaluateNodeStatement" {
					runsBody = true
					if bodyCall == nil {
						bodyCall = ins
					}
				}
			}
		}
		updates := false
		for _, b := range lit.Blocks {
			for _, ins := range b.Instrs {
				if mu, ok := ins.(*ssa.MapUpdate); ok && isSetType(mu.Map.Type()) && mu.Key == ssa.Value(name) {
					updates = true
				}
			}
		}
		if runsBody {
			bodySeen = true
			// a lookup of name whose "found" side does not reach the body
			for _, b := range lit.Blocks {
				iff, ok := b.Instrs[len(b.Instrs)-1].(*ssa.If)
				if !ok {
					continue
				}
				cond, neg := normBool(iff.Cond)
				lk, ok := cond.(*ssa.Lookup)
				if !ok {
					// the comma-ok form: `_, seen := set[name]`
					if ex, isEx := cond.(*ssa.Extract); isEx && ex.Index == 1 {
						lk, ok = ex.Tuple.(*ssa.Lookup)
					}
				}
				if !ok || !isSetType(lk.X.Type()) || lk.Index != ssa.Value(name) {
					continue
				}
				seenSide := 0
				if neg {
					seenSide = 1
				}
				if !reaches(b.Succs[seenSide], bodyCall.Block(), map[*ssa.BasicBlock]bool{b: true}) && b.Dominates(bodyCall.Block()) {
					bodyGuarded = true
				}
			}
			if updates {
				adds = true
			}
		} else if updates && cbk.all == "true" {
			allAdds = true
		}
	}
	site := c.Pos(fn.Pos())
	if !bodySeen {
		r.undecided("unresolved:body", site, "UNRESOLVED: no enumerate callback evaluates the loop body")
		return
	}
	r.check(bodyGuarded && adds, "visited-once", site, "the body runs for a name only when it is not in the set of names seen, and the name is then added",
		"the for-in evaluator runs the body for every enumerable name of every object of the prototype chain without consulting a set of names already seen: a name that is enumerable on the object and on its prototype is visited twice (`function P(){}; P.prototype.a = 1; o = new P(); o.a = 2; for (k in o)` yields a, a)")
	r.check(allAdds, "shadowed-by-non-enumerable", site, "after each object all of its own names, enumerable or not, are added to the set",
		"the for-in evaluator never records the non-enumerable own names of the objects it has passed: a prototype's enumerable property that is shadowed by a non-enumerable own property is visited although 12.6.4 hides it")
}

func init() {
	register(&Rule{ID: "OWN-global-methods", Props: []string{"C20"}, Min: 5,
		Doc: "O: OWN-global shows that no package-level variable is stored to after initialisation; a variable holding a pointer to a library object can still be mutated through that object's methods. Every method call made outside init on a value loaded from a package-level variable of a type defined outside the module is on a type documented as safe for concurrent use (regexp.Regexp, strings.Replacer, language.Tag and matcher values, time.Location, reflect.Type); anything else - a *rand.Rand shared by all runtimes, a bytes.Buffer, a json.Encoder - is state shared between runtimes that run on different goroutines",
		Run: ruleOwnGlobalMethods})
}

var concurrentSafeTypes = map[string]string{
	"regexp.Regexp":                          "documented: safe for concurrent use by multiple goroutines (except configuration methods, none of which the module calls)",
	"strings.Replacer":                       "documented: safe for concurrent use",
	"golang.org/x/text/language.Tag":         "immutable value",
	"time.Location":                          "immutable after load",
	"reflect.rtype":                          "immutable type descriptor",
	"unicode.RangeTable":                     "read-only table",
	"golang.org/x/text/language.matcher":     "immutable after construction",
	"golang.org/x/text/internal/number.Info": "immutable value",
}

func ruleOwnGlobalMethods(c *Ctx, r *R) {
	n := 0
	for _, fn := range c.AllSrcFuncs("", "parser", "file", "ast", "token", "registry") {
		if strings.HasPrefix(fn.Name(), "init") && fn.Parent() == nil && fn.Signature.Recv() == nil {
			continue
		}
		ord := map[string]int{}
		for _, b := range fn.Blocks {
			for _, ins := range b.Instrs {
				// a method *value* taken from the variable (`f := global.Method`) is a use of the object like a call
				if mc, isMC := ins.(*ssa.MakeClosure); isMC {
					if bf, okf := mc.Fn.(*ssa.Function); okf && bf.Synthetic != "" && len(mc.Bindings) == 1 {
						if ld, okl := mc.Bindings[0].(*ssa.UnOp); okl && ld.Op == token.MUL {
							if g, okg := ld.X.(*ssa.Global); okg && g.Pkg != nil && strings.HasPrefix(g.Pkg.Pkg.Path(), ottoPath) {
								if nt := derefNamed(ld.Type()); nt != nil && nt.Obj().Pkg() != nil && !strings.HasPrefix(nt.Obj().Pkg().Path(), ottoPath) {
									tname := nt.Obj().Pkg().Path() + "." + nt.Obj().Name()
									n++
									key := fmt.Sprintf("%s:%s@%s:method-value", g.Name(), tname, ssaFuncName(fn))
									if why, ok := concurrentSafeTypes[tname]; ok {
										r.ok(key, c.Pos(instrPos(mc)), why)
									} else {
										r.bad(key, c.Pos(instrPos(mc)), fmt.Sprintf("%s takes a method value of the package-level variable %s, a %s, and calls it later: that object is shared by every runtime in the process and its type is not known to be safe for concurrent use (a process-wide *rand.Rand behind Math.random: data race, and the same random numbers handed to two runtimes)", ssaFuncName(fn), g.Name(), tname))
									}
								}
							}
						}
					}
					continue
				}
				call, ok := ins.(ssa.CallInstruction)
				if !ok {
					continue
				}
				cc := call.Common()
				var recv ssa.Value
				var recvType types.Type
				switch {
				case cc.IsInvoke():
					recv, recvType = cc.Value, cc.Value.Type()
				case cc.StaticCallee() != nil && cc.StaticCallee().Signature.Recv() != nil && len(cc.Args) > 0:
					recv, recvType = cc.Args[0], cc.StaticCallee().Signature.Recv().Type()
				default:
					continue
				}
				ld, ok := recv.(*ssa.UnOp)
				if !ok || ld.Op != token.MUL {
					continue
				}
				g, ok := ld.X.(*ssa.Global)
				if !ok || g.Pkg == nil || !strings.HasPrefix(g.Pkg.Pkg.Path(), ottoPath) {
					continue
				}
				nt := derefNamed(recvType)
				if cc.IsInvoke() {
					// the dynamic type is what matters: take the static type of the variable's initialiser if it is concrete
					nt = derefNamed(g.Type().(*types.Pointer).Elem())
				}
				if nt == nil || nt.Obj().Pkg() == nil || strings.HasPrefix(nt.Obj().Pkg().Path(), ottoPath) {
					continue
				}
				tname := nt.Obj().Pkg().Path() + "." + nt.Obj().Name()
				n++
				base := g.Name() + ":" + tname
				ord[base]++
				if ord[base] > 1 {
					continue // one obligation per variable and function
				}
				key := fmt.Sprintf("%s@%s", base, ssaFuncName(fn))
				if why, ok := concurrentSafeTypes[tname]; ok {
					r.ok(key, c.Pos(instrPos(call)), why)
				} else {
					r.bad(key, c.Pos(instrPos(call)), fmt.Sprintf("%s calls a method of the package-level variable %s, a %s: that object is shared by every runtime in the process and its type is not known to be safe for concurrent use, so two runtimes on different goroutines race on it (a process-wide *rand.Rand behind Math.random: data race, and the same random numbers handed to two runtimes)", ssaFuncName(fn), g.Name(), tname))
				}
			}
		}
	}
	if n == 0 {
		r.undecided("unresolved:sites", "-", "UNRESOLVED: no method call on a package-level library object found (the regexps of builtin.go are such)")
	}
}
