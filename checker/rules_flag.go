package main

import (
	"fmt"
	"go/token"
	"go/types"
	"sort"
	"strings"

	"golang.org/x/tools/go/ssa"
)

func init() {
	register(&Rule{ID: "FLAG-allowIn", Props: []string{"C03", "C04"}, Min: 20,
		Doc: "P (ES5 §11.14 Expression vs ExpressionNoIn, §12.6.3): an interprocedural typestate analysis of the parser's allowIn flag (scope.allowIn). Per function the flag's state at every call site is computed symbolically (Entry / true / false, through saved locals, deferred restores and openScope); a fixpoint over the parser's call graph (bound method values included) gives every function the set of flag values it can be entered with. Obligations: (1) every function that writes the flag leaves it as it found it; (2) the initialiser of a for statement is parsed with the flag false; (3) every other place the grammar says Expression / AssignmentExpression (arguments, bracket members, parenthesised, array and object literals, statement-level expressions, the for test/update/collection) is entered only with the flag true. The NoIn variants are inherited only inside the expression ladder itself (comma, assignment, conditional, variable declaration)",
		Run: ruleFlagAllowIn})
}

const (
	stE = 1 << iota // the value the function was entered with
	stT
	stF
)

func stString(s int) string {
	var p []string
	if s&stE != 0 {
		p = append(p, "entry")
	}
	if s&stT != 0 {
		p = append(p, "true")
	}
	if s&stF != 0 {
		p = append(p, "false")
	}
	if len(p) == 0 {
		return "unreached"
	}
	return strings.Join(p, "|")
}

type flagFn struct {
	fn        *ssa.Function
	callState map[ssa.CallInstruction]int // symbolic state at each call
	retState  int                         // symbolic state at returns (before deferred calls)
	writes    bool
	restores  bool // a deferred literal stores the entry value back
}

func isAllowInAddr(v ssa.Value) bool { return isFieldAddr(v, "scope", "allowIn") }

// flagAnalyse: intraprocedural symbolic state of scope.allowIn.
func flagAnalyse(fn *ssa.Function) *flagFn {
	ff := &flagFn{fn: fn, callState: map[ssa.CallInstruction]int{}}
	if fn.Blocks == nil {
		return ff
	}
	loadState := map[ssa.Value]int{} // flag load instruction -> state at that point
	// state carried by a value stored into the flag
	var valState func(v ssa.Value) int
	valState = func(v ssa.Value) int {
		if k, ok := v.(*ssa.Const); ok && k.Value != nil {
			if k.Value.ExactString() == "true" {
				return stT
			}
			return stF
		}
		if a := loadAddr(v); a != nil {
			if isAllowInAddr(a) {
				return loadState[v]
			}
			if al, ok := a.(*ssa.Alloc); ok {
				// a saved local (captured by the deferred literal): the single value stored in it
				var st *ssa.Store
				n := 0
				for _, ref := range *al.Referrers() {
					if s, ok := ref.(*ssa.Store); ok && s.Addr == ssa.Value(al) {
						st = s
						n++
					}
				}
				if n == 1 {
					return valState(st.Val)
				}
			}
		}
		if _, ok := v.(*ssa.UnOp); ok && loadState[v] != 0 {
			return loadState[v]
		}
		return stT | stF
	}
	outer := 0
	{
		// proper forward pass using out states
		out := map[*ssa.BasicBlock]int{}
		for pass := 0; pass < 2*len(fn.Blocks)+2; pass++ {
			progress := false
			for _, b := range fn.Blocks {
				st := 0
				if b == fn.Blocks[0] {
					st = stE
				}
				for _, p := range b.Preds {
					st |= out[p]
				}
				for _, ins := range b.Instrs {
					switch x := ins.(type) {
					case *ssa.UnOp:
						if x.Op == token.MUL && isAllowInAddr(x.X) {
							if loadState[x] != st {
								loadState[x] |= st
								progress = true
							}
						}
					case *ssa.Store:
						if isAllowInAddr(x.Addr) {
							ff.writes = true
							st = valState(x.Val)
						}
					case ssa.CallInstruction:
						if _, isDefer := ins.(*ssa.Defer); isDefer {
							if lit := closureOf(x.Common()); lit != nil && literalRestoresFlag(lit, x.Common(), valState) {
								ff.restores = true
							}
							continue
						}
						if ff.callState[x]|st != ff.callState[x] {
							ff.callState[x] |= st
							progress = true
						}
						if callee := x.Common().StaticCallee(); callee != nil {
							switch callee.Name() {
							case "openScope":
								outer |= st
								st = stT
							case "closeScope":
								st = outer
								if st == 0 {
									st = stT | stF
								}
							}
						}
					case *ssa.Return:
						ff.retState |= st
					}
				}
				if out[b] != st {
					out[b] |= st
					progress = true
				}
			}
			if !progress {
				break
			}
		}
	}
	return ff
}

// literalRestoresFlag: the deferred function literal stores into scope.allowIn a captured variable whose value is the
// flag as it was on entry.
func literalRestoresFlag(lit *ssa.Function, cc *ssa.CallCommon, valState func(ssa.Value) int) bool {
	mc, ok := cc.Value.(*ssa.MakeClosure)
	if !ok {
		return false
	}
	for _, b := range lit.Blocks {
		for _, ins := range b.Instrs {
			st, ok := ins.(*ssa.Store)
			if !ok || !isAllowInAddr(st.Addr) {
				continue
			}
			a := loadAddr(st.Val)
			fv, ok := a.(*ssa.FreeVar)
			if !ok {
				continue
			}
			for i, f := range lit.FreeVars {
				if f == fv && i < len(mc.Bindings) {
					if al, ok := mc.Bindings[i].(*ssa.Alloc); ok {
						// state of the saved cell
						for _, ref := range *al.Referrers() {
							if s, ok := ref.(*ssa.Store); ok && s.Addr == ssa.Value(al) {
								if valState(s.Val) == stE {
									return true
								}
							}
						}
					}
				}
			}
		}
	}
	return false
}

func ruleFlagAllowIn(c *Ctx, r *R) {
	pp := c.Pkg("parser")
	if pp == nil {
		r.undecided("unresolved:parser", "-", "UNRESOLVED: package parser not loaded")
		return
	}
	isParserMethod := func(fn *ssa.Function) bool {
		return fn != nil && fn.Pkg != nil && fn.Pkg.Pkg == pp.Types
	}
	// analyse every function of the package, and the bound-method wrappers reached from them
	an := map[*ssa.Function]*flagFn{}
	var order []*ssa.Function
	var add func(fn *ssa.Function)
	add = func(fn *ssa.Function) {
		if fn == nil || an[fn] != nil || fn.Blocks == nil {
			return
		}
		an[fn] = flagAnalyse(fn)
		order = append(order, fn)
		for ci := range an[fn].callState {
			add(targetOf(ci))
		}
	}
	for _, fn := range c.AllSrcFuncs("parser") {
		add(fn)
	}
	targets := func(ci ssa.CallInstruction) *ssa.Function {
		t := targetOf(ci)
		if t == nil || an[t] == nil {
			return nil
		}
		if !isParserMethod(t) && t.Synthetic == "" {
			return nil
		}
		return t
	}
	// callers
	called := map[*ssa.Function]bool{}
	for _, ff := range an {
		for ci := range ff.callState {
			if t := targets(ci); t != nil {
				called[t] = true
			}
		}
	}
	entry := map[*ssa.Function]int{}
	for _, fn := range order {
		if !called[fn] && fn.Parent() == nil {
			entry[fn] = stT | stF // roots: nothing is assumed
		}
	}
	subst := func(sym, e int) int {
		out := sym &^ stE
		if sym&stE != 0 {
			out |= e
		}
		return out
	}
	for changed := true; changed; {
		changed = false
		for _, fn := range order {
			ff := an[fn]
			e := entry[fn]
			if e == 0 {
				continue
			}
			for ci, sym := range ff.callState {
				t := targets(ci)
				if t == nil {
					continue
				}
				if s := subst(sym, e); entry[t]|s != entry[t] {
					entry[t] |= s
					changed = true
				}
			}
		}
	}
	// (1) preservation
	nWriters := 0
	for _, fn := range order {
		ff := an[fn]
		if !ff.writes || fn.Parent() != nil || fn.Name() == "openScope" {
			continue
		}
		nWriters++
		key := "preserves:" + ssaFuncName(fn)
		r.check(ff.retState&^stE == 0 || ff.restores, key, c.Pos(fn.Pos()), "leaves the flag as found (on every return, or by a deferred restore of the saved entry value)",
			fmt.Sprintf("%s writes scope.allowIn and can return with it %s: the caller continues with a flag it did not set", ssaFuncName(fn), stString(ff.retState)))
	}
	if nWriters < 3 {
		r.undecided("writers", "-", fmt.Sprintf("only %d functions write scope.allowIn (3 confirmed on the pinned tree): anchor lost", nWriters))
	}
	// (2),(3) call sites of the expression entry points
	entryPoints := map[string]bool{"parseExpression": true, "parseAssignmentExpression": true, "parseVariableDeclarationList": true, "parseVariableDeclaration": true}
	inherit := map[string]string{
		"parseExpression":              "comma operands inherit (Expression / ExpressionNoIn)",
		"parseAssignmentExpression":    "the right-hand side inherits (AssignmentExpression / AssignmentExpressionNoIn)",
		"parseConditionalExpression#2": "the third operand inherits (ConditionalExpressionNoIn : ... ? AssignmentExpression : AssignmentExpressionNoIn); the second does not",
		"parseVariableDeclaration":     "the initialiser inherits (Initialiser / InitialiserNoIn)",
		"parseVariableDeclarationList": "each declaration inherits",
	}
	forInitSites := 0
	var fns []*ssa.Function
	fns = append(fns, order...)
	sort.Slice(fns, func(i, j int) bool { return ssaFuncName(fns[i]) < ssaFuncName(fns[j]) })
	for _, fn := range fns {
		if fn.Synthetic != "" {
			continue
		}
		ff := an[fn]
		var sites []ssa.CallInstruction
		for ci := range ff.callState {
			t := targetOf(ci)
			for t != nil && t.Synthetic != "" {
				t = boundTarget(t)
			}
			if t != nil && isParserMethod(t) && entryPoints[t.Name()] {
				sites = append(sites, ci)
			}
		}
		sort.Slice(sites, func(i, j int) bool { return sites[i].Pos() < sites[j].Pos() })
		caller := fn
		for caller.Parent() != nil {
			caller = caller.Parent()
		}
		for i, ci := range sites {
			t := targetOf(ci)
			for t != nil && t.Synthetic != "" {
				t = boundTarget(t)
			}
			key := fmt.Sprintf("%s->%s#%d", ssaFuncName(fn), t.Name(), i+1)
			site := c.Pos(instrPos(ci))
			sym := ff.callState[ci]
			conc := subst(sym, entry[fn])
			if entry[fn] == 0 {
				r.ok("unreached:"+key, site, "the enclosing function is not reachable from a parser entry point")
				continue
			}
			why, ok := inherit[caller.Name()]
			if !ok {
				why, ok = inherit[fmt.Sprintf("%s#%d", caller.Name(), i+1)]
			}
			if ok && sym == stE {
				r.ok("inherit:"+key, site, why)
				continue
			}
			if ok {
				// the grammar makes this operand NoIn whenever the enclosing production is: it must see the flag it was
				// entered with, not a forced value
				r.bad("inherit:"+key, site, fmt.Sprintf("%s: %s - but this call runs with allowIn=%s whatever the caller was entered with: inside a for initialiser the operand accepts `in` (`for (var i = a ? 1 : 2 in obj; ;) {}` parses) or, when forced false, rejects it everywhere", ssaFuncName(fn), why, stString(sym)))
				continue
			}
			if sym == stF {
				// set false locally: the for initialiser
				forInitSites++
				r.ok("noIn:"+key, site, "parsed with allowIn=false (for initialiser)")
				continue
			}
			r.check(conc == stT, "in:"+key, site, "reached only with allowIn=true",
				fmt.Sprintf("this %s call parses a construct whose grammar allows the `in` operator (Expression / AssignmentExpression, not the NoIn variant), but it can be reached with allowIn=%s (state at the call: %s; %s is entered with %s): inside a for initialiser `in` is then taken for the for-in keyword, so e.g. `for (var i = f(a in b); ;)` or `for (x = o[k in m]; ;)` is rejected or mis-parsed", t.Name(), stString(conc), stString(sym), ssaFuncName(fn), stString(entry[fn])))
		}
	}
	r.check(forInitSites >= 2, "for-init:noIn", "-", fmt.Sprintf("%d initialiser call sites parsed with allowIn=false", forInitSites), fmt.Sprintf("§12.6.3: the for statement's initialiser (ExpressionNoIn / VariableDeclarationListNoIn) must be parsed with allowIn=false; %d such call sites found (2 on the pinned tree): `for (a in b)` can no longer be told from `for (a in b; ...`", forInitSites))
	r.note("functions_analysed", len(order))
}

// targetOf: the function a call instruction invokes, when it is known statically: a static callee, a function literal,
// or a bound method value created in the same function.
func targetOf(ci ssa.CallInstruction) *ssa.Function {
	cc := ci.Common()
	if f := cc.StaticCallee(); f != nil {
		return f
	}
	if f := closureOf(cc); f != nil {
		return f
	}
	return nil
}

// boundTarget: for a bound-method wrapper, the method it calls.
func boundTarget(w *ssa.Function) *ssa.Function {
	for _, b := range w.Blocks {
		for _, ins := range b.Instrs {
			if ci, ok := ins.(ssa.CallInstruction); ok {
				if f := ci.Common().StaticCallee(); f != nil {
					return f
				}
			}
		}
	}
	return nil
}

// ---- RESTRICT-asi ------------------------------------------------------------------------------------------------------

func init() {
	register(&Rule{ID: "RESTRICT-asi", Props: []string{"C03"}, Min: 5,
		Doc: "P (ES5 §7.9.1, the restricted productions): after `return`, `break`, `continue` and `throw`, and between an operand and a postfix `++` / `--`, no line terminator may occur; one that does ends the statement (is an error for throw). In each of the five parser functions that build those nodes, the step that takes the operand (parseExpression for return / throw, parseIdentifier for a break / continue label, building the postfix UnaryExpression) is unreachable from the side of a test of the scanner's newline flag (parser.implicitSemicolon) on which a line terminator was seen, and reachable from the other side",
		Run: ruleRestrictASI})
}

func ruleRestrictASI(c *Ctx, r *R) {
	astPath := ottoPath + "/ast"
	type site struct {
		what   string
		fn     *ssa.Function
		anchor ssa.Instruction
	}
	var sites []site
	for _, fn := range c.AllSrcFuncs("parser") {
		if fn.Parent() != nil {
			continue
		}
		allocs := map[string]*ssa.Alloc{}
		for _, b := range fn.Blocks {
			for _, ins := range b.Instrs {
				if al, ok := ins.(*ssa.Alloc); ok && al.Heap {
					if n := derefNamed(al.Type()); n != nil && n.Obj().Pkg() != nil && n.Obj().Pkg().Path() == astPath {
						allocs[n.Obj().Name()] = al
					}
				}
			}
		}
		callTo := func(name string) ssa.Instruction {
			var first ssa.Instruction
			for _, b := range fn.Blocks {
				for _, ins := range b.Instrs {
					if call, ok := ins.(*ssa.Call); ok {
						if callee := call.Call.StaticCallee(); callee != nil && callee.Name() == name && first == nil {
							first = call
						}
					}
				}
			}
			return first
		}
		if allocs["ReturnStatement"] != nil {
			sites = append(sites, site{"return", fn, callTo("parseExpression")})
		}
		if allocs["ThrowStatement"] != nil {
			sites = append(sites, site{"throw", fn, callTo("parseExpression")})
		}
		if allocs["BranchStatement"] != nil {
			what := "break/continue"
			for _, b := range fn.Blocks {
				for _, ins := range b.Instrs {
					if st, ok := ins.(*ssa.Store); ok {
						if nt, f := fieldOfAddr(st.Addr); nt != nil && nt.Obj().Name() == "BranchStatement" && f.Name() == "Token" {
							if k, ok := st.Val.(*ssa.Const); ok {
								if nt2, ok := k.Type().(*types.Named); ok {
									if v, ok := constInt(k); ok {
										what = strings.ToLower(tokenNameOf(nt2, v))
									}
								}
							}
						}
					}
				}
			}
			sites = append(sites, site{what, fn, callTo("parseIdentifier")})
		}
		if al := allocs["UnaryExpression"]; al != nil {
			for _, ref := range *al.Referrers() {
				if fa, ok := ref.(*ssa.FieldAddr); ok {
					if _, f := fieldOfAddr(fa); f != nil && f.Name() == "Postfix" {
						for _, r2 := range *fa.Referrers() {
							if st, ok := r2.(*ssa.Store); ok {
								if k, ok := st.Val.(*ssa.Const); ok && k.Value != nil && k.Value.ExactString() == "true" {
									sites = append(sites, site{"postfix ++/--", fn, al})
								}
							}
						}
					}
				}
			}
		}
	}
	seen := map[string]bool{}
	for _, s := range sites {
		key := s.what + ":" + ssaFuncName(s.fn)
		seen[s.what] = true
		if s.anchor == nil {
			r.undecided(key, c.Pos(s.fn.Pos()), "UNRESOLVED: the step that takes the operand was not found")
			continue
		}
		// tests of the newline flag in this function
		derivesFromFlag := func(v ssa.Value) bool {
			isFlag := func(x ssa.Value) bool {
				a := loadAddr(x)
				return a != nil && isFieldAddr(a, "parser", "implicitSemicolon")
			}
			if isFlag(v) {
				return true
			}
			if phi, ok := v.(*ssa.Phi); ok {
				has := false
				for _, e := range phi.Edges {
					if isFlag(e) {
						has = true
					} else if k, ok := e.(*ssa.Const); !ok || k.Value == nil || k.Value.ExactString() != "true" {
						return false
					}
				}
				return has
			}
			return false
		}
		okSite := false
		for _, b := range s.fn.Blocks {
			iff, ok := b.Instrs[len(b.Instrs)-1].(*ssa.If)
			if !ok {
				continue
			}
			cond, neg := normBool(iff.Cond)
			if !derivesFromFlag(cond) {
				continue
			}
			newline, other := b.Succs[0], b.Succs[1]
			if neg {
				newline, other = other, newline
			}
			cut := map[*ssa.BasicBlock]bool{b: true}
			fromNewline := newline == s.anchor.Block() || reaches(newline, s.anchor.Block(), cut)
			fromOther := other == s.anchor.Block() || reaches(other, s.anchor.Block(), cut)
			if !fromNewline && fromOther {
				okSite = true
				// for the postfix operators the operand has been parsed already when the test is made: with a line
				// terminator before `++` the operand ends the statement and must not be judged as an assignment target
				// (`a = b()\n++c` is two statements), so every error report of the function sits on the no-newline side
				if s.what == "postfix ++/--" && len(other.Preds) == 1 {
					for _, b2 := range s.fn.Blocks {
						for _, i2 := range b2.Instrs {
							call, ok := i2.(*ssa.Call)
							if !ok || call.Call.StaticCallee() == nil {
								continue
							}
							switch call.Call.StaticCallee().Name() {
							case "error", "errorUnexpected", "errorUnexpectedToken":
								if !other.Dominates(b2) {
									r.bad(key+":early-error", c.Pos(instrPos(call)), fmt.Sprintf("%s reports an error about the operand of a postfix operator before (or regardless of) the test of the newline flag: `a = b()\n++c` - a call expression, then a prefix increment on the next line (7.9.1: no LineTerminator between operand and postfix operator) - is rejected as an invalid assignment target", ssaFuncName(s.fn)))
								}
							}
						}
					}
				}
			}
		}
		r.check(okSite, key, c.Pos(instrPos(s.anchor)), "the operand is taken only when no line terminator was seen", fmt.Sprintf("§7.9.1: in %s the operand of %s is taken without a test of the scanner's newline flag that excludes it after a line terminator: `%s` followed by a newline must end the statement there (for throw: be an error), so the next line is not its operand", ssaFuncName(s.fn), s.what, s.what))
	}
	for _, w := range []string{"return", "throw", "break", "continue", "postfix ++/--"} {
		if !seen[w] {
			r.undecided("unresolved:"+w, "-", "UNRESOLVED: no parser function builds the node for "+w)
		}
	}
}

// ---- PAIR-delimiters ---------------------------------------------------------------------------------------------------

func init() {
	register(&Rule{ID: "PAIR-delimiters", Props: []string{"C04", "C03"}, Min: 12,
		Doc: "P (sibling agreement over the parser functions): a parser function that consumes an opening delimiter with expect(LEFT_BRACE / LEFT_PARENTHESIS / LEFT_BRACKET) consumes the matching closing delimiter with expect(RIGHT_...) on every path to a return on which no error was recorded. A function that leaves its loop at end of input and returns without the closing expect accepts a truncated construct (`switch (x) { case 1: y();`) - the program runs although it is not ES5, and the node's closing position stays 0",
		Run: rulePairDelimiters})
}

func rulePairDelimiters(c *Ctx, r *R) {
	closing := map[string]string{"LEFT_BRACE": "RIGHT_BRACE", "LEFT_PARENTHESIS": "RIGHT_PARENTHESIS", "LEFT_BRACKET": "RIGHT_BRACKET"}
	tokOf := func(call *ssa.Call) string {
		if len(call.Call.Args) < 2 {
			return ""
		}
		k, ok := call.Call.Args[1].(*ssa.Const)
		if !ok {
			return ""
		}
		nt, ok := k.Type().(*types.Named)
		if !ok {
			return ""
		}
		v, ok := constInt(k)
		if !ok {
			return ""
		}
		return tokenNameOf(nt, v)
	}
	for _, fn := range c.AllSrcFuncs("parser") {
		if fn.Parent() != nil {
			continue
		}
		type site struct {
			call *ssa.Call
			tok  string
		}
		var opens []site
		isExpect := func(ins ssa.Instruction) (*ssa.Call, string) {
			call, ok := ins.(*ssa.Call)
			if !ok {
				return nil, ""
			}
			callee := call.Call.StaticCallee()
			if callee == nil || callee.Name() != "expect" {
				return nil, ""
			}
			return call, tokOf(call)
		}
		isErr := func(ins ssa.Instruction) bool {
			call, ok := ins.(*ssa.Call)
			if !ok {
				return false
			}
			callee := call.Call.StaticCallee()
			if callee == nil {
				return false
			}
			switch callee.Name() {
			case "error", "errorUnexpected", "errorUnexpectedToken", "nextStatement":
				return true
			}
			return false
		}
		for _, b := range fn.Blocks {
			for _, ins := range b.Instrs {
				if call, tok := isExpect(ins); call != nil && closing[tok] != "" {
					opens = append(opens, site{call, tok})
				}
			}
		}
		ord := map[string]int{}
		for _, op := range opens {
			want := closing[op.tok]
			ord[op.tok]++
			key := fmt.Sprintf("%s:%s#%d", ssaFuncName(fn), op.tok, ord[op.tok])
			// a helper closes the delimiter when every error-free path through it passes expect(want)
			var closes func(g *ssa.Function, depth int) bool
			closes = func(g *ssa.Function, depth int) bool {
				if g == nil || g.Blocks == nil || depth > 2 {
					return false
				}
				open := false
				seenG := map[*ssa.BasicBlock]bool{}
				var w func(b *ssa.BasicBlock)
				w = func(b *ssa.BasicBlock) {
					if seenG[b] || open {
						return
					}
					seenG[b] = true
					for _, ins := range b.Instrs {
						if _, tok := isExpect(ins); tok == want {
							return
						}
						if isErr(ins) {
							return
						}
						if call, ok := ins.(*ssa.Call); ok {
							if callee := call.Call.StaticCallee(); callee != nil && callee != g && closes(callee, depth+1) {
								return
							}
						}
						if _, ok := ins.(*ssa.Return); ok {
							open = true
							return
						}
					}
					for _, s := range b.Succs {
						w(s)
					}
				}
				w(g.Blocks[0])
				return !open
			}
			// forward walk from the opening expect
			var bad ssa.Instruction
			seen := map[*ssa.BasicBlock]bool{}
			var walk func(b *ssa.BasicBlock, start int)
			walk = func(b *ssa.BasicBlock, start int) {
				if bad != nil {
					return
				}
				for i := start; i < len(b.Instrs); i++ {
					ins := b.Instrs[i]
					if _, tok := isExpect(ins); tok == want {
						return
					}
					if call, ok := ins.(*ssa.Call); ok {
						if callee := call.Call.StaticCallee(); callee != nil && callee.Pkg == fn.Pkg && callee.Name() != "expect" && closes(callee, 0) {
							return
						}
					}
					if isErr(ins) {
						return
					}
					if _, ok := ins.(*ssa.Return); ok {
						bad = ins
						return
					}
				}
				for _, s := range b.Succs {
					if !seen[s] {
						seen[s] = true
						walk(s, 0)
					}
				}
			}
			idx := 0
			for i, ins := range op.call.Block().Instrs {
				if ins == ssa.Instruction(op.call) {
					idx = i
				}
			}
			walk(op.call.Block(), idx+1)
			if bad == nil {
				r.ok(key, c.Pos(instrPos(op.call)), "closed by expect("+want+") on every error-free path")
			} else if why, ok := pairDelimitersReviewed[ssaFuncName(fn)+":"+op.tok]; ok {
				r.ok("reviewed:"+key, c.Pos(instrPos(op.call)), why)
			} else {
				r.bad(key, c.Pos(instrPos(bad)), fmt.Sprintf("%s consumes %s with expect but can return (at %s) without expect(%s) and without having recorded an error: a construct cut off before its closing delimiter is accepted", ssaFuncName(fn), op.tok, c.Pos(instrPos(bad)), want))
			}
		}
	}
}

var pairDelimitersReviewed = map[string]string{}

// ---- LEX-peek ------------------------------------------------------------------------------------------------------------

func init() {
	register(&Rule{ID: "LEX-peek", Props: []string{"C03", "C04"}, Min: 1,
		Doc: "T (sibling agreement): the scanner's read() consumes the byte at p.offset and peek() must look at that same byte - the character the next read() will return. Both index the source string; the index expressions must be the same load of the offset field (no added constant), for every scanner of package parser that has a peek(). An offset that is one too far makes `CR x LF` (a lone carriage return, one character, a line feed) lose the character: `5 +<CR>1<LF>+ 2` evaluates to 7",
		Run: ruleLexPeek})
}

func ruleLexPeek(c *Ctx, r *R) {
	n := 0
	for _, fn := range c.AllSrcFuncs("parser") {
		if fn.Name() != "peek" || fn.Signature.Recv() == nil {
			continue
		}
		// the sibling read() of the same receiver type
		var read *ssa.Function
		for _, g := range c.AllSrcFuncs("parser") {
			if g.Name() == "read" && g.Signature.Recv() != nil && types.Identical(g.Signature.Recv().Type(), fn.Signature.Recv().Type()) {
				read = g
			}
		}
		key := ssaFuncName(fn)
		if read == nil {
			r.undecided("unresolved:"+key, c.Pos(fn.Pos()), "UNRESOLVED: no read() sibling of "+key)
			continue
		}
		idxOf := func(f *ssa.Function) (string, bool) {
			for _, b := range f.Blocks {
				for _, ins := range b.Instrs {
					var idx ssa.Value
					switch x := ins.(type) {
					case *ssa.Index:
						idx = x.Index
					case *ssa.Lookup:
						idx = x.Index
					}
					if idx == nil {
						continue
					}
					if ld, ok := idx.(*ssa.UnOp); ok && ld.Op == token.MUL {
						if _, f := fieldOfAddr(ld.X); f != nil {
							return "p." + f.Name(), true
						}
					}
					if bo, ok := idx.(*ssa.BinOp); ok {
						return "p.offset " + bo.Op.String() + " " + bo.Y.Name(), true
					}
					return idx.Name(), true
				}
			}
			return "", false
		}
		pi, ok1 := idxOf(fn)
		ri, ok2 := idxOf(read)
		if !ok1 || !ok2 {
			r.undecided("unresolved:index:"+key, c.Pos(fn.Pos()), "UNRESOLVED: no string index in peek / read")
			continue
		}
		n++
		r.check(pi == ri, key, c.Pos(fn.Pos()), "peek and read index the source at "+ri,
			fmt.Sprintf("%s looks at str[%s] while read() consumes str[%s]: peek does not return the character the next read() returns", key, pi, ri))
	}
	if n == 0 {
		r.undecided("unresolved:peek", "-", "UNRESOLVED: no peek() method in package parser")
	}
}

// ---- LEX-comment-newline -------------------------------------------------------------------------------------------------

func init() {
	register(&Rule{ID: "LEX-comment-newline", Props: []string{"C03", "C04"}, Min: 2,
		Doc: "G: ES5 7.4 - a MultiLineComment that contains a line terminator is a LineTerminator for the syntactic grammar, so automatic semicolon insertion and the restricted productions (`return /*\\n*/ 1`) see it. Every scanner function that consumes a multi-line comment (it compares consecutive characters with '*' and '/') tests the characters it consumes with isLineTerminator and reports the result to its caller, and scan - their caller - stores implicitSemicolon = true on a path that depends on that result",
		Run: ruleLexCommentNewline})
}

func ruleLexCommentNewline(c *Ctx, r *R) {
	isLT := func(f *ssa.Function) bool { return f != nil && f.Name() == "isLineTerminator" }
	var scanners []*ssa.Function
	for _, fn := range c.AllSrcFuncs("parser") {
		if fn.Signature.Recv() == nil || !typeIs(fn.Signature.Recv().Type(), ottoPath+"/parser", "parser") {
			continue
		}
		// consumes a multi-line comment: compares a character with '*' and the next with '/' in a loop, calling read()
		star, slash, reads := false, false, false
		for _, b := range fn.Blocks {
			for _, ins := range b.Instrs {
				if bo, ok := ins.(*ssa.BinOp); ok && bo.Op == token.EQL {
					if k, ok := constInt(bo.Y); ok {
						if k == '*' {
							star = true
						}
						if k == '/' {
							slash = true
						}
					}
				}
				if call, ok := ins.(*ssa.Call); ok && call.Call.StaticCallee() != nil && call.Call.StaticCallee().Name() == "read" {
					reads = true
				}
			}
		}
		if star && slash && reads && len(fn.Blocks) > 3 && fn.Name() != "scan" {
			scanners = append(scanners, fn)
		}
	}
	if len(scanners) == 0 {
		r.undecided("unresolved:comment-scanners", "-", "UNRESOLVED: no multi-line comment scanner found in package parser")
		return
	}
	for _, fn := range scanners {
		tests := false
		for _, b := range fn.Blocks {
			for _, ins := range b.Instrs {
				if call, ok := ins.(*ssa.Call); ok && isLT(call.Call.StaticCallee()) {
					tests = true
				}
			}
		}
		reports := false
		res := fn.Signature.Results()
		for i := 0; i < res.Len(); i++ {
			if b, ok := res.At(i).Type().Underlying().(*types.Basic); ok && b.Kind() == types.Bool {
				reports = true
			}
		}
		r.check(tests && reports, "scanner:"+fn.Name(), c.Pos(fn.Pos()), "tests the consumed characters with isLineTerminator and returns the answer",
			fmt.Sprintf("%s consumes a multi-line comment without noticing the line terminators in it (or without telling its caller): `return /*\\n*/ 1` returns 1, `var a = 1 /*\\n*/ var b` is a syntax error", fn.Name()))
	}
	// scan: a store of implicitSemicolon = true that is control-dependent on the result of a comment scanner
	var scan *ssa.Function
	for _, fn := range c.AllSrcFuncs("parser") {
		if fn.Name() == "scan" && fn.Signature.Recv() != nil && typeIs(fn.Signature.Recv().Type(), ottoPath+"/parser", "parser") {
			scan = fn
		}
	}
	if scan == nil {
		r.undecided("unresolved:scan", "-", "UNRESOLVED: (*parser).scan")
		return
	}
	isScannerResult := func(v ssa.Value, d int) bool { return false }
	var dep func(v ssa.Value, d int) bool
	dep = func(v ssa.Value, d int) bool {
		if d > 6 {
			return false
		}
		switch x := v.(type) {
		case *ssa.Call:
			for _, s := range scanners {
				if x.Call.StaticCallee() == s {
					return true
				}
			}
		case *ssa.Extract:
			return dep(x.Tuple, d+1)
		case *ssa.Phi:
			for _, e := range x.Edges {
				if dep(e, d+1) {
					return true
				}
			}
		case *ssa.BinOp:
			return dep(x.X, d+1) || dep(x.Y, d+1)
		case *ssa.UnOp:
			return dep(x.X, d+1)
		}
		return false
	}
	_ = isScannerResult
	ok := false
	// in scan itself or in a helper that only scan calls (the comment arm extracted into a method)
	family := []*ssa.Function{scan}
	for _, fn := range c.AllSrcFuncs("parser") {
		if fn != scan && fn.Parent() == nil && c.partOf(fn, "scan", 0) {
			isScanner := false
			for _, s := range scanners {
				isScanner = isScanner || s == fn
			}
			if !isScanner {
				family = append(family, fn)
			}
		}
	}
	for _, fam := range family {
		for _, b := range fam.Blocks {
			for _, ins := range b.Instrs {
				st, isStore := ins.(*ssa.Store)
				if !isStore || !isFieldAddr(st.Addr, "parser", "implicitSemicolon") {
					continue
				}
				if k, isK := st.Val.(*ssa.Const); !isK || k.Value == nil || k.Value.ExactString() != "true" {
					continue
				}
				// some dominating branch tests a value derived from a comment scanner's result
				for d := b; d != nil; d = d.Idom() {
					if iff, isIf := d.Instrs[len(d.Instrs)-1].(*ssa.If); isIf && d != b && dep(iff.Cond, 0) {
						ok = true
					}
				}
			}
		}
	}
	r.check(ok, "scan:implicit-semicolon", c.Pos(scan.Pos()), "scan raises implicitSemicolon when a comment scanner reports a line terminator",
		"scan never stores implicitSemicolon = true under a test of what the comment scanners report: a line terminator inside a multi-line comment is invisible to automatic semicolon insertion (ES5 7.4)")
}

// ---- ASI-dotmember -------------------------------------------------------------------------------------------------------

func init() {
	register(&Rule{ID: "ASI-dotmember", Props: []string{"C03"}, Min: 1,
		Doc: "P: the scanner arms automatic semicolon insertion (insertSemicolon) per token kind and leaves it unarmed for reserved words; after `.` a reserved word is an IdentifierName (ES5 11.2.1, 7.6) and ends an expression like any other name. In every parser function that builds an ast.DotExpression, the next() call that consumes the property name is preceded on its path by a store insertSemicolon = true; otherwise `var f = o.delete<LF>f` is a syntax error",
		Run: ruleAsiDotMember})
}

func ruleAsiDotMember(c *Ctx, r *R) {
	n := 0
	for _, fn := range c.AllSrcFuncs("parser") {
		var alloc *ssa.Alloc
		for _, b := range fn.Blocks {
			for _, ins := range b.Instrs {
				if al, ok := ins.(*ssa.Alloc); ok && typeIs(al.Type(), ottoPath+"/ast", "DotExpression") {
					alloc = al
				}
			}
		}
		if alloc == nil {
			continue
		}
		n++
		// the last next() call that dominates the allocation
		var consume *ssa.Call
		for _, b := range fn.Blocks {
			for _, ins := range b.Instrs {
				call, ok := ins.(*ssa.Call)
				if !ok || call.Call.StaticCallee() == nil || call.Call.StaticCallee().Name() != "next" {
					continue
				}
				if b == alloc.Block() || b.Dominates(alloc.Block()) {
					consume = call
				}
			}
		}
		key := ssaFuncName(fn)
		if consume == nil {
			r.undecided("unresolved:"+key, c.Pos(fn.Pos()), "UNRESOLVED: no next() call dominating the DotExpression in "+key)
			continue
		}
		armed := !reachableWithout(fn, consume, func(i ssa.Instruction) bool {
			st, ok := i.(*ssa.Store)
			if !ok || !isFieldAddr(st.Addr, "parser", "insertSemicolon") {
				return false
			}
			k, ok := st.Val.(*ssa.Const)
			return ok && k.Value != nil && k.Value.ExactString() == "true"
		})
		r.check(armed, key, c.Pos(instrPos(consume)), "insertSemicolon is set before the property name is consumed",
			key+" consumes the property name of a dot member without arming automatic semicolon insertion: when the name is a reserved word the scanner has not armed it either, so `var f = o.delete<LF>f` fails with `Unexpected identifier`")
	}
	if n == 0 {
		r.undecided("unresolved:dot-expression", "-", "UNRESOLVED: no parser function builds an ast.DotExpression")
	}
}

// ---- LEX-regexp-flags ----------------------------------------------------------------------------------------------------

func init() {
	register(&Rule{ID: "LEX-regexp-flags", Props: []string{"C03", "C04"}, Min: 1,
		Doc: "G: ES5 7.8.5 - RegularExpressionFlags are the IdentifierPart characters that follow the closing `/` immediately; they are part of the literal's token. In the parser function that builds an ast.RegExpLiteral the Flags field must not be the literal of a token obtained from the general tokeniser (a load of parser.literal after a call of next()), which skips white space, comments and line terminators first: `var re = /a/<LF>g` would take the identifier of the next line as flags",
		Run: ruleLexRegexpFlags})
}

func ruleLexRegexpFlags(c *Ctx, r *R) {
	n := 0
	for _, fn := range c.AllSrcFuncs("parser") {
		for _, b := range fn.Blocks {
			for _, ins := range b.Instrs {
				st, ok := ins.(*ssa.Store)
				if !ok || !isFieldAddr(st.Addr, "RegExpLiteral", "Flags") {
					continue
				}
				n++
				fromToken := false
				var walk func(v ssa.Value, d int)
				walk = func(v ssa.Value, d int) {
					if d > 6 {
						return
					}
					switch x := v.(type) {
					case *ssa.Phi:
						for _, e := range x.Edges {
							walk(e, d+1)
						}
					case *ssa.UnOp:
						if x.Op == token.MUL && isFieldAddr(x.X, "parser", "literal") {
							fromToken = true
						}
					}
				}
				walk(st.Val, 0)
				key := ssaFuncName(fn)
				if fromToken {
					// second obligation (7.9.1, valid programs): at least the token is not taken across a line terminator -
					// every edge on which the token's literal arrives is dominated by a test of the implicit-semicolon mark
					// the scanner leaves when it crosses one (or of the token's position)
					guarded := true
					seen := map[ssa.Value]bool{}
					var edges func(v ssa.Value, from *ssa.BasicBlock)
					edges = func(v ssa.Value, from *ssa.BasicBlock) {
						if seen[v] {
							return
						}
						seen[v] = true
						if phi, ok := v.(*ssa.Phi); ok {
							for i, e := range phi.Edges {
								edges(e, phi.Block().Preds[i])
							}
							return
						}
						if u, ok := v.(*ssa.UnOp); !ok || u.Op != token.MUL || !isFieldAddr(u.X, "parser", "literal") {
							return
						}
						found := false
						for _, d := range fn.Blocks {
							iff, ok := d.Instrs[len(d.Instrs)-1].(*ssa.If)
							if ok && d.Dominates(from) && mentionsParserField(iff.Cond, 0, "implicitSemicolon", "idx") {
								found = true
							}
						}
						if !found {
							guarded = false
						}
					}
					edges(st.Val, b)
					r.check(guarded, key+":line-break", c.Pos(instrPos(st)), "the next token is taken as the flags only under a test of the line break in front of it",
						key+" takes the identifier token that follows a regular expression literal as its flags without asking whether the scanner crossed a line terminator in front of it: the valid program `var re = /a+/<LF>found = 1` is parsed as the literal /a+/found and the assignment is lost or rejected (ES5 7.8.5, 7.9.1)")
				}
				r.check(!fromToken, key, c.Pos(instrPos(st)), "the flags are not taken from a token of the general tokeniser",
					key+" takes the flags of a regular-expression literal from the next token of the general tokeniser (p.literal after next()): white space, comments and line terminators between the closing `/` and an identifier are skipped, so `var g = 0<LF>var re = /a/<LF>g` gives re.global === true and `re = /ab+c/<LF>i = 1` is a syntax error (ES5 7.8.5: the flags follow the `/` immediately)")
			}
		}
	}
	if n == 0 {
		r.undecided("unresolved:flags-store", "-", "UNRESOLVED: no store to ast.RegExpLiteral.Flags in package parser")
	}
}

// mentionsParserField: the value is computed from a load of one of the named fields of the parser.
func mentionsParserField(v ssa.Value, depth int, names ...string) bool {
	if depth > 5 || v == nil {
		return false
	}
	switch x := v.(type) {
	case *ssa.UnOp:
		if x.Op == token.MUL {
			for _, n := range names {
				if isFieldAddr(x.X, "parser", n) {
					return true
				}
			}
		}
		return mentionsParserField(x.X, depth+1, names...)
	case *ssa.BinOp:
		return mentionsParserField(x.X, depth+1, names...) || mentionsParserField(x.Y, depth+1, names...)
	case *ssa.Phi:
		for _, e := range x.Edges {
			if mentionsParserField(e, depth+1, names...) {
				return true
			}
		}
	case *ssa.Convert:
		return mentionsParserField(x.X, depth+1, names...)
	case *ssa.Call:
		for _, a := range x.Call.Args {
			if mentionsParserField(a, depth+1, names...) {
				return true
			}
		}
	}
	return false
}

// ---- PARSE-key -----------------------------------------------------------------------------------------------------------

func init() {
	register(&Rule{ID: "PARSE-key", Props: []string{"C04"}, Min: 1,
		Doc: "P (path-based): the parser function that reads an object literal's PropertyName returns the key it derived from the token, or has reported a syntax error: no path reaches its return with the key still the empty constant it was initialised with and without a call of the parser's error reporters. Otherwise any token - a punctuator, an unterminated string, end of input - is swallowed as a property named \"\": `({+: 1})` parses",
		Run: ruleParseKey})
}

func ruleParseKey(c *Ctx, r *R) {
	var fn *ssa.Function
	for _, f := range c.AllSrcFuncs("parser") {
		if f.Name() == "parseObjectPropertyKey" {
			fn = f
		}
	}
	if fn == nil {
		r.undecided("unresolved:parseObjectPropertyKey", "-", "UNRESOLVED: parser.(*parser).parseObjectPropertyKey")
		return
	}
	isErr := func(i ssa.Instruction) bool {
		call, ok := i.(*ssa.Call)
		if !ok || call.Call.StaticCallee() == nil {
			return false
		}
		switch call.Call.StaticCallee().Name() {
		case "error", "errorUnexpected", "errorUnexpectedToken", "expect":
			return true
		}
		return false
	}
	n := 0
	bad := ""
	for _, b := range fn.Blocks {
		ret, ok := b.Instrs[len(b.Instrs)-1].(*ssa.Return)
		if !ok || len(ret.Results) < 2 {
			continue
		}
		phi, ok := ret.Results[1].(*ssa.Phi)
		if !ok {
			continue
		}
		for i, e := range phi.Edges {
			k, ok := e.(*ssa.Const)
			if !ok || k.Value == nil || k.Value.ExactString() != `""` {
				continue
			}
			n++
			pred := phi.Block().Preds[i]
			last := pred.Instrs[len(pred.Instrs)-1]
			if reachableWithout(fn, last, isErr) {
				bad = c.Pos(instrPos(last))
			}
		}
	}
	if n == 0 {
		r.undecided("unresolved:key-phi", c.Pos(fn.Pos()), "UNRESOLVED: the returned key of parseObjectPropertyKey is not a merge that includes the empty constant")
		return
	}
	r.check(bad == "", "key-or-error", c.Pos(fn.Pos()), "every path that leaves the key empty reports an error",
		"parseObjectPropertyKey can return an empty key without reporting an error (path through "+bad+"): a punctuator or an illegal token is swallowed as a property named \"\" - `({+: 1})` and `({/: 1})` parse")
}

// ---- ASI-token-flag -------------------------------------------------------------------------------------------------------

func init() {
	register(&Rule{ID: "ASI-token-flag", Props: []string{"C03"}, Min: 5,
		Doc: "P (must-store per token): the scanner's insertSemicolon flag says whether the token just returned may end a statement; skipWhiteSpace consults it at the next line terminator (ES5 7.9.1). It is a property of the token returned, so every return of scan must be preceded, on every path from the start of the scanning iteration, by a store to the flag - a return that leaves it untouched hands the next line terminator the flag of the *previous* token (`a = .5<LF>b = 1` is parsed as one statement when the `.5` path forgets the store). The only returns exempt are those of reserved words, whose token comes from token.IsKeyword (a keyword never ends a statement; the dot-member case is ASI-dotmember's)",
		Run: ruleAsiTokenFlag})
}

func ruleAsiTokenFlag(c *Ctx, r *R) {
	var scan *ssa.Function
	for _, fn := range c.AllSrcFuncs("parser") {
		if fn.Name() == "scan" && fn.Signature.Recv() != nil && typeIs(fn.Signature.Recv().Type(), ottoPath+"/parser", "parser") {
			scan = fn
		}
	}
	if scan == nil {
		r.undecided("unresolved:scan", "-", "UNRESOLVED: (*parser).scan")
		return
	}
	// the start of an iteration: the block that calls skipWhiteSpace
	var start *ssa.BasicBlock
	for _, b := range scan.Blocks {
		for _, ins := range b.Instrs {
			if call, ok := ins.(*ssa.Call); ok && call.Call.StaticCallee() != nil && call.Call.StaticCallee().Name() == "skipWhiteSpace" {
				start = b
			}
		}
	}
	if start == nil {
		r.undecided("unresolved:iteration", c.Pos(scan.Pos()), "UNRESOLVED: scan does not call skipWhiteSpace")
		return
	}
	isFlagStore := func(i ssa.Instruction) bool {
		st, ok := i.(*ssa.Store)
		return ok && isFieldAddr(st.Addr, "parser", "insertSemicolon")
	}
	fromKeyword := func(v ssa.Value) bool {
		seen := map[ssa.Value]bool{}
		var walk func(v ssa.Value) bool
		walk = func(v ssa.Value) bool {
			if seen[v] {
				return false
			}
			seen[v] = true
			switch x := v.(type) {
			case *ssa.Extract:
				if call, ok := x.Tuple.(*ssa.Call); ok && call.Call.StaticCallee() != nil && call.Call.StaticCallee().Name() == "IsKeyword" {
					return true
				}
			case *ssa.Phi:
				for _, e := range x.Edges {
					if walk(e) {
						return true
					}
				}
			case *ssa.Const:
				// token.KEYWORD itself
				if n, ok := constInt(x); ok {
					if kw := c.Pkg("token").Types.Scope().Lookup("KEYWORD"); kw != nil {
						if kc, ok := kw.(*types.Const); ok {
							if kv, ok2 := constantInt64(kc); ok2 && kv == n {
								return true
							}
						}
					}
				}
			}
			return false
		}
		return walk(v)
	}
	n, ord := 0, 0
	for _, b := range scan.Blocks {
		ret, ok := b.Instrs[len(b.Instrs)-1].(*ssa.Return)
		if !ok || len(ret.Results) == 0 {
			continue
		}
		n++
		ord++
		key := fmt.Sprintf("return#%d", ord)
		if k, ok := constInt(ret.Results[0]); ok {
			if nt, ok := ret.Results[0].Type().(*types.Named); ok {
				if name := tokenNameOf(nt, k); name != "" {
					key = "return:" + name
				}
			}
		}
		if fromKeyword(ret.Results[0]) {
			r.ok(key+":keyword", c.Pos(ret.Pos()), "returns a reserved word: exempt")
			continue
		}
		// path from start to this return without a flag store
		seen := map[*ssa.BasicBlock]bool{}
		var dfs func(x *ssa.BasicBlock, first bool) bool
		dfs = func(x *ssa.BasicBlock, first bool) bool {
			if seen[x] && !first {
				return false
			}
			seen[x] = true
			for _, ins := range x.Instrs {
				if ins == ssa.Instruction(ret) {
					return true
				}
				if isFlagStore(ins) {
					return false
				}
			}
			for _, s := range x.Succs {
				if s == start {
					continue // next iteration: a new token
				}
				if dfs(s, false) {
					return true
				}
			}
			return false
		}
		stale := dfs(start, true)
		r.check(!stale, key, c.Pos(ret.Pos()), "the flag is stored on every path of the iteration that ends in this return",
			fmt.Sprintf("scan can return (at %s) without having stored insertSemicolon in this iteration: the flag of the previous token decides whether the next line terminator ends the statement (`a = .5<LF>b = 1` becomes one statement if the `.5` path leaves it unset)", c.Pos(ret.Pos())))
	}
	if n < 3 {
		r.undecided("unresolved:returns", c.Pos(scan.Pos()), fmt.Sprintf("UNRESOLVED: scan has %d returns", n))
	}
}
