package main

import (
	"fmt"
	"go/constant"
	"go/token"
	"go/types"
	"sort"

	"golang.org/x/tools/go/ssa"
)

func init() {
	register(&Rule{ID: "UNIT-mix", Props: []string{"C09", "C10"}, Min: 25,
		Doc: "P (unit-typed dataflow over the string and regexp built-ins): integer values carry a unit - Bytes (len of a Go string/[]byte, strings.Index*, regexp match offsets), U16 (UTF-16 code units: positions received from scripts, utf16 lengths) or Runes (len of []rune, utf8.RuneCount*). A sink that needs one unit (slicing/indexing a string or []byte needs Bytes, a []rune Runes, a []uint16 U16; positions handed back to scripts - indexOf/lastIndexOf/search results and lastIndex writes - need U16) must not receive a different known unit, and + - and comparisons must not combine two different known units. Unknown operands never alarm: only a definite mix is reported, and a definite mix is wrong for some non-ASCII string",
		Run: ruleUnitMix})
}

type unit int

const (
	uUnknown unit = iota
	uBytes
	uU16
	uRunes
	uTop
)

func (u unit) String() string {
	return [...]string{"unknown", "bytes", "UTF-16 units", "runes", "mixed"}[u]
}

func joinUnit(a, b unit) unit {
	switch {
	case a == uUnknown:
		return b
	case b == uUnknown:
		return a
	case a == b:
		return a
	}
	return uTop
}

type unitAnalysis struct {
	c        *Ctx
	memo     map[ssa.Value]unit
	busy     map[ssa.Value]bool
	retMemo  map[*ssa.Function]unit
	scriptFn map[*ssa.Function]bool // functions in which script positions are seeded
}

func elemUnitOfContainer(t types.Type) unit {
	switch x := t.Underlying().(type) {
	case *types.Basic:
		if x.Info()&types.IsString != 0 {
			return uBytes
		}
	case *types.Slice:
		if b, ok := x.Elem().Underlying().(*types.Basic); ok {
			switch b.Kind() {
			case types.Uint8:
				return uBytes
			case types.Int32: // rune
				return uRunes
			case types.Uint16:
				return uU16
			}
		}
	}
	return uUnknown
}

func (ua *unitAnalysis) retUnit(fn *ssa.Function, depth int) unit {
	if u, ok := ua.retMemo[fn]; ok {
		return u
	}
	ua.retMemo[fn] = uUnknown
	if fn.Blocks == nil || depth > 3 {
		return uUnknown
	}
	u := uUnknown
	for _, b := range fn.Blocks {
		for _, ins := range b.Instrs {
			if ret, ok := ins.(*ssa.Return); ok && len(ret.Results) >= 1 {
				u = joinUnit(u, ua.of(ret.Results[0], depth+1))
			}
		}
	}
	ua.retMemo[fn] = u
	return u
}

func isIntLike(t types.Type) bool {
	b, ok := t.Underlying().(*types.Basic)
	return ok && (b.Info()&types.IsInteger != 0 || b.Info()&types.IsFloat != 0)
}

func (ua *unitAnalysis) of(v ssa.Value, depth int) unit {
	if v == nil || depth > 12 {
		return uUnknown
	}
	if u, ok := ua.memo[v]; ok {
		return u
	}
	if ua.busy[v] {
		return uUnknown
	}
	ua.busy[v] = true
	defer delete(ua.busy, v)
	u := ua.compute(v, depth)
	ua.memo[v] = u
	return u
}

func (ua *unitAnalysis) compute(v ssa.Value, depth int) unit {
	switch x := v.(type) {
	case *ssa.Const:
		return uUnknown
	case *ssa.Convert:
		return ua.of(x.X, depth+1)
	case *ssa.ChangeType:
		return ua.of(x.X, depth+1)
	case *ssa.Phi:
		u := uUnknown
		for _, e := range x.Edges {
			u = joinUnit(u, ua.of(e, depth+1))
		}
		return u
	case *ssa.BinOp:
		switch x.Op {
		case token.ADD, token.SUB:
			return joinUnit(ua.of(x.X, depth+1), ua.of(x.Y, depth+1))
		}
		return uUnknown
	case *ssa.UnOp:
		if x.Op == token.SUB {
			return ua.of(x.X, depth+1)
		}
		if x.Op == token.MUL {
			// load: local cell -> join of stores; element of a []int of match offsets
			switch a := x.X.(type) {
			case *ssa.Alloc:
				u := uUnknown
				for _, ref := range *a.Referrers() {
					if st, ok := ref.(*ssa.Store); ok && st.Addr == ssa.Value(a) {
						u = joinUnit(u, ua.of(st.Val, depth+1))
					}
				}
				return u
			case *ssa.IndexAddr:
				return ua.sliceElemUnit(a.X, depth+1)
			case *ssa.FieldAddr:
				// field of a struct local (start.int64 of a number() result)
				if al, ok := a.X.(*ssa.Alloc); ok {
					u := uUnknown
					for _, ref := range *al.Referrers() {
						if st, ok := ref.(*ssa.Store); ok && st.Addr == ssa.Value(al) {
							u = joinUnit(u, ua.structFieldUnit(st.Val, a.Field, depth+1))
						}
					}
					return u
				}
			}
		}
		return uUnknown
	case *ssa.Index:
		return ua.sliceElemUnit(x.X, depth+1)
	case *ssa.Field:
		return ua.structFieldUnit(x.X, x.Field, depth+1)
	case *ssa.Extract:
		if call, ok := x.Tuple.(*ssa.Call); ok {
			if callee := call.Call.StaticCallee(); callee != nil && ua.scriptFn[x.Parent()] {
				switch callee.Name() {
				case "rangeStartEnd", "rangeStartLength":
					return uU16 // positions computed from script arguments against a length
				}
			}
		}
		return uUnknown
	case *ssa.Call:
		if bi, ok := x.Call.Value.(*ssa.Builtin); ok {
			if bi.Name() == "len" && len(x.Call.Args) == 1 {
				return elemUnitOfContainer(x.Call.Args[0].Type())
			}
			return uUnknown
		}
		callee := x.Call.StaticCallee()
		if callee == nil {
			if x.Call.IsInvoke() && x.Call.Method.Name() == "Length" {
				return uU16 // stringObjecter.Length(): UTF-16 length by contract
			}
			return uUnknown
		}
		if callee.Pkg != nil {
			switch callee.Pkg.Pkg.Path() {
			case "strings", "bytes":
				switch callee.Name() {
				case "Index", "LastIndex", "IndexByte", "IndexRune", "IndexAny", "LastIndexByte", "LastIndexAny", "IndexFunc":
					return uBytes
				}
			case "unicode/utf8":
				switch callee.Name() {
				case "RuneCountInString", "RuneCount":
					return uRunes
				}
			}
		}
		if ua.scriptFn[x.Parent()] && callee.Name() == "toIntegerFloat" {
			return uU16
		}
		if callee.Pkg != nil && callee.Pkg.Pkg.Path() == ottoPath && isIntLike(x.Type()) {
			return ua.retUnit(callee, depth+1)
		}
		return uUnknown
	}
	return uUnknown
}

// sliceElemUnit: unit of the elements of an []int value: Bytes for regexp match-offset slices.
func (ua *unitAnalysis) sliceElemUnit(s ssa.Value, depth int) unit {
	switch x := s.(type) {
	case *ssa.Call:
		if callee := x.Call.StaticCallee(); callee != nil && callee.Pkg != nil && callee.Pkg.Pkg.Path() == "regexp" {
			switch callee.Name() {
			case "FindStringIndex", "FindStringSubmatchIndex", "FindIndex", "FindSubmatchIndex":
				return uBytes
			}
		}
	case *ssa.Phi:
		u := uUnknown
		for _, e := range x.Edges {
			u = joinUnit(u, ua.sliceElemUnit(e, depth+1))
		}
		return u
	case *ssa.UnOp:
		if al, ok := x.X.(*ssa.Alloc); ok {
			u := uUnknown
			for _, ref := range *al.Referrers() {
				if st, ok := ref.(*ssa.Store); ok && st.Addr == ssa.Value(al) {
					u = joinUnit(u, ua.sliceElemUnit(st.Val, depth+1))
				}
			}
			return u
		}
	case *ssa.Index: // element of [][]int
		if call, ok := x.X.(*ssa.Call); ok {
			if callee := call.Call.StaticCallee(); callee != nil && callee.Pkg != nil && callee.Pkg.Pkg.Path() == "regexp" {
				return uBytes
			}
		}
	case *ssa.Extract: // range over [][]int: the next value
		return uUnknown
	}
	return uUnknown
}

// structFieldUnit: the int64 field of the _number returned by Value.number() on a script argument / lastIndex is a script position.
func (ua *unitAnalysis) structFieldUnit(s ssa.Value, field int, depth int) unit {
	call, ok := s.(*ssa.Call)
	if !ok {
		return uUnknown
	}
	callee := call.Call.StaticCallee()
	if callee == nil || callee.Name() != "number" || !ua.scriptFn[call.Parent()] {
		return uUnknown
	}
	st, ok := call.Type().Underlying().(*types.Struct)
	if !ok || st.Field(field).Name() != "int64" {
		return uUnknown
	}
	// the receiver: an argument, or get("lastIndex")
	switch a := call.Call.Args[0].(type) {
	case *ssa.Call:
		if ac := a.Call.StaticCallee(); ac != nil {
			switch ac.Name() {
			case "Argument":
				return uU16
			case "get":
				if k, ok := a.Call.Args[len(a.Call.Args)-1].(*ssa.Const); ok && k.Value != nil && k.Value.Kind() == constant.String && constant.StringVal(k.Value) == "lastIndex" {
					return uU16
				}
			}
		}
	case *ssa.UnOp: // ArgumentList[i]
		if ia, ok := a.X.(*ssa.IndexAddr); ok {
			if ld := loadAddr(ia.X); ld != nil {
				if _, f := fieldOfAddr(ld); f != nil && f.Name() == "ArgumentList" {
					return uU16
				}
			}
			if fld, ok := ia.X.(*ssa.Field); ok {
				if stt, ok := fld.X.Type().Underlying().(*types.Struct); ok && stt.Field(fld.Field).Name() == "ArgumentList" {
					return uU16
				}
			}
		}
	}
	return uUnknown
}

func ruleUnitMix(c *Ctx, r *R) {
	s := c.Shape()
	ua := &unitAnalysis{c: c, memo: map[ssa.Value]unit{}, busy: map[ssa.Value]bool{}, retMemo: map[*ssa.Function]unit{}, scriptFn: map[*ssa.Function]bool{}}
	// the functions under analysis: bound on String.prototype / RegExp.prototype and their same-package callees (2 levels)
	roots := map[*ssa.Function]string{}
	for _, path := range []string{"String.prototype", "RegExp.prototype"} {
		for name, fn := range s.boundSSA(c, path) {
			roots[fn] = path + "." + name
		}
	}
	work := map[*ssa.Function]string{}
	var queue []*ssa.Function
	for fn, n := range roots {
		work[fn] = n
		queue = append(queue, fn)
	}
	for depth := 0; depth < 2; depth++ {
		var next []*ssa.Function
		for _, fn := range queue {
			for _, b := range fn.Blocks {
				for _, ins := range b.Instrs {
					if call, ok := ins.(*ssa.Call); ok {
						callee := call.Call.StaticCallee()
						if callee != nil && callee.Blocks != nil && callee.Pkg == fn.Pkg && callee.Signature.Recv() == nil {
							if _, seen := work[callee]; !seen {
								work[callee] = work[fn] + " (helper " + callee.Name() + ")"
								next = append(next, callee)
							}
						}
					}
				}
			}
			for _, an := range fn.AnonFuncs {
				if _, seen := work[an]; !seen {
					work[an] = work[fn] + " (closure)"
					next = append(next, an)
				}
			}
		}
		queue = next
	}
	for fn := range work {
		ua.scriptFn[fn] = true
	}
	positionReturning := map[string]bool{"String.prototype.indexOf": true, "String.prototype.lastIndexOf": true, "String.prototype.search": true}
	var fns []*ssa.Function
	for fn := range work {
		fns = append(fns, fn)
	}
	sort.Slice(fns, func(i, j int) bool { return ssaFuncName(fns[i]) < ssaFuncName(fns[j]) })
	sinks := 0
	for _, fn := range fns {
		ord := map[string]int{}
		report := func(kind string, ins ssa.Instruction, detail string, bad bool) {
			sinks++
			base := fmt.Sprintf("%s:%s", ssaFuncName(fn), kind)
			if bad {
				base += ":mixed" // violations are numbered among themselves, so adding a clean sink never renumbers a known finding
			}
			ord[base]++
			key := fmt.Sprintf("%s#%d", base, ord[base])
			if bad {
				r.bad(key, c.Pos(instrPos(ins)), detail+fmt.Sprintf(" [in %s]", work[fn]))
			} else {
				r.ok(key, c.Pos(instrPos(ins)), detail)
			}
		}
		for _, b := range fn.Blocks {
			for _, ins := range b.Instrs {
				switch x := ins.(type) {
				case *ssa.Slice:
					need := elemUnitOfContainer(x.X.Type())
					if need == uUnknown {
						continue
					}
					for _, bound := range []ssa.Value{x.Low, x.High} {
						if bound == nil {
							continue
						}
						got := ua.of(bound, 0)
						bad := got != uUnknown && got != uTop && got != need
						report("slice", ins, fmt.Sprintf("a %s is sliced at an offset measured in %s (needs %s): for a string with non-ASCII characters the cut lands in the wrong place or inside a character", x.X.Type(), got, need), bad)
					}
				case *ssa.Lookup:
					if need := elemUnitOfContainer(x.X.Type()); need != uUnknown && !x.CommaOk {
						got := ua.of(x.Index, 0)
						report("index", ins, fmt.Sprintf("a %s is indexed with an offset measured in %s (needs %s)", x.X.Type(), got, need), got != uUnknown && got != uTop && got != need)
					}
				case *ssa.BinOp:
					switch x.Op {
					case token.ADD, token.SUB, token.LSS, token.LEQ, token.GTR, token.GEQ, token.EQL, token.NEQ:
						if !isIntLike(x.X.Type()) {
							continue
						}
						a, bu := ua.of(x.X, 0), ua.of(x.Y, 0)
						if a == uUnknown || bu == uUnknown || a == uTop || bu == uTop {
							continue
						}
						// ordered comparisons share one key: inverting a condition (`a > b` to `!(a <= b)`) is not a new finding
						opKey := x.Op.String()
						switch x.Op {
						case token.LSS, token.LEQ, token.GTR, token.GEQ:
							opKey = "cmp"
						}
						report(fmt.Sprintf("binop(%s)", opKey), ins, fmt.Sprintf("`%s` combines a value measured in %s with one measured in %s: they agree only for ASCII strings", x.Op, a, bu), a != bu)
					}
				case *ssa.Call:
					callee := x.Call.StaticCallee()
					if callee == nil {
						continue
					}
					// lastIndex writes
					if callee.Name() == "put" && len(x.Call.Args) >= 3 {
						if k, ok := x.Call.Args[1].(*ssa.Const); ok && k.Value != nil && k.Value.Kind() == constant.String && constant.StringVal(k.Value) == "lastIndex" {
							if vc, ok := x.Call.Args[2].(*ssa.Call); ok && len(vc.Call.Args) == 1 {
								got := ua.of(vc.Call.Args[0], 0)
								report("lastIndex-write", ins, fmt.Sprintf("lastIndex is written with a value measured in %s; scripts read it as a UTF-16 code-unit index (ES5 §15.10.6.2)", got), got == uBytes || got == uRunes)
							}
						}
					}
				case *ssa.Return:
					if !positionReturning[roots[fn]] || len(x.Results) != 1 {
						continue
					}
					if vc, ok := x.Results[0].(*ssa.Call); ok && len(vc.Call.Args) == 1 && vc.Call.StaticCallee() != nil {
						switch vc.Call.StaticCallee().Name() {
						case "intValue", "int64Value", "float64Value":
							got := ua.of(vc.Call.Args[0], 0)
							report("position-result", ins, fmt.Sprintf("%s returns a position measured in %s; ES5 §15.5.4 positions are UTF-16 code-unit indices", roots[fn], got), got == uBytes || got == uRunes)
						}
					}
				}
			}
		}
	}
	r.note("functions_analysed", len(fns))
	r.note("sinks", sinks)
}
