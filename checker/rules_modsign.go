package main

import (
	"fmt"
	"go/token"
	"go/types"

	"golang.org/x/tools/go/ssa"
)

func init() {
	register(&Rule{ID: "MOD-sign", Props: []string{"C12", "C06"}, Min: 1,
		Doc: "G (ES5 5.2: `x modulo y` has the sign of y; Go's % has the sign of the dividend): every integer remainder in package otto whose dividend can be negative (a signed integer that is not a length, an unsigned conversion or a constant) is either handed to time.Unix as the nanosecond argument (which normalises it), or is corrected (compared with 0, or `+ m` and a second remainder). A time value before 1970 is negative: `new Date(-1).getUTCMilliseconds()` computed as t % 1000 is -1 where 15.9.1.10 gives 999",
		Run: ruleModSign})
}

func ruleModSign(c *Ctx, r *R) {
	nonNeg := func(v ssa.Value) bool {
		for i := 0; i < 4; i++ {
			switch x := v.(type) {
			case *ssa.Const:
				n, ok := constInt(x)
				return ok && n >= 0
			case *ssa.Convert:
				if bt, ok := x.X.Type().Underlying().(*types.Basic); ok && bt.Info()&types.IsUnsigned != 0 {
					return true
				}
				v = x.X
				continue
			case *ssa.Call:
				if bi, ok := x.Call.Value.(*ssa.Builtin); ok && (bi.Name() == "len" || bi.Name() == "cap") {
					return true
				}
			}
			break
		}
		if bt, ok := v.Type().Underlying().(*types.Basic); ok && bt.Info()&types.IsUnsigned != 0 {
			return true
		}
		return false
	}
	n := 0
	for _, fn := range c.AllSrcFuncs("") {
		ord := 0
		for _, b := range fn.Blocks {
			for _, ins := range b.Instrs {
				bo, ok := ins.(*ssa.BinOp)
				if !ok || bo.Op != token.REM {
					continue
				}
				bt, ok := bo.Type().Underlying().(*types.Basic)
				if !ok || bt.Info()&types.IsInteger == 0 || bt.Info()&types.IsUnsigned != 0 {
					continue
				}
				n++
				ord++
				key := fmt.Sprintf("%s:rem#%d", ssaFuncName(fn), ord)
				site := c.Pos(instrPos(bo))
				if nonNeg(bo.X) {
					r.ok(key, site, "the dividend cannot be negative")
					continue
				}
				// where the remainder goes
				toUnix, corrected, other, divisibility := false, false, false, false
				seen := map[ssa.Value]bool{}
				var follow func(v ssa.Value, depth int)
				follow = func(v ssa.Value, depth int) {
					if seen[v] || v.Referrers() == nil || depth > 4 {
						return
					}
					seen[v] = true
					for _, ref := range *v.Referrers() {
						switch x := ref.(type) {
						case *ssa.BinOp:
							switch x.Op {
							case token.EQL, token.NEQ:
								// divisibility: `x % m == 0` does not depend on the sign
								zero := false
								for _, o := range []ssa.Value{x.X, x.Y} {
									if k, ok := constInt(o); ok && k == 0 {
										zero = true
									}
								}
								if zero {
									divisibility = true
								} else {
									other = true
								}
							case token.LSS, token.GEQ, token.GTR, token.LEQ:
								corrected = true
							case token.ADD:
								for _, r2 := range *x.Referrers() {
									if b2, ok := r2.(*ssa.BinOp); ok && b2.Op == token.REM {
										corrected = true
									}
								}
								follow(x, depth+1)
							case token.MUL:
								follow(x, depth+1)
							default:
								other = true
							}
						case *ssa.Convert:
							follow(x, depth+1)
						case *ssa.Call:
							if cal := x.Call.StaticCallee(); cal != nil && cal.Pkg != nil && cal.Pkg.Pkg.Path() == "time" && cal.Name() == "Unix" && len(x.Call.Args) == 2 && x.Call.Args[1] == v {
								toUnix = true
							} else {
								other = true
							}
						case *ssa.DebugRef:
						default:
							other = true
						}
					}
				}
				follow(bo, 0)
				switch {
				case corrected:
					r.ok(key, site, "the remainder is compared with zero or taken again after adding the modulus")
				case divisibility && !other && !toUnix:
					r.ok(key, site, "the remainder is only compared with zero (divisibility does not depend on the sign)")
				case toUnix && !other:
					r.ok(key, site, "the remainder is only the nanosecond argument of time.Unix, which normalises a negative value")
				default:
					r.bad(key, site, fmt.Sprintf("%s takes an integer remainder of a dividend that can be negative and uses it as it is: Go's %% has the sign of the dividend, the `modulo` of ES5 5.2 the sign of the divisor - for a time value before 1970 (`new Date(-1)`) t %% 1000 is -1, msFromTime (15.9.1.10) is 999", ssaFuncName(fn)))
				}
			}
		}
	}
	r.note("signed_remainders", n)
}
