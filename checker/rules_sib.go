package main

import (
	"fmt"
	"go/constant"
	"go/token"
	"go/types"
	"sort"
	"strings"

	"golang.org/x/tools/go/ssa"
)

func init() {
	register(&Rule{ID: "SIB-coerce", Props: []string{"C09", "C08"}, Min: 40,
		Doc: "P (sibling agreement, derived from the built-in table): every function bound on String.prototype establishes its receiver before any other use of call.This - by CheckObjectCoercible (generic methods), by the class guard thisClassObject (toString/valueOf), or by delegating to another String.prototype function; every function bound on Array.prototype obtains its receiver with thisObject() (ToObject) and reads the receiver's length through ToUint32",
		Run: ruleSibCoerce})
	register(&Rule{ID: "SIB-holes", Props: []string{"C08"}, Min: 15,
		Doc: "P (sibling agreement): in the Array.prototype methods whose ES5 algorithm tests [[HasProperty]] before [[Get]] (concat reverse shift slice sort splice unshift indexOf lastIndexOf every some forEach map filter reduce reduceRight) and in the helpers they hand the receiver to, every [[Get]] with a computed key is accompanied by a [[HasProperty]] test of the same receiver and key in the same function: holes are skipped, not read as undefined",
		Run: ruleSibHoles})
	register(&Rule{ID: "SIB-callback", Props: []string{"C08"}, Min: 7,
		Doc: "T: the Array.prototype iteration methods call their callback with (..., value, index, object) where the index argument is a number: its static type is an integer or a number Value built by an integer helper, never the string key",
		Run: ruleSibCallback})
	register(&Rule{ID: "DATE-nan", Props: []string{"C12"}, Min: 30,
		Doc: "P (sibling agreement): every function that obtains a date through the class guard dateObjectOf and then reads its time (Time()/Epoch()) does so only after branching on the isNaN flag of that same date, with the NaN side leaving the function: an invalid date stays invalid under every accessor and formatter; every function bound on Date.prototype that touches the time value goes through that guard",
		Run: ruleDateNaN})
}

func init() {
	register(&Rule{ID: "SIB-object-arg", Props: []string{"C07"}, Min: 10,
		Doc: "T (sibling agreement over the ES5 functions of the Object constructor, 15.2.3.2-15.2.3.14): each begins with `If Type(O) is not Object throw a TypeError`. For every function bound to one of those thirteen names on Object, the side of its `Argument(0).object() == nil` test on which the argument is not an object must not reach a return: it ends in a panic. The names come from the specification, the functions from the binding table; twelve of the thirteen already agreed, `Object.getOwnPropertyNames(1)` answered []",
		Run: ruleSibObjectArg})
}

func ruleSibObjectArg(c *Ctx, r *R) {
	fns := c.Shape().boundSSA(c, "Object")
	want := []string{"getPrototypeOf", "getOwnPropertyDescriptor", "getOwnPropertyNames", "create", "defineProperty", "defineProperties", "seal", "freeze", "preventExtensions", "isSealed", "isFrozen", "isExtensible", "keys"}
	for _, name := range want {
		fn := fns[name]
		key := "Object." + name
		if fn == nil {
			r.undecided(key, "-", "UNRESOLVED: no function bound to Object."+name)
			continue
		}
		site := c.Pos(fn.Pos())
		// the object() of Argument(0), its nil tests, and the non-object side of each
		tested, leak := false, ""
		for _, b := range fn.Blocks {
			iff, ok := b.Instrs[len(b.Instrs)-1].(*ssa.If)
			if !ok {
				continue
			}
			isArg0 := func(v ssa.Value) bool {
				ac, ok := normCell(v).(*ssa.Call)
				if !ok || ac.Call.StaticCallee() == nil || ac.Call.StaticCallee().Name() != "Argument" {
					return false
				}
				k, ok := constInt(ac.Call.Args[len(ac.Call.Args)-1])
				return ok && k == 0
			}
			follow := func(nilSucc *ssa.BasicBlock) {
				seen := map[*ssa.BasicBlock]bool{}
				var dfs func(x *ssa.BasicBlock)
				dfs = func(x *ssa.BasicBlock) {
					if seen[x] || leak != "" {
						return
					}
					seen[x] = true
					if ret, ok := x.Instrs[len(x.Instrs)-1].(*ssa.Return); ok {
						leak = c.Pos(instrPos(ret))
						return
					}
					for _, s2 := range x.Succs {
						dfs(s2)
					}
				}
				dfs(nilSucc)
			}
			// the other spelling: Argument(0).IsObject() as the condition
			if ic, ok := iff.Cond.(*ssa.Call); ok && ic.Call.StaticCallee() != nil && ic.Call.StaticCallee().Name() == "IsObject" && isArg0(ic.Call.Args[0]) {
				tested = true
				follow(b.Succs[1])
				continue
			}
			bo, ok := iff.Cond.(*ssa.BinOp)
			if !ok || (bo.Op != token.EQL && bo.Op != token.NEQ) {
				continue
			}
			var subj ssa.Value
			switch {
			case isNilConst(bo.Y):
				subj = bo.X
			case isNilConst(bo.X):
				subj = bo.Y
			default:
				continue
			}
			oc, ok := normCell(subj).(*ssa.Call)
			if !ok || oc.Call.StaticCallee() == nil || oc.Call.StaticCallee().Name() != "object" {
				continue
			}
			if !isArg0(oc.Call.Args[0]) {
				continue
			}
			tested = true
			nilSucc := b.Succs[0]
			if bo.Op == token.NEQ {
				nilSucc = b.Succs[1]
			}
			follow(nilSucc)
		}
		switch {
		case !tested:
			if why, ok := sibObjectArgReviewed[name]; ok {
				r.ok("reviewed:"+key, site, why)
			} else {
				r.bad(key, site, "Object."+name+" never tests whether its first argument is an object (`Argument(0).object() == nil`): ES5 15.2.3 requires a TypeError for a primitive")
			}
		case leak != "":
			r.bad(key, site, fmt.Sprintf("Object.%s returns normally (at %s) when its first argument is not an object; its twelve siblings throw a TypeError there, as step 1 of every function of 15.2.3 says - `Object.%s(1)` answers instead of throwing", name, leak, name))
		default:
			r.ok(key, site, "the non-object side of the argument test ends in a panic")
		}
	}
}

// sibObjectArgReviewed: functions of the list that establish `O is an object` differently.
var sibObjectArgReviewed = map[string]string{}

func (s *Shape) boundSSA(c *Ctx, path string) map[string]*ssa.Function {
	out := map[string]*ssa.Function{}
	for name, f := range s.BoundOn(path) {
		if name == "constructor" {
			continue // the back-link to the constructor function, not a method
		}
		if sf := c.SSAFunc(f); sf != nil {
			out[name] = sf
		}
	}
	return out
}

// thisUses: instructions that read the This field of the FunctionCall parameter.
func thisUses(fn *ssa.Function) []ssa.Instruction {
	if len(fn.Params) == 0 {
		return nil
	}
	p := fn.Params[0]
	st, ok := p.Type().Underlying().(*types.Struct)
	if !ok {
		return nil
	}
	idx := -1
	for i := 0; i < st.NumFields(); i++ {
		if st.Field(i).Name() == "This" {
			idx = i
		}
	}
	var out []ssa.Instruction
	var visit func(v ssa.Value)
	visit = func(v ssa.Value) {
		for _, ref := range *v.Referrers() {
			switch x := ref.(type) {
			case *ssa.Field:
				if x.X == v && x.Field == idx {
					out = append(out, x)
				}
			case *ssa.Store:
				// spilled parameter
				if al, ok := x.Addr.(*ssa.Alloc); ok && x.Val == v {
					for _, r2 := range *al.Referrers() {
						if fa, ok := r2.(*ssa.FieldAddr); ok && fa.Field == idx {
							out = append(out, fa)
						}
					}
				}
			}
		}
	}
	visit(p)
	return out
}

func ruleSibCoerce(c *Ctx, r *R) {
	s := c.Shape()
	strFns := s.boundSSA(c, "String.prototype")
	if len(strFns) < 15 {
		r.undecided("anchor:String.prototype", "-", "UNRESOLVED functions bound on String.prototype")
	}
	boundSet := map[*ssa.Function]bool{}
	for _, f := range strFns {
		boundSet[f] = true
	}
	guardNames := map[string]bool{"checkObjectCoercible": true, "thisClassObject": true, "thisObject": true}
	var names []string
	for n := range strFns {
		names = append(names, n)
	}
	sort.Strings(names)
	for _, name := range names {
		fn := strFns[name]
		key := "String.prototype." + name
		site := c.Pos(fn.Pos())
		// the establishing call: a guard or a delegation, in the entry block
		var guard ssa.Instruction
		for _, ins := range fn.Blocks[0].Instrs {
			call, ok := ins.(*ssa.Call)
			if !ok {
				continue
			}
			callee := call.Call.StaticCallee()
			if callee == nil {
				break
			}
			if guardNames[callee.Name()] || (boundSet[callee] && len(call.Call.Args) == 1 && call.Call.Args[0] == ssa.Value(fn.Params[0])) {
				guard = ins
			} else if helperEstablishesReceiver(callee, call, fn.Params[0], guardNames, 0) {
				guard = ins // a helper that itself starts with the receiver check on the same call record
			}
			break // only the first call counts
		}
		if guard == nil {
			r.bad(key, site, fmt.Sprintf("String.prototype.%s does not start by establishing its receiver (CheckObjectCoercible / class guard / delegation to a sibling): with `this` undefined or null it converts the receiver to \"undefined\"/\"null\" instead of throwing TypeError (ES5 §15.5.4: step 1 of every generic String method)", name))
			continue
		}
		okAll := true
		for _, u := range thisUses(fn) {
			// uses feeding the guard itself are fine
			if feeds(u, guard) {
				continue
			}
			if !dominatesInstr(guard, u) {
				okAll = false
			}
		}
		r.check(okAll, key, site, "receiver established first ("+describeInstr(guard)+")", "call.This is used before the receiver check")
	}
	// Array.prototype
	arrFns := s.boundSSA(c, "Array.prototype")
	names = names[:0]
	for n := range arrFns {
		names = append(names, n)
	}
	sort.Strings(names)
	for _, name := range names {
		fn := arrFns[name]
		key := "Array.prototype." + name
		site := c.Pos(fn.Pos())
		var recv *ssa.Call
		for _, b := range fn.Blocks {
			for _, ins := range b.Instrs {
				if call, ok := ins.(*ssa.Call); ok {
					if callee := call.Call.StaticCallee(); callee != nil && callee.Name() == "thisObject" {
						if recv == nil {
							recv = call
						}
					}
				}
			}
		}
		if recv == nil {
			r.bad(key+":receiver", site, fmt.Sprintf("Array.prototype.%s does not obtain its receiver with thisObject() (ToObject(this), ES5 §15.4.4 step 1 of every method): it is not generic / crashes on primitives", name))
			continue
		}
		r.ok(key+":receiver", site, "receiver = thisObject()")
		// length reads on the receiver go through toUint32
		for _, b := range fn.Blocks {
			for _, ins := range b.Instrs {
				call, ok := ins.(*ssa.Call)
				if !ok {
					continue
				}
				callee := call.Call.StaticCallee()
				if callee == nil || callee.Name() != "get" || len(call.Call.Args) != 2 {
					continue
				}
				k, ok := call.Call.Args[1].(*ssa.Const)
				if !ok || k.Value == nil || k.Value.Kind() != constant.String || constant.StringVal(k.Value) != "length" {
					continue
				}
				if !sameSSA(call.Call.Args[0], recv, 0) {
					continue
				}
				okU := false
				for _, ref := range *call.Referrers() {
					if c2, ok := ref.(*ssa.Call); ok && c2.Call.StaticCallee() != nil && c2.Call.StaticCallee().Name() == "toUint32" {
						okU = true
					}
				}
				r.check(okU, key+":length", c.Pos(instrPos(ins)), "ToUint32(get(length))", fmt.Sprintf("Array.prototype.%s reads the receiver's length without ToUint32 (ES5 §15.4.4: lenVal = [[Get]](\"length\"); len = ToUint32(lenVal))", name))
			}
		}
	}
}

// feeds: value-producing instruction u is (transitively, within 3 steps) an operand of target.
func feeds(u ssa.Instruction, target ssa.Instruction) bool {
	v, ok := u.(ssa.Value)
	if !ok {
		return false
	}
	var walk func(v ssa.Value, d int) bool
	walk = func(v ssa.Value, d int) bool {
		if d > 3 {
			return false
		}
		for _, ref := range *v.Referrers() {
			if ref == target {
				return true
			}
			if nv, ok := ref.(ssa.Value); ok {
				switch ref.(type) {
				case *ssa.UnOp, *ssa.Field, *ssa.FieldAddr:
					if walk(nv, d+1) {
						return true
					}
				}
			}
		}
		return false
	}
	return walk(v, 0)
}

var holesMethods = map[string]bool{"concat": true, "reverse": true, "shift": true, "slice": true, "sort": true, "splice": true, "unshift": true,
	"indexOf": true, "lastIndexOf": true, "every": true, "some": true, "forEach": true, "map": true, "filter": true, "reduce": true, "reduceRight": true}

func ruleSibHoles(c *Ctx, r *R) {
	s := c.Shape()
	arrFns := s.boundSSA(c, "Array.prototype")
	// functions to examine: the bound methods and every same-package helper that receives an *object from them (transitively)
	work := map[*ssa.Function]string{}
	var queue []*ssa.Function
	for name, fn := range arrFns {
		if holesMethods[name] {
			work[fn] = name
			queue = append(queue, fn)
		}
	}
	for len(queue) > 0 {
		fn := queue[0]
		queue = queue[1:]
		for _, b := range fn.Blocks {
			for _, ins := range b.Instrs {
				call, ok := ins.(*ssa.Call)
				if !ok {
					continue
				}
				callee := call.Call.StaticCallee()
				if callee == nil || callee.Blocks == nil || callee.Pkg != fn.Pkg || callee.Signature.Recv() != nil {
					continue
				}
				takesObj := false
				for _, a := range call.Call.Args {
					if typeStr(a.Type()) == "*object" {
						takesObj = true
					}
				}
				if _, seen := work[callee]; takesObj && !seen {
					work[callee] = work[fn] + " (helper)"
					queue = append(queue, callee)
				}
			}
		}
	}
	var fns []*ssa.Function
	for f := range work {
		fns = append(fns, f)
	}
	sort.Slice(fns, func(i, j int) bool { return ssaFuncName(fns[i]) < ssaFuncName(fns[j]) })
	for _, fn := range fns {
		type site struct {
			recv, key ssa.Value
			ins       ssa.Instruction
		}
		var gets, has []site
		for _, b := range fn.Blocks {
			for _, ins := range b.Instrs {
				call, ok := ins.(*ssa.Call)
				if !ok {
					continue
				}
				callee := call.Call.StaticCallee()
				if callee == nil || len(call.Call.Args) != 2 || typeStr(call.Call.Args[0].Type()) != "*object" {
					continue
				}
				if _, isConst := call.Call.Args[1].(*ssa.Const); isConst {
					continue
				}
				switch callee.Name() {
				case "get":
					gets = append(gets, site{call.Call.Args[0], call.Call.Args[1], ins})
				case "hasProperty":
					has = append(has, site{call.Call.Args[0], call.Call.Args[1], ins})
				}
			}
		}
		// an element looked up with [[GetOwnProperty]] (computed key) instead: inherited elements are invisible
		nOwn := 0
		for _, b := range fn.Blocks {
			for _, ins := range b.Instrs {
				call, ok := ins.(*ssa.Call)
				if !ok {
					continue
				}
				callee := call.Call.StaticCallee()
				if callee == nil || callee.Name() != "getOwnProperty" || len(call.Call.Args) != 2 || typeStr(call.Call.Args[0].Type()) != "*object" {
					continue
				}
				if _, isConst := call.Call.Args[1].(*ssa.Const); isConst {
					continue
				}
				nOwn++
				r.bad(fmt.Sprintf("%s:getOwnProperty#%d", ssaFuncName(fn), nOwn), c.Pos(instrPos(ins)), fmt.Sprintf("%s (Array.prototype.%s) looks an element up with [[GetOwnProperty]]: the ES5 §15.4.4 algorithms test [[HasProperty]] and read with [[Get]], which also see an element inherited from the prototype chain (`Array.prototype[1] = 'p'; [0,,2].concat()` has an own element 1)", ssaFuncName(fn), work[fn]))
			}
		}
		for i, g := range gets {
			// the key is tested, or it is one of several keys (`from, to := j.name, k.name; if k.exists { from, to = to, from }`)
			// each of which is tested
			var covered func(k ssa.Value, depth int) bool
			covered = func(k ssa.Value, depth int) bool {
				for _, h := range has {
					if sameSSA(h.recv, g.recv, 0) && sameSSA(h.key, k, 0) {
						return true
					}
				}
				// a helper that is handed the key (`arraySortMove(thisObject, from, to)`): tested in front of every call
				if kp, isParam := k.(*ssa.Parameter); isParam && depth < 3 {
					rp, _ := g.recv.(*ssa.Parameter)
					return rp != nil && c.argAtAllCallSites(kp, func(arg ssa.Value, site ssa.CallInstruction) bool {
						ri := paramIndex(rp)
						if ri < 0 || ri >= len(site.Common().Args) {
							return false
						}
						for _, b := range site.Parent().Blocks {
							for _, ins := range b.Instrs {
								call, ok := ins.(*ssa.Call)
								if !ok {
									continue
								}
								if callee := call.Call.StaticCallee(); callee != nil && callee.Name() == "hasProperty" && len(call.Call.Args) == 2 &&
									sameSSA(call.Call.Args[0], site.Common().Args[ri], 0) && sameSSA(call.Call.Args[1], arg, 0) {
									return true
								}
							}
						}
						return false
					}, 0)
				}
				if phi, isPhi := k.(*ssa.Phi); isPhi && depth < 3 {
					for _, e := range phi.Edges {
						if !covered(e, depth+1) {
							return false
						}
					}
					return true
				}
				return false
			}
			ok := covered(g.key, 0)
			key := fmt.Sprintf("%s:get#%d", ssaFuncName(fn), i+1)
			r.check(ok, key, c.Pos(instrPos(g.ins)), "paired with hasProperty on the same receiver and key", fmt.Sprintf("%s (Array.prototype.%s) reads an element with [[Get]] but never tests [[HasProperty]] for that receiver and key: a hole is treated as an own `undefined` element (ES5 §15.4.4 algorithms test kPresent first)", ssaFuncName(fn), work[fn]))
		}
	}
}

func ruleSibCallback(c *Ctx, r *R) {
	s := c.Shape()
	arrFns := s.boundSSA(c, "Array.prototype")
	for _, name := range []string{"every", "some", "forEach", "map", "filter", "reduce", "reduceRight"} {
		fn := arrFns[name]
		if fn == nil {
			r.undecided("anchor:"+name, "-", "UNRESOLVED Array.prototype."+name)
			continue
		}
		n := 0
		for _, b := range fn.Blocks {
			for _, ins := range b.Instrs {
				call, ok := ins.(*ssa.Call)
				if !ok {
					continue
				}
				callee := call.Call.StaticCallee()
				if callee == nil || callee.Name() != "call" || !callee.Signature.Variadic() {
					continue
				}
				if callee.Signature.Recv() == nil || !typeIs(callee.Signature.Recv().Type(), ottoPath, "Value") {
					continue
				}
				sl, ok := call.Call.Args[len(call.Call.Args)-1].(*ssa.Slice)
				if !ok {
					continue
				}
				al, ok := sl.X.(*ssa.Alloc)
				if !ok {
					continue
				}
				// collect element stores by index
				elems := map[int64]ssa.Value{}
				for _, ref := range *al.Referrers() {
					if ia, ok := ref.(*ssa.IndexAddr); ok {
						if idx, isC := constInt(ia.Index); isC {
							for _, r2 := range *ia.Referrers() {
								if st, ok := r2.(*ssa.Store); ok {
									elems[idx] = st.Val
								}
							}
						}
					}
				}
				if len(elems) < 3 {
					continue
				}
				n++
				idxVal := elems[int64(len(elems)-2)]
				desc, okT := indexArgIsNumber(idxVal)
				r.check(okT, fmt.Sprintf("Array.prototype.%s:call#%d", name, n), c.Pos(instrPos(ins)), "index argument is "+desc, fmt.Sprintf("Array.prototype.%s passes %s as the callback's index argument: ES5 §15.4.4.16-22 pass the numeric index k (typeof i must be \"number\")", name, desc))
				// the last argument is the object O = ToObject(this): objectValue(<result of thisObject()>), never call.This itself
				objVal := elems[int64(len(elems)-1)]
				if mi, ok := objVal.(*ssa.MakeInterface); ok {
					objVal = mi.X
				}
				okObj := false
				if oc, ok := objVal.(*ssa.Call); ok && oc.Call.StaticCallee() != nil && oc.Call.StaticCallee().Name() == "objectValue" && len(oc.Call.Args) == 1 {
					if src, ok := oc.Call.Args[0].(*ssa.Call); ok && src.Call.StaticCallee() != nil && src.Call.StaticCallee().Name() == "thisObject" {
						okObj = true
					}
				}
				r.check(okObj, fmt.Sprintf("Array.prototype.%s:object#%d", name, n), c.Pos(instrPos(ins)), "object argument is ToObject(this)", fmt.Sprintf("Array.prototype.%s must pass O = ToObject(this value) as the callback's last argument (ES5 §15.4.4.16-22 step 1): for a primitive receiver (Array.prototype.%s.call(\"ab\", f)) the callback otherwise sees the primitive instead of one stable wrapper object", name, name))
			}
		}
		if n == 0 {
			r.undecided("calls:"+name, c.Pos(fn.Pos()), "no callback invocation with (value, index, object) found")
		}
	}
}

func indexArgIsNumber(v ssa.Value) (string, bool) {
	mi, ok := v.(*ssa.MakeInterface)
	if !ok {
		return fmt.Sprintf("%T", v), false
	}
	t := mi.X.Type()
	if b, ok := t.Underlying().(*types.Basic); ok {
		return "a Go " + b.Name(), b.Info()&types.IsInteger != 0
	}
	if typeStr(t) == "Value" {
		if call, ok := mi.X.(*ssa.Call); ok && call.Call.StaticCallee() != nil {
			switch call.Call.StaticCallee().Name() {
			case "intValue", "int32Value", "int64Value", "uint32Value", "uint16Value", "float64Value":
				return "a number Value (" + call.Call.StaticCallee().Name() + ")", true
			}
			return "a Value from " + call.Call.StaticCallee().Name(), false
		}
		return "a Value of unknown kind", false
	}
	return "a " + typeStr(t), false
}

func ruleDateNaN(c *Ctx, r *R) {
	guard := c.SSAFunc(c.LookupFunc("", "dateObjectOf"))
	if guard == nil {
		r.undecided("anchor", "-", "UNRESOLVED dateObjectOf")
		return
	}
	s := c.Shape()
	protoFns := s.boundSSA(c, "Date.prototype")
	isTimeReader := func(f *ssa.Function) bool {
		return f != nil && f.Signature.Recv() != nil && typeIs(f.Signature.Recv().Type(), ottoPath, "dateObject") && (f.Name() == "Time" || f.Name() == "Epoch")
	}
	users := 0
	for _, fn := range c.AllSrcFuncs("") {
		// dates obtained through the guard in this function: call result stored into a local
		for _, b := range fn.Blocks {
			for _, ins := range b.Instrs {
				gc, ok := ins.(*ssa.Call)
				if !ok || gc.Call.StaticCallee() != guard {
					continue
				}
				users++
				// the local cell holding the date
				var cell *ssa.Alloc
				for _, ref := range *gc.Referrers() {
					if st, ok := ref.(*ssa.Store); ok && st.Val == ssa.Value(gc) {
						cell, _ = st.Addr.(*ssa.Alloc)
					}
				}
				key := "date:" + ssaFuncName(fn)
				site := c.Pos(instrPos(ins))
				if cell == nil {
					r.ok(key+":unused", site, "date obtained but its time is not read through a local")
					continue
				}
				var reads []ssa.Instruction
				for _, ref := range *cell.Referrers() {
					if call, ok := ref.(*ssa.Call); ok && isTimeReader(call.Call.StaticCallee()) {
						reads = append(reads, call)
					}
				}
				if len(reads) == 0 {
					r.ok(key+":no-read", site, "time value not read here")
					continue
				}
				// the isNaN branch
				okAll := true
				var bad ssa.Instruction
				for _, rd := range reads {
					if !dominatedByNaNExit(fn, cell, rd) {
						okAll = false
						bad = rd
					}
				}
				detail := ""
				if bad != nil {
					detail = fmt.Sprintf("%s reads the time of a date (at %s) without first branching on its isNaN flag: an invalid date (NaN time value) is formatted / decomposed as if it were the epoch instead of yielding NaN / \"Invalid Date\"", ssaFuncName(fn), c.Pos(instrPos(bad)))
				}
				r.check(okAll, key, site, fmt.Sprintf("%d time read(s), all after the isNaN exit", len(reads)), detail)
			}
		}
	}
	// 15.9.5.43: toISOString of an invalid date throws a RangeError - the one formatter whose NaN side is not a value
	if iso := protoFns["toISOString"]; iso != nil {
		found, okIso := false, true
		for _, b := range iso.Blocks {
			iff, ok := b.Instrs[len(b.Instrs)-1].(*ssa.If)
			if !ok {
				continue
			}
			a := loadAddr(iff.Cond)
			if a == nil || !isFieldAddr(a, "dateObject", "isNaN") {
				continue
			}
			found = true
			nanSide := b.Succs[0]
			raises := false
			for _, ins := range nanSide.Instrs {
				if call, ok := ins.(*ssa.Call); ok && call.Call.StaticCallee() != nil && call.Call.StaticCallee().Name() == "panicRangeError" {
					raises = true
				}
			}
			if _, isPanic := nanSide.Instrs[len(nanSide.Instrs)-1].(*ssa.Panic); !isPanic || !raises {
				okIso = false
			}
		}
		if !found {
			r.undecided("toISOString:nan-side", c.Pos(iso.Pos()), "UNRESOLVED: no isNaN branch in the function bound to Date.prototype.toISOString")
		} else {
			r.check(okIso, "toISOString:nan-side", c.Pos(iso.Pos()), "the NaN side raises a RangeError", "Date.prototype.toISOString returns a value for an invalid date; ES5 15.9.5.43 throws a RangeError (`new Date(NaN).toISOString()` is \"Invalid Date\")")
		}
	}
	// every Date.prototype function that reads a dateObject payload must use the guard (directly or through a helper that does)
	var names []string
	for n := range protoFns {
		names = append(names, n)
	}
	sort.Strings(names)
	for _, name := range names {
		fn := protoFns[name]
		usesGuard := callsTransitively(fn, guard, 2)
		readsPayload := false
		for _, b := range fn.Blocks {
			for _, ins := range b.Instrs {
				if call, ok := ins.(*ssa.Call); ok {
					if cl := call.Call.StaticCallee(); cl != nil && (cl.Name() == "dateValue" || isTimeReader(cl)) {
						readsPayload = true
					}
				}
			}
		}
		key := "Date.prototype." + name
		if !readsPayload && !usesGuard {
			r.ok(key, c.Pos(fn.Pos()), "does not touch the time value directly (generic / delegating)")
			continue
		}
		r.check(usesGuard, key, c.Pos(fn.Pos()), "goes through the class guard", fmt.Sprintf("Date.prototype.%s reads the date payload without the class guard dateObjectOf: called on a non-Date receiver it misbehaves instead of throwing TypeError (ES5 §15.9.5)", name))
	}
	r.note("guard_users", users)
}

func callsTransitively(fn, target *ssa.Function, depth int) bool {
	if fn == nil || fn.Blocks == nil {
		return false
	}
	for _, b := range fn.Blocks {
		for _, ins := range b.Instrs {
			if call, ok := ins.(ssa.CallInstruction); ok {
				callee := call.Common().StaticCallee()
				if callee == target {
					return true
				}
				if depth > 0 && callee != nil && callee.Pkg == fn.Pkg && callsTransitively(callee, target, depth-1) {
					return true
				}
			}
		}
	}
	return false
}

// dominatedByNaNExit: some If on load(&cell.isNaN) dominates use, and its NaN (true) side does not reach use.
func dominatedByNaNExit(fn *ssa.Function, cell *ssa.Alloc, use ssa.Instruction) bool {
	for _, b := range fn.Blocks {
		iff, ok := b.Instrs[len(b.Instrs)-1].(*ssa.If)
		if !ok {
			continue
		}
		cond, neg := normBool(iff.Cond)
		a := loadAddr(cond)
		fa, ok := a.(*ssa.FieldAddr)
		if !ok || fa.X != ssa.Value(cell) || !isFieldAddr(fa, "dateObject", "isNaN") {
			continue
		}
		nanSide := b.Succs[0]
		if neg {
			nanSide = b.Succs[1]
		}
		if b.Dominates(use.Block()) && !reaches(nanSide, use.Block(), map[*ssa.BasicBlock]bool{b: true}) {
			return true
		}
	}
	return false
}

// helperEstablishesReceiver: callee receives the whole FunctionCall record (or its This) and its own first call is a receiver guard.
func helperEstablishesReceiver(callee *ssa.Function, call *ssa.Call, callParam *ssa.Parameter, guardNames map[string]bool, depth int) bool {
	if callee == nil || callee.Blocks == nil || depth > 2 {
		return false
	}
	passes := false
	for _, a := range call.Call.Args {
		if a == ssa.Value(callParam) {
			passes = true
		}
		if f, ok := a.(*ssa.Field); ok && f.X == ssa.Value(callParam) {
			passes = true
		}
	}
	if !passes {
		return false
	}
	for _, ins := range callee.Blocks[0].Instrs {
		c2, ok := ins.(*ssa.Call)
		if !ok {
			continue
		}
		cl := c2.Call.StaticCallee()
		if cl == nil {
			return false
		}
		return guardNames[cl.Name()]
	}
	return false
}

func init() {
	register(&Rule{ID: "HOLES-result", Props: []string{"C08"}, Min: 3,
		Doc: "G: the array built-ins that copy elements into a result array (concat 15.4.4.4 step 5.b.iii, slice 15.4.4.10 step 10.c, splice 15.4.4.12 step 9.c, map 15.4.4.19 step 8.c) copy an element only if the source has it: a hole stays a hole (`1 in [1,,3].slice(0)` is false). In every function that hands a []Value to newArrayOf, wherever a branch on hasProperty stores or appends the present element, the absent side stores or appends the emptyValue marker at that position (newArrayOf skips it); leaving the slot at the zero Value, or writing Value{}, creates an own property holding undefined",
		Run: ruleHolesResult})
}

func ruleHolesResult(c *Ctx, r *R) {
	isEmptyValue := func(v ssa.Value) bool {
		if ld, ok := v.(*ssa.UnOp); ok && ld.Op == token.MUL {
			if g, ok := ld.X.(*ssa.Global); ok && g.Name() == "emptyValue" {
				return true
			}
		}
		return false
	}
	isValueSlice := func(t types.Type) bool {
		s, ok := t.Underlying().(*types.Slice)
		return ok && typeIs(s.Elem(), ottoPath, "Value")
	}
	n := 0
	for _, fn := range c.AllSrcFuncs("") {
		feeds := false
		for _, b := range fn.Blocks {
			for _, ins := range b.Instrs {
				if call, ok := ins.(*ssa.Call); ok && call.Call.StaticCallee() != nil && call.Call.StaticCallee().Name() == "newArrayOf" {
					feeds = true
				}
			}
		}
		if !feeds {
			continue
		}
		ord := 0
		for _, b := range fn.Blocks {
			iff, ok := b.Instrs[len(b.Instrs)-1].(*ssa.If)
			if !ok {
				continue
			}
			cond, neg := normBool(iff.Cond)
			hc, ok := cond.(*ssa.Call)
			if !ok || hc.Call.StaticCallee() == nil || hc.Call.StaticCallee().Name() != "hasProperty" {
				continue
			}
			present, absent := b.Succs[0], b.Succs[1]
			if neg {
				present, absent = absent, present
			}
			// what the present side does with a []Value
			type effect struct {
				positional bool
				found      bool
			}
			effectsOf := func(start *ssa.BasicBlock, other *ssa.BasicBlock) (eff effect, storesEmpty bool, storesZero ssa.Instruction) {
				seen := map[*ssa.BasicBlock]bool{}
				var walk func(x *ssa.BasicBlock)
				walk = func(x *ssa.BasicBlock) {
					if seen[x] || !start.Dominates(x) {
						return
					}
					seen[x] = true
					for _, ins := range x.Instrs {
						switch y := ins.(type) {
						case *ssa.Store:
							if ia, ok := y.Addr.(*ssa.IndexAddr); ok && isValueSlice(ia.X.Type()) {
								eff.found, eff.positional = true, true
								if isEmptyValue(y.Val) {
									storesEmpty = true
								} else if isZeroStruct(y.Val) {
									storesZero = ins
								}
							}
						case *ssa.Call:
							if bi, ok := y.Call.Value.(*ssa.Builtin); ok && bi.Name() == "append" && isValueSlice(y.Type()) {
								eff.found = true
								if elems, known := variadicElems(y.Call.Args[1]); known {
									for _, e := range elems {
										if isEmptyValue(e) {
											storesEmpty = true
										} else if isZeroStruct(e) {
											storesZero = ins
										}
									}
								}
							}
						}
					}
					for _, s := range x.Succs {
						walk(s)
					}
				}
				if len(start.Preds) == 1 {
					walk(start)
				}
				return
			}
			pe, _, _ := effectsOf(present, absent)
			if !pe.found {
				continue
			}
			ae, absEmpty, absZero := effectsOf(absent, present)
			n++
			ord++
			key := fmt.Sprintf("%s:hasProperty#%d", fn.Name(), ord)
			site := c.Pos(instrPos(iff))
			switch {
			case absZero != nil:
				r.bad(key, c.Pos(instrPos(absZero)), fmt.Sprintf("%s writes Value{} (undefined) into its result where the source has no such element: the hole becomes an own property (`1 in [1,,3].%s(...)` is true); the emptyValue marker keeps it a hole", fn.Name(), strings.ToLower(strings.TrimPrefix(fn.Name(), "builtinArray"))))
			case pe.positional && !(ae.found && absEmpty):
				r.bad(key, site, fmt.Sprintf("%s fills a slot of its result only when the source has the element and leaves it at the zero Value (undefined) otherwise: the hole becomes an own property holding undefined (`1 in [1,,3].%s(...)` is true)", fn.Name(), strings.ToLower(strings.TrimPrefix(fn.Name(), "builtinArray"))))
			default:
				r.ok(key, site, "the absent side keeps the hole (emptyValue) or adds nothing")
			}
		}
	}
	if n == 0 {
		r.undecided("unresolved:sites", "-", "UNRESOLVED: no hasProperty branch feeding newArrayOf found")
	}
}

func init() {
	register(&Rule{ID: "REDUCE-kpresent", Props: []string{"C08"}, Min: 2,
		Doc: "G (must-assign): ES5 15.4.4.21 / 15.4.4.22 step 8 - without an initial value the accumulator is the first element that is present, and if none is (kPresent false: an empty receiver or one that consists of holes) a TypeError is thrown. In the functions bound to reduce and reduceRight the accumulator that is returned or handed to the callback is never the variable's zero value: the phi closure of that operand contains no uninitialised Value constant, i.e. every exit of the search for the first present element either assigned it or throws",
		Run: ruleReduceKPresent})
}

func ruleReduceKPresent(c *Ctx, r *R) {
	n := 0
	for _, fn := range c.AllSrcFuncs("") {
		if fn.Parent() != nil || (fn.Name() != "builtinArrayReduce" && fn.Name() != "builtinArrayReduceRight") {
			continue
		}
		n++
		bad := ""
		var closure func(v ssa.Value, seen map[ssa.Value]bool) bool // true if a zero Value constant is in the closure
		closure = func(v ssa.Value, seen map[ssa.Value]bool) bool {
			if seen[v] {
				return false
			}
			seen[v] = true
			switch x := v.(type) {
			case *ssa.Const:
				return x.Value == nil && typeIs(x.Type(), ottoPath, "Value")
			case *ssa.Phi:
				for _, e := range x.Edges {
					if closure(e, seen) {
						return true
					}
				}
			}
			return false
		}
		for _, b := range fn.Blocks {
			if ret, ok := b.Instrs[len(b.Instrs)-1].(*ssa.Return); ok && len(ret.Results) == 1 {
				if closure(ret.Results[0], map[ssa.Value]bool{}) {
					bad = c.Pos(ret.Pos())
				}
			}
		}
		r.check(bad == "", fn.Name(), c.Pos(fn.Pos()), "the returned accumulator is assigned on every path",
			fmt.Sprintf("%s can return its accumulator unassigned (return at %s): when no element of the receiver is present and no initial value is given it yields undefined instead of throwing TypeError (`[,,].reduce(f)`, `new Array(5).reduce(f)`)", fn.Name(), bad))
	}
	if n < 2 {
		r.undecided("unresolved:reduce", "-", "UNRESOLVED: builtinArrayReduce / builtinArrayReduceRight")
	}
}

func init() {
	register(&Rule{ID: "SIB-bound", Props: []string{"C14", "C01"}, Min: 3,
		Doc: "T (sibling agreement): a function object made by Function.prototype.bind has its own [[Call]] (15.3.4.5.1), [[Construct]] (15.3.4.5.2) and [[HasInstance]] (15.3.4.5.3), each delegating to the target function. The three methods of *object that implement these internal methods for every function object - the ones that dispatch on the function payload - each have a case for the bound-function payload; one that lacks it treats a bound function like an ordinary one (`new C instanceof C.bind(null)` is false)",
		Run: ruleSibBound})
}

func ruleSibBound(c *Ctx, r *R) {
	want := map[string]string{"call": "[[Call]]", "construct": "[[Construct]]", "hasInstance": "[[HasInstance]]"}
	n := 0
	for _, fn := range c.AllSrcFuncs("") {
		role, ok := want[fn.Name()]
		if !ok || fn.Signature.Recv() == nil || !typeIs(fn.Signature.Recv().Type(), ottoPath, "object") {
			continue
		}
		n++
		// in the method itself or in a helper that only it calls (the unwrapping of a bound function extracted into a method)
		var asserts func(f *ssa.Function, depth int) bool
		asserts = func(f *ssa.Function, depth int) bool {
			for _, b := range f.Blocks {
				for _, ins := range b.Instrs {
					if ta, ok := ins.(*ssa.TypeAssert); ok && typeIs(ta.AssertedType, ottoPath, "bindFunctionObject") {
						return true
					}
					if call, ok := ins.(*ssa.Call); ok && depth < 2 {
						if cal := call.Call.StaticCallee(); cal != nil && cal.Blocks != nil && cal.Pkg == fn.Pkg && cal != fn && c.partOf(cal, ssaFuncName(fn), 0) && asserts(cal, depth+1) {
							return true
						}
					}
				}
			}
			return false
		}
		has := asserts(fn, 0)
		r.check(has, "(*object)."+fn.Name(), c.Pos(fn.Pos()), role+" has a case for the bound-function payload",
			fmt.Sprintf("(*object).%s implements %s for every function object but has no case for bindFunctionObject, although its siblings do: a bound function is treated like an ordinary function (for [[HasInstance]]: `function C(){}; new C instanceof C.bind(null)` is false, ES5 15.3.4.5.3 delegates to the target)", fn.Name(), role))
	}
	if n < 3 {
		r.undecided("unresolved:methods", "-", fmt.Sprintf("UNRESOLVED: %d of (*object).call / construct / hasInstance found", n))
	}
}

func init() {
	register(&Rule{ID: "SIB-exotic-define", Props: []string{"C07", "C09"}, Min: 3,
		Doc: "T (sibling agreement of class-table slots): a class whose [[GetOwnProperty]] is not the ordinary one exposes own properties that are not in the property table (the index properties of a String object, bridged Go values). An ordinary slot implementation that reads the table directly (computed: it calls readProperty or indexes object.property; today [[DefineOwnProperty]]) never sees those properties: a class table that overrides getOwnProperty must override every such slot as well - otherwise `Object.defineProperty(new String('ab'), '0', {value:'x'})` silently shadows a non-writable, non-configurable property (ES5 15.5.5.2)",
		Run: ruleSibExoticDefine})
}

func init() {
	register(&Rule{ID: "SIB-extensible", Props: []string{"C07", "C16"}, Min: 5,
		Doc: "P (sibling agreement over the [[DefineOwnProperty]] slot): 8.12.9 step 3 - a property the object does not have is created only if the object is extensible. The ordinary implementation tests object.extensible; every other function installed in the defineOwnProperty slot of a class table must, on each path to a successful return, either hand the definition to the ordinary implementation, or read the extensible flag (itself or in a helper it calls), or be one of the reviewed classes that cannot gain properties. A bridged Go map / slice otherwise keeps growing after Object.preventExtensions / seal / freeze",
		Run: ruleSibExtensible})
}

var sibExtensibleReviewed = map[string]string{
	"goStructDefineOwnProperty": "the path that does not delegate is taken only when goObj.getValue(name).IsValid(): the Go field exists, which is this class's [[GetOwnProperty]] answer, so nothing is created (8.12.9 step 3 concerns absent properties); absent names go to the ordinary implementation",
	"stringDefineOwnProperty":   "the path that does not delegate is taken only for an existing index property (stringIndexValue reports isIndex for 0 <= i < length): nothing is created; other names go to the ordinary implementation",
	"goArrayDefineOwnProperty":  "a Go array has a fixed length: setValue refuses every index outside it (returns false -> typeErrorResult), other names go to the ordinary implementation; no path creates a property",
}

// existenceSide: the successor of `if cond` on which a bridge class knows the property to exist already: the true side
// of reflect.Value.IsValid() of a lookup, or the side of an index/length comparison on which index < Len().
func existenceSide(cond ssa.Value) int {
	if call, ok := cond.(*ssa.Call); ok && isReflectFn(call.Call.StaticCallee(), "IsValid") != "" {
		return 0
	}
	bo, ok := cond.(*ssa.BinOp)
	if !ok {
		return -1
	}
	isLen := func(v ssa.Value) bool {
		for i := 0; i < 3; i++ {
			switch y := v.(type) {
			case *ssa.Convert:
				v = y.X
				continue
			case *ssa.Call:
				return isReflectFn(y.Call.StaticCallee(), "Len") != ""
			}
			break
		}
		return false
	}
	switch {
	case isLen(bo.Y): // index OP len
		switch bo.Op {
		case token.LSS:
			return 0
		case token.GEQ:
			return 1
		}
	case isLen(bo.X): // len OP index
		switch bo.Op {
		case token.GTR:
			return 0
		case token.LEQ:
			return 1
		}
	}
	return -1
}

func ruleSibExtensible(c *Ctx, r *R) {
	impls := slotImplsOf(c)["defineOwnProperty"]
	if len(impls) < 4 {
		r.undecided("slot", "-", fmt.Sprintf("UNRESOLVED: %d implementations of the defineOwnProperty slot found", len(impls)))
		return
	}
	// functions that read object.extensible, transitively through static calls (depth 3)
	reads := map[*ssa.Function]bool{}
	var readsExt func(fn *ssa.Function, d int) bool
	readsExt = func(fn *ssa.Function, d int) bool {
		if fn == nil || len(fn.Blocks) == 0 || d > 3 {
			return false
		}
		if v, ok := reads[fn]; ok {
			return v
		}
		reads[fn] = false
		for _, b := range fn.Blocks {
			for _, ins := range b.Instrs {
				if u, ok := ins.(*ssa.UnOp); ok && u.Op == token.MUL && isFieldAddr(u.X, "object", "extensible") {
					reads[fn] = true
					return true
				}
			}
		}
		return false
	}
	for _, fn := range impls {
		name := ssaFuncName(fn)
		site := c.Pos(fn.Pos())
		if fn.Name() == "objectDefineOwnProperty" {
			r.check(readsExt(fn, 0), name, site, "the ordinary implementation reads object.extensible", "the ordinary [[DefineOwnProperty]] no longer reads object.extensible: non-extensible objects gain properties")
			continue
		}
		if why, ok := sibExtensibleReviewed[fn.Name()]; ok {
			r.ok("reviewed:"+name, site, why)
			continue
		}
		witness := sibExtensibleUnsettled(fn, impls, readsExt, 0)
		if witness != nil {
			r.bad(name, site, fmt.Sprintf("%s can return successfully (blocks %v) without handing the definition to the ordinary [[DefineOwnProperty]] and without reading object.extensible: an object of this class gains properties after Object.preventExtensions / seal / freeze (`Object.preventExtensions(goMap); goMap.k = 1` adds the key; `Object.freeze(goSlice); goSlice.push(1)` appends)", name, witness))
		} else {
			r.ok(name, site, "every successful path goes through the ordinary implementation, a read of object.extensible, or a refusal")
		}
	}
}

// sibExtensibleUnsettled: a path of fn from its entry to a successful return (anything but the constant false) that
// meets no block that settles the extensibility question: a call of the ordinary implementation or of another
// implementation of the slot, a read of object.extensible (here or in a callee), a refusal (typeErrorResult, a panic, a
// helper that only ever returns false), or a call of a helper of the package that itself has no unsettled path (the
// implementation split into steps). nil when there is none.
func sibExtensibleUnsettled(fn *ssa.Function, impls []*ssa.Function, readsExt func(*ssa.Function, int) bool, depth int) []string {
	cut := map[*ssa.BasicBlock]bool{}
	for _, b := range fn.Blocks {
		for _, ins := range b.Instrs {
			switch x := ins.(type) {
			case *ssa.UnOp:
				if x.Op == token.MUL && isFieldAddr(x.X, "object", "extensible") {
					cut[b] = true
				}
			case *ssa.Panic:
				cut[b] = true
			case ssa.CallInstruction:
				callee := x.Common().StaticCallee()
				if callee == nil {
					continue
				}
				if len(callee.Blocks) > 0 && callee.Signature.Results().Len() == 1 {
					refuses, nRet := true, 0
					for _, cb := range callee.Blocks {
						if ret, ok := cb.Instrs[len(cb.Instrs)-1].(*ssa.Return); ok {
							nRet++
							k, isK := ret.Results[0].(*ssa.Const)
							if !isK || k.Value == nil || k.Value.String() != "false" {
								refuses = false
							}
						}
					}
					if refuses && nRet > 0 {
						cut[b] = true
						continue
					}
				}
				if callee.Parent() == fn {
					continue
				}
				if callee.Name() == "objectDefineOwnProperty" || callee.Name() == "typeErrorResult" || readsExt(callee, 1) {
					cut[b] = true
				}
				for _, other := range impls {
					if other == callee {
						cut[b] = true
					}
				}
				// a step of this implementation moved into a helper: settled there on every successful path, and its
				// result is what this function returns
				if !cut[b] && depth < 2 && len(callee.Blocks) > 0 && callee.Pkg == fn.Pkg && callee.Signature.Results().Len() == 1 && typeStr(callee.Signature.Results().At(0).Type()) == "bool" {
					takesObject := false
					for _, prm := range callee.Params {
						if typeStr(prm.Type()) == "*object" {
							takesObject = true
						}
					}
					if takesObject && sibExtensibleUnsettled(callee, impls, readsExt, depth+1) == nil {
						cut[b] = true
					}
				}
			}
		}
	}
	var witness []string
	seen := map[*ssa.BasicBlock]bool{}
	var dfs func(b *ssa.BasicBlock, path []string) bool
	dfs = func(b *ssa.BasicBlock, path []string) bool {
		if seen[b] || cut[b] {
			return false
		}
		seen[b] = true
		path = append(path, fmt.Sprintf("%d(%s)", b.Index, b.Comment))
		if ret, ok := b.Instrs[len(b.Instrs)-1].(*ssa.Return); ok {
			if len(ret.Results) == 1 {
				if k, ok := ret.Results[0].(*ssa.Const); ok && k.Value != nil && k.Value.String() == "false" {
					return false
				}
			}
			witness = append([]string{}, path...)
			return true
		}
		existsSide := -1
		if iff, ok := b.Instrs[len(b.Instrs)-1].(*ssa.If); ok {
			existsSide = existenceSide(iff.Cond)
		}
		for i, s2 := range b.Succs {
			if i == existsSide {
				continue // the property exists on this side: 8.12.9 step 3 does not apply
			}
			if dfs(s2, path) {
				return true
			}
		}
		return false
	}
	if dfs(fn.Blocks[0], nil) {
		return witness
	}
	return nil
}

func ruleSibExoticDefine(c *Ctx, r *R) {
	impls := slotImplsOf(c)
	ordinary := map[string]string{"getOwnProperty": "objectGetOwnProperty", "defineOwnProperty": "objectDefineOwnProperty", "delete": "objectDelete"}
	// per class table (package-level variable): slot -> function
	tables := map[string]map[string]*ssa.Function{}
	for _, fn := range c.AllSrcFuncs("") {
		for _, b := range fn.Blocks {
			for _, ins := range b.Instrs {
				st, ok := ins.(*ssa.Store)
				if !ok {
					continue
				}
				g, ok := st.Addr.(*ssa.Global)
				if !ok {
					continue
				}
				al, ok := st.Val.(*ssa.Alloc)
				if !ok || !typeIs(al.Type(), ottoPath, "objectClass") {
					continue
				}
				slots := map[string]*ssa.Function{}
				for _, ref := range *al.Referrers() {
					fa, ok := ref.(*ssa.FieldAddr)
					if !ok {
						continue
					}
					_, f := fieldOfAddr(fa)
					for _, r2 := range *fa.Referrers() {
						if s2, ok := r2.(*ssa.Store); ok && s2.Addr == fa {
							if impl, ok := s2.Val.(*ssa.Function); ok {
								slots[f.Name()] = impl
							}
						}
					}
				}
				tables[g.Name()] = slots
			}
		}
	}
	_ = impls
	if len(tables) < 4 {
		r.undecided("unresolved:tables", "-", fmt.Sprintf("UNRESOLVED: %d class tables found", len(tables)))
		return
	}
	// which ordinary slot implementations read the property table directly (readProperty / the map) instead of asking the
	// object's own [[GetOwnProperty]]
	rawSlot := map[string]bool{}
	for slot, implName := range ordinary {
		for _, fn := range c.AllSrcFuncs("") {
			if fn.Name() != implName || fn.Parent() != nil {
				continue
			}
			for _, g := range withAnon(fn) {
				for _, b := range g.Blocks {
					for _, ins := range b.Instrs {
						if call, ok := ins.(*ssa.Call); ok && call.Call.StaticCallee() != nil && call.Call.StaticCallee().Name() == "readProperty" {
							rawSlot[slot] = true
						}
						if lk, ok := ins.(*ssa.Lookup); ok {
							if ld, ok := lk.X.(*ssa.UnOp); ok && isFieldAddr(ld.X, "object", "property") {
								// a look at the map after the object's own [[GetOwnProperty]] was asked (and answered) is
								// bookkeeping, not the decision
								asked := false
								for _, b2 := range g.Blocks {
									for _, i2 := range b2.Instrs {
										if c2, ok := i2.(*ssa.Call); ok && c2.Call.StaticCallee() != nil && c2.Call.StaticCallee().Name() == "getOwnProperty" && c2.Call.StaticCallee().Signature.Recv() != nil && dominatesInstr(c2, lk) {
											asked = true
										}
									}
								}
								if !asked {
									rawSlot[slot] = true
								}
							}
						}
					}
				}
			}
		}
	}
	var raws []string
	for s := range rawSlot {
		raws = append(raws, s)
	}
	sort.Strings(raws)
	r.ok("raw-slots", "-", fmt.Sprintf("ordinary slot implementations that read the property table directly: %v", raws))
	names := make([]string, 0, len(tables))
	for n := range tables {
		names = append(names, n)
	}
	sort.Strings(names)
	for _, name := range names {
		slots := tables[name]
		get := slots["getOwnProperty"]
		if get == nil {
			r.undecided("unresolved:"+name, "-", "UNRESOLVED: getOwnProperty slot of "+name)
			continue
		}
		if get.Name() == ordinary["getOwnProperty"] {
			r.ok(name, c.Pos(get.Pos()), "ordinary [[GetOwnProperty]]: every own property is in the table")
			continue
		}
		for _, slot := range []string{"defineOwnProperty", "delete"} {
			if !rawSlot[slot] {
				continue // the ordinary implementation of this slot goes through the class's own [[GetOwnProperty]]
			}
			impl := slots[slot]
			key := name + ":" + slot
			switch {
			case impl == nil:
				r.undecided("unresolved:"+key, "-", "UNRESOLVED: slot "+slot+" of "+name)
			case impl.Name() == ordinary[slot]:
				r.bad(key, c.Pos(get.Pos()), fmt.Sprintf("class table %s has its own [[GetOwnProperty]] (%s) but the ordinary %s, which reads the property table directly and never sees the properties %s adds: the definition succeeds against the table and the virtual property is shadowed or ignored (String objects: `Object.defineProperty(new String('ab'), '0', {value:'x'})` overwrote a non-writable, non-configurable index property)", name, get.Name(), ordinary[slot], get.Name()))
			default:
				r.ok(key, c.Pos(impl.Pos()), "overridden together with [[GetOwnProperty]]")
			}
		}
	}
}

func init() {
	register(&Rule{ID: "STRING-index-attrs", Props: []string{"C07", "C09"}, Min: 1,
		Doc: "S: ES5 15.5.5.2 - the index properties of a String object are { [[Writable]]: false, [[Enumerable]]: true, [[Configurable]]: false }. Every property literal built by the function in the getOwnProperty slot of the String class table carries the constant mode 0o010",
		Run: ruleStringIndexAttrs})
}

func ruleStringIndexAttrs(c *Ctx, r *R) {
	// the function in the getOwnProperty slot of the String class table
	var getOwn *ssa.Function
	for _, fn := range c.AllSrcFuncs("") {
		for _, b := range fn.Blocks {
			for _, ins := range b.Instrs {
				st, ok := ins.(*ssa.Store)
				if !ok {
					continue
				}
				g, ok := st.Addr.(*ssa.Global)
				if !ok || g.Name() != "classString" {
					continue
				}
				al, ok := st.Val.(*ssa.Alloc)
				if !ok {
					continue
				}
				for _, ref := range *al.Referrers() {
					fa, ok := ref.(*ssa.FieldAddr)
					if !ok {
						continue
					}
					if _, f := fieldOfAddr(fa); f == nil || f.Name() != "getOwnProperty" {
						continue
					}
					for _, r2 := range *fa.Referrers() {
						if s2, ok := r2.(*ssa.Store); ok && s2.Addr == fa {
							getOwn, _ = s2.Val.(*ssa.Function)
						}
					}
				}
			}
		}
	}
	if getOwn == nil {
		r.undecided("unresolved:classString", "-", "UNRESOLVED: getOwnProperty slot of classString")
		return
	}
	n := 0
	for _, b := range getOwn.Blocks {
		for _, ins := range b.Instrs {
			st, ok := ins.(*ssa.Store)
			if !ok || !isFieldAddr(st.Addr, "property", "mode") {
				continue
			}
			n++
			k, isConst := constInt(st.Val)
			r.check(isConst && k == 0o010, getOwn.Name(), c.Pos(instrPos(st)), "mode 0o010: enumerable only",
				fmt.Sprintf("%s builds the index property of a String object with mode %#o; ES5 15.5.5.2 requires writable:false, enumerable:true, configurable:false (0o010): `Object.getOwnPropertyDescriptor(new String('ab'), '0').enumerable` must be true", getOwn.Name(), k))
		}
	}
	if n == 0 {
		r.undecided("unresolved:index-property", c.Pos(getOwn.Pos()), "UNRESOLVED: "+getOwn.Name()+" builds no property literal")
	}
}

func init() {
	register(&Rule{ID: "THIS-tostring", Props: []string{"C09"}, Min: 15,
		Doc: "P (must-pass-through, interprocedural): every String.prototype function except toString / valueOf is generic - its step 2 is `Let S be the result of calling ToString, giving it the this value as its argument` (ES5 15.5.4.4-20), also when this is a String object whose toString was replaced. On every path from entry to every normal return of such a built-in, ToString has been applied to call.This: a call of (Value).string on the This field, directly or in a helper all of whose returning paths do so. A shortcut that reads the code units a String object already holds skips an observable conversion (`var s = new String('abc'); s.toString = function(){ return 'xyz' }; s.charAt(0)` must be 'x')",
		Run: ruleThisToString})
}

func ruleThisToString(c *Ctx, r *R) {
	s := c.Shape()
	if s == nil {
		r.undecided("shape", "-", "UNRESOLVED: shape")
		return
	}
	proto := s.ByPath["String.prototype"]
	if proto == nil {
		r.undecided("unresolved:String.prototype", "-", "UNRESOLVED: String.prototype")
		return
	}
	isThisString := func(i ssa.Instruction) bool {
		call, ok := i.(*ssa.Call)
		if !ok || call.Call.StaticCallee() == nil {
			return false
		}
		n := call.Call.StaticCallee().Name()
		if (n != "string" && n != "String") || call.Call.StaticCallee().Signature.Recv() == nil || len(call.Call.Args) == 0 {
			return false
		}
		// receiver is the This field of a FunctionCall
		switch x := call.Call.Args[0].(type) {
		case *ssa.UnOp:
			return isFieldAddr(x.X, "FunctionCall", "This")
		case *ssa.Field:
			if st, ok := x.X.Type().Underlying().(*types.Struct); ok {
				return st.Field(x.Field).Name() == "This" && typeIs(x.X.Type(), ottoPath, "FunctionCall")
			}
		}
		return false
	}
	// summaries: functions with a FunctionCall parameter that convert This on every returning path
	always := map[*ssa.Function]bool{}
	takesCall := func(f *ssa.Function) bool {
		for _, p := range f.Params {
			if typeIs(p.Type(), ottoPath, "FunctionCall") {
				return true
			}
		}
		return false
	}
	covers := func(f *ssa.Function) bool {
		cut := func(i ssa.Instruction) bool {
			if isThisString(i) {
				return true
			}
			if call, ok := i.(*ssa.Call); ok && always[call.Call.StaticCallee()] {
				return true
			}
			return false
		}
		for _, b := range f.Blocks {
			if ret, ok := b.Instrs[len(b.Instrs)-1].(*ssa.Return); ok {
				if reachableWithout(f, ret, cut) {
					return false
				}
			}
		}
		return true
	}
	for changed := true; changed; {
		changed = false
		for _, f := range c.AllSrcFuncs("") {
			if always[f] || f.Parent() != nil || !takesCall(f) || f.Blocks == nil {
				continue
			}
			if covers(f) {
				always[f] = true
				changed = true
			}
		}
	}
	n := 0
	var names []string
	for name := range proto.Props {
		names = append(names, name)
	}
	sort.Strings(names)
	for _, name := range names {
		if name == "toString" || name == "valueOf" || name == "constructor" || name == "length" {
			continue
		}
		ch := proto.Props[name].objOf()
		if ch == nil || ch.Native == nil {
			continue
		}
		f, ok := ch.Native.Call.(SFunc)
		if !ok {
			continue
		}
		fn := c.SSAFunc(f.Fn)
		if fn == nil {
			continue
		}
		n++
		r.check(always[fn], "String.prototype."+name, c.Pos(fn.Pos()), "ToString(this) on every returning path",
			fmt.Sprintf("String.prototype.%s (%s) can return without having applied ToString to its this value: ES5 15.5.4 makes it generic - step 2 converts this with ToString, also for a String object whose toString was replaced (`var s = new String('abc'); s.toString = function(){ return 'xyz' }; s.%s(...)` must work on 'xyz')", name, fn.Name(), name))
	}
	if n < 15 {
		r.undecided("unresolved:builtins", "-", fmt.Sprintf("UNRESOLVED: %d String.prototype built-ins resolved", n))
	}
}
