package main

import (
	"encoding/json"
	"fmt"
	"os"
	"path/filepath"
	"sort"
	"strings"
	"time"
)

type Status int

const (
	Discharged Status = iota
	Violated
	Undecided
)

func (s Status) String() string {
	return [...]string{"discharged", "violated", "undecided"}[s]
}

// Ob is one obligation: a rule instance attached to a concrete construct.
type Ob struct {
	Rule   string `json:"rule"`
	Key    string `json:"key"`    // rule + construct descriptor, never a line number
	Site   string `json:"site"`   // file:line (diagnostic only)
	Status string `json:"status"` // discharged | violated | undecided
	Detail string `json:"detail,omitempty"`
	status Status
}

// R collects the obligations of one rule run.
type R struct {
	rule *Rule
	obs  []*Ob
	keys map[string]int
	info map[string]interface{}
}

func (r *R) add(st Status, key, site, detail string) *Ob {
	if r.keys == nil {
		r.keys = map[string]int{}
	}
	full := r.rule.ID + ":" + key
	r.keys[full]++
	if n := r.keys[full]; n > 1 {
		full = fmt.Sprintf("%s#%d", full, n)
	}
	o := &Ob{Rule: r.rule.ID, Key: full, Site: site, Status: st.String(), Detail: detail, status: st}
	r.obs = append(r.obs, o)
	return o
}
func (r *R) ok(key, site, detail string)        { r.add(Discharged, key, site, detail) }
func (r *R) bad(key, site, detail string)       { r.add(Violated, key, site, detail) }
func (r *R) undecided(key, site, detail string) { r.add(Undecided, key, site, detail) }
func (r *R) check(cond bool, key, site, okDetail, badDetail string) {
	if cond {
		r.ok(key, site, okDetail)
	} else {
		r.bad(key, site, badDetail)
	}
}
func (r *R) note(k string, v interface{}) {
	if r.info == nil {
		r.info = map[string]interface{}{}
	}
	r.info[k] = v
}

// Rule is one static rule of DESIGN.md section 5.
type Rule struct {
	ID    string
	Props []string // properties whose check includes this rule
	Tier  string   // "quick" (default) or "thorough"
	Min   int      // vacuity guard: fewer obligations than this => undecided
	Doc   string   // the rule applied, in one or two sentences
	Run   func(c *Ctx, r *R)
	// SubsumedBy names an E rule that decides, by exhaustive evaluation, everything the obligations selected by
	// SubsumeKey (all of them when nil) are sufficient conditions for: when such an obligation is not discharged - the
	// shape the rule reads is not there - and that E rule is clean on this tree, the obligation is recorded as decided by
	// the evaluation, and a shortfall against Min is not counted as vacuity (see subsume.go)
	SubsumedBy string
	SubsumeKey func(key string) bool
}

var rules []*Rule

func register(r *Rule) { rules = append(rules, r) }

type knownEntry struct {
	Key        string   `json:"key"`
	Properties []string `json:"properties,omitempty"`
	What       string   `json:"what"`
	Input      string   `json:"input,omitempty"`
}

type fixedEntry struct {
	Property string `json:"property"`
	Commit   string `json:"commit"`
	Key      string `json:"key,omitempty"`
	What     string `json:"what"`
}

type knownFile struct {
	Known []knownEntry `json:"known"`
	Fixed []fixedEntry `json:"fixed"`
}

func loadKnown(path string) (*knownFile, error) {
	b, err := os.ReadFile(path)
	if err != nil {
		if os.IsNotExist(err) {
			return &knownFile{}, nil
		}
		return nil, err
	}
	var k knownFile
	if err := json.Unmarshal(b, &k); err != nil {
		return nil, fmt.Errorf("%s: %w", path, err)
	}
	return &k, nil
}

type ruleResult struct {
	rule    *Rule
	obs     []*Ob
	info    map[string]interface{}
	elapsed float64
	err     string
}

func runRule(c *Ctx, rule *Rule) (res ruleResult) {
	res.rule = rule
	r := &R{rule: rule}
	t0 := time.Now()
	defer func() {
		res.elapsed = time.Since(t0).Seconds()
		if e := recover(); e != nil {
			res.err = fmt.Sprintf("rule %s panicked: %v", rule.ID, e)
			r.undecided("checker-panic", "-", res.err)
		}
		if rule.SubsumedBy != "" {
			pending := false
			for _, o := range r.obs {
				if o.status != Discharged && (rule.SubsumeKey == nil || rule.SubsumeKey(strings.TrimPrefix(o.Key, rule.ID+":"))) {
					pending = true
				}
			}
			if (pending || len(r.obs) < rule.Min) && c.eClean(rule.SubsumedBy) {
				for _, o := range r.obs {
					if o.status != Discharged && (rule.SubsumeKey == nil || rule.SubsumeKey(strings.TrimPrefix(o.Key, rule.ID+":"))) {
						o.status, o.Status = Discharged, Discharged.String()
						o.Detail = subsumedBy(rule.SubsumedBy) + " [was: " + o.Detail + "]"
					}
				}
				if len(r.obs) < rule.Min {
					r.ok("coverage", "-", fmt.Sprintf("%d obligations found where %d were confirmed on the pinned tree: the code was restructured; ", len(r.obs), rule.Min)+subsumedBy(rule.SubsumedBy))
					res.obs, res.info = r.obs, r.info
					return
				}
			}
		}
		if len(r.obs) < rule.Min {
			r.undecided("vacuity", "-", fmt.Sprintf("rule matched %d instances, fewer than the %d confirmed by hand on the pinned tree: anchors lost, the rule would pass vacuously", len(r.obs), rule.Min))
		}
		res.obs = r.obs
		res.info = r.info
	}()
	curCtx = c
	rule.Run(c, r)
	return
}

// curCtx: the context of the rule that is running (rules run one at a time); used by helpers without a Ctx parameter
// for call-site queries.
var curCtx *Ctx

type evidence struct {
	PropertyID  string                 `json:"property_id"`
	Tier        string                 `json:"tier"`
	Seed        int                    `json:"seed"`
	Level       string                 `json:"level"`
	Coverage    map[string]interface{} `json:"coverage"`
	Assumptions []string               `json:"assumptions"`
	WallS       float64                `json:"wall_s"`
	Violations  int                    `json:"violations"`
}

// finish prints the verdict lines, writes evidence and replay files, and returns the exit code.
func finish(c *Ctx, verifDir, prop, tier string, seed int, results []ruleResult, known *knownFile, t0 time.Time, replayKey string) int {
	knownByKey := map[string]knownEntry{}
	for _, k := range known.Known {
		knownByKey[k.Key] = k
	}
	replayDir := filepath.Join(verifDir, "replay", prop)
	if replayKey == "" {
		os.RemoveAll(replayDir)
	}
	var total, discharged, nKnown, nViol int
	var ruleSumm []map[string]interface{}
	var samples []interface{}
	var violLines []string
	usedKnown := map[string]bool{}
	exit := 0
	for _, res := range results {
		nd := 0
		var sites []string
		for _, o := range res.obs {
			if os.Getenv("OTTOCHECK_DUMP") != "" {
				fmt.Fprintf(os.Stderr, "OB %s %s %s | %s\n", o.Status, o.Key, o.Site, o.Detail)
			}
			total++
			if o.status == Discharged {
				if os.Getenv("OTTOCHECK_VERBOSE") != "" {
					fmt.Printf("ok %s site=%s: %s\n", o.Key, o.Site, o.Detail)
				}
				discharged++
				nd++
				if len(sites) < 3 {
					sites = append(sites, o.Site+" "+o.Key)
				}
				continue
			}
			if k, ok := knownByKey[o.Key]; ok && (len(k.Properties) == 0 || contains(k.Properties, prop)) {
				nKnown++
				usedKnown[o.Key] = true
				fmt.Printf("KNOWN-FINDING: property=%s %s [%s at %s] input: %s\n", prop, k.What, o.Key, o.Site, k.Input)
				continue
			} else if ok {
				// known for another property only: still a finding of the rule, count as known.
				nKnown++
				usedKnown[o.Key] = true
				fmt.Printf("KNOWN-FINDING: property=%s %s [%s at %s] input: %s\n", prop, k.What, o.Key, o.Site, k.Input)
				continue
			}
			// the same finding under another function name: the function it was recorded for is gone from the program
			// and this key differs from the recorded one in that name only (renamed, inlined, split)
			if mk := movedKnown(c, known, res.obs, o.Key, prop); mk != nil {
				nKnown++
				usedKnown[mk.Key] = true
				fmt.Printf("KNOWN-FINDING: property=%s %s [%s at %s; recorded as %s, a function that no longer exists] input: %s\n", prop, mk.What, o.Key, o.Site, mk.Key, mk.Input)
				continue
			}
			if replayKey != "" && o.Key != replayKey {
				continue
			}
			nViol++
			path := filepath.Join(replayDir, fmt.Sprintf("%d.json", nViol))
			if replayKey == "" {
				os.MkdirAll(replayDir, 0o755)
				rp := map[string]interface{}{
					"property": prop, "rule": o.Rule, "rule_doc": res.rule.Doc, "key": o.Key, "site": o.Site,
					"status": o.Status, "detail": o.Detail,
					"rerun": fmt.Sprintf("cd /verif && ./check %s %s --replay %s", prop, tier, path),
				}
				b, _ := json.MarshalIndent(rp, "", " ")
				os.WriteFile(path, b, 0o644)
			}
			fmt.Printf("%s rule=%s key=%q site=%s: %s\n", strings.ToUpper(o.Status), o.Rule, o.Key, o.Site, o.Detail)
			violLines = append(violLines, fmt.Sprintf("VIOLATION property=%s replay=%s", prop, path))
			exit = 1
		}
		rs := map[string]interface{}{
			"id": res.rule.ID, "rule": res.rule.Doc, "instances": len(res.obs), "discharged": nd,
			"sites_sample": sites, "seconds": round3(res.elapsed),
		}
		for k, v := range res.info {
			rs[k] = v
		}
		if res.err != "" {
			rs["error"] = res.err
		}
		ruleSumm = append(ruleSumm, rs)
		// samples: up to 2 actual obligations per rule, preferring non-discharged ones
		cnt := 0
		for _, o := range res.obs {
			if o.status != Discharged && cnt < 2 {
				samples = append(samples, o)
				cnt++
			}
		}
		for _, o := range res.obs {
			if o.status == Discharged && cnt < 2 {
				samples = append(samples, o)
				cnt++
			}
		}
		fmt.Printf("rule %-22s instances=%-4d discharged=%-4d min=%-3d %.2fs\n", res.rule.ID, len(res.obs), nd, res.rule.Min, res.elapsed)
	}
	for _, l := range violLines {
		fmt.Println(l)
	}
	// stale known entries are reported (informational): the finding no longer reproduces
	for _, k := range known.Known {
		if !usedKnown[k.Key] && (len(k.Properties) == 0 || contains(k.Properties, prop)) {
			// only mention entries whose rule ran in this check
			for _, res := range results {
				if strings.HasPrefix(k.Key, res.rule.ID+":") {
					fmt.Printf("note: known finding %q no longer reproduces (rule %s)\n", k.Key, res.rule.ID)
				}
			}
		}
	}
	var pkgs []string
	nfuncs := 0
	for _, p := range c.All {
		pkgs = append(pkgs, strings.TrimPrefix(p.PkgPath, "github.com/robertkrimen/"))
	}
	for f := range c.funcDecls {
		_ = f
		nfuncs++
	}
	ev := evidence{
		PropertyID: prop, Tier: tier, Seed: seed, Level: "other",
		Coverage: map[string]interface{}{
			"explanation": fmt.Sprintf("Static analysis of /repo's current source (go/packages type-checked program, go/ssa where a rule identifies a value). "+
				"%d rules produced %d obligations, each attached to a concrete construct (function, call site, table cell, CFG path); %d discharged, %d known findings, %d violations/undecided. "+
				"Only the structural clauses listed in MANIFEST.level_note are decided; the behaviour as a whole is not.", len(results), total, discharged, nKnown, nViol),
			"obligations":        total,
			"discharged":         discharged,
			"known_findings":     nKnown,
			"rules":              ruleSumm,
			"packages":           pkgs,
			"functions_analysed": nfuncs,
			"samples":            samples,
			"exhaustive":         true,
			"checker_cmd":        fmt.Sprintf("./check %s %s", prop, tier),
		},
		Assumptions: []string{
			"go/packages + go/types + go/ssa (x/tools v0.29.0) represent the program faithfully",
			"ES5.1 oracle tables in checker/es5*.go were transcribed correctly from the specification",
			"reviewed exemption tables in the checker (one line of reason each) are correct",
		},
		WallS:      round3(time.Since(t0).Seconds()),
		Violations: nViol,
	}
	if replayKey == "" {
		os.MkdirAll(filepath.Join(verifDir, "evidence"), 0o755)
		b, _ := json.MarshalIndent(ev, "", " ")
		if err := os.WriteFile(filepath.Join(verifDir, "evidence", prop+".json"), b, 0o644); err != nil {
			fmt.Fprintf(os.Stderr, "CHECKER-ERROR cannot write evidence: %v\n", err)
			return 2
		}
	}
	fmt.Printf("property=%s tier=%s obligations=%d discharged=%d known=%d violations=%d wall=%.1fs\n", prop, tier, total, discharged, nKnown, nViol, time.Since(t0).Seconds())
	return exit
}

func contains(xs []string, x string) bool {
	for _, y := range xs {
		if y == x {
			return true
		}
	}
	return false
}

func round3(f float64) float64 { return float64(int(f*1000+0.5)) / 1000 }

func sortedKeys[V any](m map[string]V) []string {
	var ks []string
	for k := range m {
		ks = append(ks, k)
	}
	sort.Strings(ks)
	return ks
}

// movedKnown: the known finding recorded for the construct of key in a function that has disappeared (see moved.go).
func movedKnown(c *Ctx, known *knownFile, obs []*Ob, key, prop string) *knownEntry {
	produced := map[string]bool{}
	for _, o := range obs {
		produced[o.Key] = true
	}
	var found *knownEntry
	n, best := 0, 0
	for i := range known.Known {
		k := &known.Known[i]
		if produced[k.Key] {
			continue
		}
		sc := c.movedMatch(k.Key, key)
		if sc == 0 || sc < best {
			continue
		}
		if sc > best {
			best, n = sc, 0
		}
		found = k
		n++
	}
	if n == 1 {
		return found
	}
	return nil
}
