package main

import (
	"fmt"
	"go/ast"
	"go/constant"
	"go/token"
	"go/types"
	"regexp"
	"sort"
	"strings"

	"golang.org/x/tools/go/ssa"
)

func init() {
	register(&Rule{ID: "CHARSET", Props: []string{"C13", "C14", "C09", "C05"}, Min: 5,
		Doc: "S: constant character-set tables are compared as sets with ES5: the characters encodeURI / encodeURIComponent leave unescaped (regexp constant joined with what url.QueryEscape leaves alone) = §15.1.3.3/4; the escapes decodeURI preserves (guard regexp, either hex case) = reservedSet+'#' §15.1.3.1; escape()'s unescaped set = B.2.1; the trim set = WhiteSpace+LineTerminator §7.2-7.3",
		Run: ruleCharset})
	register(&Rule{ID: "LIB-must", Props: []string{"C02", "C10"}, Min: 5,
		Doc: "S: panicking library constructors (regexp.MustCompile, language.MustParse, template.Must ...) are only ever applied to constants: a Must* call on script-derived data turns a malformed input into a host panic",
		Run: ruleLibMust})
	register(&Rule{ID: "LIB-bounds", Props: []string{"C06"}, Min: 4,
		Doc: "S+P: in Number.prototype.toString/toFixed/toExponential/toPrecision (resolved through the built-in table) the ToInteger'ed argument is compared against both ES5 bounds (radix 2..36, fraction digits 0..20, precision 1..21) and the out-of-range side raises a RangeError, before the value reaches the formatting library call (strconv accepts any precision)",
		Run: ruleLibBounds})
	register(&Rule{ID: "LIB-math", Props: []string{"C13"}, Min: 4,
		Doc: "S: library special cases that differ from ES5 §15.8.2 are guarded: Math.pow tests |x| == 1 with infinite y (math.Pow gives 1, ES5 NaN); Math.max/min test NaN before math.Max/Min (which let an infinity win over NaN); Math.round is not built on math.Round (half away from zero) ; isNaN/isFinite apply ToNumber to their argument",
		Run: ruleLibMath})
	register(&Rule{ID: "LIB-parse", Props: []string{"C06", "C05", "C13", "C03"}, Min: 3,
		Doc: "S: strconv.ParseFloat / ParseInt accept more than the ES5 numeric grammars (inf, infinity, nan, hex floats, digit separators, 0b/0o prefixes); every call on script text must be dominated by a grammar guard (a regexp match or being fed by the ES5 lexer), and a ParseFloat range error (value rounds to ±Inf) must not be treated as a syntax failure",
		Run: ruleLibParse})
}

func runeSet(chars string) map[rune]bool {
	m := map[rune]bool{}
	for _, r := range chars {
		m[r] = true
	}
	return m
}

func setDiff(a, b map[rune]bool) string {
	var out []string
	for r := range a {
		if !b[r] {
			out = append(out, fmt.Sprintf("%q", r))
		}
	}
	sort.Strings(out)
	return strings.Join(out, " ")
}

const alnum = "ABCDEFGHIJKLMNOPQRSTUVWXYZabcdefghijklmnopqrstuvwxyz0123456789"

// regexpVarPattern returns the constant pattern of a package-level `regexp.MustCompile(const)` variable.
func regexpVarPattern(c *Ctx, v types.Object) (string, bool) {
	init := c.VarInit(v)
	call, ok := init.(*ast.CallExpr)
	if !ok || len(call.Args) != 1 {
		return "", false
	}
	p := c.Otto()
	tv := p.TypesInfo.Types[call.Args[0]]
	if tv.Value == nil || tv.Value.Kind() != constant.String {
		return "", false
	}
	return constant.StringVal(tv.Value), true
}

func ruleCharset(c *Ctx, r *R) {
	s := c.Shape()
	p := c.Otto()
	info := p.TypesInfo
	// --- encodeURI / encodeURIComponent: the regexp variable passed by the function bound to the global name
	uriReserved := ";/?:@&=+$,"
	uriMark := "-_.!~*'()"
	queryEscapeLeaves := alnum + "-_.~" // documented behaviour of net/url.QueryEscape (space becomes '+', handled separately by the caller)
	want := map[string]string{
		"encodeURI":          uriReserved + alnum + uriMark + "#", // §15.1.3.3
		"encodeURIComponent": alnum + uriMark,                     // §15.1.3.4
	}
	bound := s.BoundOn("<global>")
	if s.Global != nil {
		bound = map[string]*types.Func{}
		for name, pr := range s.Global.Props {
			if ch := pr.objOf(); ch != nil && ch.Native != nil {
				if f, ok := ch.Native.Call.(SFunc); ok {
					bound[name] = f.Fn
				}
			}
		}
	}
	for _, name := range []string{"encodeURI", "encodeURIComponent"} {
		fn := bound[name]
		fd := c.Decl(fn)
		if fd == nil {
			r.undecided("anchor:"+name, "-", "UNRESOLVED global function "+name)
			continue
		}
		// find a package-level *regexp.Regexp variable referenced in the body
		var pat string
		found := false
		ast.Inspect(fd.Body, func(n ast.Node) bool {
			if id, ok := n.(*ast.Ident); ok {
				if v, ok := info.Uses[id].(*types.Var); ok && v.Parent() == p.Types.Scope() && typeStr(v.Type()) == "*regexp.Regexp" {
					if pt, ok := regexpVarPattern(c, v); ok {
						pat, found = pt, true
					}
				}
			}
			return true
		})
		if !found {
			r.undecided("table:"+name, c.Pos(fd.Pos()), "cannot find the constant regexp that selects the characters to escape")
			continue
		}
		re, err := regexp.Compile(pat)
		if err != nil {
			r.bad("table:"+name, c.Pos(fd.Pos()), "regexp constant does not compile: "+err.Error())
			continue
		}
		got := map[rune]bool{}
		for ch := rune(0x21); ch < 0x7f; ch++ { // printable ASCII (space is handled explicitly by the encoder)
			if !re.MatchString(string(ch)) || strings.ContainsRune(queryEscapeLeaves, ch) {
				got[ch] = true
			}
		}
		w := runeSet(want[name])
		extra, missing := setDiff(got, w), setDiff(w, got)
		r.check(extra == "" && missing == "", "unescaped-set:"+name, c.Pos(fd.Pos()), fmt.Sprintf("%d characters left unescaped, equal to the ES5 set", len(got)),
			fmt.Sprintf("%s leaves unescaped {%s} that ES5 escapes and escapes {%s} that ES5 leaves alone (pattern %s)", name, extra, missing, pat))
	}
	// --- decodeURI guard: regexp used in the function that decodeURI (not decodeURIComponent) reaches with reserve=true
	var guardVar *types.Var
	sc := p.Types.Scope()
	for _, n := range sc.Names() {
		if v, ok := sc.Lookup(n).(*types.Var); ok && typeStr(v.Type()) == "*regexp.Regexp" {
			if pt, ok := regexpVarPattern(c, v); ok && strings.Contains(pt, "%") {
				guardVar = v
			}
		}
	}
	if guardVar == nil {
		r.undecided("table:decodeURI-guard", "-", "UNRESOLVED: no constant regexp over percent-escapes (the guard that keeps reserved escapes encoded in decodeURI)")
	} else {
		pt, _ := regexpVarPattern(c, guardVar)
		re, err := regexp.Compile(pt)
		if err != nil {
			r.bad("table:decodeURI-guard", c.Pos(guardVar.Pos()), "guard regexp does not compile")
		} else {
			got := map[rune]bool{}
			caseOK := true
			for b := 0x21; b < 0x7f; b++ {
				up := fmt.Sprintf("%%%02X", b)
				lo := fmt.Sprintf("%%%02x", b)
				mu, ml := re.MatchString(up), re.MatchString(lo)
				if mu != ml {
					caseOK = false
				}
				if mu || ml {
					got[rune(b)] = true
				}
			}
			w := runeSet(uriReserved + "#")
			extra, missing := setDiff(got, w), setDiff(w, got)
			r.check(extra == "" && missing == "", "reserved-set:decodeURI", c.Pos(guardVar.Pos()), "preserves exactly the escapes of ; / ? : @ & = + $ , #",
				fmt.Sprintf("decodeURI's guard preserves escapes of {%s} beyond the ES5 reserved set and fails to preserve {%s} (§15.1.3.1)", extra, missing))
			r.check(caseOK, "reserved-case:decodeURI", c.Pos(guardVar.Pos()), "matches both hex cases", "the guard matches only one case of the hex digits: decodeURI('%2f') would decode a reserved character (ES5 hex digits are case-insensitive)")
		}
	}
	// the guard must be applied on the decodeURI path and not on decodeURIComponent: checked by constant arguments
	for name, wantReserve := range map[string]bool{"decodeURI": true, "decodeURIComponent": false} {
		fd := c.Decl(bound[name])
		if fd == nil {
			r.undecided("anchor:"+name, "-", "UNRESOLVED global function "+name)
			continue
		}
		okArg := false
		seen := false
		ast.Inspect(fd.Body, func(n ast.Node) bool {
			call, ok := n.(*ast.CallExpr)
			if !ok {
				return true
			}
			for _, a := range call.Args {
				if tv := info.Types[a]; tv.Value != nil && tv.Value.Kind() == constant.Bool {
					seen = true
					okArg = constant.BoolVal(tv.Value) == wantReserve
				}
			}
			return true
		})
		if !seen {
			r.undecided("reserve-flag:"+name, c.Pos(fd.Pos()), "cannot see the constant that selects whether reserved escapes are preserved")
			continue
		}
		r.check(okArg, "reserve-flag:"+name, c.Pos(fd.Pos()), fmt.Sprint(wantReserve), fmt.Sprintf("%s passes reserve=%v: decodeURI must preserve reserved escapes and decodeURIComponent must not (§15.1.3.1-2)", name, !wantReserve))
	}
	// --- escape(): the predicate deciding which bytes are escaped
	// the predicate is found by role: the function bound to the global `escape`, or the first of its callees (two levels),
	// that compares a byte with character ranges or asks strings.ContainsRune about a constant set
	var escFd *ast.FuncDecl
	if f := bound["escape"]; f != nil {
		level := []*ssa.Function{c.SSAFunc(f)}
		for d := 0; d < 3 && escFd == nil; d++ {
			var next []*ssa.Function
			for _, sf := range level {
				if sf == nil || sf.Blocks == nil {
					continue
				}
				tests := false
				for _, b := range sf.Blocks {
					for _, ins := range b.Instrs {
						if call, ok := ins.(*ssa.Call); ok {
							if cl := call.Call.StaticCallee(); cl != nil {
								if cl.Name() == "ContainsRune" {
									tests = true
								} else if cl.Pkg != nil && cl.Pkg.Pkg.Path() == ottoPath {
									next = append(next, cl)
								}
							}
						}
					}
				}
				if tests && escFd == nil {
					if fo, ok := sf.Object().(*types.Func); ok {
						escFd = c.Decl(fo)
					}
				}
			}
			level = next
		}
	}
	if fd := escFd; fd != nil {
		got := map[rune]bool{}
		ast.Inspect(fd.Body, func(n ast.Node) bool {
			switch x := n.(type) {
			case *ast.BinaryExpr:
				// 'A' <= chr && chr <= 'Z'
				if x.Op == token.LAND {
					l, ok1 := unparen(x.X).(*ast.BinaryExpr)
					h, ok2 := unparen(x.Y).(*ast.BinaryExpr)
					if ok1 && ok2 && l.Op == token.LEQ && h.Op == token.LEQ {
						lo, hi := info.Types[l.X].Value, info.Types[h.Y].Value
						if lo != nil && hi != nil {
							a, _ := constant.Int64Val(lo)
							b, _ := constant.Int64Val(hi)
							for ch := a; ch <= b && ch < 128; ch++ {
								got[rune(ch)] = true
							}
						}
					}
				}
			case *ast.CallExpr:
				if sel, ok := unparen(x.Fun).(*ast.SelectorExpr); ok && sel.Sel.Name == "ContainsRune" && len(x.Args) == 2 {
					if tv := info.Types[x.Args[0]]; tv.Value != nil {
						for _, ch := range constant.StringVal(tv.Value) {
							got[ch] = true
						}
					}
				}
			}
			return true
		})
		w := runeSet(alnum + "@*_+-./") // B.2.1
		extra, missing := setDiff(got, w), setDiff(w, got)
		r.check(extra == "" && missing == "", "unescaped-set:escape", c.Pos(fd.Pos()), "equal to the B.2.1 set", fmt.Sprintf("escape() leaves {%s} unescaped beyond B.2.1 and escapes {%s} that B.2.1 leaves alone", extra, missing))
	} else {
		r.undecided("anchor:escape", "-", "UNRESOLVED: no function under the global escape tests a byte against a constant character set")
	}
	// --- trim set
	if cst, ok := sc.Lookup("builtinStringTrimWhitespace").(*types.Const); ok {
		got := runeSet(constant.StringVal(cst.Val()))
		// WhiteSpace (§7.2: TAB VT FF SP NBSP BOM + Unicode Zs as of the version ES5.1 references) and LineTerminator (§7.3)
		w := runeSet("\u0009\u000B\u000C\u0020\u00A0\uFEFF" + "\u1680\u180E\u2000\u2001\u2002\u2003\u2004\u2005\u2006\u2007\u2008\u2009\u200A\u202F\u205F\u3000" + "\u000A\u000D\u2028\u2029")
		extra, missing := setDiff(got, w), setDiff(w, got)
		r.check(extra == "" && missing == "", "trim-set", c.Pos(cst.Pos()), fmt.Sprintf("%d code points = WhiteSpace + LineTerminator", len(got)), fmt.Sprintf("trim/ToNumber white space set has extra {%s} and lacks {%s} (§7.2, §7.3, §15.5.4.20, §9.3.1)", extra, missing))
	} else {
		r.undecided("anchor:trim", "-", "UNRESOLVED builtinStringTrimWhitespace")
	}
	// --- who strips with that set: trim / trimLeft / trimRight, parseInt, parseFloat and ToNumber on strings must strip
	// exactly WhiteSpace + LineTerminator, i.e. call strings.Trim* with a constant cut-set equal to the ES5 set
	w := runeSet("\u0009\u000B\u000C\u0020\u00A0\uFEFF" + "\u1680\u180E\u2000\u2001\u2002\u2003\u2004\u2005\u2006\u2007\u2008\u2009\u200A\u202F\u205F\u3000" + "\u000A\u000D\u2028\u2029")
	type user struct {
		label string
		fn    *ssa.Function
		trim  string // required strings function
	}
	var users []user
	strFns := c.Shape().boundSSA(c, "String.prototype")
	for name, lib := range map[string]string{"trim": "Trim", "trimLeft": "TrimLeft", "trimRight": "TrimRight"} {
		users = append(users, user{"String.prototype." + name, strFns[name], lib})
	}
	if g := c.Shape().Global; g != nil {
		for _, name := range []string{"parseInt", "parseFloat"} {
			if p := g.Props[name]; p != nil {
				if ch := p.objOf(); ch != nil && ch.Native != nil {
					if f, ok := ch.Native.Call.(SFunc); ok {
						users = append(users, user{name, c.SSAFunc(f.Fn), "Trim"})
					}
				}
			}
		}
	}
	users = append(users, user{"ToNumber(string)", c.SSAFunc(c.LookupFunc("", "parseNumber")), "Trim"})
	sort.Slice(users, func(i, j int) bool { return users[i].label < users[j].label })
	for _, u := range users {
		if u.fn == nil {
			r.undecided("strip:"+u.label, "-", "UNRESOLVED: "+u.label)
			continue
		}
		found := ""
		var follow func(fn *ssa.Function, depth int)
		follow = func(fn *ssa.Function, depth int) {
			if fn == nil || fn.Blocks == nil || depth > 1 || found == "ok" {
				return
			}
			for _, b := range fn.Blocks {
				for _, ins := range b.Instrs {
					call, ok := ins.(*ssa.Call)
					if !ok {
						continue
					}
					callee := call.Call.StaticCallee()
					if callee == nil {
						continue
					}
					if callee.Pkg != nil && callee.Pkg.Pkg.Path() == "strings" && callee.Name() == u.trim && len(call.Call.Args) == 2 {
						if k, ok := call.Call.Args[1].(*ssa.Const); ok && k.Value != nil && k.Value.Kind() == constant.String {
							got := runeSet(constant.StringVal(k.Value))
							if setDiff(got, w) == "" && setDiff(w, got) == "" {
								found = "ok"
							} else if found == "" {
								found = "strips a different set"
							}
						}
					} else if callee.Pkg != nil && callee.Pkg.Pkg.Path() == ottoPath && strings.HasPrefix(callee.Name(), "builtinStringTrim") {
						follow(callee, depth+1) // trimStart / trimEnd delegate
					}
				}
			}
		}
		follow(u.fn, 0)
		r.check(found == "ok", "strip:"+u.label, c.Pos(u.fn.Pos()), "strips exactly WhiteSpace + LineTerminator (strings."+u.trim+" with the ES5 set)", fmt.Sprintf("%s must strip exactly the ES5 WhiteSpace and LineTerminator characters (§7.2, §7.3) with strings.%s and the constant set; found: %s. A predicate such as unicode.IsSpace also strips U+0085, which ES5 does not treat as white space, and lacks U+FEFF / U+180E", u.label, u.trim, map[string]string{"": "no such call"}[found]+found))
	}
}

func ruleLibMust(c *Ctx, r *R) {
	for _, fn := range c.AllSrcFuncs("", "parser", "ast", "file", "token", "registry") {
		for _, b := range fn.Blocks {
			for _, ins := range b.Instrs {
				call, ok := ins.(*ssa.Call)
				if !ok {
					continue
				}
				callee := call.Call.StaticCallee()
				if callee == nil || callee.Pkg == nil || strings.HasPrefix(callee.Pkg.Pkg.Path(), ottoPath) || !strings.HasPrefix(callee.Name(), "Must") {
					continue
				}
				allConst := true
				for _, a := range call.Call.Args {
					// regexp.QuoteMeta is no sanitiser here: quoted text that is not valid UTF-8 (a string handed over from Go)
					// still fails to compile
					if _, isC := a.(*ssa.Const); !isC {
						// template.Must(x, err)-style wrappers take call results: treat non-constants as dynamic
						allConst = false
					}
				}
				key := fmt.Sprintf("%s:%s.%s", ssaFuncName(fn), callee.Pkg.Pkg.Name(), callee.Name())
				r.check(allConst, key, c.Pos(instrPos(ins)), "constant argument", fmt.Sprintf("%s.%s is called with a non-constant argument in %s: input that the library rejects becomes a Go panic the host cannot intercept as a script error", callee.Pkg.Pkg.Name(), callee.Name(), ssaFuncName(fn)))
			}
		}
	}
}

// numberProtoBounds: ES5 §15.7.4.2/5/6/7
var numberProtoBounds = map[string][2]int64{"toString": {2, 36}, "toFixed": {0, 20}, "toExponential": {0, 20}, "toPrecision": {1, 21}}

func ruleLibBounds(c *Ctx, r *R) {
	s := c.Shape()
	bound := s.BoundOn("Number.prototype")
	for _, name := range []string{"toString", "toFixed", "toExponential", "toPrecision"} {
		fn := c.SSAFunc(bound[name])
		if fn == nil {
			r.undecided("anchor:"+name, "-", "UNRESOLVED Number.prototype."+name)
			continue
		}
		want := numberProtoBounds[name]
		// the ToInteger'ed argument
		var vals []ssa.Value
		for _, b := range fn.Blocks {
			for _, ins := range b.Instrs {
				if call, ok := ins.(*ssa.Call); ok {
					if callee := call.Call.StaticCallee(); callee != nil && callee.Name() == "toIntegerFloat" {
						vals = append(vals, call)
					}
				}
			}
		}
		if len(vals) == 0 {
			r.undecided("arg:"+name, c.Pos(fn.Pos()), "no ToInteger conversion of the argument found")
			continue
		}
		lo, hi := int64(-1<<62), int64(1<<62)
		haveLo, haveHi := false, false
		for _, b := range fn.Blocks {
			iff, ok := b.Instrs[len(b.Instrs)-1].(*ssa.If)
			if !ok {
				continue
			}
			bo, ok := iff.Cond.(*ssa.BinOp)
			if !ok {
				continue
			}
			// normalise to v OP const
			var cst *ssa.Const
			var v ssa.Value
			op := bo.Op
			if c2, ok := bo.Y.(*ssa.Const); ok {
				cst, v = c2, bo.X
			} else if c2, ok := bo.X.(*ssa.Const); ok {
				cst, v = c2, bo.Y
				switch op { // const OP v  ==>  v OP' const
				case token.LSS:
					op = token.GTR
				case token.GTR:
					op = token.LSS
				case token.LEQ:
					op = token.GEQ
				case token.GEQ:
					op = token.LEQ
				}
			} else {
				continue
			}
			isVal := false
			for _, x := range vals {
				if v == x || phiOf(v, x) {
					isVal = true
				}
			}
			if !isVal || cst.Value == nil {
				continue
			}
			f, _ := constant.Float64Val(constant.ToFloat(cst.Value))
			k := int64(f)
			// the true side must raise RangeError
			if !leadsToRangeError(b.Succs[0]) {
				continue
			}
			switch op {
			case token.LSS: // v < k  => error: lowest allowed is k
				lo, haveLo = k, true
			case token.LEQ:
				lo, haveLo = k+1, true
			case token.GTR: // v > k => error: highest allowed is k
				hi, haveHi = k, true
			case token.GEQ:
				hi, haveHi = k-1, true
			}
		}
		site := c.Pos(fn.Pos())
		r.check(haveLo && lo == want[0], "lower:"+name, site, fmt.Sprintf("RangeError below %d", want[0]), fmt.Sprintf("Number.prototype.%s: lower bound test is %s, ES5 requires a RangeError below %d", name, boundDesc(haveLo, lo), want[0]))
		r.check(haveHi && hi == want[1], "upper:"+name, site, fmt.Sprintf("RangeError above %d", want[1]), fmt.Sprintf("Number.prototype.%s: upper bound test is %s, ES5 requires a RangeError above %d (the formatting library accepts any precision)", name, boundDesc(haveHi, hi), want[1]))
	}
}

func boundDesc(have bool, v int64) string {
	if !have {
		return "missing"
	}
	return fmt.Sprint(v)
}

func phiOf(v, x ssa.Value) bool {
	if p, ok := v.(*ssa.Phi); ok {
		for _, e := range p.Edges {
			if e == x {
				return true
			}
		}
	}
	return false
}

// leadsToRangeError: following straight-line / or-chain successors from b, a block panics with panicRangeError.
func leadsToRangeError(b *ssa.BasicBlock) bool {
	seen := map[*ssa.BasicBlock]bool{}
	for i := 0; i < 4 && b != nil && !seen[b]; i++ {
		seen[b] = true
		if blockPanicsWith(b, "panicRangeError") {
			return true
		}
		if len(b.Succs) == 1 {
			b = b.Succs[0]
		} else {
			return false
		}
	}
	return false
}

func ruleLibMath(c *Ctx, r *R) {
	s := c.Shape()
	bound := s.BoundOn("Math")
	callsLib := func(fn *ssa.Function, pkg, name string) []*ssa.Call {
		var out []*ssa.Call
		for _, b := range fn.Blocks {
			for _, ins := range b.Instrs {
				if call, ok := ins.(*ssa.Call); ok {
					if callee := call.Call.StaticCallee(); callee != nil && callee.Pkg != nil && callee.Pkg.Pkg.Path() == pkg && callee.Name() == name {
						out = append(out, call)
					}
				}
			}
		}
		return out
	}
	// result provenance: a Math function that is built on the library function of the same name returns that function's
	// result (or a constant, NaN, an argument): a second library function or arithmetic computing the result on some
	// inputs is a fast path with its own special cases (math.Sqrt(-Inf) is NaN where math.Pow(-Inf, 0.5) is +Inf)
	{
		var names []string
		for n := range bound {
			names = append(names, n)
		}
		sort.Strings(names)
		predicates := map[string]bool{"IsNaN": true, "IsInf": true, "NaN": true, "Inf": true, "Signbit": true}
		for _, n := range names {
			fn := c.SSAFunc(bound[n])
			if fn == nil || n == "" {
				continue
			}
			lib := strings.ToUpper(n[:1]) + n[1:]
			if len(callsLib(fn, "math", lib)) == 0 {
				continue
			}
			// values handed to float64Value (or returned as float64)
			var offender ssa.Instruction
			var what string
			seen := map[ssa.Value]bool{}
			var trace func(v ssa.Value)
			trace = func(v ssa.Value) {
				if v == nil || seen[v] || offender != nil {
					return
				}
				seen[v] = true
				switch x := v.(type) {
				case *ssa.Phi:
					for _, e := range x.Edges {
						trace(e)
					}
				case *ssa.Call:
					callee := x.Call.StaticCallee()
					if callee != nil && callee.Pkg != nil && callee.Pkg.Pkg.Path() == "math" && callee.Name() != lib && !predicates[callee.Name()] {
						offender, what = x, "math."+callee.Name()
					}
				case *ssa.BinOp:
					switch x.Op {
					case token.ADD, token.SUB, token.MUL, token.QUO:
						offender, what = x, "arithmetic ("+x.Op.String()+")"
					}
				case *ssa.UnOp:
					if x.Op == token.MUL {
						if al, ok := x.X.(*ssa.Alloc); ok {
							for _, ref := range *al.Referrers() {
								if st, ok := ref.(*ssa.Store); ok {
									trace(st.Val)
								}
							}
						}
					}
				}
			}
			for _, b := range fn.Blocks {
				for _, ins := range b.Instrs {
					if call, ok := ins.(*ssa.Call); ok {
						if callee := call.Call.StaticCallee(); callee != nil && callee.Name() == "float64Value" && len(call.Call.Args) == 1 {
							trace(call.Call.Args[0])
						}
					}
				}
			}
			key := "result:" + n
			if offender == nil {
				r.ok(key, c.Pos(fn.Pos()), "every result is the value of math."+lib+", a constant or an argument")
			} else {
				r.bad(key, c.Pos(instrPos(offender)), fmt.Sprintf("Math.%s is built on math.%s but on some inputs returns the result of %s instead: a fast path has the special cases of the other operation, not those of ES5 15.8.2 (`Math.pow(-Infinity, 0.5)` must be +Infinity, math.Sqrt(-Inf) is NaN; `1/Math.pow(-0, 0.5)` must be +Infinity)", n, lib, what))
			}
		}
	}
	// pow
	if fn := c.SSAFunc(bound["pow"]); fn != nil {
		pows := callsLib(fn, "math", "Pow")
		if len(pows) == 0 {
			r.ok("pow:no-lib", c.Pos(fn.Pos()), "Math.pow is not built on math.Pow")
		}
		for _, pc := range pows {
			// need a dominating branch whose condition involves math.IsInf on the exponent and |x| == 1
			okGuard := false
			for _, b := range fn.Blocks {
				iff, ok := b.Instrs[len(b.Instrs)-1].(*ssa.If)
				if !ok {
					continue
				}
				if call, ok := iff.Cond.(*ssa.Call); ok && call.Call.StaticCallee() != nil && call.Call.StaticCallee().Name() == "IsInf" && !reaches(b.Succs[0], pc.Block(), map[*ssa.BasicBlock]bool{b: true}) {
					// reached only after abs(x) == 1 test (short circuit): look for a dominating comparison with 1
					for _, b2 := range fn.Blocks {
						if iff2, ok := b2.Instrs[len(b2.Instrs)-1].(*ssa.If); ok && b2.Dominates(b) {
							if bo, ok := iff2.Cond.(*ssa.BinOp); ok && bo.Op == token.EQL {
								if k, isC := bo.Y.(*ssa.Const); isC && k.Value != nil {
									if f, _ := constant.Float64Val(constant.ToFloat(k.Value)); f == 1 {
										okGuard = true
									}
								}
							}
						}
					}
				}
			}
			r.check(okGuard, "pow:guard", c.Pos(instrPos(pc)), "|x| == 1 && IsInf(y) tested before math.Pow", "math.Pow(±1, ±Inf) returns 1 but ES5 §15.8.2.13 requires NaN: the call is not dominated by a test of |x| == 1 with infinite y")
			// the exponent passes an IsNaN test whose true side does not reach the library call: math.Pow(1, NaN) is 1
			okNaN := false
			if len(pc.Call.Args) == 2 {
				y := pc.Call.Args[1]
				for _, b := range fn.Blocks {
					iff, ok := b.Instrs[len(b.Instrs)-1].(*ssa.If)
					if !ok {
						continue
					}
					if call, ok := iff.Cond.(*ssa.Call); ok && call.Call.StaticCallee() != nil && call.Call.StaticCallee().Name() == "IsNaN" && (call.Call.Args[0] == y || sameSSA(call.Call.Args[0], y, 0)) {
						if b.Dominates(pc.Block()) && !reaches(b.Succs[0], pc.Block(), map[*ssa.BasicBlock]bool{b: true}) {
							okNaN = true
						}
					}
				}
			}
			r.check(okNaN, "pow:nan-exponent", c.Pos(instrPos(pc)), "a NaN exponent returns before math.Pow", "math.Pow(1, NaN) returns 1 but ES5 §15.8.2.13 says \"if y is NaN, the result is NaN\": the call is not preceded by an IsNaN test of the exponent that leaves (`Math.pow(1)` is 1)")
		}
	} else {
		r.undecided("anchor:pow", "-", "UNRESOLVED Math.pow")
	}
	// round
	if fn := c.SSAFunc(bound["round"]); fn != nil {
		r.check(len(callsLib(fn, "math", "Round")) == 0 && len(callsLib(fn, "math", "RoundToEven")) == 0, "round:no-lib", c.Pos(fn.Pos()), "not built on math.Round", "math.Round rounds half away from zero; ES5 §15.8.2.15 rounds half up (Math.round(-2.5) is -2)")
	} else {
		r.undecided("anchor:round", "-", "UNRESOLVED Math.round")
	}
	// max / min
	for _, name := range []string{"max", "min"} {
		fn := c.SSAFunc(bound[name])
		if fn == nil {
			r.undecided("anchor:"+name, "-", "UNRESOLVED Math."+name)
			continue
		}
		lib := "Max"
		if name == "min" {
			lib = "Min"
		}
		calls := callsLib(fn, "math", lib)
		if len(calls) == 0 {
			// math.Max / math.Min handed as a function value to a shared helper: the helper's calls of that parameter
			// are the library calls, and the helper is where the NaN guards must be
			for _, b := range fn.Blocks {
				for _, ins := range b.Instrs {
					call, ok := ins.(*ssa.Call)
					if !ok || call.Call.StaticCallee() == nil || len(call.Call.StaticCallee().Blocks) == 0 {
						continue
					}
					for i, a := range call.Call.Args {
						f, ok := a.(*ssa.Function)
						if !ok || f.Pkg == nil || f.Pkg.Pkg.Path() != "math" || f.Name() != lib {
							continue
						}
						helper := call.Call.StaticCallee()
						if i >= len(helper.Params) {
							continue
						}
						for _, hb := range helper.Blocks {
							for _, hi := range hb.Instrs {
								if hc, ok := hi.(*ssa.Call); ok && hc.Call.Value == ssa.Value(helper.Params[i]) {
									calls = append(calls, hc)
								}
							}
						}
						if len(calls) > 0 {
							fn = helper
						}
					}
				}
			}
		}
		if len(calls) == 0 {
			// a hand-written comparison: Go's < and > treat +0 and -0 as equal, so ordering the zeros needs the sign bit
			zero := len(callsLib(fn, "math", "Signbit"))+len(callsLib(fn, "math", "Copysign")) > 0
			r.check(zero, name+":signed-zero", c.Pos(fn.Pos()), "not built on math."+lib+", orders the zeros with the sign bit", fmt.Sprintf("Math.%s is built neither on math.%s nor on a sign-bit test: Go's comparison operators cannot tell +0 from -0, but ES5 §15.8.2.11-12 orders them (+0 is larger than -0), so Math.%s(-0, 0) has the wrong sign", name, lib, name))
			continue
		}
		r.ok(name+":signed-zero", c.Pos(instrPos(calls[0])), "math."+lib+" orders +0 above -0")
		for _, mc := range calls {
			// both operands must have passed an IsNaN test whose true side returns
			okAll := true
			for _, a := range mc.Call.Args {
				if !nanTested(fn, a, mc) {
					okAll = false
				}
			}
			if !okAll && nanFlagged(fn, mc) {
				okAll = true // every operand's IsNaN is accumulated in a flag and the computed result is returned only when the flag is false
			}
			r.check(okAll, name+":nan-guard", c.Pos(instrPos(mc)), "both operands tested with IsNaN first (or a NaN flag over all operands guards the result)", fmt.Sprintf("math.%s lets an infinity win over NaN (math.%s(+Inf, NaN) = +Inf) but ES5 §15.8.2.11-12 requires NaN if any argument is NaN: an operand reaches the call without a dominating IsNaN test", lib, lib))
		}
	}
	// isNaN / isFinite: apply ToNumber (float64()) to the argument
	gb := map[string]*types.Func{}
	if s.Global != nil {
		for name, pr := range s.Global.Props {
			if ch := pr.objOf(); ch != nil && ch.Native != nil {
				if f, ok := ch.Native.Call.(SFunc); ok {
					gb[name] = f.Fn
				}
			}
		}
	}
	for _, name := range []string{"isNaN", "isFinite"} {
		fn := c.SSAFunc(gb[name])
		if fn == nil {
			r.undecided("anchor:"+name, "-", "UNRESOLVED global "+name)
			continue
		}
		conv := false
		for _, b := range fn.Blocks {
			for _, ins := range b.Instrs {
				if call, ok := ins.(*ssa.Call); ok {
					if callee := call.Call.StaticCallee(); callee != nil && callee.Name() == "float64" && callee.Signature.Recv() != nil {
						conv = true
					}
				}
			}
		}
		r.check(conv, name+":tonumber", c.Pos(fn.Pos()), "argument converted with ToNumber", "global "+name+" does not convert its argument with ToNumber (§15.1.2.4-5)")
	}
}

// nanTested: value a (or the variable it was loaded from) is the operand of a math.IsNaN call whose If dominates use.
func nanTested(fn *ssa.Function, a ssa.Value, use ssa.Instruction) bool {
	for _, b := range fn.Blocks {
		iff, ok := b.Instrs[len(b.Instrs)-1].(*ssa.If)
		if !ok {
			continue
		}
		call, ok := iff.Cond.(*ssa.Call)
		if !ok || call.Call.StaticCallee() == nil || call.Call.StaticCallee().Name() != "IsNaN" {
			continue
		}
		arg := call.Call.Args[0]
		same := arg == a || sameSSA(arg, a, 0)
		if p, ok := a.(*ssa.Phi); ok {
			// loop-carried accumulator: every incoming edge must be a tested value or the result of the library call itself
			all := true
			for _, e := range p.Edges {
				if e == arg || sameSSA(e, arg, 0) {
					continue
				}
				if c2, ok := e.(*ssa.Call); ok && c2 == use.(*ssa.Call) {
					continue
				}
				if !nanTestedSimple(fn, e) {
					all = false
				}
			}
			if all {
				return true
			}
		}
		if same && b.Dominates(use.Block()) {
			return true
		}
	}
	return false
}

// nanFlagged: the other correct shape - every operand is tested with IsNaN into a flag (a boolean phi tree whose edges are
// IsNaN calls, `true` assigned on the true side of an IsNaN test, an initial false, or other such phis), and every return
// that does not return NaNValue() is on the false side of a dominating test of that flag.
func nanFlagged(fn *ssa.Function, mc *ssa.Call) bool {
	isNaNCall := func(v ssa.Value) ssa.Value {
		if c, ok := v.(*ssa.Call); ok && c.Call.StaticCallee() != nil && c.Call.StaticCallee().Name() == "IsNaN" && c.Call.StaticCallee().Pkg != nil && c.Call.StaticCallee().Pkg.Pkg.Path() == "math" {
			return c.Call.Args[0]
		}
		return nil
	}
	var collect func(f ssa.Value, seen map[ssa.Value]bool, out *[]ssa.Value) bool
	collect = func(f ssa.Value, seen map[ssa.Value]bool, out *[]ssa.Value) bool {
		if seen[f] {
			return true
		}
		seen[f] = true
		if x := isNaNCall(f); x != nil {
			*out = append(*out, x)
			return true
		}
		phi, ok := f.(*ssa.Phi)
		if !ok {
			return false
		}
		for i, e := range phi.Edges {
			if k, ok := e.(*ssa.Const); ok {
				if k.Value == nil || k.Value.Kind() != constant.Bool {
					return false
				}
				if constant.BoolVal(k.Value) {
					p := phi.Block().Preds[i]
					if len(p.Preds) != 1 {
						return false
					}
					q := p.Preds[0]
					iff, ok := q.Instrs[len(q.Instrs)-1].(*ssa.If)
					if !ok || q.Succs[0] != p {
						return false
					}
					x := isNaNCall(iff.Cond)
					if x == nil {
						return false
					}
					*out = append(*out, x)
				}
				continue
			}
			if !collect(e, seen, out) {
				return false
			}
		}
		return true
	}
	// the flag guarding the returns
	var tested []ssa.Value
	guarded := 0
	for _, b := range fn.Blocks {
		ret, ok := b.Instrs[len(b.Instrs)-1].(*ssa.Return)
		if !ok || len(ret.Results) != 1 {
			continue
		}
		if c, ok := ret.Results[0].(*ssa.Call); ok && c.Call.StaticCallee() != nil && c.Call.StaticCallee().Name() == "NaNValue" {
			continue
		}
		if !reaches(mc.Block(), b, map[*ssa.BasicBlock]bool{}) {
			continue // a return not downstream of the library call (the zero / one argument arms)
		}
		found := false
		for d := b.Idom(); d != nil; d = d.Idom() {
			iff, ok := d.Instrs[len(d.Instrs)-1].(*ssa.If)
			if !ok {
				continue
			}
			var t []ssa.Value
			if collect(iff.Cond, map[ssa.Value]bool{}, &t) && len(t) > 0 && d.Succs[1].Dominates(b) && len(d.Succs[1].Preds) == 1 {
				tested = append(tested, t...)
				found = true
				break
			}
		}
		if !found {
			return false
		}
		guarded++
	}
	if guarded == 0 {
		return false
	}
	isTested := func(v ssa.Value) bool {
		for _, t := range tested {
			if t == v || sameSSA(t, v, 0) {
				return true
			}
		}
		return false
	}
	for _, a := range mc.Call.Args {
		if isTested(a) {
			continue
		}
		phi, ok := a.(*ssa.Phi)
		if !ok {
			return false
		}
		for _, e := range phi.Edges {
			if e == ssa.Value(mc) || isTested(e) {
				continue
			}
			return false
		}
	}
	return true
}

func nanTestedSimple(fn *ssa.Function, v ssa.Value) bool {
	for _, b := range fn.Blocks {
		iff, ok := b.Instrs[len(b.Instrs)-1].(*ssa.If)
		if !ok {
			continue
		}
		call, ok := iff.Cond.(*ssa.Call)
		if ok && call.Call.StaticCallee() != nil && call.Call.StaticCallee().Name() == "IsNaN" && (call.Call.Args[0] == v || sameSSA(call.Call.Args[0], v, 0)) {
			return true
		}
	}
	return false
}

func ruleLibParse(c *Ctx, r *R) {
	for _, fn := range c.AllSrcFuncs("", "parser") {
		var parseCalls []*ssa.Call
		mentionsErrRange := false
		regexpGuard := false
		for _, b := range fn.Blocks {
			for _, ins := range b.Instrs {
				switch x := ins.(type) {
				case *ssa.Call:
					callee := x.Call.StaticCallee()
					if callee == nil || callee.Pkg == nil {
						continue
					}
					if callee.Pkg.Pkg.Path() == "strconv" && (callee.Name() == "ParseFloat" || callee.Name() == "ParseInt" || callee.Name() == "ParseUint" || callee.Name() == "Atoi") {
						parseCalls = append(parseCalls, x)
					}
					if callee.Pkg.Pkg.Path() == "regexp" && strings.HasPrefix(callee.Name(), "Match") || callee.Pkg.Pkg.Path() == "regexp" && strings.HasPrefix(callee.Name(), "Find") {
						regexpGuard = true
					}
				case *ssa.UnOp:
					if g, ok := x.X.(*ssa.Global); ok && g.Name() == "ErrRange" {
						mentionsErrRange = true
					}
				}
			}
		}
		for i, pc := range parseCalls {
			name := pc.Call.StaticCallee().Name()
			key := fmt.Sprintf("%s:%s#%d", ssaFuncName(fn), name, i+1)
			site := c.Pos(instrPos(pc))
			// inside the conversion of text to a Number an obligation this rule cannot discharge structurally is decided
			// by SPEC-tonumber-string when that evaluation is clean (its texts include every Go-only numeric form, the
			// signed zeros, both hexadecimal spellings and out-of-range exponents)
			evaluated := func() bool {
				tn := toNumberStringFunc(c)
				return tn != nil && (fn == tn || c.partOf(fn, tn.Name(), 0)) && c.eClean("SPEC-tonumber-string")
			}
			if name == "Atoi" {
				r.ok(key+":grammar", site, "strconv.Atoi is base 10 without prefixes or separators: it accepts an optionally signed run of decimal digits only, all of it ES5 syntax")
			} else if why := parseInputIsRegexpMatch(c, fn, pc); why != "" {
				r.ok(key+":grammar", site, why)
			} else if inStringLiteralValue(c, fn) && c.eClean("SPEC-string-escape") {
				r.ok(key+":grammar", site, "the digits of an escape sequence; "+subsumedBy("SPEC-string-escape")+" (its literals include signs, underscores and non-digits after the escape character)")
			} else if why, ok := reviewedLookup(libParseReviewed, ssaFuncName(fn)+":"+name); ok {
				r.ok("reviewed:"+key, site, why)
			} else {
				okGuard, leak := grammarGuarded(c, fn, pc)
				if !okGuard && evaluated() {
					r.ok(key+":grammar", site, subsumedBy("SPEC-tonumber-string"))
					okGuard = true
				} else {
					r.check(okGuard, key+":grammar", site, "dominated by a regexp guard that rejects every Go-only numeric form", fmt.Sprintf("strconv.%s accepts more than the ES5 grammar; in %s the dominating regexp guard must reject every Go-only form and accept every ES5 form: it lets through / wrongly rejects %s", name, ssaFuncName(fn), leak))
				}
			}
			_ = regexpGuard
			// an integer parser whose result becomes a Number: the integer has no negative zero, so "-0" (a valid
			// StrDecimalLiteral, value -0: ES5 9.3.1) must not reach it
			// (decimal parsers only: strconv.Atoi and ParseInt with the constant base 10 - a hexadecimal literal has no sign,
			// and whether a signed text can reach a base-0 / base-16 parse is the grammar obligation above)
			decimal := name == "Atoi"
			if name == "ParseInt" && len(pc.Call.Args) >= 2 {
				if k, ok := constInt(pc.Call.Args[1]); ok && k == 10 {
					decimal = true
				}
			}
			if decimal && len(fn.Params) >= 1 && fn.Signature.Results().Len() == 1 && typeStr(fn.Signature.Results().At(0).Type()) == "float64" && intResultToFloat(pc) {
				old := goOnlyNumericForms
				goOnlyNumericForms = []string{"-0", "-00", "-0000000000"}
				grammarCutOnly = true
				okGuard, _ := grammarGuardedAt(c, fn, pc, pc.Call.Args[0])
				goOnlyNumericForms, grammarCutOnly = old, false
				if !okGuard && evaluated() {
					r.ok(key+":negzero", site, subsumedBy("SPEC-tonumber-string"))
				} else {
					r.check(okGuard, key+":negzero", site, "no spelling of negative zero reaches the integer parser (a guard on every path rejects `-0`)",
						fmt.Sprintf("%s converts text to a Number through strconv.%s and float64(...) with nothing on the path that keeps `-0` away from it: an integer has no negative zero, so Number(\"-0\") becomes +0 and 1/Number(\"-0\") is Infinity instead of -Infinity (ES5 9.3.1: the MV of -0 is -0)", ssaFuncName(fn), name))
				}
			}
			if name == "ParseFloat" {
				if _, ok := libParseRangeReviewed[ssaFuncName(fn)]; ok {
					r.ok(key+":range:reviewed", site, libParseRangeReviewed[ssaFuncName(fn)])
				} else {
					if !mentionsErrRange && evaluated() {
						r.ok(key+":range", site, subsumedBy("SPEC-tonumber-string"))
					} else {
						r.check(mentionsErrRange, key+":range", site, "ErrRange handled", "strconv.ParseFloat reports ErrRange for a well-formed literal that rounds to ±Inf (ES5: the result is ±Infinity); this function treats every error as a malformed number")
					}
				}
			}
		}
	}
}

var libParseReviewed = map[string]string{
	"parser.parseNumberLiteral:ParseInt":   "input is a NUMBER token produced by the ES5 lexer (scanNumericLiteral)",
	"parser.parseNumberLiteral:ParseFloat": "input is a NUMBER token produced by the ES5 lexer (scanNumericLiteral)",
	"stringToArrayIndex:ParseInt":          "array-index recognition: the canonical-form test (FormatInt round trip) follows the call (LIB-index)",
	"builtinGlobalParseInt:ParseInt":       "the loop above cuts the input to its longest prefix of digits valid in the radix, and the radix passed is explicit (never 0), so no prefix or separator syntax applies",
	"(goArrayObject).getValue:ParseInt":    "dead code (marked unused)",
	"stringToReflectValue:ParseInt":        "bridge: converts a property name to an integer map key (Go semantics by design)",
	"stringToReflectValue:ParseUint":       "bridge: converts a property name to an unsigned map key (Go semantics by design)",
	"stringToReflectValue:ParseFloat":      "bridge: converts a property name to a float map key (Go semantics by design)",
}

var libParseRangeReviewed = map[string]string{
	"stringToReflectValue": "bridge conversion of a map key, not an ES5 ToNumber",
}

var _ = types.Typ

// Go-only numeric forms: accepted by strconv.ParseFloat / ParseInt(base 0) but not by ES5 StringNumericLiteral (§9.3.1).
var goOnlyNumericForms = []string{"inf", "Inf", "+inf", "-Inf", "infinity", "INFINITY", "nan", "NaN", "0x1p4", "0x1.8p1", "1_0", "0x1_0", "0b11", "0o17", "0B1", "0O7", "+0x10", "-0x10", "1e", "0x"}

// ES5 §9.3.1 StringNumericLiteral forms (after white space is stripped): every one must convert to a number.
var es5NumericForms = []string{"0", "7", "007", "5.", ".5", "5.5", "5e3", "5E3", "5.e3", "5.5e3", ".5e3", ".5e-3", "5e+3", "+1", "-1", "+.5", "-5.", "Infinity", "+Infinity", "-Infinity", "0x1F", "0XaB", "0x0"}

// grammarCutOnly: grammarGuardedAt is asked only whether every path to the call takes an edge that rejects the probes
// (not whether a full-match regexp also accepts every ES5 form).
var grammarCutOnly bool

// intResultToFloat: the integer result of the parse call is converted to a floating-point number.
func intResultToFloat(pc *ssa.Call) bool {
	if pc.Referrers() == nil {
		return false
	}
	for _, ref := range *pc.Referrers() {
		ex, ok := ref.(*ssa.Extract)
		if !ok || ex.Index != 0 || ex.Referrers() == nil {
			continue
		}
		for _, r2 := range *ex.Referrers() {
			if cv, ok := r2.(*ssa.Convert); ok {
				if bt, ok := cv.Type().Underlying().(*types.Basic); ok && bt.Info()&types.IsFloat != 0 {
					return true
				}
			}
		}
	}
	return false
}

// grammarGuarded: some If on the result of <regexp global>.MatchString(input) dominates the parse call such that the
// call is reachable only when the regexp matched, and that regexp (a constant pattern) rejects every Go-only form.
func grammarGuarded(c *Ctx, fn *ssa.Function, pc *ssa.Call) (bool, string) {
	if len(pc.Call.Args) == 0 {
		return false, "no input"
	}
	ok, leak := grammarGuardedAt(c, fn, pc, pc.Call.Args[0])
	if ok {
		return true, ""
	}
	// the text is a parameter of a helper: the guard may stand in every caller, before the call
	in := pc.Call.Args[0]
	for i := 0; i < 4; i++ {
		switch x := in.(type) {
		case *ssa.Slice:
			in = x.X
			continue
		case *ssa.Convert:
			in = x.X
			continue
		}
		break
	}
	if p, isParam := in.(*ssa.Parameter); isParam {
		n := 0
		if c.argAtAllCallSites(p, func(arg ssa.Value, site ssa.CallInstruction) bool {
			n++
			g, _ := grammarGuardedAt(c, site.Parent(), site, arg)
			return g
		}, 0) && n > 0 {
			return true, ""
		}
	}
	return false, leak
}

// grammarGuardedAt: instruction `at` of fn, which consumes the text `input`, is reachable only through a guard that
// rejects every Go-only numeric form.
func grammarGuardedAt(c *Ctx, fn *ssa.Function, at ssa.Instruction, input ssa.Value) (bool, string) {
	leak := "any of the Go-only forms (no guard at all)"
	// Guards that reject every Go-only form, each with the edge taken when it accepts the text: a constant regexp
	// (MatchString) and a predicate of the module over the same text (evaluated on the probes). The call is guarded when
	// every path from the entry to it takes one of these edges - a single test, or a disjunction of them.
	type edge struct{ from, to *ssa.BasicBlock }
	guardEdges := map[edge]bool{}
	for _, b := range fn.Blocks {
		iff, ok := b.Instrs[len(b.Instrs)-1].(*ssa.If)
		if !ok {
			continue
		}
		cond, neg := normBool(iff.Cond)
		call, ok := cond.(*ssa.Call)
		if !ok || call.Call.StaticCallee() == nil {
			continue
		}
		yes := b.Succs[0]
		if neg {
			yes = b.Succs[1]
		}
		callee := call.Call.StaticCallee()
		switch {
		case callee.Name() == "MatchString" && len(call.Call.Args) >= 1:
			g := rootGlobal(call.Call.Args[0], 0)
			if g == nil {
				continue
			}
			pat, ok := regexpVarPattern(c, g.Object())
			if !ok {
				continue
			}
			re, err := regexp.Compile(pat)
			if err != nil {
				continue
			}
			rejects := true
			for _, probe := range goOnlyNumericForms {
				if re.MatchString(probe) {
					rejects = false
				}
			}
			if rejects {
				guardEdges[edge{b, yes}] = true
			}
		case len(callee.Blocks) > 0 && callee.Pkg == fn.Pkg && len(call.Call.Args) == 1 && sameSSA(call.Call.Args[0], input, 0) && callee.Signature.Results().Len() == 1:
			if bt, ok := callee.Signature.Results().At(0).Type().Underlying().(*types.Basic); !ok || bt.Kind() != types.Bool {
				continue
			}
			in := newAbsInterp(map[string]absHook{})
			rejects := true
			for _, probe := range goOnlyNumericForms {
				ret, pan, fail := absRun(in, callee, []aval{aStr(probe)})
				if bv, ok := ret.(aBool); fail != "" || pan != nil || !ok || bool(bv) {
					rejects = false
					break
				}
			}
			if rejects {
				guardEdges[edge{b, yes}] = true
			}
		}
	}
	if len(guardEdges) > 0 {
		// the search knows the value a flag has on the edge it came by: `if flag` on a merge of constants (set in the arms
		// of a switch above) continues only on the side that value selects
		seen := map[edge]bool{}
		var reach func(x, prev *ssa.BasicBlock) bool
		reach = func(x, prev *ssa.BasicBlock) bool {
			if x == at.Block() {
				return true
			}
			if seen[edge{prev, x}] {
				return false
			}
			seen[edge{prev, x}] = true
			only := -1
			if iff, ok := x.Instrs[len(x.Instrs)-1].(*ssa.If); ok && prev != nil {
				cond, neg := normBool(iff.Cond)
				if phi, ok := cond.(*ssa.Phi); ok && phi.Block() == x {
					for i, p := range x.Preds {
						if p != prev || i >= len(phi.Edges) {
							continue
						}
						if k, ok := phi.Edges[i].(*ssa.Const); ok && k.Value != nil && k.Value.Kind() == constant.Bool {
							v := constant.BoolVal(k.Value) != neg
							if v {
								only = 0
							} else {
								only = 1
							}
						}
					}
				}
			}
			for i, s2 := range x.Succs {
				if guardEdges[edge{x, s2}] || (only >= 0 && i != only) {
					continue
				}
				if reach(s2, x) {
					return true
				}
			}
			return false
		}
		if !reach(fn.Blocks[0], nil) {
			// completeness of a full-match regexp guard is still checked by the loop below when it is the only guard
			onlyRegexp := true
			for e := range guardEdges {
				if iff, ok := e.from.Instrs[len(e.from.Instrs)-1].(*ssa.If); ok {
					cond, _ := normBool(iff.Cond)
					if call, ok := cond.(*ssa.Call); ok && call.Call.StaticCallee().Name() != "MatchString" {
						onlyRegexp = false
					}
				}
			}
			if !onlyRegexp || grammarCutOnly {
				return true, ""
			}
		}
	}
	for _, b := range fn.Blocks {
		iff, ok := b.Instrs[len(b.Instrs)-1].(*ssa.If)
		if !ok {
			continue
		}
		cond, neg := normBool(iff.Cond)
		call, ok := cond.(*ssa.Call)
		if !ok || call.Call.StaticCallee() == nil || call.Call.StaticCallee().Name() != "MatchString" || len(call.Call.Args) < 1 {
			continue
		}
		g := rootGlobal(call.Call.Args[0], 0)
		if g == nil {
			continue
		}
		obj := g.Object()
		pat, ok := regexpVarPattern(c, obj)
		if !ok {
			continue
		}
		matchedSucc, otherSucc := b.Succs[0], b.Succs[1]
		if neg {
			matchedSucc, otherSucc = otherSucc, matchedSucc
		}
		// the parse call must be unreachable from the not-matched side
		if reaches(otherSucc, at.Block(), map[*ssa.BasicBlock]bool{b: true}) || !b.Dominates(at.Block()) {
			continue
		}
		_ = matchedSucc
		re, err := regexp.Compile(pat)
		if err != nil {
			continue
		}
		leak = ""
		for _, probe := range goOnlyNumericForms {
			if re.MatchString(probe) {
				leak = fmt.Sprintf("%q (guard %s lets it through)", probe, pat)
				break
			}
		}
		if leak == "" {
			// a full-match pattern (^...$) is the complete StringNumericLiteral grammar: it must also accept every ES5 form
			if strings.HasPrefix(pat, "^") && strings.HasSuffix(pat, "$") {
				for _, probe := range es5NumericForms {
					if !re.MatchString(probe) {
						return false, fmt.Sprintf("nothing Go-only, but it rejects %q, which ES5 §9.3.1 StringNumericLiteral accepts (guard %s)", probe, pat)
					}
				}
			}
			return true, ""
		}
	}
	return false, leak
}

func init() {
	register(&Rule{ID: "LIB-index", Props: []string{"C08"}, Min: 1,
		Doc: "S: the function that recognises array indices converts the name with strconv.ParseInt, which also accepts '01', '+1', '-0'; ES5 §15.4 makes P an index only if ToString(ToUint32(P)) == P, so the function must compare the canonical rendering of the parsed value with the name (a FormatInt/Itoa round trip) and reject on mismatch, and must reject values >= 2^32-1",
		Run: ruleLibIndex})
}

func ruleLibIndex(c *Ctx, r *R) {
	// the recogniser: a func(string) int64 in package otto that calls strconv.ParseInt on its parameter and is called by the array class slot functions
	var cands []*ssa.Function
	for _, fn := range c.AllSrcFuncs("") {
		if fn.Parent() != nil || len(fn.Params) != 1 || fn.Signature.Recv() != nil {
			continue
		}
		if b, ok := fn.Params[0].Type().Underlying().(*types.Basic); !ok || b.Kind() != types.String {
			continue
		}
		if fn.Signature.Results().Len() != 1 {
			continue
		}
		if b, ok := fn.Signature.Results().At(0).Type().Underlying().(*types.Basic); !ok || b.Kind() != types.Int64 {
			continue
		}
		for _, b := range fn.Blocks {
			for _, ins := range b.Instrs {
				if call, ok := ins.(*ssa.Call); ok {
					if callee := call.Call.StaticCallee(); callee != nil && callee.Pkg != nil && callee.Pkg.Pkg.Path() == "strconv" && callee.Name() == "ParseInt" && call.Call.Args[0] == ssa.Value(fn.Params[0]) {
						cands = append(cands, fn)
					}
				}
			}
		}
	}
	if len(cands) == 0 {
		r.undecided("recogniser", "-", "UNRESOLVED: no func(string) int64 parsing its argument with strconv.ParseInt (the array-index recogniser)")
		return
	}
	for _, fn := range cands {
		roundTrip := false
		for _, b := range fn.Blocks {
			iff, ok := b.Instrs[len(b.Instrs)-1].(*ssa.If)
			if !ok {
				continue
			}
			bo, ok := iff.Cond.(*ssa.BinOp)
			if !ok || (bo.Op != token.NEQ && bo.Op != token.EQL) {
				continue
			}
			for _, pair := range [][2]ssa.Value{{bo.X, bo.Y}, {bo.Y, bo.X}} {
				call, ok := pair[0].(*ssa.Call)
				if !ok || call.Call.StaticCallee() == nil || call.Call.StaticCallee().Pkg == nil || call.Call.StaticCallee().Pkg.Pkg.Path() != "strconv" {
					continue
				}
				n := call.Call.StaticCallee().Name()
				if (n == "FormatInt" || n == "Itoa" || n == "FormatUint") && pair[1] == ssa.Value(fn.Params[0]) {
					// the mismatch side must return a negative constant
					mis := b.Succs[0]
					if bo.Op == token.EQL {
						mis = b.Succs[1]
					}
					for _, ins := range mis.Instrs {
						if ret, ok := ins.(*ssa.Return); ok && len(ret.Results) == 1 {
							if k, isC := constInt(ret.Results[0]); isC && k < 0 {
								roundTrip = true
							}
						}
					}
				}
			}
		}
		r.check(roundTrip, "canonical:"+ssaFuncName(fn), c.Pos(fn.Pos()), "rejects names whose canonical rendering differs", fmt.Sprintf("%s accepts every spelling strconv.ParseInt accepts: a['01'] or a['+1'] is treated as a[1] (ES5 §15.4: only ToString(ToUint32(P)) == P is an index)", ssaFuncName(fn)))
	}
}

func init() {
	register(&Rule{ID: "ARGS-all-converted", Props: []string{"C13", "C05"}, Min: 4,
		Doc: "P (must-pass-through): ES5 15.8.2 - every Math function applies ToNumber to each of its arguments, left to right, *and then* computes. ToNumber is observable (valueOf / toString of an object argument run, and may throw), so a result returned before the remaining arguments are converted is a visible deviation: `Math.atan2(NaN, {valueOf: f})` must call f. For every Math built-in: each conversion of a positional argument (call.Argument(k).float64()) lies on every path from entry to every return, and a loop over call.ArgumentList that converts its element is left only by exhausting the list (no return or break from its body)",
		Run: ruleArgsAllConverted})
}

func ruleArgsAllConverted(c *Ctx, r *R) {
	var float64Fn *ssa.Function
	for _, fn := range c.AllSrcFuncs("") {
		if ssaFuncName(fn) == "(Value).float64" {
			float64Fn = fn
		}
	}
	if float64Fn == nil {
		r.undecided("unresolved:float64", "-", "UNRESOLVED: (Value).float64")
		return
	}
	fromArgList := func(v ssa.Value) bool {
		for d := 0; d < 6; d++ {
			switch x := v.(type) {
			case *ssa.Slice:
				v = x.X
			case *ssa.UnOp:
				if isFieldAddr(x.X, "FunctionCall", "ArgumentList") {
					return true
				}
				if fa, ok := x.X.(*ssa.FieldAddr); ok {
					_ = fa
				}
				v = x.X
			case *ssa.Field:
				if st, ok := x.X.Type().Underlying().(*types.Struct); ok && st.Field(x.Field).Name() == "ArgumentList" {
					return true
				}
				return false
			case *ssa.IndexAddr:
				v = x.X
			default:
				return false
			}
		}
		return false
	}
	n := 0
	for _, fn := range c.AllSrcFuncs("") {
		if fn.Parent() != nil || !strings.HasPrefix(fn.Name(), "builtinMath") {
			continue
		}
		var rets []*ssa.Return
		for _, b := range fn.Blocks {
			if ret, ok := b.Instrs[len(b.Instrs)-1].(*ssa.Return); ok {
				rets = append(rets, ret)
			}
		}
		ord := 0
		for _, b := range fn.Blocks {
			for _, ins := range b.Instrs {
				call, ok := ins.(*ssa.Call)
				if !ok || call.Call.StaticCallee() != float64Fn {
					continue
				}
				// positional: receiver is the result of (FunctionCall).Argument(k)
				recv := call.Call.Args[0]
				if ac, ok := recv.(*ssa.Call); ok && ac.Call.StaticCallee() != nil && ac.Call.StaticCallee().Name() == "Argument" {
					k, _ := constInt(ac.Call.Args[1])
					n++
					ord++
					bad := ""
					for _, ret := range rets {
						if reachableWithout(fn, ret, func(i ssa.Instruction) bool { return i == ssa.Instruction(call) }) {
							bad = c.Pos(ret.Pos())
							break
						}
					}
					key := fmt.Sprintf("%s:argument(%d)#%d", fn.Name(), k, ord)
					r.check(bad == "", key, c.Pos(instrPos(call)), "converted on every path to every return",
						fmt.Sprintf("%s can return (at %s) without having applied ToNumber to argument %d: 15.8.2 converts every argument before computing, and the conversion is observable (`Math.%s(NaN, {valueOf: function(){ called = true }})` must set called)", fn.Name(), bad, k, strings.ToLower(strings.TrimPrefix(fn.Name(), "builtinMath"))))
				}
			}
		}
		// loops over the argument list
		for _, h := range fn.Blocks {
			iff, ok := h.Instrs[len(h.Instrs)-1].(*ssa.If)
			if !ok {
				continue
			}
			bo, ok := iff.Cond.(*ssa.BinOp)
			if !ok || bo.Op != token.LSS {
				continue
			}
			lc, ok := bo.Y.(*ssa.Call)
			if !ok {
				continue
			}
			if bi, ok := lc.Call.Value.(*ssa.Builtin); !ok || bi.Name() != "len" || !fromArgList(lc.Call.Args[0]) {
				continue
			}
			// is h a loop header? (reachable from its own body)
			body, exit := h.Succs[0], h.Succs[1]
			if !reaches(body, h, map[*ssa.BasicBlock]bool{}) {
				continue
			}
			// does the body convert?
			converts := false
			inBody := map[*ssa.BasicBlock]bool{}
			var mark func(b *ssa.BasicBlock)
			mark = func(b *ssa.BasicBlock) {
				if inBody[b] || b == h || b == exit {
					return
				}
				inBody[b] = true
				for _, s := range b.Succs {
					mark(s)
				}
			}
			mark(body)
			for b := range inBody {
				for _, ins := range b.Instrs {
					if call, ok := ins.(*ssa.Call); ok && call.Call.StaticCallee() == float64Fn {
						converts = true
					}
				}
			}
			if !converts {
				continue
			}
			n++
			early := ""
			for b := range inBody {
				// a block of the body region that cannot get back to the header left the loop early
				if _, isRet := b.Instrs[len(b.Instrs)-1].(*ssa.Return); isRet {
					early = c.Pos(b.Instrs[len(b.Instrs)-1].Pos())
				}
			}
			key := fmt.Sprintf("%s:argument-loop", fn.Name())
			r.check(early == "", key, c.Pos(instrPos(iff)), "the loop over the argument list converts every element and is left only at its end",
				fmt.Sprintf("%s returns from inside its loop over the argument list (at %s): the arguments after that one are never converted, so their valueOf / toString do not run (`Math.%s(NaN, {valueOf: function(){ called = true }})`)", fn.Name(), early, strings.ToLower(strings.TrimPrefix(fn.Name(), "builtinMath"))))
		}
	}
	if n == 0 {
		r.undecided("unresolved:sites", "-", "UNRESOLVED: no argument conversion found in the Math built-ins")
	}
}

func init() {
	register(&Rule{ID: "SORT-sign", Props: []string{"C08"}, Min: 1,
		Doc: "G: ES5 15.4.4.11 - only the sign of the comparator's result matters (v < 0, v = 0, v > 0); an infinite result is negative or positive like any other. The helper that maps the comparator's result to a sign for the sort (the function sortCompare hands the result of the user's comparator to) does not consult math.IsInf on the way to returning 0: only NaN and zero compare as equal",
		Run: ruleSortSign})
}

func ruleSortSign(c *Ctx, r *R) {
	var sortCompare *ssa.Function
	for _, fn := range c.AllSrcFuncs("") {
		if fn.Name() == "sortCompare" && fn.Parent() == nil {
			sortCompare = fn
		}
	}
	if sortCompare == nil {
		r.undecided("unresolved:sortCompare", "-", "UNRESOLVED: sortCompare")
		return
	}
	// sortCompare and the helpers only it calls (the comparison of two present values may live in one)
	family := []*ssa.Function{sortCompare}
	for _, fn := range c.AllSrcFuncs("") {
		if fn != sortCompare && fn.Parent() == nil && c.partOf(fn, "sortCompare", 0) {
			family = append(family, fn)
		}
	}
	n := 0
	for _, fam := range family {
		for _, b := range fam.Blocks {
			for _, ins := range b.Instrs {
				call, ok := ins.(*ssa.Call)
				if !ok {
					continue
				}
				callee := call.Call.StaticCallee()
				if callee == nil || callee.Pkg == nil || callee.Pkg.Pkg.Path() != ottoPath || callee.Signature.Results().Len() != 1 {
					continue
				}
				if b, ok := callee.Signature.Results().At(0).Type().Underlying().(*types.Basic); !ok || b.Kind() != types.Int {
					continue
				}
				if callee.Signature.Params().Len() != 1 || !typeIs(callee.Signature.Params().At(0).Type(), ottoPath, "Value") {
					continue
				}
				n++
				inf := false
				for _, cb := range callee.Blocks {
					for _, ci := range cb.Instrs {
						if c2, ok := ci.(*ssa.Call); ok {
							if f := c2.Call.StaticCallee(); f != nil && f.Pkg != nil && f.Pkg.Pkg.Path() == "math" && f.Name() == "IsInf" {
								inf = true
							}
						}
					}
				}
				r.check(!inf, "sign:"+callee.Name(), c.Pos(callee.Pos()), "the sign helper treats infinities by their sign",
					callee.Name()+" consults math.IsInf when it maps the comparator's result to a sign: a comparator returning ±Infinity is treated as `equal`, so `[3,1,2].sort(function(a,b){ return a > b ? Infinity : -Infinity })` is not sorted (ES5 15.4.4.11: only the sign matters)")
			}
		}
	}
	if n == 0 {
		r.undecided("unresolved:sign-helper", c.Pos(sortCompare.Pos()), "UNRESOLVED: sortCompare calls no Value -> int helper")
	}
	// 15.4.4.11 SortCompare steps 5-12: absent elements and undefined values are ordered before the comparison function is
	// consulted (it never sees undefined). The call of the comparison function (the *object parameter) is dominated by two
	// [[HasProperty]] tests and by two IsDefined / IsUndefined tests - in its own function, or, for a helper of sortCompare,
	// also in front of every call of the helper.
	var cmpCall *ssa.Call
	for _, fam := range family {
		for _, b := range fam.Blocks {
			for _, ins := range b.Instrs {
				call, ok := ins.(*ssa.Call)
				if !ok {
					continue
				}
				if callee := call.Call.StaticCallee(); callee != nil && callee.Name() == "call" && len(call.Call.Args) > 0 {
					if p, ok := normCell(call.Call.Args[0]).(*ssa.Parameter); ok && p.Parent() == fam && typeStr(p.Type()) == "*object" {
						cmpCall = call
					}
				}
			}
		}
	}
	if cmpCall == nil {
		r.undecided("unresolved:comparefn-call", c.Pos(sortCompare.Pos()), "UNRESOLVED: sortCompare does not call its comparison function parameter")
		return
	}
	var dom func(at ssa.Instruction, names map[string]bool, depth int) int
	dom = func(at ssa.Instruction, names map[string]bool, depth int) int {
		fn := at.Parent()
		k := 0
		for _, b := range fn.Blocks {
			for _, ins := range b.Instrs {
				call, ok := ins.(*ssa.Call)
				if !ok || !b.Dominates(at.Block()) {
					continue
				}
				if callee := call.Call.StaticCallee(); callee != nil && names[callee.Name()] {
					k++
				}
			}
		}
		if fn != sortCompare && depth < 3 {
			sites, ok := c.callSites(fn)
			if ok {
				least := -1
				for _, s := range sites {
					if d := dom(s, names, depth+1); least < 0 || d < least {
						least = d
					}
				}
				if least > 0 {
					k += least
				}
			}
		}
		return k
	}
	nHas := dom(cmpCall, map[string]bool{"hasProperty": true}, 0)
	nDef := dom(cmpCall, map[string]bool{"IsDefined": true, "IsUndefined": true}, 0)
	r.check(nHas >= 2 && nDef >= 2, "comparefn-after-undefined", c.Pos(instrPos(cmpCall)),
		"the comparison function is called only after both elements were tested for presence and for undefined",
		fmt.Sprintf("sortCompare calls the comparison function before it has tested both elements for presence (%d of 2 tests dominate the call) and for undefined (%d of 2): the function sees `undefined`, and holes / undefined values are ordered by whatever it returns instead of last (`[3,undefined,1].sort(function(x,y){return x-y})`, ES5 15.4.4.11 SortCompare steps 5-12)", nHas, nDef))
}

// parseInputIsRegexpMatch: the text handed to the strconv parser is part[k:] of a parameter `part` that is, at every
// invocation, one whole match of a constant regular expression (the function is the callback of ReplaceAllFunc /
// ReplaceAllStringFunc on a package-level regexp, or is only called from such a callback with that parameter), and the
// expression cannot match any one-byte prefix followed by a Go-only numeric form. Returns the reason, or "".
func parseInputIsRegexpMatch(c *Ctx, fn *ssa.Function, pc *ssa.Call) string {
	if len(pc.Call.Args) == 0 {
		return ""
	}
	v := pc.Call.Args[0]
	var low int64 = -1
	for i := 0; i < 6; i++ {
		switch x := v.(type) {
		case *ssa.Convert:
			v = x.X
			continue
		case *ssa.ChangeType:
			v = x.X
			continue
		case *ssa.Slice:
			if x.High != nil || x.Max != nil {
				return ""
			}
			if x.Low != nil {
				k, ok := constInt(x.Low)
				if !ok {
					return ""
				}
				low = k
			}
			v = x.X
			continue
		}
		break
	}
	p, ok := v.(*ssa.Parameter)
	if !ok || low < 0 || low > 1 {
		return ""
	}
	pat := callbackPattern(c, p, 0)
	if pat == "" {
		return ""
	}
	re, err := regexp.Compile("^(?:" + pat + ")$")
	if err != nil {
		return ""
	}
	for _, probe := range goOnlyNumericForms {
		prefixes := []string{""}
		if low == 1 {
			prefixes = nil
			for b := 0x20; b < 0x7f; b++ {
				prefixes = append(prefixes, string(rune(b)))
			}
		}
		for _, pre := range prefixes {
			if re.MatchString(pre + probe) {
				return ""
			}
		}
	}
	return fmt.Sprintf("the input is the tail of one whole match of the constant expression %s (callback of a Replace*Func), which matches no Go-only numeric form", pat)
}

// callbackPattern: parameter p receives, at every invocation, one whole match of a package-level constant regexp;
// returns its pattern.
func callbackPattern(c *Ctx, p *ssa.Parameter, depth int) string {
	fn := p.Parent()
	idx := paramIndex(p)
	if depth > 2 || idx < 0 {
		return ""
	}
	// fn used as the callback argument of <global regexp>.ReplaceAllFunc / ReplaceAllStringFunc
	if idx == 0 && fn.Parent() != nil {
		pat := ""
		for _, b := range fn.Parent().Blocks {
			for _, ins := range b.Instrs {
				call, ok := ins.(*ssa.Call)
				if !ok || call.Call.StaticCallee() == nil || !strings.HasPrefix(call.Call.StaticCallee().Name(), "ReplaceAll") || !strings.HasSuffix(call.Call.StaticCallee().Name(), "Func") {
					continue
				}
				for _, a := range call.Call.Args {
					if closureOf(&ssa.CallCommon{Value: a}) == fn && len(call.Call.Args) > 0 {
						if g := rootGlobal(call.Call.Args[0], 0); g != nil {
							if s, ok := regexpVarPattern(c, g.Object()); ok {
								pat = s
							}
						}
					}
				}
			}
		}
		// and not used in any other way
		if pat != "" {
			return pat
		}
		return ""
	}
	// a named function only called from such callbacks, with their parameter
	pat := ""
	ok := c.argAtAllCallSites(p, func(arg ssa.Value, site ssa.CallInstruction) bool {
		q, isParam := arg.(*ssa.Parameter)
		if !isParam {
			return false
		}
		s := callbackPattern(c, q, depth+1)
		if s == "" || (pat != "" && pat != s) {
			return false
		}
		pat = s
		return true
	}, 0)
	if !ok {
		return ""
	}
	return pat
}
