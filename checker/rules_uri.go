package main

import (
	"fmt"
	"go/constant"
	"go/token"
	"regexp"

	"golang.org/x/tools/go/ssa"
)

func init() {
	register(&Rule{ID: "URI-surrogate", Props: []string{"C13"}, Min: 2,
		Doc: "G (ES5 15.1.3 Encode, step 4.d): the URI encoder - the function of package otto that raises URIError and encodes with utf8.EncodeRune - rejects a code unit in DC00..DFFF that does not follow a high surrogate (step 4.d.i) *and*, after a high surrogate, a second code unit that is not in DC00..DFFF (step 4.d.iv.4). Two different code-unit values are therefore each compared with the low-surrogate range on a branch that raises URIError (or the decoded pair is compared with U+FFFD, which is what utf16.DecodeRune returns for an invalid pair). With only the first test `encodeURI(String.fromCharCode(0xD800, 0x41))` silently produces %EF%BF%BD and swallows the A",
		Run: ruleURISurrogate})
}

func ruleURISurrogate(c *Ctx, r *R) {
	var enc *ssa.Function
	for _, fn := range c.AllSrcFuncs("") {
		raises, encodes := false, false
		for _, b := range fn.Blocks {
			for _, ins := range b.Instrs {
				if call, ok := ins.(*ssa.Call); ok {
					if cal := call.Call.StaticCallee(); cal != nil {
						if cal.Name() == "panicURIError" {
							raises = true
						}
						if cal.Pkg != nil && cal.Pkg.Pkg.Path() == "unicode/utf8" && (cal.Name() == "EncodeRune" || cal.Name() == "AppendRune") {
							encodes = true
						}
					}
				}
			}
		}
		if raises && encodes {
			if enc != nil {
				r.undecided("anchor", "-", "UNRESOLVED: more than one function raises URIError and encodes with utf8.EncodeRune")
				return
			}
			enc = fn
		}
	}
	if enc == nil {
		r.undecided("anchor", "-", "UNRESOLVED: no function of package otto raises URIError and encodes with utf8.EncodeRune (the URI encoder)")
		return
	}
	raisesIn := func(b *ssa.BasicBlock) bool {
		for _, ins := range b.Instrs {
			if call, ok := ins.(*ssa.Call); ok {
				if cal := call.Call.StaticCallee(); cal != nil && cal.Name() == "panicURIError" {
					return true
				}
			}
		}
		return false
	}
	// values compared with a bound of the low-surrogate range (or with U+FFFD) in a test from which a raising block follows
	tested := map[ssa.Value]map[int64]bool{}
	fffd := false
	for _, b := range enc.Blocks {
		iff, ok := b.Instrs[len(b.Instrs)-1].(*ssa.If)
		if !ok {
			continue
		}
		// the raise follows directly or after the second half of a short-circuit test
		leads := false
		for _, s := range b.Succs {
			if raisesIn(s) {
				leads = true
			}
			if _, isIf := s.Instrs[len(s.Instrs)-1].(*ssa.If); isIf && len(s.Instrs) <= 3 {
				for _, s2 := range s.Succs {
					if raisesIn(s2) {
						leads = true
					}
				}
			}
		}
		if !leads {
			continue
		}
		// a predicate of the package over one code unit that compares it with both bounds (isTrailSurrogate(unit))
		if cond, _ := normBool(iff.Cond); cond != nil {
			if pc, ok := cond.(*ssa.Call); ok {
				if cal := pc.Call.StaticCallee(); cal != nil && cal.Pkg == enc.Pkg && len(cal.Params) == 1 && len(pc.Call.Args) == 1 && cal.Blocks != nil {
					lower, upper := false, false
					for _, pb := range cal.Blocks {
						for _, pi := range pb.Instrs {
							bo, ok := pi.(*ssa.BinOp)
							if !ok || bo.Op == token.EQL || bo.Op == token.NEQ {
								continue
							}
							for _, pair := range [][2]ssa.Value{{bo.X, bo.Y}, {bo.Y, bo.X}} {
								k, isK := constInt(pair[1])
								v := pair[0]
								for i := 0; i < 3; i++ {
									if cv, ok := v.(*ssa.Convert); ok {
										v = cv.X
									}
								}
								if !isK || v != ssa.Value(cal.Params[0]) {
									continue
								}
								lower = lower || k == 0xDC00 || k == 0xDBFF+1
								upper = upper || k == 0xDFFF || k == 0xE000
							}
						}
					}
					if lower && upper {
						v := pc.Call.Args[0]
						for i := 0; i < 3; i++ {
							if cv, ok := v.(*ssa.Convert); ok {
								v = cv.X
							}
						}
						if tested[v] == nil {
							tested[v] = map[int64]bool{}
						}
						tested[v][0xDC00], tested[v][0xDFFF] = true, true
					}
				}
			}
		}
		for _, cmp := range comparisonsOf(iff.Cond, 0) {
			for _, pair := range [][2]ssa.Value{{cmp.X, cmp.Y}, {cmp.Y, cmp.X}} {
				k, ok := constInt(pair[1])
				if !ok {
					continue
				}
				v := pair[0]
				for i := 0; i < 3; i++ {
					if cv, ok := v.(*ssa.Convert); ok {
						v = cv.X
					}
				}
				switch {
				case k == 0xDC00 || k == 0xDFFF || k == 0xDBFF+1 || k == 0xE000:
					if cmp.Op == token.EQL || cmp.Op == token.NEQ {
						continue
					}
					if tested[v] == nil {
						tested[v] = map[int64]bool{}
					}
					tested[v][k] = true
				case k == 0xFFFD:
					fffd = true
				}
			}
		}
	}
	both := 0
	for _, ks := range tested {
		lower := ks[0xDC00] || ks[0xDBFF+1]
		upper := ks[0xDFFF] || ks[0xE000]
		if lower && upper {
			both++
		}
	}
	site := c.Pos(enc.Pos())
	r.check(both >= 1 || fffd, ssaFuncName(enc)+":lone-low", site, "a code unit is tested against DC00..DFFF on a branch that raises URIError",
		fmt.Sprintf("%s never rejects a low surrogate that follows no high surrogate (ES5 15.1.3 Encode step 4.d.i): encodeURI('\\uDC00') must throw a URIError", ssaFuncName(enc)))
	r.check(both >= 2 || fffd, ssaFuncName(enc)+":pair-low", site, "the code unit after a high surrogate is tested against DC00..DFFF as well (or the decoded pair against U+FFFD)",
		fmt.Sprintf("%s tests only one code unit against the low-surrogate range DC00..DFFF: the unit that follows a high surrogate is combined without being checked (ES5 15.1.3 Encode step 4.d.iv.4 throws a URIError) - encodeURI(String.fromCharCode(0xD800, 0x41)) gives %%EF%%BF%%BD and the A is lost", ssaFuncName(enc)))
}

func init() {
	register(&Rule{ID: "FORMAT-hexwidth", Props: []string{"C13"}, Min: 1,
		Doc: "T (ES5 B.2.1 step 6 / 15.1.3: a percent escape is `%` followed by exactly two hexadecimal digits, `%u` by exactly four): no constant printf format of package otto writes a percent escape with a variable number of digits - `%%` (or `%%u`) directly followed by a hexadecimal verb without a zero-padded width (`%%%X` instead of `%%%02X`). With it escape('\\n') is `%A`, which unescape reads back as something else. Expected count on the pinned tree is zero (the escapes are built from a digit table); the rule's positive example is the own mutant escape-hex-unpadded",
		Run: ruleFormatHexWidth})
}

func ruleFormatHexWidth(c *Ctx, r *R) {
	n := 0
	ord := map[string]int{}
	for _, fn := range c.AllSrcFuncs("") {
		for _, b := range fn.Blocks {
			for _, ins := range b.Instrs {
				call, ok := ins.(ssa.CallInstruction)
				if !ok {
					continue
				}
				cal := call.Common().StaticCallee()
				if cal == nil || cal.Pkg == nil || cal.Pkg.Pkg.Path() != "fmt" {
					continue
				}
				for _, a := range call.Common().Args {
					k, ok := a.(*ssa.Const)
					if !ok || k.Value == nil || k.Value.Kind() != constant.String {
						continue
					}
					format := constant.StringVal(k.Value)
					n++
					if loc := hexEscapeUnpadded.FindString(format); loc != "" {
						base := ssaFuncName(fn)
						ord[base]++
						r.bad(fmt.Sprintf("%s:format#%d", base, ord[base]), c.Pos(instrPos(call)),
							fmt.Sprintf("%s formats a percent escape with %q: the hexadecimal verb has no zero-padded width, so a code unit below 0x10 (or 0x1000 after %%u) is written with fewer digits than the two (four) ES5 B.2.1 / 15.1.3 require - escape('\\n') gives `%%A`, and unescape(escape(s)) is no longer s", ssaFuncName(fn), loc))
					}
				}
			}
		}
	}
	if n < 30 {
		r.undecided("census", "-", fmt.Sprintf("only %d constant formats found in package otto (more than 70 on the pinned tree): the census no longer sees the formatter calls", n))
		return
	}
	r.ok("census", "-", fmt.Sprintf("%d constant formats of package otto examined, none writes a percent escape with an unpadded hexadecimal verb", n))
}

// `%%` or `%%u` followed by a hex verb with no width, or with a width that is not zero-padded
var hexEscapeUnpadded = regexp.MustCompile(`%%u?%[1-9]?[xX]`)
