package main

import (
	"fmt"
	"go/token"

	"golang.org/x/tools/go/ssa"
)

func init() {
	register(&Rule{ID: "URI-surrogate", Props: []string{"C13"}, Min: 2,
		Doc: "G (ES5 15.1.3 Encode, step 4.d): the URI encoder - the function of package otto that raises URIError and encodes with utf8.EncodeRune - rejects a code unit in DC00..DFFF that does not follow a high surrogate (step 4.d.i) *and*, after a high surrogate, a second code unit that is not in DC00..DFFF (step 4.d.iv.4). Two different code-unit values are therefore each compared with the low-surrogate range on a branch that raises URIError (or the decoded pair is compared with U+FFFD, which is what utf16.DecodeRune returns for an invalid pair). With only the first test `encodeURI(String.fromCharCode(0xD800, 0x41))` silently produces %EF%BF%BD and swallows the A",
		Run: ruleURISurrogate})
}

func ruleURISurrogate(c *Ctx, r *R) {
	var enc *ssa.Function
	for _, fn := range c.AllSrcFuncs("") {
		raises, encodes := false, false
		for _, b := range fn.Blocks {
			for _, ins := range b.Instrs {
				if call, ok := ins.(*ssa.Call); ok {
					if cal := call.Call.StaticCallee(); cal != nil {
						if cal.Name() == "panicURIError" {
							raises = true
						}
						if cal.Pkg != nil && cal.Pkg.Pkg.Path() == "unicode/utf8" && (cal.Name() == "EncodeRune" || cal.Name() == "AppendRune") {
							encodes = true
						}
					}
				}
			}
		}
		if raises && encodes {
			if enc != nil {
				r.undecided("anchor", "-", "UNRESOLVED: more than one function raises URIError and encodes with utf8.EncodeRune")
				return
			}
			enc = fn
		}
	}
	if enc == nil {
		r.undecided("anchor", "-", "UNRESOLVED: no function of package otto raises URIError and encodes with utf8.EncodeRune (the URI encoder)")
		return
	}
	raisesIn := func(b *ssa.BasicBlock) bool {
		for _, ins := range b.Instrs {
			if call, ok := ins.(*ssa.Call); ok {
				if cal := call.Call.StaticCallee(); cal != nil && cal.Name() == "panicURIError" {
					return true
				}
			}
		}
		return false
	}
	// values compared with a bound of the low-surrogate range (or with U+FFFD) in a test from which a raising block follows
	tested := map[ssa.Value]map[int64]bool{}
	fffd := false
	for _, b := range enc.Blocks {
		iff, ok := b.Instrs[len(b.Instrs)-1].(*ssa.If)
		if !ok {
			continue
		}
		// the raise follows directly or after the second half of a short-circuit test
		leads := false
		for _, s := range b.Succs {
			if raisesIn(s) {
				leads = true
			}
			if _, isIf := s.Instrs[len(s.Instrs)-1].(*ssa.If); isIf && len(s.Instrs) <= 3 {
				for _, s2 := range s.Succs {
					if raisesIn(s2) {
						leads = true
					}
				}
			}
		}
		if !leads {
			continue
		}
		for _, cmp := range comparisonsOf(iff.Cond, 0) {
			for _, pair := range [][2]ssa.Value{{cmp.X, cmp.Y}, {cmp.Y, cmp.X}} {
				k, ok := constInt(pair[1])
				if !ok {
					continue
				}
				v := pair[0]
				for i := 0; i < 3; i++ {
					if cv, ok := v.(*ssa.Convert); ok {
						v = cv.X
					}
				}
				switch {
				case k == 0xDC00 || k == 0xDFFF || k == 0xDBFF+1 || k == 0xE000:
					if cmp.Op == token.EQL || cmp.Op == token.NEQ {
						continue
					}
					if tested[v] == nil {
						tested[v] = map[int64]bool{}
					}
					tested[v][k] = true
				case k == 0xFFFD:
					fffd = true
				}
			}
		}
	}
	both := 0
	for _, ks := range tested {
		lower := ks[0xDC00] || ks[0xDBFF+1]
		upper := ks[0xDFFF] || ks[0xE000]
		if lower && upper {
			both++
		}
	}
	site := c.Pos(enc.Pos())
	r.check(both >= 1 || fffd, ssaFuncName(enc)+":lone-low", site, "a code unit is tested against DC00..DFFF on a branch that raises URIError",
		fmt.Sprintf("%s never rejects a low surrogate that follows no high surrogate (ES5 15.1.3 Encode step 4.d.i): encodeURI('\\uDC00') must throw a URIError", ssaFuncName(enc)))
	r.check(both >= 2 || fffd, ssaFuncName(enc)+":pair-low", site, "the code unit after a high surrogate is tested against DC00..DFFF as well (or the decoded pair against U+FFFD)",
		fmt.Sprintf("%s tests only one code unit against the low-surrogate range DC00..DFFF: the unit that follows a high surrogate is combined without being checked (ES5 15.1.3 Encode step 4.d.iv.4 throws a URIError) - encodeURI(String.fromCharCode(0xD800, 0x41)) gives %%EF%%BF%%BD and the A is lost", ssaFuncName(enc)))
}
