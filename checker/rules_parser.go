package main

import (
	"fmt"
	"go/ast"
	"go/constant"
	"go/token"
	"go/types"
	"sort"
	"strings"
)

func init() {
	register(&Rule{ID: "LADDER-es5", Props: []string{"C03", "C05"}, Min: 40,
		Doc: "S: the precedence ladder extracted from the parse*Expression methods (token set tested, callee producing the left operand, callee producing the right operand, loop/recursion form) equals the ES5 §11.5-11.14 table: level order, token sets, left/right associativity, Comparison flag; conditional/assignment/comma/unary/postfix tails",
		Run: ruleLadder})
	register(&Rule{ID: "TAB-ops", Props: []string{"C01", "C02", "C03", "C05"}, Min: 45, SubsumedBy: "SPEC-comparison-eval", SubsumeKey: func(k string) bool { return strings.HasPrefix(k, "reader:binary-comparison:") },
		Doc: "T+S: every operator token the parser can store into BinaryExpression/UnaryExpression/AssignExpression.Operator has an arm in the evaluator switch that serves that channel (comparison vs. non-comparison decided by the Comparison flag), and the writer sets equal the ES5 operator sets",
		Run: ruleTabOps})
	register(&Rule{ID: "LEX-punct", Props: []string{"C03", "C04"}, Min: 45,
		Doc: "S: symbolic execution of the scanner's punctuation switch (and its switchN helpers) enumerates every (lexeme -> token) it can return; the lexeme set equals the ES5 §7.7 punctuators and each token's String() is its lexeme",
		Run: ruleLexPunct})
	register(&Rule{ID: "LEX-keywords", Props: []string{"C03", "C04"}, Min: 40,
		Doc: "S: token.keywordTable equals ES5 §7.6.1.1 keywords (each mapped to the token whose String() is the keyword) plus §7.6.1.2 future reserved words with the right strictness",
		Run: ruleLexKeywords})
}

// tokenLexemes evaluates the token2string table: token constant -> string.
func tokenLexemes(c *Ctx) (map[types.Object]string, map[int64]string) {
	p := c.Pkg("token")
	byObj := map[types.Object]string{}
	byVal := map[int64]string{}
	v := p.Types.Scope().Lookup("token2string")
	if v == nil {
		return nil, nil
	}
	init := c.VarInit(v)
	cl, ok := init.(*ast.CompositeLit)
	if !ok {
		return nil, nil
	}
	for _, el := range cl.Elts {
		kv, ok := el.(*ast.KeyValueExpr)
		if !ok {
			continue
		}
		ktv := p.TypesInfo.Types[kv.Key]
		vtv := p.TypesInfo.Types[kv.Value]
		if ktv.Value == nil || vtv.Value == nil {
			continue
		}
		n, _ := constant.Int64Val(ktv.Value)
		byVal[n] = constant.StringVal(vtv.Value)
		if id, ok := kv.Key.(*ast.Ident); ok {
			byObj[p.TypesInfo.Uses[id]] = constant.StringVal(vtv.Value)
		}
	}
	return byObj, byVal
}

type tokInfo struct {
	c     *Ctx
	info  *types.Info // parser package
	byVal map[int64]string
}

func newTokInfo(c *Ctx, pkgSuffix string) *tokInfo {
	_, byVal := tokenLexemes(c)
	return &tokInfo{c: c, info: c.Pkg(pkgSuffix).TypesInfo, byVal: byVal}
}

// lexemeOf returns the lexeme of a constant token expression.
func (t *tokInfo) lexemeOf(e ast.Expr) (string, bool) {
	tv, ok := t.info.Types[e]
	if !ok || tv.Value == nil || !typeIs(tv.Type, ottoPath+"/token", "Token") {
		return "", false
	}
	n, _ := constant.Int64Val(tv.Value)
	s, ok := t.byVal[n]
	return s, ok
}

// tableValues: e names a package-level map or array of the parser package whose initialiser is a keyed literal with
// constant Token values; returns their lexemes.
func (t *tokInfo) tableValues(e ast.Expr) ([]string, bool) {
	id, ok := unparen(e).(*ast.Ident)
	if !ok {
		return nil, false
	}
	v, ok := t.info.Uses[id].(*types.Var)
	if !ok || v.Parent() != v.Pkg().Scope() {
		return nil, false
	}
	cl, ok := t.c.VarInit(v).(*ast.CompositeLit)
	if !ok {
		return nil, false
	}
	var out []string
	for _, el := range cl.Elts {
		kv, ok := el.(*ast.KeyValueExpr)
		if !ok {
			return nil, false
		}
		lx, ok := t.lexemeOf(kv.Value)
		if !ok {
			return nil, false
		}
		out = append(out, lx)
	}
	// the table must not be written anywhere else
	for _, f := range t.c.Pkg("parser").Syntax {
		written := false
		ast.Inspect(f, func(n ast.Node) bool {
			if as, ok := n.(*ast.AssignStmt); ok {
				for _, l := range as.Lhs {
					if ix, ok := unparen(l).(*ast.IndexExpr); ok {
						if li, ok := unparen(ix.X).(*ast.Ident); ok && t.info.Uses[li] == types.Object(v) {
							written = true
						}
					}
					if li, ok := unparen(l).(*ast.Ident); ok && t.info.Uses[li] == types.Object(v) {
						written = true
					}
				}
			}
			return true
		})
		if written {
			return nil, false
		}
	}
	return out, len(out) > 0
}

// isPToken: e is <parser>.token
func (t *tokInfo) isPToken(e ast.Expr) bool {
	sel, ok := unparen(e).(*ast.SelectorExpr)
	if !ok || sel.Sel.Name != "token" {
		return false
	}
	return typeIs(t.info.TypeOf(sel.X), ottoPath+"/parser", "parser")
}

// orChain: cond is p.token == A || p.token == B ... ; returns lexemes.
func (t *tokInfo) orChain(cond ast.Expr) ([]string, bool) {
	cond = unparen(cond)
	if b, ok := cond.(*ast.BinaryExpr); ok {
		switch b.Op {
		case token.LOR:
			l, ok1 := t.orChain(b.X)
			r, ok2 := t.orChain(b.Y)
			return append(l, r...), ok1 && ok2
		case token.EQL:
			if t.isPToken(b.X) {
				if s, ok := t.lexemeOf(b.Y); ok {
					return []string{s}, true
				}
			}
		}
	}
	return nil, false
}

// constraint finds the innermost construct around n (inside fn) that constrains p.token.
func (t *tokInfo) constraint(n ast.Node) ([]string, bool) {
	child := n
	for p := t.c.ParentOf(n); p != nil; child, p = p, t.c.ParentOf(p) {
		switch x := p.(type) {
		case *ast.FuncDecl, *ast.FuncLit:
			return nil, false
		case *ast.ForStmt:
			if x.Cond != nil && child == ast.Node(x.Body) {
				if toks, ok := t.orChain(x.Cond); ok {
					return toks, true
				}
			}
		case *ast.IfStmt:
			if child == ast.Node(x.Body) {
				if toks, ok := t.orChain(x.Cond); ok {
					return toks, true
				}
			}
		case *ast.CaseClause:
			sw, ok := t.c.ParentOf(t.c.ParentOf(x)).(*ast.SwitchStmt)
			if !ok || sw.Tag == nil || !t.isPToken(sw.Tag) {
				continue
			}
			// include clauses that fall through into this one
			var toks []string
			clauses := sw.Body.List
			idx := -1
			for i, cl := range clauses {
				if cl == ast.Stmt(x) {
					idx = i
				}
			}
			for i := idx; i >= 0; i-- {
				cc := clauses[i].(*ast.CaseClause)
				if i != idx {
					if len(cc.Body) == 0 {
						break
					}
					br, ok := cc.Body[len(cc.Body)-1].(*ast.BranchStmt)
					if !ok || br.Tok != token.FALLTHROUGH {
						break
					}
				}
				for _, e := range cc.List {
					if s, ok := t.lexemeOf(e); ok {
						toks = append(toks, s)
					} else {
						return nil, false
					}
				}
			}
			return toks, true
		}
	}
	return nil, false
}

type ladderLit struct {
	pos        token.Pos
	toks       []string
	rightFn    string
	leftIsLeft bool
	comparison bool
	inLoop     bool
	assignLeft bool
}

type ladderLevel struct {
	fn        *ast.FuncDecl
	name      string
	operandFn string
	lits      []ladderLit
}

// parserMethodCallee resolves the callee of a call inside a parser method: either p.parseX(...) or a local
// `next` bound once to a method value p.parseX.
func parserMethodCallee(c *Ctx, info *types.Info, fd *ast.FuncDecl, call *ast.CallExpr) string {
	switch fun := unparen(call.Fun).(type) {
	case *ast.SelectorExpr:
		if fn, ok := info.Uses[fun.Sel].(*types.Func); ok {
			return fn.Name()
		}
	case *ast.Ident:
		obj := info.Uses[fun]
		name := ""
		n := 0
		ast.Inspect(fd.Body, func(x ast.Node) bool {
			if as, ok := x.(*ast.AssignStmt); ok && len(as.Lhs) == 1 && len(as.Rhs) == 1 {
				if id, ok := as.Lhs[0].(*ast.Ident); ok && (info.Defs[id] == obj || info.Uses[id] == obj) {
					n++
					if sel, ok := unparen(as.Rhs[0]).(*ast.SelectorExpr); ok {
						if fn, ok := info.Uses[sel.Sel].(*types.Func); ok {
							name = fn.Name()
						}
					}
				}
			}
			return true
		})
		if n == 1 {
			return name
		}
	}
	return ""
}

func litOf(e ast.Expr, info *types.Info, typeName string) *ast.CompositeLit {
	e = unparen(e)
	if u, ok := e.(*ast.UnaryExpr); ok && u.Op == token.AND {
		e = unparen(u.X)
	}
	cl, ok := e.(*ast.CompositeLit)
	if !ok {
		return nil
	}
	if n := derefNamed(info.TypeOf(cl)); n != nil && n.Obj().Name() == typeName && n.Obj().Pkg().Path() == ottoPath+"/ast" {
		return cl
	}
	return nil
}

func litField(cl *ast.CompositeLit, name string) ast.Expr {
	for _, el := range cl.Elts {
		if kv, ok := el.(*ast.KeyValueExpr); ok {
			if id, ok := kv.Key.(*ast.Ident); ok && id.Name == name {
				return kv.Value
			}
		}
	}
	return nil
}

func extractLadder(c *Ctx) ([]*ladderLevel, *tokInfo) {
	p := c.Pkg("parser")
	info := p.TypesInfo
	t := newTokInfo(c, "parser")
	var levels []*ladderLevel
	for _, f := range p.Syntax {
		for _, d := range f.Decls {
			fd, ok := d.(*ast.FuncDecl)
			if !ok || fd.Body == nil || fd.Recv == nil {
				continue
			}
			lv := &ladderLevel{fn: fd, name: fd.Name.Name}
			ast.Inspect(fd.Body, func(n ast.Node) bool {
				e, ok := n.(ast.Expr)
				if !ok {
					return true
				}
				u, ok := e.(*ast.UnaryExpr)
				if !ok {
					return true
				}
				cl := litOf(u, info, "BinaryExpression")
				if cl == nil {
					return true
				}
				ll := ladderLit{pos: cl.Pos()}
				ll.toks, _ = t.constraint(u)
				sort.Strings(ll.toks)
				if r, ok := unparen(litField(cl, "Right")).(*ast.CallExpr); ok {
					ll.rightFn = parserMethodCallee(c, info, fd, r)
				}
				if id, ok := unparen(litField(cl, "Left")).(*ast.Ident); ok && id.Name == "left" {
					ll.leftIsLeft = true
				}
				if cmp := litField(cl, "Comparison"); cmp != nil {
					if tv := info.Types[cmp]; tv.Value != nil {
						ll.comparison = constant.BoolVal(tv.Value)
					}
				}
				for par := c.ParentOf(u); par != nil; par = c.ParentOf(par) {
					if _, ok := par.(*ast.ForStmt); ok {
						ll.inLoop = true
					}
					if as, ok := par.(*ast.AssignStmt); ok && len(as.Lhs) == 1 {
						if id, ok := as.Lhs[0].(*ast.Ident); ok && id.Name == "left" && as.Tok == token.ASSIGN {
							ll.assignLeft = true
						}
					}
					if _, ok := par.(*ast.FuncDecl); ok {
						break
					}
				}
				// the Operator must be the current token captured before advancing
				lv.lits = append(lv.lits, ll)
				return true
			})
			// operand producer: first definition of `left`
			ast.Inspect(fd.Body, func(n ast.Node) bool {
				if lv.operandFn != "" {
					return false
				}
				if as, ok := n.(*ast.AssignStmt); ok && as.Tok == token.DEFINE && len(as.Lhs) == 1 && len(as.Rhs) == 1 {
					if id, ok := as.Lhs[0].(*ast.Ident); ok && (id.Name == "left" || id.Name == "operand") {
						if call, ok := unparen(as.Rhs[0]).(*ast.CallExpr); ok {
							lv.operandFn = parserMethodCallee(c, info, fd, call)
						}
					}
				}
				return true
			})
			levels = append(levels, lv)
		}
	}
	return levels, t
}

// ES5 §11.5-11.11 binary levels from tightest to loosest.
var es5BinaryLevels = []struct {
	clause string
	toks   []string
	cmp    map[string]bool
}{
	{"§11.5", []string{"*", "/", "%"}, nil},
	{"§11.6", []string{"+", "-"}, nil},
	{"§11.7", []string{"<<", ">>", ">>>"}, nil},
	{"§11.8", []string{"<", ">", "<=", ">=", "instanceof", "in"}, map[string]bool{"<": true, ">": true, "<=": true, ">=": true}},
	{"§11.9", []string{"==", "!=", "===", "!=="}, map[string]bool{"==": true, "!=": true, "===": true, "!==": true}},
	{"§11.10 &", []string{"&"}, nil},
	{"§11.10 ^", []string{"^"}, nil},
	{"§11.10 |", []string{"|"}, nil},
	{"§11.11 &&", []string{"&&"}, nil},
	{"§11.11 ||", []string{"||"}, nil},
}

func sameSet(a, b []string) bool {
	a = append([]string(nil), a...)
	b = append([]string(nil), b...)
	sort.Strings(a)
	sort.Strings(b)
	return strings.Join(a, " ") == strings.Join(b, " ")
}

func ruleLadder(c *Ctx, r *R) {
	levels, t := extractLadder(c)
	info := t.info
	byName := map[string]*ladderLevel{}
	for _, lv := range levels {
		byName[lv.name] = lv
	}
	// find function per ES5 level by token set
	fnOfLevel := make([]*ladderLevel, len(es5BinaryLevels))
	for _, lv := range levels {
		if len(lv.lits) == 0 {
			continue
		}
		var union []string
		seen := map[string]bool{}
		for _, l := range lv.lits {
			for _, tk := range l.toks {
				if !seen[tk] {
					seen[tk] = true
					union = append(union, tk)
				}
			}
		}
		matched := false
		for i, e := range es5BinaryLevels {
			if sameSet(union, e.toks) {
				fnOfLevel[i] = lv
				matched = true
			}
		}
		site := c.Pos(lv.fn.Pos())
		r.check(matched, "level-tokens:"+strings.Join(union, " "), site, lv.name+" builds BinaryExpression for an ES5 level",
			fmt.Sprintf("%s builds BinaryExpression for the token set {%s}, which is not the operator set of any ES5 §11.5-11.11 production", lv.name, strings.Join(union, " ")))
	}
	for i, e := range es5BinaryLevels {
		lv := fnOfLevel[i]
		key := "level:" + e.clause
		if lv == nil {
			r.bad(key, "parser/expression.go", fmt.Sprintf("no parser function builds BinaryExpression for exactly the ES5 %s operators {%s}", e.clause, strings.Join(e.toks, " ")))
			continue
		}
		site := c.Pos(lv.fn.Pos())
		r.ok(key, site, lv.name)
		// operand comes from the next tighter level
		if i > 0 && fnOfLevel[i-1] != nil {
			r.check(lv.operandFn == fnOfLevel[i-1].name, "operand:"+e.clause, site, "left operand from "+lv.operandFn,
				fmt.Sprintf("%s takes its left operand from %s; ES5 %s requires the next tighter level %s", lv.name, lv.operandFn, e.clause, fnOfLevel[i-1].name))
		}
		if i == 0 {
			// tightest level's operand is the unary level: a function that builds UnaryExpression and no BinaryExpression
			u := byName[lv.operandFn]
			r.check(u != nil && len(u.lits) == 0 && buildsLit(u.fn, info, "UnaryExpression"), "operand:"+e.clause, site, "left operand from unary level "+lv.operandFn,
				fmt.Sprintf("%s takes its operand from %s, which is not the UnaryExpression level", lv.name, lv.operandFn))
		}
		for _, l := range lv.lits {
			lk := e.clause + ":" + strings.Join(l.toks, " ")
			lsite := c.Pos(l.pos)
			// left associativity: loop re-assigning left with Left: left and Right from the tighter level
			r.check(l.inLoop && l.assignLeft && l.leftIsLeft, "left-assoc-form:"+lk, lsite, "left = &BinaryExpression{Left: left,...} inside a loop",
				"ES5 binary operators are left-associative: the node must be accumulated into `left` inside a loop (a op b op c = (a op b) op c)")
			r.check(l.rightFn == lv.operandFn && l.rightFn != lv.name, "right-operand:"+lk, lsite, "right operand from "+l.rightFn,
				fmt.Sprintf("right operand is parsed by %s; a left-associative level must parse it with the next tighter level %s (recursing into the same level makes the operator right-associative)", l.rightFn, lv.operandFn))
			for _, tk := range l.toks {
				r.check(l.comparison == e.cmp[tk], "comparison-flag:"+e.clause+":"+tk, lsite, fmt.Sprint(l.comparison),
					fmt.Sprintf("Comparison flag for %q is %v; the evaluator routes by this flag and only {< > <= >= == != === !==} are comparisons", tk, l.comparison))
			}
			// Operator must be the token captured from p.token
		}
		checkOperatorCaptured(c, r, t, lv, "BinaryExpression", e.clause)
	}
	// conditional
	top := fnOfLevel[len(fnOfLevel)-1]
	var cond, assign, seq *ladderLevel
	for _, lv := range levels {
		if buildsLit(lv.fn, info, "ConditionalExpression") {
			cond = lv
		}
		if buildsLit(lv.fn, info, "AssignExpression") {
			assign = lv
		}
		if buildsLit(lv.fn, info, "SequenceExpression") && lv.fn.Type.Results != nil && strings.HasSuffix(types.ExprString(lv.fn.Type.Results.List[0].Type), "Expression") {
			if seq == nil || lv.name == "parseExpression" {
				seq = lv
			}
		}
	}
	if cond == nil || assign == nil || seq == nil || top == nil {
		r.undecided("tail", "parser/expression.go", "UNRESOLVED conditional/assignment/sequence level")
		return
	}
	r.check(cond.operandFn == top.name, "operand:§11.12", c.Pos(cond.fn.Pos()), "test from "+cond.operandFn, "ConditionalExpression's test must come from the LogicalOR level "+top.name)
	ast.Inspect(cond.fn.Body, func(n ast.Node) bool {
		if u, ok := n.(*ast.UnaryExpr); ok {
			if cl := litOf(u, info, "ConditionalExpression"); cl != nil {
				toks, _ := t.constraint(u)
				r.check(sameSet(toks, []string{"?"}), "tokens:§11.12", c.Pos(cl.Pos()), "?", "conditional must be introduced by ?")
				for _, fld := range []string{"Consequent", "Alternate"} {
					got := exprProducer(c, info, cond.fn, litField(cl, fld))
					r.check(got == assign.name, "branch:§11.12:"+fld, c.Pos(cl.Pos()), got, fmt.Sprintf("%s of ?: is parsed by %q, ES5 §11.12 requires AssignmentExpression (%s)", fld, got, assign.name))
				}
				r.check(exprIsIdent(litField(cl, "Test"), "left"), "test:§11.12", c.Pos(cl.Pos()), "left", "Test must be the already parsed LogicalOR expression")
			}
		}
		return true
	})
	// assignment: right-associative, operand from conditional
	r.check(assign.operandFn == cond.name, "operand:§11.13", c.Pos(assign.fn.Pos()), "target from "+assign.operandFn, "AssignmentExpression's left side must come from the conditional level "+cond.name)
	ast.Inspect(assign.fn.Body, func(n ast.Node) bool {
		if u, ok := n.(*ast.UnaryExpr); ok {
			if cl := litOf(u, info, "AssignExpression"); cl != nil {
				got := exprProducer(c, info, assign.fn, litField(cl, "Right"))
				r.check(got == assign.name, "right-assoc:§11.13", c.Pos(cl.Pos()), got, "assignment is right-associative: the right side must be parsed by the assignment level itself, got "+got)
				r.check(exprIsIdent(litField(cl, "Left"), "left"), "left:§11.13", c.Pos(cl.Pos()), "left", "Left must be the parsed target")
			}
		}
		return true
	})
	// sequence: operands from assignment
	r.check(seq.operandFn == assign.name, "operand:§11.14", c.Pos(seq.fn.Pos()), "from "+seq.operandFn, "comma operands must be AssignmentExpressions ("+assign.name+")")
	// unary: right-recursive, tokens
	un := byName[fnOfLevel[0].operandFn]
	if un == nil {
		r.undecided("unary", "parser/expression.go", "UNRESOLVED unary level")
		return
	}
	var prefix, pre2, postfix []string
	var postFn *ladderLevel
	collectUnary := func(lv *ladderLevel, post bool) (sets [][]string) {
		ast.Inspect(lv.fn.Body, func(n ast.Node) bool {
			if u, ok := n.(*ast.UnaryExpr); ok {
				if cl := litOf(u, info, "UnaryExpression"); cl != nil {
					isPost := false
					if pf := litField(cl, "Postfix"); pf != nil {
						if tv := info.Types[pf]; tv.Value != nil {
							isPost = constant.BoolVal(tv.Value)
						}
					}
					if isPost == post {
						toks, _ := t.constraint(u)
						sets = append(sets, toks)
						key := "unary-operand:" + strings.Join(toks, " ")
						got := exprProducer(c, info, lv.fn, litField(cl, "Operand"))
						if !post {
							r.check(got == lv.name, key, c.Pos(cl.Pos()), got, "prefix unary operators are right-recursive (UnaryExpression : op UnaryExpression); operand parsed by "+got)
						} else {
							r.check(got != "" && got != lv.name && byName[got] != nil && len(byName[got].lits) == 0, "postfix-operand", c.Pos(cl.Pos()), got, "postfix operand must be a LeftHandSideExpression, parsed by "+got)
						}
					}
				}
			}
			return true
		})
		return
	}
	for _, s := range collectUnary(un, false) {
		if sameSet(s, []string{"++", "--"}) {
			pre2 = s
		} else {
			prefix = append(prefix, s...)
		}
	}
	r.check(sameSet(prefix, []string{"+", "-", "!", "~", "delete", "void", "typeof"}), "tokens:§11.4", c.Pos(un.fn.Pos()), strings.Join(prefix, " "), "prefix unary operator set is {"+strings.Join(prefix, " ")+"}, ES5 §11.4: delete void typeof + - ~ !")
	r.check(sameSet(pre2, []string{"++", "--"}), "tokens:§11.4.4-5", c.Pos(un.fn.Pos()), strings.Join(pre2, " "), "prefix increment/decrement set is {"+strings.Join(pre2, " ")+"}")
	postFn = byName[un.operandFnOrTail(c, info)]
	if postFn == nil {
		r.undecided("postfix", c.Pos(un.fn.Pos()), "UNRESOLVED postfix level (function the unary level falls back to)")
		return
	}
	for _, s := range collectUnary(postFn, true) {
		postfix = append(postfix, s...)
	}
	r.check(sameSet(postfix, []string{"++", "--"}), "tokens:§11.3", c.Pos(postFn.fn.Pos()), strings.Join(postfix, " "), "postfix operator set is {"+strings.Join(postfix, " ")+"}, ES5 §11.3: ++ --")
	checkOperatorCaptured(c, r, t, un, "UnaryExpression", "§11.4")
	checkOperatorCaptured(c, r, t, postFn, "UnaryExpression", "§11.3")
}

// operandFnOrTail: the function whose call is returned at the end of a level that has no `left :=`.
func (lv *ladderLevel) operandFnOrTail(c *Ctx, info *types.Info) string {
	name := ""
	if n := len(lv.fn.Body.List); n > 0 {
		if ret, ok := lv.fn.Body.List[n-1].(*ast.ReturnStmt); ok && len(ret.Results) == 1 {
			if call, ok := unparen(ret.Results[0]).(*ast.CallExpr); ok {
				name = parserMethodCallee(c, info, lv.fn, call)
			}
		}
	}
	return name
}

func buildsLit(fd *ast.FuncDecl, info *types.Info, typeName string) bool {
	found := false
	ast.Inspect(fd.Body, func(n ast.Node) bool {
		if cl, ok := n.(*ast.CompositeLit); ok {
			if nt := derefNamed(info.TypeOf(cl)); nt != nil && nt.Obj().Name() == typeName && nt.Obj().Pkg().Path() == ottoPath+"/ast" {
				found = true
			}
		}
		return true
	})
	return found
}

func exprIsIdent(e ast.Expr, name string) bool {
	id, ok := unparen(e).(*ast.Ident)
	return ok && id.Name == name
}

// exprProducer: the parser method whose call produced e (directly, or through a local defined once from a call).
func exprProducer(c *Ctx, info *types.Info, fd *ast.FuncDecl, e ast.Expr) string {
	e = unparen(e)
	if call, ok := e.(*ast.CallExpr); ok {
		return parserMethodCallee(c, info, fd, call)
	}
	if id, ok := e.(*ast.Ident); ok {
		obj := info.Uses[id]
		name := ""
		n := 0
		ast.Inspect(fd.Body, func(x ast.Node) bool {
			if as, ok := x.(*ast.AssignStmt); ok && len(as.Lhs) == 1 && len(as.Rhs) == 1 {
				if l, ok := as.Lhs[0].(*ast.Ident); ok && (info.Defs[l] == obj || info.Uses[l] == obj) {
					n++
					if call, ok := unparen(as.Rhs[0]).(*ast.CallExpr); ok {
						name = parserMethodCallee(c, info, fd, call)
					}
				}
			}
			return true
		})
		if n == 1 {
			return name
		}
	}
	return ""
}

// checkOperatorCaptured: the Operator field of each literal is a local defined as `tkn := p.token`
// (or p.token itself) under the same token constraint as the literal.
func checkOperatorCaptured(c *Ctx, r *R, t *tokInfo, lv *ladderLevel, typeName, clause string) {
	info := t.info
	ast.Inspect(lv.fn.Body, func(n ast.Node) bool {
		u, ok := n.(*ast.UnaryExpr)
		if !ok {
			return true
		}
		cl := litOf(u, info, typeName)
		if cl == nil {
			return true
		}
		op := unparen(litField(cl, "Operator"))
		okCap := false
		if op != nil && t.isPToken(op) {
			okCap = true
		} else if id, isId := op.(*ast.Ident); isId {
			obj := info.Uses[id]
			ndef := 0
			ast.Inspect(lv.fn.Body, func(x ast.Node) bool {
				if as, ok := x.(*ast.AssignStmt); ok && len(as.Lhs) == len(as.Rhs) {
					for i, l := range as.Lhs {
						if lid, ok := l.(*ast.Ident); ok && (info.Defs[lid] == obj) {
							ndef++
							if t.isPToken(as.Rhs[i]) {
								a, _ := t.constraint(as)
								b, _ := t.constraint(u)
								okCap = sameSet(a, b)
							}
						}
					}
				}
				return true
			})
			if ndef != 1 {
				okCap = false
			}
		}
		toks, _ := t.constraint(u)
		r.check(okCap, "operator-captured:"+clause+":"+strings.Join(toks, " "), c.Pos(cl.Pos()), "Operator = the token that selected this production",
			"Operator field is not the current token captured under the same token test: the node would carry a different operator than the one written")
		return true
	})
}

// ---------------------------------------------------------------------------------------------
// TAB-ops

type opSwitchFacts struct {
	handled map[string]bool
	site    string
}

// tokenSwitchLabels: lexemes of case labels of all `switch <tag>` in fd where tag satisfies pred; also constants compared with ==/!= to tag.
func tokenSwitchLabels(c *Ctx, t *tokInfo, fd *ast.FuncDecl, pred func(ast.Expr) bool) map[string]bool {
	out := map[string]bool{}
	ast.Inspect(fd.Body, func(n ast.Node) bool {
		switch x := n.(type) {
		case *ast.SwitchStmt:
			if x.Tag != nil && pred(x.Tag) {
				for _, s := range x.Body.List {
					for _, e := range s.(*ast.CaseClause).List {
						if lx, ok := t.lexemeOf(e); ok {
							out[lx] = true
						}
					}
				}
			}
		case *ast.BinaryExpr:
			if (x.Op == token.EQL || x.Op == token.NEQ) && pred(x.X) {
				if lx, ok := t.lexemeOf(x.Y); ok {
					out[lx] = true
				}
			}
		}
		return true
	})
	return out
}

// readersOfOperator: for node type nodeT (package otto), per function that reads <x>.operator with x of that type:
// labels handled in that function plus labels handled by static callees receiving the operator as an argument.
func readersOfOperator(c *Ctx, t *tokInfo, nodeT string) map[*ast.FuncDecl]map[string]bool {
	p := c.Otto()
	info := p.TypesInfo
	isOp := func(e ast.Expr) bool {
		sel, ok := unparen(e).(*ast.SelectorExpr)
		if !ok {
			return false
		}
		s, ok := info.Selections[sel]
		if !ok || s.Obj().Name() != "operator" {
			return false
		}
		n := derefNamed(s.Recv())
		return n != nil && n.Obj().Name() == nodeT
	}
	out := map[*ast.FuncDecl]map[string]bool{}
	for _, f := range p.Syntax {
		for _, d := range f.Decls {
			fd, ok := d.(*ast.FuncDecl)
			if !ok || fd.Body == nil {
				continue
			}
			reads := false
			ast.Inspect(fd.Body, func(n ast.Node) bool {
				if e, ok := n.(ast.Expr); ok && isOp(e) {
					reads = true
				}
				return true
			})
			if !reads {
				continue
			}
			if fd.Recv != nil && typeIs(info.TypeOf(fd.Recv.List[0].Type), ottoPath, "compiler") {
				continue
			}
			h := tokenSwitchLabels(c, t, fd, isOp)
			// operator passed to a callee
			ast.Inspect(fd.Body, func(n ast.Node) bool {
				call, ok := n.(*ast.CallExpr)
				if !ok {
					return true
				}
				for i, a := range call.Args {
					if !isOp(a) {
						continue
					}
					var callee *types.Func
					switch fun := unparen(call.Fun).(type) {
					case *ast.SelectorExpr:
						callee, _ = info.Uses[fun.Sel].(*types.Func)
					case *ast.Ident:
						callee, _ = info.Uses[fun].(*types.Func)
					}
					cd := c.Decl(callee)
					if cd == nil {
						continue
					}
					// parameter i
					var param types.Object
					k := 0
					for _, fl := range cd.Type.Params.List {
						for _, nm := range fl.Names {
							if k == i {
								param = info.Defs[nm]
							}
							k++
						}
					}
					if param == nil {
						continue
					}
					for lx := range tokenSwitchLabels(c, t, cd, func(e ast.Expr) bool {
						id, ok := unparen(e).(*ast.Ident)
						return ok && info.Uses[id] == param
					}) {
						h[lx] = true
					}
				}
				return true
			})
			out[fd] = h
		}
	}
	return out
}

func ruleTabOps(c *Ctx, r *R) {
	levels, t := extractLadder(c)
	ot := &tokInfo{c: c, info: c.Otto().TypesInfo, byVal: t.byVal}
	// writer side
	binCmp, binPlain := map[string]token.Pos{}, map[string]token.Pos{}
	for _, lv := range levels {
		for _, l := range lv.lits {
			for _, tk := range l.toks {
				if l.comparison {
					binCmp[tk] = l.pos
				} else {
					binPlain[tk] = l.pos
				}
			}
			if len(l.toks) == 0 {
				r.undecided("writer:binary:"+lv.name, c.Pos(l.pos), "BinaryExpression literal whose operator set cannot be determined")
			}
		}
	}
	unary := map[string]token.Pos{}
	assignOps := map[string]token.Pos{}
	pinfo := t.info
	for _, lv := range levels {
		ast.Inspect(lv.fn.Body, func(n ast.Node) bool {
			u, ok := n.(*ast.UnaryExpr)
			if !ok {
				return true
			}
			if cl := litOf(u, pinfo, "UnaryExpression"); cl != nil {
				toks, ok := t.constraint(u)
				if !ok {
					r.undecided("writer:unary:"+lv.name, c.Pos(cl.Pos()), "UnaryExpression literal whose operator set cannot be determined")
				}
				for _, tk := range toks {
					unary[tk] = cl.Pos()
				}
			}
			if cl := litOf(u, pinfo, "AssignExpression"); cl != nil {
				// Operator: a local assigned constants in a switch over p.token
				if id, ok := unparen(litField(cl, "Operator")).(*ast.Ident); ok {
					obj := pinfo.Uses[id]
					ast.Inspect(lv.fn.Body, func(x ast.Node) bool {
						as, ok := x.(*ast.AssignStmt)
						if !ok || len(as.Lhs) < 1 || len(as.Lhs) > 2 || len(as.Rhs) != 1 {
							return true
						}
						if l, ok := as.Lhs[0].(*ast.Ident); !ok || (pinfo.Uses[l] != obj && pinfo.Defs[l] != obj) {
							return true
						}
						if ix, ok := unparen(as.Rhs[0]).(*ast.IndexExpr); ok && t.isPToken(ix.Index) {
							// a lookup table indexed by the current token: the values of its literal
							if vals, ok := t.tableValues(ix.X); ok {
								for _, v := range vals {
									assignOps[v] = as.Pos()
								}
								return true
							}
						}
						if len(as.Lhs) != 1 {
							return true
						}
						if lx, ok := t.lexemeOf(as.Rhs[0]); ok {
							assignOps[lx] = as.Pos()
						} else if t.isPToken(as.Rhs[0]) {
							toks, _ := t.constraint(as)
							for _, tk := range toks {
								assignOps[tk] = as.Pos()
							}
						} else {
							r.undecided("writer:assign", c.Pos(as.Pos()), "assignment operator from a non-constant")
						}
						return true
					})
				} else {
					r.undecided("writer:assign", c.Pos(cl.Pos()), "AssignExpression.Operator is not a local")
				}
			}
			return true
		})
	}
	// ES5 writer sets
	r.check(sameSet(keysOf(binPlain), []string{"*", "/", "%", "+", "-", "<<", ">>", ">>>", "instanceof", "in", "&", "^", "|", "&&", "||"}), "es5:binary-plain", "parser/expression.go", strings.Join(keysOf(binPlain), " "), "non-comparison binary operators the parser can emit: {"+strings.Join(keysOf(binPlain), " ")+"} differ from ES5 §11.5-11.11")
	r.check(sameSet(keysOf(binCmp), []string{"<", ">", "<=", ">=", "==", "!=", "===", "!=="}), "es5:binary-comparison", "parser/expression.go", strings.Join(keysOf(binCmp), " "), "comparison operators the parser can emit: {"+strings.Join(keysOf(binCmp), " ")+"} differ from ES5 §11.8-11.9")
	r.check(sameSet(keysOf(unary), []string{"+", "-", "!", "~", "delete", "void", "typeof", "++", "--"}), "es5:unary", "parser/expression.go", strings.Join(keysOf(unary), " "), "unary operators the parser can emit: {"+strings.Join(keysOf(unary), " ")+"} differ from ES5 §11.3-11.4")
	r.check(sameSet(keysOf(assignOps), []string{"=", "*", "/", "%", "+", "-", "<<", ">>", ">>>", "&", "^", "|"}), "es5:assign", "parser/expression.go", strings.Join(keysOf(assignOps), " "), "operators stored for (compound) assignment: {"+strings.Join(keysOf(assignOps), " ")+"} differ from ES5 §11.13 (= *= /= %= += -= <<= >>= >>>= &= ^= |=)")

	// reader side
	binReaders := readersOfOperator(c, ot, "nodeBinaryExpression")
	// which reader serves comparison=true? the one dispatched under `if node.comparison`
	cmpFn, plainFn := comparisonDispatch(c)
	if cmpFn == nil || plainFn == nil {
		r.undecided("dispatch", "cmpl_evaluate_expression.go", "UNRESOLVED: cannot find `if node.comparison { return A(node) }; return B(node)` in the evaluator's nodeBinaryExpression case")
	} else {
		hc, hp := binReaders[cmpFn], binReaders[plainFn]
		for _, tk := range keysOf(binCmp) {
			r.check(hc[tk], "reader:binary-comparison:"+tk, c.Pos(binCmp[tk]), "handled via "+declName(cmpFn), fmt.Sprintf("parser emits comparison operator %q but %s (and the function it passes the operator to) has no arm for it: the evaluator panics", tk, declName(cmpFn)))
		}
		for _, tk := range keysOf(binPlain) {
			r.check(hp[tk], "reader:binary:"+tk, c.Pos(binPlain[tk]), "handled via "+declName(plainFn), fmt.Sprintf("parser emits binary operator %q but %s (and the function it passes the operator to) has no arm for it: the evaluator panics", tk, declName(plainFn)))
		}
	}
	for nodeT, w := range map[string]map[string]token.Pos{"nodeUnaryExpression": unary, "nodeAssignExpression": assignOps} {
		rd := readersOfOperator(c, ot, nodeT)
		union := map[string]bool{}
		var names []string
		for fd, h := range rd {
			names = append(names, declName(fd))
			for k := range h {
				union[k] = true
			}
		}
		sort.Strings(names)
		if len(rd) == 0 {
			r.undecided("reader:"+nodeT, "-", "no function reads "+nodeT+".operator")
			continue
		}
		for _, tk := range keysOf(w) {
			r.check(union[tk], "reader:"+nodeT+":"+tk, c.Pos(w[tk]), "handled in "+strings.Join(names, ","), fmt.Sprintf("parser emits operator %q for %s but no reader of .operator has an arm for it", tk, nodeT))
		}
	}
}

func keysOf(m map[string]token.Pos) []string {
	var ks []string
	for k := range m {
		ks = append(ks, k)
	}
	sort.Strings(ks)
	return ks
}

// comparisonDispatch finds, in the evaluator's case for *nodeBinaryExpression, the pattern
// `if node.comparison { return rt.A(node) } return rt.B(node)` and returns (A, B).
func comparisonDispatch(c *Ctx) (cmp, plain *ast.FuncDecl) {
	p := c.Otto()
	info := p.TypesInfo
	for _, sw := range c.typeSwitches("") {
		for _, tc := range sw.cases {
			if len(tc.types) != 1 || !typeIs(tc.types[0], ottoPath, "nodeBinaryExpression") || len(tc.clause.Body) != 2 {
				continue
			}
			is, ok := tc.clause.Body[0].(*ast.IfStmt)
			if !ok || is.Else != nil || len(is.Body.List) != 1 {
				continue
			}
			sel, ok := unparen(is.Cond).(*ast.SelectorExpr)
			if !ok || sel.Sel.Name != "comparison" {
				continue
			}
			callee := func(s ast.Stmt) *ast.FuncDecl {
				ret, ok := s.(*ast.ReturnStmt)
				if !ok || len(ret.Results) != 1 {
					return nil
				}
				call, ok := unparen(ret.Results[0]).(*ast.CallExpr)
				if !ok {
					return nil
				}
				if fs, ok := unparen(call.Fun).(*ast.SelectorExpr); ok {
					if fn, ok := info.Uses[fs.Sel].(*types.Func); ok {
						return c.Decl(fn)
					}
				}
				return nil
			}
			a, b := callee(is.Body.List[0]), callee(tc.clause.Body[1])
			if a != nil && b != nil {
				return a, b
			}
		}
	}
	return nil, nil
}

// ---------------------------------------------------------------------------------------------
// LEX-punct: symbolic execution of the scanner's punctuation switch

type lexState struct {
	consumed string
	tkn      string // lexeme of the current constant token ("" = unset, "?" = non-constant)
	brk      bool   // a break was executed: the rest of the enclosing case arm is skipped
}

type lexInterp struct {
	c      *Ctx
	t      *tokInfo
	info   *types.Info
	out    map[string]string // consumed lexeme -> token lexeme
	und    []string
	params map[types.Object]interface{} // helper parameter bindings: string lexeme or rune
	depth  int
}

var es5Punctuators = strings.Fields("{ } ( ) [ ] . ; , < > <= >= == != === !== + - * % ++ -- << >> >>> & | ^ ! ~ && || ? : = += -= *= %= <<= >>= >>>= &= |= ^= / /=")

func ruleLexPunct(c *Ctx, r *R) {
	p := c.Pkg("parser")
	info := p.TypesInfo
	t := newTokInfo(c, "parser")
	// find the switch on a rune-typed local inside a method of parser that assigns token constants: the one with most cases
	var best *ast.SwitchStmt
	var bestFn *ast.FuncDecl
	for _, f := range p.Syntax {
		for _, d := range f.Decls {
			fd, ok := d.(*ast.FuncDecl)
			if !ok || fd.Body == nil || fd.Recv == nil {
				continue
			}
			ast.Inspect(fd.Body, func(n ast.Node) bool {
				sw, ok := n.(*ast.SwitchStmt)
				if !ok || sw.Tag == nil {
					return true
				}
				if b, ok := info.TypeOf(sw.Tag).Underlying().(*types.Basic); !ok || b.Kind() != types.Int32 {
					return true
				}
				nTok := 0
				ast.Inspect(sw.Body, func(x ast.Node) bool {
					if as, ok := x.(*ast.AssignStmt); ok && len(as.Rhs) == 1 {
						if _, ok := t.lexemeOf(as.Rhs[0]); ok {
							nTok++
						}
					}
					return true
				})
				if nTok > 10 && (best == nil || len(sw.Body.List) > len(best.Body.List)) {
					best, bestFn = sw, fd
				}
				return true
			})
		}
	}
	if best == nil {
		r.undecided("scanner-switch", "parser/lexer.go", "UNRESOLVED: no switch over the current character assigning token constants")
		return
	}
	li := &lexInterp{c: c, t: t, info: info, out: map[string]string{}}
	for _, s := range best.Body.List {
		cc := s.(*ast.CaseClause)
		for _, e := range cc.List {
			tv := info.Types[e]
			if tv.Value == nil {
				continue
			}
			n, _ := constant.Int64Val(tv.Value)
			if n < 0 || n == '\r' || n == '\n' || n == 0x2028 || n == 0x2029 {
				continue
			}
			st := lexState{consumed: string(rune(n))}
			li.params = map[types.Object]interface{}{}
			finals := li.execList(cc.Body, []lexState{st})
			for _, f := range finals {
				if f.tkn == "" {
					continue // comment / continue paths
				}
				if f.tkn == "\x02" || f.tkn == "STRING" || f.tkn == "ILLEGAL" {
					continue // literal scanning (numbers, strings) or rejected input: not a punctuator
				}
				f.consumed = normLexeme(f.consumed)
				if old, dup := li.out[f.consumed]; dup && old != f.tkn {
					li.und = append(li.und, fmt.Sprintf("lexeme %q maps to two tokens %q and %q", f.consumed, old, f.tkn))
				}
				li.out[f.consumed] = f.tkn
			}
		}
	}
	site := c.Pos(best.Pos())
	for _, u := range li.und {
		r.undecided("interp:"+u, site, u)
	}
	_ = bestFn
	want := map[string]bool{}
	for _, pn := range es5Punctuators {
		want[pn] = true
		tk, ok := li.out[pn]
		if !ok {
			r.bad("punctuator:"+pn, site, fmt.Sprintf("ES5 §7.7 punctuator %q cannot be produced by the scanner", pn))
			continue
		}
		r.check(tk == pn, "punctuator:"+pn, site, "token "+tk, fmt.Sprintf("character sequence %q is scanned as the token whose String() is %q", pn, tk))
	}
	for _, lx := range sortedKeys(li.out) {
		if !want[lx] {
			r.bad("extra:"+lx, site, fmt.Sprintf("scanner accepts %q as token %q, which is not an ES5 §7.7 punctuator", lx, li.out[lx]))
		}
	}
}

// execList runs statements over a set of states; returns resulting states. A state whose path ended (return/continue) keeps its final tkn.
func (li *lexInterp) execList(stmts []ast.Stmt, in []lexState) []lexState {
	cur := in
	var done []lexState
	for _, s := range stmts {
		var next []lexState
		for _, st := range cur {
			if st.brk {
				next = append(next, st)
				continue
			}
			n, d := li.exec(s, st)
			next = append(next, n...)
			done = append(done, d...)
		}
		cur = next
	}
	return append(done, cur...)
}

func (li *lexInterp) chrCond(e ast.Expr) (rune, bool, bool) { // (char, negated, ok): p.chr == 'x'
	b, ok := unparen(e).(*ast.BinaryExpr)
	if !ok || (b.Op != token.EQL && b.Op != token.NEQ) {
		return 0, false, false
	}
	sel, ok := unparen(b.X).(*ast.SelectorExpr)
	if !ok || sel.Sel.Name != "chr" {
		return 0, false, false
	}
	if tv := li.info.Types[b.Y]; tv.Value != nil {
		n, _ := constant.Int64Val(tv.Value)
		return rune(n), b.Op == token.NEQ, true
	}
	if id, ok := unparen(b.Y).(*ast.Ident); ok {
		if v, ok := li.params[li.info.Uses[id]].(rune); ok {
			return v, b.Op == token.NEQ, true
		}
	}
	return 0, false, false
}

func (li *lexInterp) tokenExpr(e ast.Expr, st lexState) ([]lexState, bool) {
	e = unparen(e)
	if lx, ok := li.t.lexemeOf(e); ok {
		st.tkn = lx
		return []lexState{st}, true
	}
	if id, ok := e.(*ast.Ident); ok {
		if v, ok := li.params[li.info.Uses[id]].(string); ok {
			st.tkn = v
			return []lexState{st}, true
		}
	}
	if call, ok := e.(*ast.CallExpr); ok {
		if sel, ok := unparen(call.Fun).(*ast.SelectorExpr); ok {
			if fn, ok := li.info.Uses[sel.Sel].(*types.Func); ok {
				fd := li.c.Decl(fn)
				if fd != nil && li.depth < 3 && fd.Type.Results != nil && len(fd.Type.Results.List) == 1 && typeIs(li.info.TypeOf(fd.Type.Results.List[0].Type), ottoPath+"/token", "Token") {
					// bind parameters
					saved := li.params
					li.params = map[types.Object]interface{}{}
					k := 0
					okBind := true
					for _, fl := range fd.Type.Params.List {
						for _, nm := range fl.Names {
							if k >= len(call.Args) {
								okBind = false
								break
							}
							a := call.Args[k]
							if lx, ok := li.t.lexemeOf(a); ok {
								li.params[li.info.Defs[nm]] = lx
							} else if tv := li.info.Types[a]; tv.Value != nil {
								n, _ := constant.Int64Val(tv.Value)
								li.params[li.info.Defs[nm]] = rune(n)
							} else {
								okBind = false
							}
							k++
						}
					}
					if okBind {
						li.depth++
						res := li.execList(fd.Body.List, []lexState{{consumed: st.consumed, tkn: ""}})
						li.depth--
						li.params = saved
						return res, true
					}
					li.params = saved
				}
			}
		}
	}
	return nil, false
}

// exec returns (continuing states, finished states).
func (li *lexInterp) exec(s ast.Stmt, st lexState) (cont, done []lexState) {
	switch x := s.(type) {
	case *ast.AssignStmt:
		// tkn = <expr>  |  tkn, literal = call  | other assignments ignored
		if id, ok := x.Lhs[0].(*ast.Ident); ok && typeIs(li.info.TypeOf(id), ottoPath+"/token", "Token") {
			if len(x.Rhs) == 1 && len(x.Lhs) == 1 {
				if res, ok := li.tokenExpr(x.Rhs[0], st); ok {
					return res, nil
				}
			}
			st.tkn = "\x02"
			return []lexState{st}, nil
		}
		return []lexState{st}, nil
	case *ast.ExprStmt:
		if call, ok := x.X.(*ast.CallExpr); ok {
			if sel, ok := unparen(call.Fun).(*ast.SelectorExpr); ok && sel.Sel.Name == "read" && len(call.Args) == 0 {
				st.consumed += "\x00" // placeholder replaced by the branch that decided the char
				return []lexState{st}, nil
			}
		}
		return []lexState{st}, nil
	case *ast.ReturnStmt:
		if len(x.Results) == 1 {
			if res, ok := li.tokenExpr(x.Results[0], st); ok {
				return nil, res
			}
			st.tkn = "\x02"
		}
		return nil, []lexState{st}
	case *ast.BranchStmt:
		if x.Tok == token.CONTINUE {
			st.tkn = ""
			return nil, []lexState{st}
		}
		st.brk = true // leaves the enclosing switch arm: the statements that follow in it are skipped
		return []lexState{st}, nil
	case *ast.IfStmt:
		// forms: p.chr == K ; tkn == CONST ; tkn == CONST && p.chr == K ; other (unknown: explore both)
		conj := splitAnd(x.Cond)
		var ch rune
		hasChr, neg := false, false
		known := true
		truth := true
		for _, cnd := range conj {
			if r, n, ok := li.chrCond(cnd); ok {
				ch, hasChr, neg = r, true, n
				continue
			}
			if b, ok := unparen(cnd).(*ast.BinaryExpr); ok && (b.Op == token.EQL || b.Op == token.NEQ) {
				if id, ok := unparen(b.X).(*ast.Ident); ok && typeIs(li.info.TypeOf(id), ottoPath+"/token", "Token") {
					if lx, ok := li.t.lexemeOf(b.Y); ok && st.tkn != "\x02" {
						eq := st.tkn == lx
						if b.Op == token.NEQ {
							eq = !eq
						}
						truth = truth && eq
						continue
					}
				}
			}
			known = false
		}
		var thenStates, elseStates []lexState
		if !known {
			thenStates, elseStates = []lexState{st}, []lexState{st}
		} else if !truth {
			elseStates = []lexState{st}
		} else if hasChr && !neg {
			t := st
			t.consumed += "\x01" + string(ch) // next char is ch (consumed by the following read)
			thenStates = []lexState{t}
			elseStates = []lexState{st}
		} else if hasChr && neg {
			t := st
			t.consumed += "\x01" + string(ch)
			elseStates = []lexState{t}
			thenStates = []lexState{st}
		} else {
			thenStates = []lexState{st}
		}
		var outC, outD []lexState
		for _, t := range thenStates {
			res := li.execBlock(x.Body.List, t)
			outC = append(outC, res.cont...)
			outD = append(outD, res.done...)
		}
		for _, e := range elseStates {
			if x.Else == nil {
				outC = append(outC, e)
				continue
			}
			switch el := x.Else.(type) {
			case *ast.BlockStmt:
				res := li.execBlock(el.List, e)
				outC = append(outC, res.cont...)
				outD = append(outD, res.done...)
			case *ast.IfStmt:
				c2, d2 := li.exec(el, e)
				outC = append(outC, c2...)
				outD = append(outD, d2...)
			}
		}
		return outC, outD
	case *ast.SwitchStmt:
		// switch p.chr { case 'x': ... default: ... }
		if sel, ok := unparen(x.Tag).(*ast.SelectorExpr); ok && sel.Sel.Name == "chr" {
			var outC, outD []lexState
			for _, cs := range x.Body.List {
				cc := cs.(*ast.CaseClause)
				if cc.List == nil {
					res := li.execBlock(cc.Body, st)
					outC = append(outC, res.cont...)
					outD = append(outD, res.done...)
					continue
				}
				for _, e := range cc.List {
					if tv := li.info.Types[e]; tv.Value != nil {
						n, _ := constant.Int64Val(tv.Value)
						t := st
						t.consumed += "\x01" + string(rune(n))
						res := li.execBlock(cc.Body, t)
						outC = append(outC, res.cont...)
						outD = append(outD, res.done...)
					}
				}
			}
			for i := range outC {
				outC[i].brk = false // a break inside this switch ended this switch only
			}
			return outC, outD
		}
		li.und = append(li.und, "switch form not understood at "+li.c.Pos(x.Pos()))
		return []lexState{st}, nil
	case *ast.BlockStmt:
		res := li.execBlock(x.List, st)
		return res.cont, res.done
	case *ast.DeclStmt:
		return []lexState{st}, nil
	}
	li.und = append(li.und, fmt.Sprintf("statement %T not understood at %s", s, li.c.Pos(s.Pos())))
	return []lexState{st}, nil
}

type lexRes struct{ cont, done []lexState }

func (li *lexInterp) execBlock(stmts []ast.Stmt, st lexState) lexRes {
	cur := []lexState{st}
	var done []lexState
	for _, s := range stmts {
		var next []lexState
		for _, c := range cur {
			if c.brk {
				next = append(next, c)
				continue
			}
			n, d := li.exec(s, c)
			next = append(next, n...)
			done = append(done, d...)
		}
		cur = next
	}
	return lexRes{cur, done}
}

func splitAnd(e ast.Expr) []ast.Expr {
	e = unparen(e)
	if b, ok := e.(*ast.BinaryExpr); ok && b.Op == token.LAND {
		return append(splitAnd(b.X), splitAnd(b.Y)...)
	}
	return []ast.Expr{e}
}

func ruleLexKeywords(c *Ctx, r *R) {
	p := c.Pkg("token")
	info := p.TypesInfo
	_, byVal := tokenLexemes(c)
	v := p.Types.Scope().Lookup("keywordTable")
	if v == nil {
		r.undecided("anchor", "-", "UNRESOLVED token.keywordTable")
		return
	}
	cl, ok := c.VarInit(v).(*ast.CompositeLit)
	if !ok {
		r.undecided("anchor", c.Pos(v.Pos()), "keywordTable is not a literal")
		return
	}
	type kw struct {
		tok            string
		future, strict bool
		pos            token.Pos
	}
	got := map[string]kw{}
	for _, el := range cl.Elts {
		kv := el.(*ast.KeyValueExpr)
		ktv := info.Types[kv.Key]
		if ktv.Value == nil {
			r.undecided("key", c.Pos(kv.Pos()), "non-constant key")
			continue
		}
		k := kw{pos: kv.Pos()}
		for _, f := range kv.Value.(*ast.CompositeLit).Elts {
			fkv := f.(*ast.KeyValueExpr)
			tv := info.Types[fkv.Value]
			switch fkv.Key.(*ast.Ident).Name {
			case "token":
				if tv.Value != nil {
					n, _ := constant.Int64Val(tv.Value)
					k.tok = byVal[n]
				}
			case "futureKeyword":
				k.future = tv.Value != nil && constant.BoolVal(tv.Value)
			case "strict":
				k.strict = tv.Value != nil && constant.BoolVal(tv.Value)
			}
		}
		name := constant.StringVal(ktv.Value)
		if _, dup := got[name]; dup {
			r.bad("dup:"+name, c.Pos(kv.Pos()), "keyword listed twice")
		}
		got[name] = k
	}
	keywords := strings.Fields("break do instanceof typeof case else new var catch finally return void continue for switch while debugger function this with default if throw delete in try")
	future := strings.Fields("class enum extends super const export import")
	strict := strings.Fields("implements let private public interface package protected static")
	want := map[string]bool{}
	for _, k := range keywords {
		want[k] = true
		g, ok := got[k]
		if !ok {
			r.bad("keyword:"+k, c.Pos(cl.Pos()), fmt.Sprintf("ES5 §7.6.1.1 keyword %q is missing from keywordTable: it would scan as an identifier", k))
			continue
		}
		r.check(g.tok == k && !g.future && !g.strict, "keyword:"+k, c.Pos(g.pos), "token "+g.tok, fmt.Sprintf("keyword %q maps to token %q (future=%v strict=%v)", k, g.tok, g.future, g.strict))
	}
	for _, k := range future {
		want[k] = true
		g, ok := got[k]
		r.check(ok && g.tok == "KEYWORD" && g.future && !g.strict, "future:"+k, c.Pos(g.pos), "reserved", fmt.Sprintf("ES5 §7.6.1.2 future reserved word %q must be reserved in all code (token KEYWORD, futureKeyword, not strict-only); got present=%v token=%q future=%v strict=%v", k, ok, g.tok, g.future, g.strict))
	}
	for _, k := range strict {
		want[k] = true
		g, ok := got[k]
		r.check(ok && g.tok == "KEYWORD" && g.future && g.strict, "future-strict:"+k, c.Pos(g.pos), "reserved in strict code only", fmt.Sprintf("ES5 §7.6.1.2 strict-mode future reserved word %q must be marked strict (otherwise it cannot be used as an identifier in sloppy code); got present=%v token=%q future=%v strict=%v", k, ok, g.tok, g.future, g.strict))
	}
	for _, k := range sortedKeys(got) {
		if !want[k] {
			r.bad("extra:"+k, c.Pos(got[k].pos), fmt.Sprintf("%q is not an ES5 reserved word but is in keywordTable: valid identifiers would be rejected", k))
		}
	}
}

// normLexeme resolves the peek/read markers: "\x01c" = the next character is known to be c, "\x00" = one read().
func normLexeme(s string) string {
	var out []rune
	pending := rune(0)
	rs := []rune(s)
	for i := 0; i < len(rs); i++ {
		switch rs[i] {
		case 1:
			if i+1 < len(rs) {
				pending = rs[i+1]
				i++
			}
		case 0:
			if pending != 0 {
				out = append(out, pending)
				pending = 0
			} else {
				out = append(out, '\uFFFD') // a character the scanner consumed without testing it
			}
		default:
			out = append(out, rs[i])
		}
	}
	return string(out)
}
