package main

import (
	"fmt"
	"go/ast"
	"go/constant"
	"go/token"
	"golang.org/x/tools/go/packages"
	"sort"
	"strings"
)

func init() {
	register(&Rule{ID: "LEX-lt-set", Props: []string{"C03", "C04"}, Min: 5,
		Doc: "T (one table, many readers): ES5 7.3 has four line terminators - LF, CR, U+2028, U+2029 - and every place of the scanner that asks `is this the end of the line` must ask about all four: the end of a `//` comment, a line break inside a `/* */` comment (7.4: it makes the comment a line terminator for automatic semicolon insertion and the restricted productions), an unterminated string or regular expression, a line continuation. In every function of package parser the set of line-terminator characters it compares a character with (case lists, == / != with a constant) or searches for (a constant character set handed to strings.IndexAny / ContainsAny / Trim*) is either empty, all four, or the CR LF pairing idiom (a test for LF nested in a test for CR and nothing else). A scanner that jumps to the next \"\\n\" misses a comment ended by a lone CR or by U+2028",
		Run: ruleLexLTSet})
}

func ruleLexLTSet(c *Ctx, r *R) {
	p := c.Pkg("parser")
	if p == nil {
		r.undecided("anchor", "-", "UNRESOLVED package parser")
		return
	}
	info := p.TypesInfo
	lt := map[int64]string{0x0a: "LF", 0x0d: "CR", 0x2028: "U+2028", 0x2029: "U+2029"}
	n := 0
	for _, f := range p.Syntax {
		for _, d := range f.Decls {
			fd, ok := d.(*ast.FuncDecl)
			if !ok || fd.Body == nil {
				continue
			}
			seen := map[string]bool{}
			viaSet := false
			pairOnly := true // every LF test is a comparison nested in the body of an `if` that compares with CR
			var firstPos token.Pos
			note := func(v constant.Value, pos token.Pos) {
				if v == nil || v.Kind() != constant.Int {
					return
				}
				k, exact := constant.Int64Val(v)
				if name, isLT := lt[k]; exact && isLT {
					seen[name] = true
					if firstPos == token.NoPos {
						firstPos = pos
					}
				}
			}
			ast.Inspect(fd.Body, func(nd ast.Node) bool {
				switch x := nd.(type) {
				case *ast.BinaryExpr:
					if x.Op == token.EQL || x.Op == token.NEQ {
						for _, side := range []ast.Expr{x.X, x.Y} {
							if tv, ok := info.Types[side]; ok && tv.Value != nil && isRuneLike(side) {
								note(tv.Value, x.Pos())
								if k, _ := constant.Int64Val(tv.Value); k == 0x0a && !underCRTest(c, x, info) {
									pairOnly = false
								}
							}
						}
					}
				case *ast.CaseClause:
					for _, e := range x.List {
						if tv, ok := info.Types[e]; ok && tv.Value != nil && isRuneLike(e) {
							note(tv.Value, x.Pos())
							if k, exact := constant.Int64Val(tv.Value); exact && lt[k] != "" {
								pairOnly = false
							}
						}
					}
				case *ast.CallExpr:
					sel, ok := unparen(x.Fun).(*ast.SelectorExpr)
					if !ok {
						return true
					}
					switch sel.Sel.Name {
					case "IndexAny", "ContainsAny", "LastIndexAny", "Trim", "TrimLeft", "TrimRight", "IndexRune", "ContainsRune", "IndexByte":
					default:
						return true
					}
					if id, ok := unparen(sel.X).(*ast.Ident); !ok || (id.Name != "strings" && id.Name != "bytes") {
						return true
					}
					if len(x.Args) != 2 {
						return true
					}
					tv, ok := info.Types[x.Args[1]]
					if !ok || tv.Value == nil {
						return true
					}
					switch tv.Value.Kind() {
					case constant.String:
						for _, ch := range constant.StringVal(tv.Value) {
							if name, isLT := lt[int64(ch)]; isLT {
								seen[name] = true
								viaSet = true
								if firstPos == token.NoPos {
									firstPos = x.Pos()
								}
							}
						}
					case constant.Int:
						if k, exact := constant.Int64Val(tv.Value); exact {
							if name, isLT := lt[k]; isLT {
								seen[name] = true
								viaSet = true
								if firstPos == token.NoPos {
									firstPos = x.Pos()
								}
							}
						}
					}
				}
				return true
			})
			if len(seen) == 0 {
				continue
			}
			n++
			var names []string
			for k := range seen {
				names = append(names, k)
			}
			sort.Strings(names)
			key := "parser." + declName(fd)
			site := c.Pos(firstPos)
			switch {
			case len(seen) == 4:
				r.ok(key, site, "asks about all four line terminators")
			case !viaSet && pairOnly && seen["CR"] && len(seen) <= 2 && (len(seen) == 1 || seen["LF"]):
				r.ok(key, site, "the CR LF pairing idiom (the caller has already seen a line terminator)")
			case !viaSet && len(seen) == 1 && seen["LF"] && calledOnlyUnderCR(c, p, fd):
				r.ok(key, site, "the LF half of the CR LF pairing idiom: every call of this helper is made under a test for CR")
			default:
				r.bad(key, site, fmt.Sprintf("%s tests a character for %s only: ES5 7.3 has four line terminators (LF, CR, U+2028, U+2029), and the one left out does not end the comment / line for this function - `a // c<CR>b = 2` loses the statement after a lone CR, `throw /*<U+2028>*/ x` is accepted", declName(fd), strings.Join(names, ", ")))
			}
		}
	}
	r.note("functions_testing_line_terminators", n)
}

// isRuneLike: the constant is written as a character literal or is of an integer / rune type (not a string index).
func isRuneLike(e ast.Expr) bool {
	if bl, ok := unparen(e).(*ast.BasicLit); ok {
		return bl.Kind == token.CHAR
	}
	return false
}

// underCRTest: n lies in the body of an if statement whose condition compares a character with CR.
func underCRTest(c *Ctx, n ast.Node, info interface{}) bool {
	var child ast.Node = n
	for p := c.ParentOf(n); p != nil; child, p = p, c.ParentOf(p) {
		switch x := p.(type) {
		case *ast.FuncDecl, *ast.FuncLit:
			return false
		case *ast.BinaryExpr:
			// `chr == '\r' && peek() == '\n'`: the right operand is evaluated under the left one
			if x.Op != token.LAND || child != ast.Node(x.Y) {
				continue
			}
			found := false
			ast.Inspect(x.X, func(m ast.Node) bool {
				if bl, ok := m.(*ast.BasicLit); ok && bl.Kind == token.CHAR && (bl.Value == `'\r'` || bl.Value == `'\u000d'` || bl.Value == `'\x0d'`) {
					found = true
				}
				return true
			})
			if found {
				return true
			}
		case *ast.IfStmt:
			if child != ast.Node(x.Body) {
				continue
			}
			found := false
			ast.Inspect(x.Cond, func(m ast.Node) bool {
				if bl, ok := m.(*ast.BasicLit); ok && bl.Kind == token.CHAR && (bl.Value == `'\r'` || bl.Value == `'\u000d'` || bl.Value == `'\x0d'`) {
					found = true
				}
				return true
			})
			if found {
				return true
			}
		}
	}
	return false
}

// calledOnlyUnderCR: fd is called somewhere in the package, and every call lies in the body of an if that compares with
// CR or in a `case '\r'` clause.
func calledOnlyUnderCR(c *Ctx, p *packages.Package, fd *ast.FuncDecl) bool {
	obj := p.TypesInfo.Defs[fd.Name]
	if obj == nil {
		return false
	}
	n, all := 0, true
	for _, f := range p.Syntax {
		ast.Inspect(f, func(nd ast.Node) bool {
			call, ok := nd.(*ast.CallExpr)
			if !ok {
				return true
			}
			var id *ast.Ident
			switch fx := unparen(call.Fun).(type) {
			case *ast.Ident:
				id = fx
			case *ast.SelectorExpr:
				id = fx.Sel
			}
			if id == nil || p.TypesInfo.Uses[id] != obj {
				return true
			}
			n++
			if underCRTest(c, call, nil) {
				return true
			}
			// a `case '\r':` clause
			var child ast.Node = call
			inCase := false
			for par := c.ParentOf(call); par != nil; child, par = par, c.ParentOf(par) {
				if cc, ok := par.(*ast.CaseClause); ok {
					for _, e := range cc.List {
						if bl, ok := unparen(e).(*ast.BasicLit); ok && bl.Kind == token.CHAR && (bl.Value == `'\r'` || bl.Value == `'\u000d'` || bl.Value == `'\x0d'`) {
							inCase = true
						}
					}
					break
				}
				if _, ok := par.(*ast.FuncDecl); ok {
					break
				}
				_ = child
			}
			if !inCase {
				all = false
			}
			return true
		})
	}
	return n > 0 && all
}
