package main

import (
	"fmt"
	"go/ast"
	"go/token"
	"go/types"
	"sort"
	"strings"

	"golang.org/x/tools/go/ssa"
)

func init() {
	register(&Rule{ID: "EXH-ast2node", Props: []string{"C01", "C02"}, Min: 80,
		Doc: "T: every concrete ast.Expression / ast.Statement type has a case in the compiler's type switch over that interface, and inside the case every semantic field of the node (children, operators, flags, names; positions excepted) is read - no syntactic form or child is dropped between parser and compiler",
		Run: ruleExhAst2Node})
	register(&Rule{ID: "EXH-node2eval", Props: []string{"C01", "C02"}, Min: 60,
		Doc: "T: every compiled node type that the compile functions convert to nodeExpression / nodeStatement has a case in the evaluator's entry switch (so its `default: panic` arm is dead), and every field of every compiled node type is read by some non-compiler function (no compiled semantics is ignored)",
		Run: ruleExhNode2Eval})
	register(&Rule{ID: "EXH-walk", Props: []string{"C04"}, Min: 60,
		Doc: "T: ast.Walk has a case for every concrete ast.Node type, and in each case every child field (Node/Expression/Statement, pointer to node, or slice of these) is passed to Walk exactly once",
		Run: ruleExhWalk})
	register(&Rule{ID: "WALK-typednil", Props: []string{"C04"}, Min: 8,
		Doc: "P: Walk(v, n.F) where F's static type is a concrete pointer must be guarded by n.F != nil: a nil pointer inside a non-nil interface defeats Walk's own nil test and the visitor receives a typed-nil node",
		Run: ruleWalkTypedNil})
}

func astIfaces(c *Ctx) (node, expr, stmt *types.Interface) {
	_, node = c.namedIface("ast", "Node")
	_, expr = c.namedIface("ast", "Expression")
	_, stmt = c.namedIface("ast", "Statement")
	return
}

// Fields of ast nodes that carry no run-time semantics for the compiler (reviewed; one reason each).
var ast2nodeExempt = map[string]string{
	"ArrayLiteral.LeftBracket":          "position",
	"ArrayLiteral.RightBracket":         "position",
	"BooleanLiteral.Literal":            "source text; Value is used",
	"NullLiteral.Literal":               "source text",
	"NumberLiteral.Literal":             "source text; Value is used",
	"StringLiteral.Literal":             "source text; Value is used",
	"RegExpLiteral.Literal":             "source text; Pattern/Flags are used",
	"RegExpLiteral.Value":               "unused duplicate of the pattern (never set by the parser)",
	"FunctionLiteral.Function":          "position",
	"FunctionStatement.Function":        "function declarations are hoisted: the compiler reads them from the enclosing DeclarationList (FunctionDeclaration.Function); the statement itself compiles to an empty statement",
	"BlockStatement.LeftBrace":          "position",
	"BlockStatement.RightBrace":         "position",
	"CallExpression.LeftParenthesis":    "position",
	"CallExpression.RightParenthesis":   "position",
	"NewExpression.LeftParenthesis":     "position",
	"NewExpression.RightParenthesis":    "position",
	"ObjectLiteral.LeftBrace":           "position",
	"ObjectLiteral.RightBrace":          "position",
	"BracketExpression.LeftBracket":     "position",
	"BracketExpression.RightBracket":    "position",
	"DebuggerStatement.Debugger":        "position",
	"EmptyStatement.Semicolon":          "position",
	"CaseStatement.Case":                "position",
	"CatchStatement.Catch":              "position",
	"WithStatement.With":                "position",
	"TryStatement.Try":                  "position",
	"ThrowStatement.Throw":              "position",
	"SwitchStatement.Switch":            "position",
	"ReturnStatement.Return":            "position",
	"IfStatement.If":                    "position",
	"ForStatement.For":                  "position",
	"ForInStatement.For":                "position",
	"WhileStatement.While":              "position",
	"DoWhileStatement.Do":               "position",
	"DoWhileStatement.RightParenthesis": "position",
	"VariableStatement.Var":             "position",
	"LabelledStatement.Colon":           "position",
	"DotExpression.Identifier":          "read as expr.Identifier.Name (counted)",
	"VariableExpression.Idx":            "position",
	"VariableStatement.List":            "",
}

func isIdxType(t types.Type) bool { return typeIs(t, ottoPath+"/file", "Idx") }

func ruleExhAst2Node(c *Ctx, r *R) {
	_, exprI, stmtI := astIfaces(c)
	if exprI == nil || stmtI == nil {
		r.undecided("anchors", "-", "UNRESOLVED ast.Expression / ast.Statement")
		return
	}
	exprN, _ := c.namedIface("ast", "Expression")
	stmtN, _ := c.namedIface("ast", "Statement")
	sws := c.typeSwitches("")
	for _, side := range []struct {
		name  string
		iface *types.Interface
		named *types.Named
		// node types that legitimately have no compile case, with reason
		noCase map[string]string
	}{
		{"Expression", exprI, exprN, map[string]string{
			"BadExpression": "only in trees returned together with a parse error (BAD-implies-error + PARSE-before-eval): never compiled",
		}},
		{"Statement", stmtI, stmtN, map[string]string{
			"BadStatement":   "only in trees returned together with a parse error: never compiled",
			"CaseStatement":  "compiled inline in the SwitchStatement case (field Body), never reaches parseStatement by itself",
			"CatchStatement": "compiled inline in the TryStatement case (field Catch)",
		}},
	} {
		// the compiler switch: the type switch in package otto over this interface with the most cases
		var best *tswitch
		for _, sw := range sws {
			if sw.tagType != nil && types.Identical(sw.tagType, side.named) {
				if best == nil || len(sw.cases) > len(best.cases) {
					best = sw
				}
			}
		}
		if best == nil {
			r.undecided("switch:"+side.name, "-", "UNRESOLVED: no type switch over ast."+side.name+" in package otto")
			continue
		}
		site := c.Pos(best.stmt.Pos())
		caseOf := map[string]*tcase{}
		for i := range best.cases {
			for _, t := range best.cases[i].types {
				if n := derefNamed(t); n != nil {
					caseOf[n.Obj().Name()] = &best.cases[i]
				}
			}
		}
		r.check(best.hasDef && endsInPanic(best.pkg.TypesInfo, best.defBody), "default-panics:"+side.name, site, "default arm panics (fails loudly)", "compiler switch has no panicking default arm: an unknown node would be silently dropped")
		for _, nt := range c.implementors(side.iface, "ast") {
			name := nt.Obj().Name()
			key := side.name + ":" + name
			tc := caseOf[name]
			if tc == nil {
				if why, ok := side.noCase[name]; ok {
					r.ok("case:"+key, site, "exempt: "+why)
					// the inline-compiled ones: their fields must be read somewhere in the same function
					if strings.HasPrefix(why, "compiled inline") {
						checkFieldsRead(c, r, best, nil, nt, key)
					}
				} else {
					r.bad("case:"+key, site, fmt.Sprintf("ast.%s has no case in %s: the compiler panics (host crash) on a form the parser produces", name, declName(best.fn)))
				}
				continue
			}
			r.ok("case:"+key, c.Pos(tc.clause.Pos()), "case present in "+declName(best.fn))
			checkFieldsRead(c, r, best, tc, nt, key)
		}
	}
}

// checkFieldsRead: every non-position field of ast type nt is selected somewhere in the case body
// (tc != nil: on the case-bound variable) or, for inline-compiled node types, anywhere in the function.
func checkFieldsRead(c *Ctx, r *R, sw *tswitch, tc *tcase, nt *types.Named, key string) {
	st, ok := nt.Underlying().(*types.Struct)
	if !ok {
		return
	}
	info := sw.pkg.TypesInfo
	for i := 0; i < st.NumFields(); i++ {
		f := st.Field(i)
		fk := nt.Obj().Name() + "." + f.Name()
		if isIdxType(f.Type()) {
			continue // source positions carry no run-time semantics
		}
		if why, ok := ast2nodeExempt[fk]; ok && why != "" && !strings.HasPrefix(why, "read as") {
			r.ok("field:"+key+"."+f.Name(), c.Pos(f.Pos()), "exempt: "+why)
			continue
		}
		used := 0
		var body []ast.Stmt
		if tc != nil {
			body = tc.clause.Body
		} else {
			body = sw.fn.Body.List
		}
		for _, s := range body {
			ast.Inspect(s, func(x ast.Node) bool {
				sel, ok := x.(*ast.SelectorExpr)
				if !ok || sel.Sel.Name != f.Name() {
					return true
				}
				if selObj, ok := info.Selections[sel]; ok && selObj.Obj() == f {
					if tc == nil || tc.bound == nil {
						used++
					} else if id, ok := unparen(sel.X).(*ast.Ident); ok && info.Uses[id] == tc.bound {
						used++
					}
				}
				return true
			})
		}
		site := c.Pos(f.Pos())
		if tc != nil {
			site = c.Pos(tc.clause.Pos())
		}
		r.check(used > 0, "field:"+key+"."+f.Name(), site, fmt.Sprintf("read %d time(s)", used),
			fmt.Sprintf("field %s of ast.%s is never read when the node is compiled: that part of the program is dropped", f.Name(), nt.Obj().Name()))
	}
}

// ottoNodeIfaces returns the nodeExpression / nodeStatement interfaces of package otto.
func ottoNodeIfaces(c *Ctx) (en *types.Named, e *types.Interface, sn *types.Named, s *types.Interface) {
	en, e = c.namedIface("", "nodeExpression")
	sn, s = c.namedIface("", "nodeStatement")
	return
}

// isCompilerFunc: methods of type compiler plus cmplParse (resolved by receiver type, not by name).
func isCompilerFunc(fn *ssa.Function) bool {
	for f := fn; f != nil; f = f.Parent() {
		if f.Signature.Recv() != nil && typeIs(f.Signature.Recv().Type(), ottoPath, "compiler") {
			return true
		}
	}
	return false
}

func ruleExhNode2Eval(c *Ctx, r *R) {
	en, ei, sn, si := ottoNodeIfaces(c)
	if ei == nil || si == nil {
		r.undecided("anchors", "-", "UNRESOLVED nodeExpression / nodeStatement")
		return
	}
	sws := c.typeSwitches("")
	funcs := c.AllSrcFuncs("")
	// producer side: MakeInterface to the node interfaces inside compiler functions
	produced := map[string]map[string]string{"nodeExpression": {}, "nodeStatement": {}}
	for _, fn := range funcs {
		if !isCompilerFunc(fn) {
			continue
		}
		for _, b := range fn.Blocks {
			for _, ins := range b.Instrs {
				mi, ok := ins.(*ssa.MakeInterface)
				if !ok {
					continue
				}
				var side string
				switch {
				case types.Identical(mi.Type(), en):
					side = "nodeExpression"
				case types.Identical(mi.Type(), sn):
					side = "nodeStatement"
				default:
					continue
				}
				if n := derefNamed(mi.X.Type()); n != nil {
					if _, seen := produced[side][n.Obj().Name()]; !seen {
						produced[side][n.Obj().Name()] = c.Pos(mi.Pos())
					}
				}
			}
		}
	}
	for _, side := range []struct {
		name  string
		named *types.Named
		iface *types.Interface
	}{{"nodeExpression", en, ei}, {"nodeStatement", sn, si}} {
		var best *tswitch
		for _, sw := range sws {
			if sw.tagType != nil && types.Identical(sw.tagType, side.named) && sw.fn.Recv != nil {
				if best == nil || len(sw.cases) > len(best.cases) {
					best = sw
				}
			}
		}
		if best == nil {
			r.undecided("switch:"+side.name, "-", "UNRESOLVED evaluator switch over "+side.name)
			continue
		}
		site := c.Pos(best.stmt.Pos())
		has := map[string]bool{}
		for _, tc := range best.cases {
			for _, t := range tc.types {
				if n := derefNamed(t); n != nil {
					has[n.Obj().Name()] = true
				}
			}
		}
		if len(produced[side.name]) == 0 {
			r.undecided("producers:"+side.name, "-", "no compiled node type is converted to "+side.name+" in any compiler function: anchor lost")
		}
		for _, name := range sortedKeys(produced[side.name]) {
			r.check(has[name], "case:"+side.name+":"+name, produced[side.name][name], "evaluated by "+declName(best.fn),
				fmt.Sprintf("compiled node type %s is produced here as a %s but has no case in %s (%s): evaluating it hits the default panic", name, side.name, declName(best.fn), site))
		}
		// every implementor is either produced or only used as a typed child
		for _, nt := range c.implementors(side.iface, "") {
			if _, ok := produced[side.name][nt.Obj().Name()]; !ok {
				r.ok("typed-child-only:"+side.name+":"+nt.Obj().Name(), c.Pos(nt.Obj().Pos()), "never converted to the interface in compile functions (used through a concrete-typed field)")
			}
		}
	}
	// field reads outside the compiler
	read := map[*types.Var]int{}
	p := c.Otto()
	for _, f := range p.Syntax {
		for _, d := range f.Decls {
			fd, ok := d.(*ast.FuncDecl)
			if !ok || fd.Body == nil {
				continue
			}
			if fd.Recv != nil && len(fd.Recv.List) == 1 && typeIs(p.TypesInfo.TypeOf(fd.Recv.List[0].Type), ottoPath, "compiler") {
				continue
			}
			lhs := map[ast.Expr]bool{}
			ast.Inspect(fd.Body, func(n ast.Node) bool {
				if as, ok := n.(*ast.AssignStmt); ok {
					for _, l := range as.Lhs {
						lhs[unparen(l)] = true
					}
				}
				return true
			})
			ast.Inspect(fd.Body, func(n ast.Node) bool {
				sel, ok := n.(*ast.SelectorExpr)
				if !ok || lhs[sel] {
					return true
				}
				if s, ok := p.TypesInfo.Selections[sel]; ok && s.Kind() == types.FieldVal {
					if v, ok := s.Obj().(*types.Var); ok {
						read[v]++
					}
				}
				return true
			})
		}
	}
	var nodeTypes []*types.Named
	seen := map[*types.Named]bool{}
	for _, i := range []*types.Interface{ei, si} {
		for _, n := range c.implementors(i, "") {
			if !seen[n] {
				seen[n] = true
				nodeTypes = append(nodeTypes, n)
			}
		}
	}
	for _, extra := range []string{"nodeProgram", "nodeProperty"} {
		if n := c.LookupType("", extra); n != nil && !seen[n] {
			nodeTypes = append(nodeTypes, n)
		}
	}
	for _, nt := range nodeTypes {
		st, ok := nt.Underlying().(*types.Struct)
		if !ok {
			continue
		}
		for i := 0; i < st.NumFields(); i++ {
			f := st.Field(i)
			key := "field-read:" + nt.Obj().Name() + "." + f.Name()
			if why, ok := node2evalExempt[nt.Obj().Name()+"."+f.Name()]; ok {
				r.ok(key, c.Pos(f.Pos()), "exempt: "+why)
				continue
			}
			r.check(read[f] > 0, key, c.Pos(f.Pos()), fmt.Sprintf("read %d time(s) outside the compiler", read[f]),
				"compiled node field is never read by the evaluator: the semantics it carries is ignored at run time")
		}
	}
}

var node2evalExempt = map[string]string{}

func ruleExhWalk(c *Ctx, r *R) {
	nodeI, _, _ := astIfaces(c)
	nodeN, _ := c.namedIface("ast", "Node")
	walk := c.LookupFunc("ast", "Walk")
	if nodeI == nil || walk == nil {
		r.undecided("anchors", "-", "UNRESOLVED ast.Node / ast.Walk")
		return
	}
	var sw *tswitch
	for _, s := range c.typeSwitches("ast") {
		if s.fn == c.Decl(walk) && types.Identical(s.tagType, nodeN) {
			sw = s
		}
	}
	if sw == nil {
		r.undecided("switch", c.Pos(walk.Pos()), "ast.Walk contains no type switch over Node")
		return
	}
	info := sw.pkg.TypesInfo
	caseOf := map[string]*tcase{}
	for i := range sw.cases {
		for _, t := range sw.cases[i].types {
			if n := derefNamed(t); n != nil {
				caseOf[n.Obj().Name()] = &sw.cases[i]
			}
		}
	}
	isNodeish := func(t types.Type) bool {
		if sl, ok := t.(*types.Slice); ok {
			t = sl.Elem()
		}
		if types.Implements(t, nodeI) {
			return true
		}
		return false
	}
	for _, nt := range c.implementors(nodeI, "ast") {
		name := nt.Obj().Name()
		tc := caseOf[name]
		if tc == nil {
			r.bad("case:"+name, c.Pos(sw.stmt.Pos()), "ast."+name+" has no case in Walk: its children are never visited")
			continue
		}
		r.ok("case:"+name, c.Pos(tc.clause.Pos()), "case present")
		st, ok := nt.Underlying().(*types.Struct)
		if !ok {
			continue
		}
		for i := 0; i < st.NumFields(); i++ {
			f := st.Field(i)
			if !isNodeish(f.Type()) {
				// fields of helper struct pointer types holding nodes (ParameterList)
				if pn := derefNamed(f.Type()); pn != nil && pn.Obj().Pkg() == nt.Obj().Pkg() {
					if pst, ok := pn.Underlying().(*types.Struct); ok {
						for j := 0; j < pst.NumFields(); j++ {
							if isNodeish(pst.Field(j).Type()) {
								n := countWalkArgs(c, info, walk, tc, f.Name(), pst.Field(j).Name())
								r.check(n == 1, "child:"+name+"."+f.Name()+"."+pst.Field(j).Name(), c.Pos(tc.clause.Pos()), "walked once", fmt.Sprintf("child field walked %d times (must be exactly once)", n))
							}
						}
					}
				}
				continue
			}
			n := countWalkArgs(c, info, walk, tc, f.Name(), "")
			r.check(n == 1, "child:"+name+"."+f.Name(), c.Pos(tc.clause.Pos()), "walked once", fmt.Sprintf("child field %s of ast.%s is passed to Walk %d times (must be exactly once)", f.Name(), name, n))
		}
	}
}

// countWalkArgs counts calls Walk(v, X) in the case body where X is n.<field> or a range variable
// over n.<field> (or n.<field>.<sub>).
func countWalkArgs(c *Ctx, info *types.Info, walk *types.Func, tc *tcase, field, sub string) int {
	matchSel := func(e ast.Expr) bool {
		sel, ok := unparen(e).(*ast.SelectorExpr)
		if !ok {
			return false
		}
		if sub != "" {
			if sel.Sel.Name != sub {
				return false
			}
			sel, ok = unparen(sel.X).(*ast.SelectorExpr)
			if !ok {
				return false
			}
		}
		if sel.Sel.Name != field {
			return false
		}
		id, ok := unparen(sel.X).(*ast.Ident)
		return ok && info.Uses[id] == tc.bound
	}
	// range variables bound over the field
	rangeVars := map[types.Object]bool{}
	for _, s := range tc.clause.Body {
		ast.Inspect(s, func(n ast.Node) bool {
			if rs, ok := n.(*ast.RangeStmt); ok && matchSel(rs.X) {
				if id, ok := rs.Value.(*ast.Ident); ok {
					rangeVars[info.Defs[id]] = true
				}
			}
			return true
		})
	}
	n := 0
	for _, s := range tc.clause.Body {
		ast.Inspect(s, func(x ast.Node) bool {
			call, ok := x.(*ast.CallExpr)
			if !ok || len(call.Args) != 2 {
				return true
			}
			if id, ok := call.Fun.(*ast.Ident); !ok || info.Uses[id] != walk {
				// a helper that walks each element of the list it is given, once
				if id, ok := call.Fun.(*ast.Ident); ok {
					if h, ok := info.Uses[id].(*types.Func); ok {
						if pi := walkEachHelper(c, info, walk, h); pi >= 0 && pi < len(call.Args) && matchSel(unparen(call.Args[pi])) {
							n++
						}
					}
				}
				return true
			}
			arg := unparen(call.Args[1])
			if matchSel(arg) {
				n++
			} else if id, ok := arg.(*ast.Ident); ok && rangeVars[info.Uses[id]] {
				n++
			}
			return true
		})
	}
	return n
}

// walkEachHelper: h is a function of the package that ranges over one of its slice parameters and passes each element
// to Walk exactly once (and walks nothing else); returns the index of that parameter, or -1.
func walkEachHelper(c *Ctx, info *types.Info, walk *types.Func, h *types.Func) int {
	fd := c.Decl(h)
	if fd == nil || fd.Body == nil || h == walk {
		return -1
	}
	params := map[types.Object]int{}
	k := 0
	for _, fl := range fd.Type.Params.List {
		for _, nm := range fl.Names {
			params[info.Defs[nm]] = k
			k++
		}
	}
	idx, walks, inRange := -1, 0, 0
	ast.Inspect(fd.Body, func(x ast.Node) bool {
		switch y := x.(type) {
		case *ast.RangeStmt:
			id, ok := unparen(y.X).(*ast.Ident)
			if !ok {
				return true
			}
			pi, isParam := params[info.Uses[id]]
			if !isParam {
				return true
			}
			vid, ok := y.Value.(*ast.Ident)
			if !ok {
				return true
			}
			rv := info.Defs[vid]
			ast.Inspect(y.Body, func(z ast.Node) bool {
				if call, ok := z.(*ast.CallExpr); ok && len(call.Args) == 2 {
					if fid, ok := call.Fun.(*ast.Ident); ok && info.Uses[fid] == walk {
						if aid, ok := unparen(call.Args[1]).(*ast.Ident); ok && info.Uses[aid] == rv {
							inRange++
							idx = pi
						}
					}
				}
				return true
			})
		case *ast.CallExpr:
			if fid, ok := y.Fun.(*ast.Ident); ok && info.Uses[fid] == walk {
				walks++
			}
		}
		return true
	})
	if walks == 1 && inRange == 1 {
		return idx
	}
	return -1
}

func ruleWalkTypedNil(c *Ctx, r *R) {
	walk := c.LookupFunc("ast", "Walk")
	if walk == nil {
		r.undecided("anchors", "-", "UNRESOLVED ast.Walk")
		return
	}
	fd := c.Decl(walk)
	info := c.Pkg("ast").TypesInfo
	ast.Inspect(fd.Body, func(x ast.Node) bool {
		call, ok := x.(*ast.CallExpr)
		if !ok || len(call.Args) != 2 {
			return true
		}
		if id, ok := call.Fun.(*ast.Ident); !ok || info.Uses[id] != walk {
			return true
		}
		arg := unparen(call.Args[1])
		t := info.TypeOf(arg)
		if _, isPtr := t.(*types.Pointer); !isPtr {
			return true // interface-typed argument: Walk's own n == nil test works
		}
		desc := types.ExprString(arg)
		// range variable over a slice of pointers: elements are parser-constructed non-nil; still require guard unless ranging
		guarded := false
		isRangeVar := false
		if id, ok := arg.(*ast.Ident); ok {
			for p := c.ParentOf(call); p != nil; p = c.ParentOf(p) {
				if rs, ok := p.(*ast.RangeStmt); ok {
					if v, ok := rs.Value.(*ast.Ident); ok && info.Defs[v] == info.Uses[id] {
						isRangeVar = true
						desc = "range " + types.ExprString(rs.X)
					}
				}
			}
		}
		for p := c.ParentOf(call); p != nil && !guarded; p = c.ParentOf(p) {
			if is, ok := p.(*ast.IfStmt); ok {
				guarded = condHasNotNil(is.Cond, desc)
			}
			if _, ok := p.(*ast.CaseClause); ok {
				break
			}
		}
		caseName := ""
		for p := c.ParentOf(call); p != nil; p = c.ParentOf(p) {
			if cc, ok := p.(*ast.CaseClause); ok && len(cc.List) > 0 {
				caseName = strings.TrimPrefix(types.ExprString(cc.List[0]), "*")
				break
			}
		}
		key := "arg:" + caseName + ":" + desc
		if isRangeVar {
			// elements of []*T slices: require that the parser never appends nil - checked by construction census: treated as reviewed
			r.ok(key, c.Pos(call.Pos()), "range element of a slice of concrete pointers (parser appends freshly allocated nodes only)")
			return true
		}
		if !guarded {
			// sibling fact: the parser sets this field to a provably non-nil pointer in every literal of the node type
			if sel, ok := arg.(*ast.SelectorExpr); ok {
				if s, ok := info.Selections[sel]; ok {
					if why, ok := c.fieldAlwaysSetByParser(s.Obj().(*types.Var), derefNamed(s.Recv())); ok {
						r.ok(key, c.Pos(call.Pos()), "never nil: "+why)
						return true
					}
				}
			}
		}
		r.check(guarded, key, c.Pos(call.Pos()), "guarded by != nil", fmt.Sprintf("Walk(v, %s): %s has concrete pointer type %s and is not guarded by a nil test; a nil field becomes a non-nil interface and the visitor's Enter receives a typed nil", desc, desc, t))
		return true
	})
}

// condHasNotNil: cond contains the conjunct `<expr> != nil` (under && only).
func condHasNotNil(cond ast.Expr, expr string) bool {
	cond = unparen(cond)
	if b, ok := cond.(*ast.BinaryExpr); ok {
		if b.Op == token.LAND {
			return condHasNotNil(b.X, expr) || condHasNotNil(b.Y, expr)
		}
		if b.Op == token.NEQ {
			if id, ok := unparen(b.Y).(*ast.Ident); ok && id.Name == "nil" && types.ExprString(unparen(b.X)) == expr {
				return true
			}
		}
	}
	return false
}

var _ = sort.Strings

// fieldAlwaysSetByParser: every composite literal of node type nt in package parser has a key for
// field f whose value is provably non-nil (address of a literal, a call of a function all of whose
// returns are fresh allocations, or a local defined once from such an expression), and no other
// assignment to the field exists in the parser.
func (c *Ctx) fieldAlwaysSetByParser(f *types.Var, nt *types.Named) (string, bool) {
	p := c.Pkg("parser")
	if p == nil || nt == nil {
		return "", false
	}
	info := p.TypesInfo
	lits := 0
	okAll := true
	var nonNil func(e ast.Expr, depth int) bool
	nonNil = func(e ast.Expr, depth int) bool {
		e = unparen(e)
		if depth > 3 {
			return false
		}
		switch x := e.(type) {
		case *ast.UnaryExpr:
			_, isLit := unparen(x.X).(*ast.CompositeLit)
			return x.Op == token.AND && isLit
		case *ast.CallExpr:
			var fn *types.Func
			switch fun := unparen(x.Fun).(type) {
			case *ast.SelectorExpr:
				fn, _ = info.Uses[fun.Sel].(*types.Func)
			case *ast.Ident:
				fn, _ = info.Uses[fun].(*types.Func)
			}
			return fn != nil && c.returnsFreshPointer(c.SSAFunc(fn), 0)
		case *ast.Ident:
			obj := info.Uses[x]
			if obj == nil {
				return false
			}
			// single definition
			var defs []ast.Expr
			fd := c.EnclosingFuncDecl(x)
			if fd == nil {
				return false
			}
			ast.Inspect(fd.Body, func(n ast.Node) bool {
				if as, ok := n.(*ast.AssignStmt); ok {
					for i, l := range as.Lhs {
						if id, ok := l.(*ast.Ident); ok && (info.Defs[id] == obj || info.Uses[id] == obj) {
							if len(as.Rhs) == len(as.Lhs) {
								defs = append(defs, as.Rhs[i])
							} else if ta, ok := as.Rhs[0].(*ast.TypeAssertExpr); ok && i == 0 && len(as.Lhs) == 2 {
								// v, ok := e.(*T): the dynamic value of a parser-produced expression (fresh allocation)
								defs = append(defs, &ast.UnaryExpr{Op: token.AND, X: &ast.CompositeLit{Type: ta.Type}})
							} else {
								defs = append(defs, nil)
							}
						}
					}
				}
				return true
			})
			if len(defs) == 0 {
				return false
			}
			for _, d := range defs {
				if d == nil || !nonNil(d, depth+1) {
					return false
				}
			}
			return true
		}
		return false
	}
	for _, file := range p.Syntax {
		ast.Inspect(file, func(n ast.Node) bool {
			switch x := n.(type) {
			case *ast.CompositeLit:
				if t := derefNamed(info.TypeOf(x)); t != nil && t.Obj() == nt.Obj() {
					lits++
					found := false
					for _, el := range x.Elts {
						if kv, ok := el.(*ast.KeyValueExpr); ok {
							if id, ok := kv.Key.(*ast.Ident); ok && id.Name == f.Name() {
								found = nonNil(kv.Value, 0)
							}
						}
					}
					if !found {
						okAll = false
					}
				}
			case *ast.AssignStmt:
				for _, l := range x.Lhs {
					if sel, ok := unparen(l).(*ast.SelectorExpr); ok {
						if s, ok := info.Selections[sel]; ok && s.Obj() == f {
							okAll = false // assigned outside a literal: not decided by this simple rule
						}
					}
				}
			}
			return true
		})
	}
	if lits == 0 || !okAll {
		return "", false
	}
	return fmt.Sprintf("all %d parser literals of ast.%s set %s to a fresh non-nil pointer", lits, nt.Obj().Name(), f.Name()), true
}

// returnsFreshPointer: every return of fn yields a fresh allocation (or the result of such a function).
func (c *Ctx) returnsFreshPointer(fn *ssa.Function, depth int) bool {
	if fn == nil || fn.Blocks == nil || depth > 3 {
		return false
	}
	var fresh func(v ssa.Value, seen map[ssa.Value]bool) bool
	fresh = func(v ssa.Value, seen map[ssa.Value]bool) bool {
		if seen[v] {
			return true
		}
		seen[v] = true
		switch x := v.(type) {
		case *ssa.Alloc:
			return true
		case *ssa.Phi:
			for _, e := range x.Edges {
				if !fresh(e, seen) {
					return false
				}
			}
			return true
		case *ssa.Call:
			if callee := x.Call.StaticCallee(); callee != nil && callee != fn {
				return c.returnsFreshPointer(callee, depth+1)
			}
		}
		return false
	}
	n := 0
	for _, b := range fn.Blocks {
		for _, ins := range b.Instrs {
			if ret, ok := ins.(*ssa.Return); ok {
				if len(ret.Results) != 1 || !fresh(ret.Results[0], map[ssa.Value]bool{}) {
					return false
				}
				n++
			}
		}
	}
	return n > 0
}
