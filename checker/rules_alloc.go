package main

import (
	"fmt"
	"go/token"
	"go/types"

	"golang.org/x/tools/go/ssa"
)

func init() {
	register(&Rule{ID: "ALLOC-claimed-length", Props: []string{"C02"}, Min: 5,
		Doc: "G (taint census): the `length` of an array-like is a number the script merely claims - `{length: 4294967295}` costs sixty bytes. A built-in that sizes a Go slice with it (make([]T, n) with n derived from ToUint32 of a length, through conversions, sums, differences, phis and the range helpers) reserves up to 2^32 x 16..24 bytes in one piece: `fatal error: runtime: out of memory`, which no recover can intercept and which kills the embedding program. Every MakeSlice of package otto whose length or capacity is so derived must be dominated by a comparison of that quantity with a constant on the side that bounds it from above",
		Run: ruleAllocClaimedLength})
}

func ruleAllocClaimedLength(c *Ctx, r *R) {
	isSource := func(call *ssa.Call) bool {
		callee := call.Call.StaticCallee()
		if callee == nil || callee.Pkg == nil || callee.Pkg.Pkg.Path() != ottoPath {
			return false
		}
		switch callee.Name() {
		case "toUint32", "objectLength":
			return true
		case "get":
			// obj.get("length"): the property value itself (read raw by some callers)
			for _, a := range call.Call.Args {
				if k, ok := a.(*ssa.Const); ok && k.Value != nil && k.Value.ExactString() == `"length"` {
					return true
				}
			}
		}
		return false
	}
	nSites := 0
	for _, fn := range c.AllSrcFuncs("") {
		// taint: values derived from a claimed length
		tainted := map[ssa.Value]bool{}
		changed := true
		for changed {
			changed = false
			for _, b := range fn.Blocks {
				for _, ins := range b.Instrs {
					v, ok := ins.(ssa.Value)
					if !ok || tainted[v] {
						continue
					}
					t := false
					switch x := ins.(type) {
					case *ssa.Call:
						if isSource(x) {
							t = true
						} else if callee := x.Call.StaticCallee(); callee != nil && callee.Pkg != nil && callee.Pkg.Pkg.Path() == ottoPath {
							intResult := false
							if bt, ok := x.Type().Underlying().(*types.Basic); ok && bt.Info()&types.IsInteger != 0 {
								intResult = true
							}
							if tup, ok := x.Type().(*types.Tuple); ok {
								for i := 0; i < tup.Len(); i++ {
									if bt, ok := tup.At(i).Type().Underlying().(*types.Basic); ok && bt.Info()&types.IsInteger != 0 {
										intResult = true
									}
								}
							}
							if intResult {
								for _, a := range x.Call.Args {
									if tainted[a] {
										t = true
									}
								}
							}
						}
					case *ssa.Extract:
						t = tainted[x.Tuple]
					case *ssa.Field:
						t = tainted[x.X]
					case *ssa.TypeAssert:
						t = tainted[x.X]
					case *ssa.Convert:
						t = tainted[x.X]
					case *ssa.ChangeType:
						t = tainted[x.X]
					case *ssa.BinOp:
						switch x.Op {
						case token.ADD, token.SUB, token.MUL:
							t = tainted[x.X] || tainted[x.Y]
						}
					case *ssa.Phi:
						for _, e := range x.Edges {
							if tainted[e] {
								t = true
							}
						}
					case *ssa.UnOp:
						// a local cell holding a tainted value
						if al, ok := x.X.(*ssa.Alloc); ok && x.Op == token.MUL {
							for _, ref := range *al.Referrers() {
								if st, ok := ref.(*ssa.Store); ok && tainted[st.Val] {
									t = true
								}
							}
						}
					}
					if t {
						tainted[v] = true
						changed = true
					}
				}
			}
		}
		if len(tainted) == 0 {
			continue
		}
		boundedAbove := func(v ssa.Value, at *ssa.BasicBlock) bool {
			for _, b := range fn.Blocks {
				iff, ok := b.Instrs[len(b.Instrs)-1].(*ssa.If)
				if !ok {
					continue
				}
				bo, ok := iff.Cond.(*ssa.BinOp)
				if !ok {
					continue
				}
				var side int // successor on which the tainted operand is <= the constant
				switch {
				case tainted[bo.X] && isConstNum(bo.Y):
					switch bo.Op {
					case token.LSS, token.LEQ:
						side = 0
					case token.GTR, token.GEQ:
						side = 1
					default:
						continue
					}
				case tainted[bo.Y] && isConstNum(bo.X):
					switch bo.Op {
					case token.GTR, token.GEQ:
						side = 0
					case token.LSS, token.LEQ:
						side = 1
					default:
						continue
					}
				default:
					continue
				}
				// the comparison must concern this size or something it derives from: coarse - any tainted value of fn
				s := b.Succs[side]
				other := b.Succs[1-side]
				if (len(s.Preds) == 1 && s.Dominates(at)) || (b.Dominates(at) && b != at && !reaches(other, at, map[*ssa.BasicBlock]bool{b: true})) {
					return true
				}
			}
			_ = v
			return false
		}
		ord := 0
		for _, b := range fn.Blocks {
			for _, ins := range b.Instrs {
				mk, ok := ins.(*ssa.MakeSlice)
				if !ok || !(tainted[mk.Len] || tainted[mk.Cap]) {
					continue
				}
				ord++
				nSites++
				key := fmt.Sprintf("%s:make#%d", ssaFuncName(fn), ord)
				site := c.Pos(instrPos(mk))
				if boundedAbove(mk.Len, b) {
					r.ok(key, site, "the claimed length is compared with a constant bound before the allocation")
				} else {
					r.bad(key, site, fmt.Sprintf("%s allocates a %s sized by a length the script claims (ToUint32 of a `length` property, up to 4294967295) with no upper bound test before it: `%s` asks for tens of gigabytes in one piece - a Go fatal error (out of memory) that ends the host process; where the reservation succeeds the loop that follows runs 2^32 times without polling the interrupt channel", ssaFuncName(fn), typeStr(mk.Type()), allocExample(fn.Name())))
				}
			}
		}
	}
	r.note("allocations-sized-by-a-claimed-length", nSites)
}

func isConstNum(v ssa.Value) bool {
	k, ok := v.(*ssa.Const)
	return ok && k.Value != nil
}

func allocExample(fn string) string {
	switch fn {
	case "builtinFunctionApply":
		return "(function(){}).apply(null, {length: -1})"
	case "builtinArrayJoin":
		return "var a = []; a[4294967294] = 0; String(a)"
	case "builtinJSONStringifyWalk", "builtinJSONStringify":
		return "var a = []; a.length = 4294967295; JSON.stringify(a)"
	}
	return "Array.prototype.slice.call({length: 4294967295})"
}

func init() {
	register(&Rule{ID: "COPY-empty-dst", Props: []string{"C17", "C20"}, Min: 1,
		Doc: "G (library precondition, census): the builtin copy(dst, src) copies min(len(dst), len(src)) elements, so a destination made with length 0 (make([]T, 0, n)) receives nothing however large its capacity. Every copy of the module whose destination is a slice made in the same function must have been made with a non-zero length (the source's length, or a length the code computes); `out := make([]string, 0, len(in)); copy(out, in)` in a clone method hands the copy an empty table",
		Run: ruleCopyEmptyDst})
}

func ruleCopyEmptyDst(c *Ctx, r *R) {
	n := 0
	for _, fn := range c.AllSrcFuncs("", "parser", "file", "ast", "token", "registry") {
		ord := 0
		for _, b := range fn.Blocks {
			for _, ins := range b.Instrs {
				call, ok := ins.(*ssa.Call)
				if !ok {
					continue
				}
				bi, ok := call.Call.Value.(*ssa.Builtin)
				if !ok || bi.Name() != "copy" {
					continue
				}
				n++
				ord++
				key := fmt.Sprintf("%s:copy#%d", ssaFuncName(fn), ord)
				site := c.Pos(instrPos(call))
				mk, ok := normCell(call.Call.Args[0]).(*ssa.MakeSlice)
				if !ok {
					r.ok(key, site, "destination not made here (its length is the caller's)")
					continue
				}
				if k, ok := constInt(mk.Len); ok && k == 0 {
					r.bad(key, site, fmt.Sprintf("%s copies into a slice it made with length 0 (make([]T, 0, n)): copy transfers min(len(dst), len(src)) = 0 elements, so the destination stays empty - a clone made this way loses the table it was meant to duplicate", ssaFuncName(fn)))
					continue
				}
				r.ok(key, site, "destination made with a non-zero length expression")
			}
		}
	}
	r.note("copies", n)
}

func init() {
	register(&Rule{ID: "LIB-time-range", Props: []string{"C12"}, Min: 1,
		Doc: "G (library domain, census): ES5 time values span +-8.64e15 ms (about +-275760 years); int64 nanoseconds span 1678..2262 only. Package otto converts between time.Time and the time value with the millisecond accessors; a call of (time.Time).UnixNano, or of the Duration-valued Sub / Since / Until on a time a script can choose, wraps around silently for dates outside that window (`Date.UTC(2300, 0, 1)` negative). Every such call is reported unless reviewed; the census must see the millisecond conversions it accepts",
		Run: ruleLibTimeRange})
}

var libTimeReviewed = map[string]string{
	"builtinDateGetTimezoneOffset:Sub": "the two operands are the same instant read in two zones: their difference is the zone offset, hours at most",
}

func ruleLibTimeRange(c *Ctx, r *R) {
	nMilli := 0
	for _, fn := range c.AllSrcFuncs("") {
		ord := map[string]int{}
		for _, b := range fn.Blocks {
			for _, ins := range b.Instrs {
				call, ok := ins.(*ssa.Call)
				if !ok {
					continue
				}
				callee := call.Call.StaticCallee()
				if callee == nil || callee.Pkg == nil || callee.Pkg.Pkg.Path() != "time" || callee.Signature.Recv() == nil {
					continue
				}
				if !typeIs(callee.Signature.Recv().Type(), "time", "Time") {
					continue
				}
				switch callee.Name() {
				case "UnixMilli", "Unix":
					nMilli++
				case "UnixNano", "Sub":
					base := ssaFuncName(fn) + ":" + callee.Name()
					ord[base]++
					key := fmt.Sprintf("%s#%d", base, ord[base])
					if why, ok := libTimeReviewed[base]; ok {
						r.ok("reviewed:"+key, c.Pos(instrPos(call)), why)
						continue
					}
					r.bad(key, c.Pos(instrPos(call)), fmt.Sprintf("%s measures a script-chosen time in int64 nanoseconds (time.Time.%s): that covers the years 1678..2262 only, outside it the value wraps silently - `Date.UTC(2300, 0, 1)` comes out negative, `new Date(0).setUTCFullYear(1600)` reads back as 2184; ES5 time values reach +-275760 years, which the millisecond accessors cover", ssaFuncName(fn), callee.Name()))
				}
			}
		}
	}
	r.check(nMilli >= 1, "census", "-", fmt.Sprintf("%d millisecond / second conversions of time.Time seen", nMilli), "no UnixMilli / Unix conversion of a time.Time found: the census no longer sees how dates become time values")
}
