package main

import (
	"fmt"

	"golang.org/x/tools/go/ssa"
)

func init() {
	register(&Rule{ID: "REF-getvalue", Props: []string{"C01", "C05"}, Min: 20,
		Doc: "P (dataflow): in ES5 only identifiers, property accessors and parentheses evaluate to a Reference; every other expression production, and the ExpressionStatement (12.4), applies GetValue to what its operands evaluate to. The expression evaluator entry (the *runtime method switching over every compiled expression node) may hand back a Reference; so in every other function of package otto the result of calling that entry must not flow (directly, through phis or local cells) into a return statement unless it passed (Value).resolve. Otherwise `(c ? o.f : g)()` calls with this = o, `typeof (c ? undeclared : 0)` does not throw, and `undeclared;` in a loop body or case clause is never read",
		Run: ruleRefGetValue})
}

func ruleRefGetValue(c *Ctx, r *R) {
	entries := evaluatorEntries(c)
	if len(entries) != 2 || entries[0] == nil {
		r.undecided("entries", "-", "UNRESOLVED evaluator entry functions")
		return
	}
	E := entries[0]
	n := 0
	for _, fn := range c.AllSrcFuncs("") {
		if fn == E {
			continue
		}
		ord := 0
		for _, b := range fn.Blocks {
			for _, ins := range b.Instrs {
				call, ok := ins.(*ssa.Call)
				if !ok || call.Call.StaticCallee() != E {
					continue
				}
				ord++
				n++
				key := fmt.Sprintf("%s:eval#%d", ssaFuncName(fn), ord)
				site := c.Pos(instrPos(call))
				// forward flow
				seen := map[ssa.Value]bool{}
				work := []ssa.Value{call}
				var escape ssa.Instruction
				for len(work) > 0 && escape == nil {
					v := work[0]
					work = work[1:]
					if seen[v] {
						continue
					}
					seen[v] = true
					for _, ref := range *v.Referrers() {
						switch u := ref.(type) {
						case *ssa.Return:
							escape = u
						case *ssa.Phi:
							work = append(work, u)
						case *ssa.Store:
							if u.Val != v {
								continue
							}
							if al, ok := u.Addr.(*ssa.Alloc); ok {
								for _, r2 := range *al.Referrers() {
									if ld, ok := r2.(*ssa.UnOp); ok {
										work = append(work, ld)
									}
								}
							}
						}
					}
				}
				if escape == nil {
					r.ok(key, site, "the evaluation result is consumed here (resolved, inspected or discarded); it is not returned as it is")
				} else {
					r.bad(key, site, fmt.Sprintf("%s returns (at %s) what the expression evaluator handed back without GetValue: when the operand is an identifier or property accessor the caller receives its Reference - `(c ? o.f : g)()` runs with this = o, `typeof (c ? undeclared : 0)` and `undeclared;` inside a loop body do not throw ReferenceError, a getter named in an expression statement of a loop body is not called (ES5 11.12, 12.4, 8.7.1)", ssaFuncName(fn), c.Pos(instrPos(escape))))
				}
			}
		}
	}
	r.note("evaluations", n)
}
