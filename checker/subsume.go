package main

import "golang.org/x/tools/go/ssa"

// Subsumption by exhaustive evaluation. Several structural rules (dominance of a test, a scrub on every path, the order
// of two steps) are sufficient conditions for a behaviour that an E rule decides outright by running the same function on
// its whole finite domain. When the code is restructured the structural rule may stop recognising the shape although the
// behaviour is unchanged; it then asks whether the E rule that covers the obligation is clean on this tree, and if so
// records the obligation as decided by that evaluation instead of reporting the unfamiliar shape. An E rule that is not
// clean reports its own violation, so nothing is hidden.

// eClean: the named rule produces no violated or undecided obligation on this tree (known findings count as not clean).
func (c *Ctx) eClean(ruleID string) bool {
	if c.eVerdicts == nil {
		c.eVerdicts = map[string]bool{}
	}
	if v, ok := c.eVerdicts[ruleID]; ok {
		return v
	}
	c.eVerdicts[ruleID] = false // a rule that (indirectly) asks about itself gets no help
	var rule *Rule
	for _, r := range rules {
		if r.ID == ruleID {
			rule = r
		}
	}
	if rule == nil {
		return false
	}
	saved := curCtx
	res := runRule(c, rule)
	curCtx = saved
	clean := len(res.obs) > 0
	for _, o := range res.obs {
		if o.status != Discharged {
			clean = false
		}
	}
	c.eVerdicts[ruleID] = clean
	return clean
}

// subsumed: the text recorded when a structural obligation is decided by an E rule.
func subsumedBy(ruleID string) string {
	return "the shape this rule looks for is not there; decided by exhaustive evaluation instead: " + ruleID + " runs this function on its whole finite domain and is clean on this tree"
}

// partOf: fn is the function called root, a closure of it, or a helper all of whose call sites are in such functions
// (what an extraction of a block out of root produces).
func (c *Ctx) partOf(fn *ssa.Function, root string, depth int) bool {
	if fn == nil || depth > 3 {
		return false
	}
	for f := fn; f != nil; f = f.Parent() {
		if ssaFuncName(f) == root || f.Name() == root {
			return true
		}
	}
	sites, ok := c.callSites(fn)
	if !ok || len(sites) == 0 {
		return false
	}
	for _, s := range sites {
		if !c.partOf(s.Parent(), root, depth+1) {
			return false
		}
	}
	return true
}
