package main

import (
	"fmt"

	"golang.org/x/tools/go/ssa"
)

func init() {
	register(&Rule{ID: "STASH-protocol", Props: []string{"C02", "C01"}, Min: 4,
		Doc: "G (protocol of the environment records): createBinding (CreateMutableBinding, 10.2.1.1.2 / 10.2.1.2.2) asserts that the name is not bound yet and raises a Go panic that is no script exception when it is. Every call of it - through the stasher interface or on a concrete stash - is therefore made on the not-bound side of a hasBinding test of the same record and the same name, or is the single binding made on a record the function has just created. Otherwise a repeated name (`function f(a, a){}`, a function declared twice, `var` after a parameter) crashes the host instead of rebinding",
		Run: ruleStashProtocol})
}

func ruleStashProtocol(c *Ctx, r *R) {
	type site struct {
		call ssa.CallInstruction
		recv ssa.Value
		name ssa.Value
	}
	methodCall := func(ins ssa.Instruction, method string) (site, bool) {
		ci, ok := ins.(ssa.CallInstruction)
		if !ok {
			return site{}, false
		}
		cc := ci.Common()
		if cc.IsInvoke() {
			if cc.Method.Name() == method && len(cc.Args) >= 1 {
				return site{ci, cc.Value, cc.Args[0]}, true
			}
			return site{}, false
		}
		if callee := cc.StaticCallee(); callee != nil && callee.Name() == method && callee.Signature.Recv() != nil && len(cc.Args) >= 2 && callee.Pkg != nil && callee.Pkg.Pkg.Path() == ottoPath {
			return site{ci, cc.Args[0], cc.Args[1]}, true
		}
		return site{}, false
	}
	n := 0
	for _, fn := range c.AllSrcFuncs("") {
		var creates []site
		for _, b := range fn.Blocks {
			for _, ins := range b.Instrs {
				if s, ok := methodCall(ins, "createBinding"); ok {
					creates = append(creates, s)
				}
			}
		}
		ord := 0
		for _, s := range creates {
			n++
			ord++
			key := fmt.Sprintf("%s:createBinding#%d", ssaFuncName(fn), ord)
			pos := c.Pos(instrPos(s.call))
			// (a) on the not-bound side of hasBinding(recv, name)
			tested := false
			for _, b := range fn.Blocks {
				iff, ok := b.Instrs[len(b.Instrs)-1].(*ssa.If)
				if !ok {
					continue
				}
				cond, neg := normBool(iff.Cond)
				ci, ok := cond.(ssa.Instruction)
				if !ok {
					continue
				}
				h, ok := methodCall(ci, "hasBinding")
				if !ok || !sameSSA(h.recv, s.recv, 0) || !sameSSA(h.name, s.name, 0) {
					continue
				}
				notBound, bound := b.Succs[1], b.Succs[0]
				if neg {
					notBound, bound = bound, notBound
				}
				cb := s.call.Block()
				if (len(notBound.Preds) == 1 && (notBound == cb || notBound.Dominates(cb))) || (b.Dominates(cb) && !reaches(bound, cb, map[*ssa.BasicBlock]bool{b: true})) {
					tested = true
				}
			}
			if tested {
				r.ok(key, pos, "on the not-bound side of hasBinding of the same record and name")
				continue
			}
			// (b) the only binding made on a record created in this function, outside any loop
			if freshStash(c, s.recv, 0) {
				others := 0
				for _, o := range creates {
					if o.call != s.call && sameSSA(o.recv, s.recv, 0) {
						others++
					}
				}
				inLoop := reaches2(s.call.Block(), s.call.Block())
				if others == 0 && !inLoop {
					r.ok(key, pos, "the single binding made on an environment record this function has just created")
					continue
				}
			}
			r.bad(key, pos, fmt.Sprintf("%s calls createBinding without a hasBinding test of the same record and name on the path (and not as the single binding of a record it has just created): for a name that is already bound createBinding raises a Go panic that is not a script exception - `function f(a, a){ return a }; f(1, 2)` (10.5 step 4.d rebinds) takes down the host through Run", ssaFuncName(fn)))
		}
	}
	r.note("createBinding_calls", n)
}

// freshStash: v is (on at least one incoming edge) the result of a function that returns a newly allocated record.
func freshStash(c *Ctx, v ssa.Value, depth int) bool {
	if depth > 4 {
		return false
	}
	switch x := v.(type) {
	case *ssa.Call:
		return c.returnsFreshPointer(x.Call.StaticCallee(), 0)
	case *ssa.Alloc:
		return true
	case *ssa.Phi:
		for _, e := range x.Edges {
			if freshStash(c, e, depth+1) {
				return true
			}
		}
	case *ssa.MakeInterface:
		return freshStash(c, x.X, depth+1)
	case *ssa.ChangeInterface:
		return freshStash(c, x.X, depth+1)
	case *ssa.UnOp:
		if al, ok := x.X.(*ssa.Alloc); ok {
			for _, ref := range *al.Referrers() {
				if st, ok := ref.(*ssa.Store); ok && st.Addr == ssa.Value(al) && freshStash(c, st.Val, depth+1) {
					return true
				}
			}
		}
	}
	return false
}

// reaches2: b lies on a cycle (a successor path leads back to it).
func reaches2(from, to *ssa.BasicBlock) bool {
	seen := map[*ssa.BasicBlock]bool{}
	var walk func(b *ssa.BasicBlock) bool
	walk = func(b *ssa.BasicBlock) bool {
		for _, s := range b.Succs {
			if s == to {
				return true
			}
			if !seen[s] {
				seen[s] = true
				if walk(s) {
					return true
				}
			}
		}
		return false
	}
	return walk(from)
}
