package main

import (
	"fmt"
	"go/constant"
	"go/token"
	"go/types"
	"strings"

	"golang.org/x/tools/go/ssa"
)

func init() {
	register(&Rule{ID: "BAD-implies-error", Props: []string{"C04"}, Min: 12,
		Doc: "P: every construction of ast.BadExpression / ast.BadStatement in the parser is dominated by a call that records a parse error (error / errorUnexpected* / a function that always does, or expect(T) under a dominating token != T): a tree containing a Bad node is always returned together with an error, so it is never compiled or run",
		Run: ruleBadImpliesError})
	register(&Rule{ID: "PARSE-before-eval", Props: []string{"C04", "C01"}, Min: 2,
		Doc: "P: in every function that parses source and then evaluates it (Run/Eval route, global eval, Function constructor) no evaluation call is reachable on the path where the parse error is non-nil: rejected source has no side effect on the runtime",
		Run: ruleParseBeforeEval})
	register(&Rule{ID: "EARLY-guards", Props: []string{"C04"}, Min: 8,
		Doc: "P: the parse-time early errors are checked at every construction site of the node they protect: an unlabelled break node is unreachable unless inIteration or inSwitch was tested true, continue unless inIteration, a labelled branch unless the label lookup succeeded (and inIteration for continue), a return node unless inFunction, a try node unless catch-or-finally was tested, and assignment / ++ / -- nodes unless the target passed the Identifier/Dot/Bracket type test",
		Run: ruleEarlyGuards})
	register(&Rule{ID: "PAIR-parser-flags", Props: []string{"C03", "C04"}, Min: 6,
		Doc: "P: every store that overrides a parser scope flag (allowIn, inIteration, inSwitch, inFunction) with a constant is followed - before the function can return - by a restore of the saved value: either a defer registered before any call, or an explicit store of the saved value on every path to every return",
		Run: rulePairParserFlags})
}

// alwaysRecordsError: every entry->return path of fn passes a call of (ErrorList).Add or of a function with that property.
func alwaysRecordsError(c *Ctx) map[*ssa.Function]bool {
	out := map[*ssa.Function]bool{}
	funcs := c.AllSrcFuncs("parser")
	for changed := true; changed; {
		changed = false
		for _, fn := range funcs {
			if out[fn] || fn.Parent() != nil || len(fn.Blocks) == 0 {
				continue
			}
			cut := map[*ssa.BasicBlock]bool{}
			for _, b := range fn.Blocks {
				for _, ins := range b.Instrs {
					if call, ok := ins.(*ssa.Call); ok {
						callee := call.Call.StaticCallee()
						if callee == nil {
							continue
						}
						if callee.Name() == "Add" && callee.Signature.Recv() != nil && typeIs(callee.Signature.Recv().Type(), ottoPath+"/parser", "ErrorList") {
							cut[b] = true
						}
						if out[callee] {
							cut[b] = true
						}
					}
					if _, isPanic := ins.(*ssa.Panic); isPanic {
						cut[b] = true // a panicking path does not return
					}
				}
			}
			reach := map[*ssa.BasicBlock]bool{}
			var dfs func(b *ssa.BasicBlock)
			dfs = func(b *ssa.BasicBlock) {
				if reach[b] || cut[b] {
					return
				}
				reach[b] = true
				for _, s := range b.Succs {
					dfs(s)
				}
			}
			dfs(fn.Blocks[0])
			returns := false
			for b := range reach {
				if _, ok := b.Instrs[len(b.Instrs)-1].(*ssa.Return); ok {
					returns = true
				}
			}
			if !returns {
				out[fn] = true
				changed = true
			}
		}
	}
	return out
}

func ruleBadImpliesError(c *Ctx, r *R) {
	rec := alwaysRecordsError(c)
	if len(rec) < 2 {
		r.undecided("recorders", "-", "UNRESOLVED: no parser function that always records an error")
		return
	}
	e := &eofCtx{}
	_ = e
	for _, fn := range c.AllSrcFuncs("parser") {
		// blocks that record an error on every execution
		cut := map[*ssa.BasicBlock]bool{}
		for _, b2 := range fn.Blocks {
			for _, i2 := range b2.Instrs {
				call, ok := i2.(*ssa.Call)
				if !ok {
					continue
				}
				callee := call.Call.StaticCallee()
				if callee == nil {
					continue
				}
				if rec[callee] {
					cut[b2] = true
				}
				if callee.Name() == "expect" && len(call.Call.Args) == 2 {
					// expect(T) records an error iff token != T: counts only under a dominating token != T
					if k, isC := constInt(call.Call.Args[1]); isC && tokenNotEqualDominates(fn, call, k) {
						cut[b2] = true
					}
				}
			}
		}
		ord := 0
		for _, b := range fn.Blocks {
			for _, ins := range b.Instrs {
				al, ok := ins.(*ssa.Alloc)
				if !ok || al.Comment != "complit" {
					continue
				}
				n := derefNamed(al.Type())
				if n == nil || n.Obj().Pkg() == nil || n.Obj().Pkg().Path() != ottoPath+"/ast" || (n.Obj().Name() != "BadExpression" && n.Obj().Name() != "BadStatement") {
					continue
				}
				ord++
				key := fmt.Sprintf("%s:%s#%d", ssaFuncName(fn), n.Obj().Name(), ord)
				site := c.Pos(al.Pos())
				// is the construction reachable from the entry without passing an error-recording block?
				// (an error call in the construction's own block before it also counts)
				own := false
				for _, i2 := range b.Instrs {
					if i2 == ins {
						break
					}
					if call, ok := i2.(*ssa.Call); ok && call.Call.StaticCallee() != nil {
						if rec[call.Call.StaticCallee()] {
							own = true
						}
						if call.Call.StaticCallee().Name() == "expect" && len(call.Call.Args) == 2 {
							if k, isC := constInt(call.Call.Args[1]); isC && tokenNotEqualDominates(fn, call, k) {
								own = true
							}
						}
					}
				}
				reach := own
				if !own {
					seen := map[*ssa.BasicBlock]bool{}
					var dfs func(x *ssa.BasicBlock) bool
					dfs = func(x *ssa.BasicBlock) bool {
						if x == b {
							return true
						}
						if seen[x] || cut[x] {
							return false
						}
						seen[x] = true
						for _, s := range x.Succs {
							if dfs(s) {
								return true
							}
						}
						return false
					}
					reach = !dfs(fn.Blocks[0])
				}
				r.check(reach, key, site, "every path to the construction records an error", fmt.Sprintf("%s builds a %s on a path that records no parse error: the parser can return a tree containing a Bad node with a nil error list, and compiling it panics (host crash) or silently drops code", ssaFuncName(fn), n.Obj().Name()))
			}
		}
	}
}

// tokenNotEqualDominates: use is dominated by the side of an If where p.token != k holds.
func tokenNotEqualDominates(fn *ssa.Function, use ssa.Instruction, k int64) bool {
	for _, b := range fn.Blocks {
		iff, ok := b.Instrs[len(b.Instrs)-1].(*ssa.If)
		if !ok {
			continue
		}
		bo, ok := iff.Cond.(*ssa.BinOp)
		if !ok || (bo.Op != token.NEQ && bo.Op != token.EQL) {
			continue
		}
		if cur, isCur := isCurTok(bo.X); !isCur || cur != "token" {
			continue
		}
		if kk, isC := constInt(bo.Y); !isC || kk != k {
			continue
		}
		succ := b.Succs[0]
		if bo.Op == token.EQL {
			succ = b.Succs[1]
		}
		if len(succ.Preds) == 1 && (succ.Dominates(use.Block())) {
			return true
		}
	}
	return false
}

func ruleParseBeforeEval(c *Ctx, r *R) {
	// evaluation entry points: functions named by role - the *runtime methods that take a *nodeProgram / node and evaluate
	isEvalCall := func(callee *ssa.Function) bool {
		if callee == nil {
			return false
		}
		switch callee.Name() {
		case "cmplEvaluateNodeProgram", "cmplEvaluateNodeStatement", "cmplEvaluateNodeExpression", "cmplEvaluateNodeStatementList", "newNodeFunction", "cmplCallNodeFunction":
			return true
		}
		return false
	}
	n := 0
	for _, fn := range c.AllSrcFuncs("") {
		// parse calls returning an error
		for _, b := range fn.Blocks {
			for _, ins := range b.Instrs {
				call, ok := ins.(*ssa.Call)
				if !ok {
					continue
				}
				callee := call.Call.StaticCallee()
				if callee == nil {
					continue
				}
				res := callee.Signature.Results()
				if res.Len() < 2 || typeStr(res.At(res.Len()-1).Type()) != "error" {
					continue
				}
				isParse := false
				if callee.Pkg != nil && callee.Pkg.Pkg.Path() == ottoPath+"/parser" && strings.HasPrefix(callee.Name(), "Parse") {
					isParse = true
				}
				if callee.Name() == "parseSource" || callee.Name() == "cmplParse" && callee.Signature.Recv() != nil || callee.Name() == "parse" && callee.Signature.Recv() != nil && typeIs(callee.Signature.Recv().Type(), ottoPath, "runtime") {
					isParse = true
				}
				if !isParse {
					continue
				}
				// does this function evaluate afterwards?
				var evals []ssa.Instruction
				for _, b2 := range fn.Blocks {
					for _, i2 := range b2.Instrs {
						if c2, ok := i2.(ssa.CallInstruction); ok && isEvalCall(c2.Common().StaticCallee()) {
							evals = append(evals, i2)
						}
						// evaluation inside a closure handed to catchPanic
						if mc, ok := i2.(*ssa.MakeClosure); ok {
							if f, ok := mc.Fn.(*ssa.Function); ok {
								for _, cb := range f.Blocks {
									for _, ci := range cb.Instrs {
										if c3, ok := ci.(ssa.CallInstruction); ok && isEvalCall(c3.Common().StaticCallee()) {
											evals = append(evals, i2)
										}
									}
								}
							}
						}
					}
				}
				if len(evals) == 0 {
					continue
				}
				n++
				key := fmt.Sprintf("%s:%s", ssaFuncName(fn), callee.Name())
				site := c.Pos(instrPos(call))
				// the error result
				var errVal ssa.Value
				for _, ref := range *call.Referrers() {
					if ex, ok := ref.(*ssa.Extract); ok && ex.Index == res.Len()-1 {
						errVal = ex
					}
				}
				if errVal == nil {
					r.bad(key, site, "the parse error is discarded and evaluation follows")
					continue
				}
				// find the branch on err != nil, or a call of a function that panics on non-nil err (parseThrow)
				okGuard := false
				for _, ref := range *errVal.Referrers() {
					switch x := ref.(type) {
					case *ssa.BinOp:
						if (x.Op == token.NEQ || x.Op == token.EQL) && isNilConst(x.Y) {
							for _, r2 := range *x.Referrers() {
								iff, ok := r2.(*ssa.If)
								if !ok {
									continue
								}
								errSide := iff.Block().Succs[0]
								if x.Op == token.EQL {
									errSide = iff.Block().Succs[1]
								}
								bad := false
								for _, ev := range evals {
									// the evaluation must not be reachable from the error side, nor from the parse call around
									// the test (paths that never parse - another arm of a switch over the source - are not at issue)
									if reaches(errSide, ev.Block(), map[*ssa.BasicBlock]bool{iff.Block(): true}) {
										bad = true
									}
									if call.Block() != iff.Block() && reaches(call.Block(), ev.Block(), map[*ssa.BasicBlock]bool{iff.Block(): true}) {
										bad = true
									}
								}
								if !bad {
									okGuard = true
								}
							}
						}
					case *ssa.Call:
						if cl := x.Call.StaticCallee(); cl != nil && panicsOnNonNilErr(cl) {
							allAfter := true
							for _, ev := range evals {
								if !dominatesInstr(x, ev) {
									allAfter = false
								}
							}
							if allAfter {
								okGuard = true
							}
						}
					}
				}
				r.check(okGuard, key, site, "evaluation unreachable when the parse error is non-nil", fmt.Sprintf("in %s an evaluation call is reachable although %s returned a non-nil error: source the parser rejected is (partly) run", ssaFuncName(fn), callee.Name()))
			}
		}
	}
	if n == 0 {
		r.undecided("sites", "-", "no parse-then-evaluate function found (anchors lost)")
	}
}

// panicsOnNonNilErr: fn(err) returns only if err == nil: its entry block tests the error parameter against nil and every
// path on the non-nil side ends in a panic.
func panicsOnNonNilErr(fn *ssa.Function) bool {
	if fn.Blocks == nil || len(fn.Params) == 0 {
		return false
	}
	var errParam *ssa.Parameter
	for _, p := range fn.Params {
		if typeStr(p.Type()) == "error" {
			errParam = p
		}
	}
	if errParam == nil {
		return false
	}
	b0 := fn.Blocks[0]
	iff, ok := b0.Instrs[len(b0.Instrs)-1].(*ssa.If)
	if !ok {
		return false
	}
	bo, ok := iff.Cond.(*ssa.BinOp)
	if !ok || bo.X != ssa.Value(errParam) || !isNilConst(bo.Y) {
		return false
	}
	nonNil := b0.Succs[0]
	if bo.Op == token.EQL {
		nonNil = b0.Succs[1]
	}
	// no return reachable from the non-nil side
	seen := map[*ssa.BasicBlock]bool{}
	var dfs func(b *ssa.BasicBlock) bool
	dfs = func(b *ssa.BasicBlock) bool {
		if seen[b] {
			return false
		}
		seen[b] = true
		if _, isRet := b.Instrs[len(b.Instrs)-1].(*ssa.Return); isRet {
			return true
		}
		for _, s := range b.Succs {
			if dfs(s) {
				return true
			}
		}
		return false
	}
	return !dfs(nonNil)
}

func ruleEarlyGuards(c *Ctx, r *R) {
	tokBreak, tokContinue := int64(-1), int64(-1)
	if cst, ok := c.Pkg("token").Types.Scope().Lookup("BREAK").(*types.Const); ok {
		tokBreak = constIntVal(cst)
	}
	if cst, ok := c.Pkg("token").Types.Scope().Lookup("CONTINUE").(*types.Const); ok {
		tokContinue = constIntVal(cst)
	}
	flagTrueEdge := func(b *ssa.BasicBlock, idx int, flags ...string) bool {
		iff, ok := b.Instrs[len(b.Instrs)-1].(*ssa.If)
		if !ok {
			return false
		}
		cond, negC := normBool(iff.Cond)
		want := (idx == 0) != negC
		a := loadAddr(cond)
		if a == nil {
			return false
		}
		for _, f := range flags {
			if isFieldAddr(a, "scope", f) && want {
				return true
			}
		}
		return false
	}
	callTrueEdge := func(b *ssa.BasicBlock, idx int, name string) bool {
		iff, ok := b.Instrs[len(b.Instrs)-1].(*ssa.If)
		if !ok {
			return false
		}
		cond, negC := normBool(iff.Cond)
		want := (idx == 0) != negC
		call, ok := cond.(*ssa.Call)
		return ok && call.Call.StaticCallee() != nil && call.Call.StaticCallee().Name() == name && want
	}
	reachableWithout := func(fn *ssa.Function, target *ssa.BasicBlock, cutEdge func(b *ssa.BasicBlock, i int) bool) bool {
		seen := map[*ssa.BasicBlock]bool{}
		var dfs func(b *ssa.BasicBlock) bool
		dfs = func(b *ssa.BasicBlock) bool {
			if b == target {
				return true
			}
			if seen[b] {
				return false
			}
			seen[b] = true
			for i, s := range b.Succs {
				if cutEdge(b, i) {
					continue
				}
				if dfs(s) {
					return true
				}
			}
			return false
		}
		return dfs(fn.Blocks[0])
	}
	for _, fn := range c.AllSrcFuncs("parser") {
		ord := map[string]int{}
		for _, b := range fn.Blocks {
			for _, ins := range b.Instrs {
				al, ok := ins.(*ssa.Alloc)
				if !ok || al.Comment != "complit" {
					continue
				}
				n := derefNamed(al.Type())
				if n == nil || n.Obj().Pkg() == nil || n.Obj().Pkg().Path() != ottoPath+"/ast" {
					continue
				}
				site := c.Pos(al.Pos())
				name := n.Obj().Name()
				ord[name]++
				key := fmt.Sprintf("%s:%s#%d", ssaFuncName(fn), name, ord[name])
				switch name {
				case "BranchStatement":
					tok, labelled := int64(-1), false
					for _, ref := range *al.Referrers() {
						fa, ok := ref.(*ssa.FieldAddr)
						if !ok {
							continue
						}
						_, f := fieldOfAddr(fa)
						for _, r2 := range *fa.Referrers() {
							if st, ok := r2.(*ssa.Store); ok {
								switch f.Name() {
								case "Token":
									tok, _ = constInt(st.Val)
								case "Label":
									labelled = !isNilConst(st.Val)
								}
							}
						}
					}
					switch {
					case labelled:
						r.check(!reachableWithout(fn, b, func(bb *ssa.BasicBlock, i int) bool { return callTrueEdge(bb, i, "hasLabel") }), key+":label", site, "label lookup tested", "a labelled break/continue node is built on a path where the label lookup (hasLabel) was not tested true: jumps to unknown labels are accepted")
						if tok == tokContinue && recordedInScope(al) {
							// the node is handed to the scope for validation against its target when the labelled
							// statement ends (the stronger test: the label must belong to a loop); inIteration adds nothing
							r.ok(key+":iteration", site, "the labelled continue is recorded in the parser scope for validation against the statement its label names")
						} else if tok == tokContinue {
							r.check(!reachableWithout(fn, b, func(bb *ssa.BasicBlock, i int) bool { return flagTrueEdge(bb, i, "inIteration") }), key+":iteration", site, "inIteration tested", "a labelled continue node is built on a path where inIteration was not tested true: `lbl: { continue lbl; }` outside any loop is accepted (ES5 §12.7: continue must target an iteration statement)")
						}
					case tok == tokBreak:
						r.check(!reachableWithout(fn, b, func(bb *ssa.BasicBlock, i int) bool { return flagTrueEdge(bb, i, "inIteration", "inSwitch") }), key+":break", site, "inIteration || inSwitch tested", "an unlabelled break node is built on a path where neither inIteration nor inSwitch was tested true (ES5 §12.8)")
					case tok == tokContinue:
						r.check(!reachableWithout(fn, b, func(bb *ssa.BasicBlock, i int) bool { return flagTrueEdge(bb, i, "inIteration") }), key+":continue", site, "inIteration tested", "an unlabelled continue node is built on a path where inIteration was not tested true (ES5 §12.7)")
					default:
						r.undecided(key, site, "BranchStatement with a non-constant token")
					}
				case "ReturnStatement":
					r.check(!reachableWithout(fn, b, func(bb *ssa.BasicBlock, i int) bool { return flagTrueEdge(bb, i, "inFunction") }), key, site, "inFunction tested", "a return node is built on a path where inFunction was not tested true: `return` at top level is accepted (ES5 §12.9)")
				case "AssignExpression", "UnaryExpression":
					if name == "UnaryExpression" {
						// only ++ / -- need a reference target: literals built under the INCREMENT/DECREMENT token test
						isIncDec := false
						for _, ref := range *al.Referrers() {
							if fa, ok := ref.(*ssa.FieldAddr); ok {
								if _, f := fieldOfAddr(fa); f.Name() == "Postfix" {
									for _, r2 := range *fa.Referrers() {
										if st, ok := r2.(*ssa.Store); ok {
											if cst, ok := st.Val.(*ssa.Const); ok && cst.Value != nil && constant.BoolVal(cst.Value) {
												isIncDec = true
											}
										}
									}
								}
							}
						}
						if !isIncDec && !fnHasIncDecPrefixGuard(fn, b) {
							continue
						}
					}
					// must be unreachable without a successful comma-ok type test of the operand (Identifier/Dot/Bracket)
					cut := func(bb *ssa.BasicBlock, i int) bool {
						iff, ok := bb.Instrs[len(bb.Instrs)-1].(*ssa.If)
						if !ok || i != 0 {
							return false
						}
						ex, ok := iff.Cond.(*ssa.Extract)
						if !ok || ex.Index != 1 {
							return false
						}
						ta, ok := ex.Tuple.(*ssa.TypeAssert)
						if !ok {
							return false
						}
						nn := derefNamed(ta.AssertedType)
						return nn != nil && (nn.Obj().Name() == "Identifier" || nn.Obj().Name() == "DotExpression" || nn.Obj().Name() == "BracketExpression")
					}
					r.check(!reachableWithout(fn, b, cut), key+":target", site, "target type-tested", fmt.Sprintf("an %s node is built on a path where the target was not tested to be an Identifier / Dot / Bracket expression: `1 = 2` or `++f()` is accepted and later crashes reference handling (ES5 §11.13.1, §11.3, §11.4.4-5)", name))
				case "TryStatement":
					// the success return of the try node must be unreachable when both Catch and Finally are nil:
					// require an If testing Catch == nil && Finally == nil that leads to an error
					okT := false
					for _, b2 := range fn.Blocks {
						iff, ok := b2.Instrs[len(b2.Instrs)-1].(*ssa.If)
						if !ok {
							continue
						}
						if bo, ok := iff.Cond.(*ssa.BinOp); ok && bo.Op == token.EQL && isNilConst(bo.Y) {
							if a := loadAddr(bo.X); a != nil && (isFieldAddr(a, "TryStatement", "Finally") || isFieldAddr(a, "TryStatement", "Catch")) {
								okT = true
							}
						}
					}
					r.check(okT, key+":catch-or-finally", site, "catch-or-finally tested", "a try node is returned without testing that it has a catch or a finally clause (ES5 §12.14)")
				}
			}
		}
	}
}

// fnHasIncDecPrefixGuard: block b is under a test of the current token against INCREMENT / DECREMENT (prefix forms).
func fnHasIncDecPrefixGuard(fn *ssa.Function, b *ssa.BasicBlock) bool {
	inc, dec := int64(-1), int64(-1)
	if fn.Pkg != nil {
		for _, imp := range fn.Pkg.Pkg.Imports() {
			if imp.Path() == ottoPath+"/token" {
				if cst, ok := imp.Scope().Lookup("INCREMENT").(*types.Const); ok {
					inc = constIntVal(cst)
				}
				if cst, ok := imp.Scope().Lookup("DECREMENT").(*types.Const); ok {
					dec = constIntVal(cst)
				}
			}
		}
	}
	for _, bb := range fn.Blocks {
		iff, ok := bb.Instrs[len(bb.Instrs)-1].(*ssa.If)
		if !ok {
			continue
		}
		bo, ok := iff.Cond.(*ssa.BinOp)
		if !ok || bo.Op != token.EQL {
			continue
		}
		if cur, isCur := isCurTok(bo.X); !isCur || cur != "token" {
			continue
		}
		if k, isC := constInt(bo.Y); isC && (k == inc || k == dec) && bb.Succs[0].Dominates(b) {
			return true
		}
	}
	return false
}

func rulePairParserFlags(c *Ctx, r *R) {
	flags := map[string]bool{"allowIn": true, "inIteration": true, "inSwitch": true, "inFunction": true}
	for _, fn := range c.AllSrcFuncs("parser") {
		if fn.Parent() != nil {
			continue
		}
		ord := 0
		for _, b := range fn.Blocks {
			for _, ins := range b.Instrs {
				st, ok := ins.(*ssa.Store)
				if !ok {
					continue
				}
				nt, f := fieldOfAddr(st.Addr)
				if nt == nil || nt.Obj().Name() != "scope" || !flags[f.Name()] {
					continue
				}
				if _, isConst := st.Val.(*ssa.Const); !isConst {
					continue // a restore
				}
				if fa := st.Addr.(*ssa.FieldAddr); fa != nil {
					if _, fresh := fa.X.(*ssa.Alloc); fresh {
						continue // constructing a new scope
					}
				}
				ord++
				key := fmt.Sprintf("%s:%s#%d", ssaFuncName(fn), f.Name(), ord)
				site := c.Pos(instrPos(ins))
				restores := func(i ssa.Instruction) bool {
					switch x := i.(type) {
					case *ssa.Defer:
						cl := closureOf(&x.Call)
						if cl == nil {
							return false
						}
						for _, cb := range cl.Blocks {
							for _, ci := range cb.Instrs {
								if s2, ok := ci.(*ssa.Store); ok {
									if n2, f2 := fieldOfAddr(s2.Addr); n2 != nil && f2 == f {
										if _, isC := s2.Val.(*ssa.Const); !isC {
											return true
										}
									}
								}
							}
						}
					case *ssa.Store:
						if n2, f2 := fieldOfAddr(x.Addr); n2 != nil && f2 == f && x != st {
							if _, isC := x.Val.(*ssa.Const); !isC {
								return true
							}
						}
					}
					return false
				}
				// defer form: before any call; explicit form: before any return
				resDefer := mustReachBefore(ins, func(i ssa.Instruction) bool { _, isD := i.(*ssa.Defer); return isD && restores(i) }, func(i ssa.Instruction) bool {
					_, isCall := i.(*ssa.Call)
					return isCall
				})
				resExplicit := mustReachBefore(ins, restores, func(ssa.Instruction) bool { return false })
				r.check(resDefer.ok || resExplicit.ok, key, site, "restored (deferred before any call, or explicitly on every path to a return)", fmt.Sprintf("%s overrides the parser flag %s and can return without restoring it: the flag leaks into the rest of the parse (e.g. `in` stays forbidden after a for-header, or break stays legal after the loop)", ssaFuncName(fn), f.Name()))
			}
		}
	}
}

// recordedInScope: the node allocated by al is appended to a slice field of the parser's scope.
func recordedInScope(al *ssa.Alloc) bool {
	for _, ref := range *al.Referrers() {
		st, ok := ref.(*ssa.Store)
		if !ok || st.Val != ssa.Value(al) {
			continue
		}
		ia, ok := st.Addr.(*ssa.IndexAddr)
		if !ok {
			continue
		}
		arr, ok := ia.X.(*ssa.Alloc)
		if !ok {
			continue
		}
		for _, r2 := range *arr.Referrers() {
			sl, ok := r2.(*ssa.Slice)
			if !ok {
				continue
			}
			for _, r3 := range *sl.Referrers() {
				call, ok := r3.(*ssa.Call)
				if !ok {
					continue
				}
				if bi, ok := call.Call.Value.(*ssa.Builtin); !ok || bi.Name() != "append" {
					continue
				}
				if a := loadAddr(call.Call.Args[0]); a != nil {
					if nt, _ := fieldOfAddr(a); nt != nil && nt.Obj().Name() == "scope" {
						return true
					}
				}
			}
		}
	}
	return false
}
