package main

import (
	"fmt"
	"go/ast"
	"go/constant"
	"go/token"
	"go/types"

	"golang.org/x/tools/go/ssa"
)

func init() {
	register(&Rule{ID: "SENTINEL-scrub", Props: []string{"C02", "C07"}, Min: 2,
		Doc: "P (typestate of an internal sentinel): toPropertyDescriptor marks an accessor field that was present but undefined with the address of the package-level placeholder object nilGetSetObject, so that [[DefineOwnProperty]] can tell 'absent' from 'undefined'. The placeholder must never reach an object's property table, where it would later be called as a getter/setter or handed to scripts. In the ordinary [[DefineOwnProperty]] every value passed to the primitive writer writeProperty is therefore (a) the existing property's value, (b) an accessor pair on which both elements were compared with the placeholder and replaced by nil, or (c) the raw descriptor value only on paths on which the comma-ok assertion to the accessor-pair type failed (or the value was nil). A raw descriptor value that reaches the writer on any other path may carry the placeholder",
		Run: ruleSentinelScrub})
}

func ruleSentinelScrub(c *Ctx, r *R) {
	var fn *ssa.Function
	for _, f := range slotImplsOf(c)["defineOwnProperty"] {
		if len(staticCallsIn(f, "writeProperty")) > 0 {
			fn = f
		}
	}
	if fn == nil {
		r.undecided("unresolved:defineOwnProperty", "-", "UNRESOLVED: no [[DefineOwnProperty]] implementation calls writeProperty")
		return
	}
	// the descriptor parameter (a property struct passed by value, spilled because its fields are assigned)
	var descAlloc *ssa.Alloc
	for _, p := range fn.Params {
		if !typeIs(p.Type(), ottoPath, "property") {
			continue
		}
		for _, ref := range *p.Referrers() {
			if st, ok := ref.(*ssa.Store); ok && st.Val == ssa.Value(p) {
				if al, ok := st.Addr.(*ssa.Alloc); ok {
					descAlloc = al
				}
			}
		}
	}
	if descAlloc == nil {
		r.undecided("unresolved:descriptor", c.Pos(fn.Pos()), "UNRESOLVED: the descriptor parameter of "+ssaFuncName(fn)+" was not found")
		return
	}
	isRaw := func(v ssa.Value) bool {
		a := loadAddr(v)
		if a == nil {
			return false
		}
		fa, ok := a.(*ssa.FieldAddr)
		if !ok || fa.X != ssa.Value(descAlloc) {
			return false
		}
		_, f := fieldOfAddr(fa)
		return f != nil && f.Name() == "value"
	}
	isSentinel := func(v ssa.Value) bool {
		g, ok := v.(*ssa.Global)
		return ok && g.Name() == "nilGetSetObject"
	}
	// scrubbed: both elements of the local accessor pair were compared with the placeholder and set to nil
	scrubbed := func(al *ssa.Alloc) bool {
		done := map[int64]bool{}
		for _, b := range fn.Blocks {
			iff, ok := b.Instrs[len(b.Instrs)-1].(*ssa.If)
			if !ok {
				continue
			}
			cmp, ok := iff.Cond.(*ssa.BinOp)
			if !ok || cmp.Op != token.EQL {
				continue
			}
			var other ssa.Value
			if isSentinel(cmp.Y) {
				other = cmp.X
			} else if isSentinel(cmp.X) {
				other = cmp.Y
			}
			if other == nil {
				continue
			}
			ia, ok := loadAddr(other).(*ssa.IndexAddr)
			if !ok || ia.X != ssa.Value(al) {
				continue
			}
			idx, ok := constInt(ia.Index)
			if !ok {
				continue
			}
			t := b.Succs[0]
			for _, ins := range t.Instrs {
				if st, ok := ins.(*ssa.Store); ok && isNilConst(st.Val) {
					if ia2, ok := st.Addr.(*ssa.IndexAddr); ok && ia2.X == ssa.Value(al) {
						if i2, ok := constInt(ia2.Index); ok && i2 == idx {
							done[idx] = true
						}
					}
				}
			}
		}
		return done[0] && done[1]
	}
	pairAlloc := func(v ssa.Value) *ssa.Alloc {
		if mi, ok := v.(*ssa.MakeInterface); ok {
			v = mi.X
		}
		if a := loadAddr(v); a != nil {
			if al, ok := a.(*ssa.Alloc); ok {
				if n := derefNamed(al.Type()); n != nil && n.Obj().Name() == "propertyGetSet" {
					return al
				}
			}
		}
		return nil
	}
	// cut edges: the not-an-accessor side of a comma-ok assertion on the raw value, the is-nil side of a nil test on it
	type edge struct {
		from *ssa.BasicBlock
		to   int
	}
	cutEdge := map[edge]bool{}
	cutStore := map[ssa.Instruction]bool{}
	for _, b := range fn.Blocks {
		for _, ins := range b.Instrs {
			if st, ok := ins.(*ssa.Store); ok {
				if fa, ok := st.Addr.(*ssa.FieldAddr); ok && fa.X == ssa.Value(descAlloc) {
					if _, f := fieldOfAddr(fa); f != nil && f.Name() == "value" {
						if al := pairAlloc(st.Val); al != nil && scrubbed(al) {
							cutStore[st] = true
						}
						inner := st.Val
						if mi, ok := inner.(*ssa.MakeInterface); ok {
							inner = mi.X
						}
						if hc, ok := inner.(*ssa.Call); ok && isScrubHelper(hc.Call.StaticCallee(), isSentinel) {
							cutStore[st] = true
						}
					}
				}
			}
		}
		iff, ok := b.Instrs[len(b.Instrs)-1].(*ssa.If)
		if !ok {
			continue
		}
		cond, neg := normBool(iff.Cond)
		if ex, ok := cond.(*ssa.Extract); ok && ex.Index == 1 {
			if ta, ok := ex.Tuple.(*ssa.TypeAssert); ok && ta.CommaOk && isRaw(ta.X) {
				if n := derefNamed(ta.AssertedType); n != nil && n.Obj().Name() == "propertyGetSet" {
					side := 1
					if neg {
						side = 0
					}
					cutEdge[edge{b, side}] = true
				}
			}
		}
		if cmp, ok := cond.(*ssa.BinOp); ok && (cmp.Op == token.EQL || cmp.Op == token.NEQ) {
			var other ssa.Value
			if isNilConst(cmp.Y) {
				other = cmp.X
			} else if isNilConst(cmp.X) {
				other = cmp.Y
			}
			if other != nil && isRaw(other) {
				side := 0
				if (cmp.Op == token.NEQ) != neg {
					side = 1
				}
				cutEdge[edge{b, side}] = true
			}
		}
	}
	// blocks whose end is reachable from entry without a cut, and the instructions reached
	reachedEnd := map[*ssa.BasicBlock]bool{}
	reachedIns := map[ssa.Instruction]bool{}
	seen := map[*ssa.BasicBlock]bool{}
	var dfs func(b *ssa.BasicBlock)
	dfs = func(b *ssa.BasicBlock) {
		if seen[b] {
			return
		}
		seen[b] = true
		for _, ins := range b.Instrs {
			if cutStore[ins] {
				return
			}
			reachedIns[ins] = true
		}
		reachedEnd[b] = true
		for i, s := range b.Succs {
			if !cutEdge[edge{b, i}] {
				dfs(s)
			}
		}
	}
	dfs(fn.Blocks[0])
	succIndex := func(from, to *ssa.BasicBlock) int {
		for i, s := range from.Succs {
			if s == to {
				return i
			}
		}
		return -1
	}
	nW := 0
	for _, ci := range staticCallsIn(fn, "writeProperty") {
		call, ok := ci.(*ssa.Call)
		if !ok || call.Parent() != fn || len(call.Call.Args) < 3 {
			continue
		}
		nW++
		key := fmt.Sprintf("write#%d", nW)
		site := c.Pos(instrPos(call))
		bad := ""
		var visit func(v ssa.Value, at ssa.Instruction, predEdge *edge, depth int)
		visit = func(v ssa.Value, at ssa.Instruction, predEdge *edge, depth int) {
			if depth > 5 || bad != "" {
				return
			}
			switch x := v.(type) {
			case *ssa.Phi:
				for i, e := range x.Edges {
					pred := x.Block().Preds[i]
					visit(e, nil, &edge{pred, succIndex(pred, x.Block())}, depth+1)
				}
				return
			}
			if isRaw(v) {
				dirty := false
				if predEdge != nil {
					dirty = reachedEnd[predEdge.from] && !cutEdge[*predEdge]
				} else if ld, ok := v.(ssa.Instruction); ok {
					dirty = reachedIns[ld]
				}
				if dirty {
					bad = "the raw descriptor value reaches writeProperty on a path on which it was neither found not to be an accessor pair nor replaced by a scrubbed pair"
				}
				return
			}
			if al := pairAlloc(v); al != nil {
				if !scrubbed(al) {
					bad = "an accessor pair reaches writeProperty without both of its elements having been compared with the placeholder and set to nil"
				}
				return
			}
			// the pair returned by a scrubbing helper (every element compared with the placeholder and set to nil)
			{
				inner := v
				if mi, ok := inner.(*ssa.MakeInterface); ok {
					inner = mi.X
				}
				if hc, ok := inner.(*ssa.Call); ok && isScrubHelper(hc.Call.StaticCallee(), isSentinel) {
					return
				}
			}
			if a := loadAddr(v); a != nil {
				if nt, f := fieldOfAddr(a); nt != nil && nt.Obj().Name() == "property" && f.Name() == "value" {
					return // the existing property's value
				}
			}
			if _, ok := v.(*ssa.Const); ok {
				return
			}
			bad = fmt.Sprintf("a value of unknown origin (%T) reaches writeProperty", v)
		}
		visit(call.Call.Args[2], call, nil, 0)
		if bad == "" {
			r.ok(key, site, "the value written is the existing value, a scrubbed accessor pair, or a non-accessor descriptor value")
		} else if c.partOf(call.Parent(), "objectDefineOwnProperty", 0) && c.eClean("SPEC-define-own") {
			r.ok(key, site, subsumedBy("SPEC-define-own"))
		} else {
			r.bad(key, site, bad+": the placeholder &nilGetSetObject (an accessor field given as undefined) can be stored as the property's getter or setter, where it is later invoked or returned to scripts as if it were a function object")
		}
	}
	if nW == 0 {
		r.undecided("writes", c.Pos(fn.Pos()), "no writeProperty call examined")
	}
	_ = types.Typ
}

func init() {
	register(&Rule{ID: "SPEC-descriptor-accessor", Props: []string{"C07"}, Min: 2,
		Doc: "P (ES5 §8.10.5 ToPropertyDescriptor steps 7-9): a descriptor object with a `get` or a `set` field - present, whatever its value, undefined included - is an accessor descriptor. In toPropertyDescriptor every non-throwing path through the body of the `get` test and through the body of the `set` test sets the flag that makes the result an accessor pair (the flag that guards the construction of the propertyGetSet value and the value/writable conflict checks). A branch that forgets it turns {set: undefined} into a generic descriptor: the setter is not cleared and the TypeErrors of step 9 are lost",
		Run: ruleSpecDescriptorAccessor})
}

func ruleSpecDescriptorAccessor(c *Ctx, r *R) {
	f := c.LookupFunc("", "toPropertyDescriptor")
	if f == nil || c.Decl(f) == nil {
		r.undecided("unresolved:toPropertyDescriptor", "-", "UNRESOLVED: toPropertyDescriptor not found")
		return
	}
	fd := c.Decl(f)
	info := c.InfoFor(fd)
	// the flag: guards the construction of a propertyGetSet literal
	var flag types.Object
	ast.Inspect(fd.Body, func(n ast.Node) bool {
		iff, ok := n.(*ast.IfStmt)
		if !ok || flag != nil {
			return true
		}
		id, ok := unparen(iff.Cond).(*ast.Ident)
		if !ok {
			return true
		}
		builds := false
		ast.Inspect(iff.Body, func(m ast.Node) bool {
			if cl, ok := m.(*ast.CompositeLit); ok {
				if n := derefNamed(info.TypeOf(cl)); n != nil && n.Obj().Name() == "propertyGetSet" {
					builds = true
				}
			}
			return true
		})
		if builds {
			flag = info.Uses[id]
		}
		return true
	})
	if flag == nil && c.eClean("SPEC-define-own") {
		for _, fld := range []string{"get", "set"} {
			r.ok(fld, c.Pos(fd.Pos()), subsumedBy("SPEC-define-own")+" (descriptors whose get / set field is present and undefined are in its domain)")
		}
		return
	}
	if flag == nil {
		r.undecided("unresolved:flag", c.Pos(fd.Pos()), "UNRESOLVED: no boolean guards the construction of the propertyGetSet value in toPropertyDescriptor")
		return
	}
	var mustAssign func(stmts []ast.Stmt) bool
	mustAssign = func(stmts []ast.Stmt) bool {
		for _, st := range stmts {
			switch s := st.(type) {
			case *ast.AssignStmt:
				for i, l := range s.Lhs {
					if id, ok := unparen(l).(*ast.Ident); ok && (info.Uses[id] == flag || info.Defs[id] == flag) && i < len(s.Rhs) {
						if tv, ok := info.Types[s.Rhs[i]]; ok && tv.Value != nil && tv.Value.Kind() == constant.Bool && constant.BoolVal(tv.Value) {
							return true
						}
					}
				}
			case *ast.ExprStmt:
				if ce, ok := s.X.(*ast.CallExpr); ok {
					if id, ok := ce.Fun.(*ast.Ident); ok && id.Name == "panic" {
						return true // the path throws
					}
				}
			case *ast.IfStmt:
				thenOK := mustAssign(s.Body.List)
				elseOK := false
				switch e := s.Else.(type) {
				case *ast.BlockStmt:
					elseOK = mustAssign(e.List)
				case *ast.IfStmt:
					elseOK = mustAssign([]ast.Stmt{e})
				}
				if thenOK && elseOK {
					return true
				}
			case *ast.BlockStmt:
				if mustAssign(s.List) {
					return true
				}
			}
		}
		return false
	}
	seen := map[string]bool{}
	ast.Inspect(fd.Body, func(n ast.Node) bool {
		iff, ok := n.(*ast.IfStmt)
		if !ok {
			return true
		}
		ce, ok := unparen(iff.Cond).(*ast.CallExpr)
		if !ok || len(ce.Args) != 1 {
			return true
		}
		sel, ok := ce.Fun.(*ast.SelectorExpr)
		if !ok || (sel.Sel.Name != "hasProperty" && sel.Sel.Name != "hasOwnProperty") {
			return true
		}
		tv, ok := info.Types[ce.Args[0]]
		if !ok || tv.Value == nil || tv.Value.Kind() != constant.String {
			return true
		}
		field := constant.StringVal(tv.Value)
		if field != "get" && field != "set" {
			return true
		}
		seen[field] = true
		r.check(mustAssign(iff.Body.List), field, c.Pos(iff.Pos()), "every non-throwing path marks the descriptor as an accessor descriptor", fmt.Sprintf("§8.10.5 step %s: a descriptor with a `%s` field is an accessor descriptor whatever the field's value, but a path through this branch leaves %s unset: {%s: undefined} is then treated as a generic descriptor", map[string]string{"get": "7", "set": "8"}[field], field, flag.Name(), field))
		return true
	})
	for _, fld := range []string{"get", "set"} {
		if !seen[fld] {
			if c.eClean("SPEC-define-own") {
				r.ok(fld, c.Pos(fd.Pos()), subsumedBy("SPEC-define-own")+" (descriptors whose get / set field is present and undefined are in its domain)")
				continue
			}
			r.undecided("unresolved:"+fld, c.Pos(fd.Pos()), "UNRESOLVED: no test of the `"+fld+"` field in toPropertyDescriptor")
		}
	}
}

func init() {
	register(&Rule{ID: "SENTINEL-inband", Props: []string{"C09", "C02", "C07"}, Min: 1,
		Doc: "G (contradiction rule): a function of package otto that returns a code unit / code point (rune, uint16) and uses a constant as its 'no such element' answer must choose a constant outside the values its other returns can produce. U+FFFD (utf8.RuneError) is a valid character of a script string: when the element at the index is U+FFFD the callers' `== utf8.RuneError` test takes it for 'out of range', so charAt answers \"\", the indexed property disappears, and enumerate and [[GetOwnProperty]] of a String object disagree (a nil property dereferenced in Object.isFrozen)",
		Run: ruleSentinelInband})
}

func ruleSentinelInband(c *Ctx, r *R) {
	n := 0
	for _, fn := range c.AllSrcFuncs("") {
		if fn.Parent() != nil || fn.Signature.Results().Len() != 1 {
			continue
		}
		bt, ok := fn.Signature.Results().At(0).Type().Underlying().(*types.Basic)
		if !ok || (bt.Kind() != types.Int32 && bt.Kind() != types.Uint16) {
			continue
		}
		var consts []int64
		var constSite ssa.Instruction
		dynamic := false
		for _, b := range fn.Blocks {
			for _, ins := range b.Instrs {
				ret, ok := ins.(*ssa.Return)
				if !ok || len(ret.Results) != 1 {
					continue
				}
				var leaves func(v ssa.Value, d int)
				leaves = func(v ssa.Value, d int) {
					if phi, ok := v.(*ssa.Phi); ok && d < 4 {
						for _, e := range phi.Edges {
							leaves(e, d+1)
						}
						return
					}
					if k, ok := constInt(v); ok {
						consts = append(consts, k)
						constSite = ret
						return
					}
					dynamic = true
				}
				leaves(ret.Results[0], 0)
			}
		}
		if !dynamic || len(consts) == 0 {
			continue
		}
		n++
		key := ssaFuncName(fn)
		bad := false
		for _, k := range consts {
			if k == 0xFFFD {
				bad = true
			}
		}
		if bad {
			r.bad(key, c.Pos(instrPos(constSite)), fmt.Sprintf("%s answers 'no such element' with U+FFFD (utf8.RuneError), which is also a value its other return can produce: a string containing U+FFFD is treated as if that position were out of range", ssaFuncName(fn)))
		} else {
			r.ok(key, c.Pos(fn.Pos()), fmt.Sprintf("constant answers %v are not U+FFFD", consts))
		}
	}
	if n == 0 {
		r.ok("census", "-", "no function mixes a constant answer with computed code units")
	}
}

// isScrubHelper: fn takes an accessor pair by value, compares every element with the placeholder, stores nil over it,
// and returns the pair: either with the two constant indices or in a loop over the indices.
func isScrubHelper(fn *ssa.Function, isSentinel func(ssa.Value) bool) bool {
	if fn == nil || len(fn.Blocks) == 0 || len(fn.Params) != 1 {
		return false
	}
	if n := derefNamed(fn.Params[0].Type()); n == nil || n.Obj().Name() != "propertyGetSet" {
		return false
	}
	done := map[int64]bool{}
	loop := false
	for _, b := range fn.Blocks {
		iff, ok := b.Instrs[len(b.Instrs)-1].(*ssa.If)
		if !ok {
			continue
		}
		cmp, ok := iff.Cond.(*ssa.BinOp)
		if !ok || cmp.Op != token.EQL || !(isSentinel(cmp.X) || isSentinel(cmp.Y)) {
			continue
		}
		for _, ins := range b.Succs[0].Instrs {
			st, ok := ins.(*ssa.Store)
			if !ok || !isNilConst(st.Val) {
				continue
			}
			ia, ok := st.Addr.(*ssa.IndexAddr)
			if !ok {
				continue
			}
			if k, isK := constInt(ia.Index); isK {
				done[k] = true
			} else {
				loop = true // an index that runs over the pair (range loop)
			}
		}
	}
	if !(loop || (done[0] && done[1])) {
		return false
	}
	// every return hands back the scrubbed local
	for _, b := range fn.Blocks {
		if ret, ok := b.Instrs[len(b.Instrs)-1].(*ssa.Return); ok {
			if len(ret.Results) != 1 {
				return false
			}
			if a := loadAddr(ret.Results[0]); a == nil {
				return false
			}
		}
	}
	return true
}
