#!/bin/bash
# run_own.sh [name ...] - rule self-validation: each one-instance-broken variant in mutants/own must make the rule named in
# its .rule file report a violation (on a scratch copy; nothing is kept).
set -u
cd "$(dirname "$0")/.."
VERIF=$(pwd)
names=("$@"); [ ${#names[@]} -eq 0 ] && names=($(ls mutants/own/*.diff | xargs -n1 basename | sed 's/\.diff$//'))
run_one() {
  n=$1; want=$(cat $VERIF/mutants/own/$n.rule)
  T=$(mktemp -d /tmp/ownrun.XXXXXX); mkdir -p $T/repo $T/verif
  rsync -a --exclude .git /repo/ $T/repo/; cp $VERIF/known_findings.json $T/verif/
  if ! (cd $T/repo && patch -p1 -s --no-backup-if-mismatch < $VERIF/mutants/own/$n.diff) >/dev/null 2>&1; then echo "$n PATCH-FAILED"; rm -rf $T; return; fi
  if ! (cd $T/repo && GOFLAGS=-mod=mod GOPROXY=off go build ./... ) >/dev/null 2>&1; then echo "$n DOES-NOT-COMPILE"; rm -rf $T; return; fi
  out=$($VERIF/bin/ottocheck rule:$want --repo $T/repo --verif $T/verif 2>&1)
  if echo "$out" | grep -qE "^(VIOLATED|UNDECIDED) rule=$want"; then echo "$n FIRES $want: $(echo "$out" | grep -E '^(VIOLATED|UNDECIDED)' | head -1 | cut -c1-220)"; else echo "$n SILENT (expected $want)"; fi
  rm -rf $T
}
export -f run_one; export VERIF
printf '%s\n' "${names[@]}" | xargs -P 6 -I{} bash -c 'run_one {}'
