#!/bin/bash
# confirm_seed.sh <src-dir with patch.diff demo_test.go notes.md> <id>
# Confirms a seeded change in a scratch worktree of /repo HEAD: applies, suite passes, demo fails with / passes without.
# On success copies it to /verif/seeded/<id>/ with meta.json.
set -u
SRC=$1; ID=$2
export GOFLAGS=-mod=mod GOPROXY=off GOSUMDB=off GOTOOLCHAIN=local; unset GOWORK
WT=$(mktemp -d /tmp/confirm.XXXXXX)
git -C /repo worktree add --detach "$WT" HEAD >/dev/null 2>&1 || { echo "$ID: cannot create worktree"; exit 2; }
cleanup() { git -C /repo worktree remove --force "$WT" >/dev/null 2>&1; rm -rf "$WT"; }
trap cleanup EXIT
pkgline=$(grep -m1 '^package ' "$SRC/demo_test.go" | awk '{print $2}')
case "$pkgline" in
  parser|parser_test) dest="$WT/parser/zz_demo_test.go"; pkg=./parser ;;
  ast|ast_test) dest="$WT/ast/zz_demo_test.go"; pkg=./ast ;;
  *) dest="$WT/zz_demo_test.go"; pkg=. ;;
esac
cp "$SRC/demo_test.go" "$dest"
cd "$WT"
clean_out=$(go test -vet=off -count=1 $pkg 2>&1); clean_rc=$?
if ! git apply --check "$SRC/patch.diff" 2>/dev/null; then
  if ! git apply --3way "$SRC/patch.diff" >/dev/null 2>&1; then echo "$ID: PATCH-DOES-NOT-APPLY"; exit 1; fi
else
  git apply "$SRC/patch.diff"
fi
mut_out=$(go test -vet=off -count=1 $pkg 2>&1); mut_rc=$?
rm -f "$dest"
suite_out=$(go test -vet=off -count=1 ./... 2>&1); suite_rc=$?
git diff HEAD > "$WT/.rebased.diff"
echo "$ID: clean_rc=$clean_rc mutant_demo_rc=$mut_rc suite_rc=$suite_rc"
if [ $clean_rc -eq 0 ] && [ $mut_rc -ne 0 ] && [ $suite_rc -eq 0 ]; then
  mkdir -p /verif/seeded/$ID
  cp "$WT/.rebased.diff" /verif/seeded/$ID/patch.diff
  cp "$SRC/demo_test.go" /verif/seeded/$ID/demo_test.go
  [ -f "$SRC/notes.md" ] && cp "$SRC/notes.md" /verif/seeded/$ID/notes.md
  prop=${ID%%-*}
  python3 - "$ID" "$prop" "$pkg" "$(git -C /repo rev-parse --short HEAD)" <<'PY'
import json,sys,re
id,prop,pkg,head=sys.argv[1:5]
notes=open(f'/verif/seeded/{id}/notes.md').read() if __import__('os').path.exists(f'/verif/seeded/{id}/notes.md') else ''
files=sorted(set(re.findall(r'^\+\+\+ b/(\S+)', open(f'/verif/seeded/{id}/patch.diff').read(), re.M)))
json.dump({"id":id,"breaks_property":prop,"files":files,"confirmed_at_repo_commit":head,
 "needs_to_manifest":"see notes.md",
 "confirmed":{"demo_on_clean_tree":"pass","demo_with_patch":"fail","existing_suite_with_patch":"pass",
  "commands":[f"git apply patch.diff","cp demo_test.go <pkg dir {pkg}>/zz_demo_test.go && go test -vet=off -count=1 {pkg}","go test -vet=off -count=1 ./..."]},
 "source":"independent sub-agent given only the property text and a scratch worktree"}, open(f'/verif/seeded/{id}/meta.json','w'), indent=1)
PY
  echo "$ID: CONFIRMED"
else
  echo "$ID: NOT-CONFIRMED"; echo "--- clean:"; echo "$clean_out" | tail -5; echo "--- mutant:"; echo "$mut_out" | tail -5; echo "--- suite:"; echo "$suite_out" | grep -v "no test files" | tail -5
fi
