#!/bin/bash
# build.sh - rebuilds bin/ottocheck from checker/ (offline flags)
export GOFLAGS=-mod=mod GOPROXY=off GOSUMDB=off GOTOOLCHAIN=local; unset GOWORK
cd "$(dirname "$0")/../checker" && gofmt -l . && go build -o ../bin/ottocheck .
