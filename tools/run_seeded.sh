#!/bin/bash
# run_seeded.sh [id ...]  - runs every check against each seeded change applied to a scratch copy of /repo.
# Prints one line per seed: which properties raise VIOLATION and by which rules. Scratch copies are removed.
set -u
cd "$(dirname "$0")/.."
VERIF=$(pwd)
[ -x bin/ottocheck ] || ./check --list >/dev/null
ids=("$@"); [ ${#ids[@]} -eq 0 ] && ids=($(ls -d seeded/C*/ | xargs -n1 basename))
run_one() {
  id=$1
  T=$(mktemp -d /tmp/seedrun.XXXXXX)
  mkdir -p $T/repo $T/verif
  rsync -a --exclude .git /repo/ $T/repo/
  cp $VERIF/known_findings.json $T/verif/
  if ! (cd $T/repo && git init -q . 2>/dev/null; patch -p1 -s --no-backup-if-mismatch < $VERIF/seeded/$id/patch.diff) >/dev/null 2>&1; then
    echo "$id PATCH-FAILED"; rm -rf $T; return
  fi
  out=$($VERIF/bin/ottocheck all --tier ${TIER:-quick} --repo $T/repo --verif $T/verif 2>&1)
  props=$(echo "$out" | grep '^VIOLATION' | sed 's/.*property=\([A-Z0-9]*\).*/\1/' | sort -u | tr '\n' ' ')
  rules=$(echo "$out" | grep -E '^(VIOLATED|UNDECIDED)' | sed 's/.*rule=\([A-Za-z0-9-]*\).*/\1/' | sort -u | tr '\n' ' ')
  own=${id%%-*}
  hit="MISS"; echo "$props" | grep -qw "$own" && hit="HIT"
  [ -z "$props" ] || [ "$hit" = "HIT" ] || hit="OTHER"
  echo "$id $hit props=[$props] rules=[$rules]"
  echo "$out" | grep -E '^(VIOLATED|UNDECIDED)' | head -5 | sed "s/^/    /" | cut -c1-300
  rm -rf $T
}
export -f run_one; export VERIF TIER
printf '%s\n' "${ids[@]}" | xargs -P 6 -I{} bash -c 'run_one {}'
