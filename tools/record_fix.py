#!/usr/bin/env python3
"""record_fix.py <property> <commit> <key> <what...>: add a "fixed" entry to known_findings.json (tools/run_reverts.sh
stores the diff of every fix: commit itself and expects the checker to fire when it is reverted)."""
import json, subprocess, sys
prop, commit, key = sys.argv[1:4]
what = " ".join(sys.argv[4:])
short = subprocess.check_output(["git", "-C", "/repo", "rev-parse", "--short=7", commit], text=True).strip()
p = "/verif/known_findings.json"
d = json.load(open(p))
d["fixed"].append({"property": prop, "commit": short, "key": key,
                   "what": "fixed: property=%s %s %s" % (prop, short, what)})
json.dump(d, open(p, "w"), indent=1, ensure_ascii=False)
print("recorded", short)
