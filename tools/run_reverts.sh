#!/bin/bash
# run_reverts.sh - validation of the rules against the defects that were repaired: each `fix:` commit of /repo is
# reverted on a scratch copy and every check is run; the rule that found the defect must fire again.
set -u
cd "$(dirname "$0")/.."
VERIF=$(pwd)
mkdir -p mutants/fix-reverts
for h in $(git -C /repo log --format=%h --grep='^fix:'); do
  [ -f mutants/fix-reverts/$h.diff ] || git -C /repo show $h --format= > mutants/fix-reverts/$h.diff
done
run_one() {
  f=$1; h=$(basename $f .diff)
  T=$(mktemp -d /tmp/revrun.XXXXXX)
  mkdir -p $T/repo $T/verif
  rsync -a --exclude .git /repo/ $T/repo/
  cp $VERIF/known_findings.json $T/verif/
  if ! (cd $T/repo && patch -R -p1 -s --no-backup-if-mismatch < $f) >/dev/null 2>&1; then
    echo "$h REVERT-FAILED"; rm -rf $T; return
  fi
  out=$($VERIF/bin/ottocheck all --repo $T/repo --verif $T/verif 2>&1)
  props=$(echo "$out" | grep '^VIOLATION' | sed 's/.*property=\([A-Z0-9]*\).*/\1/' | sort -u | tr '\n' ' ')
  rules=$(echo "$out" | grep -E '^(VIOLATED|UNDECIDED)' | sed 's/.*rule=\([A-Za-z0-9-]*\).*/\1/' | sort -u | tr '\n' ' ')
  subj=$(git -C /repo log -1 --format=%s $h | cut -c1-70)
  st=CAUGHT; [ -z "$props" ] && st=NOT-CAUGHT
  echo "$h $st props=[$props] rules=[$rules] :: $subj"
  rm -rf $T
}
export -f run_one; export VERIF
ls $VERIF/mutants/fix-reverts/*.diff | xargs -P 6 -I{} bash -c 'run_one {}'
