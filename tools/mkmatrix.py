#!/usr/bin/env python3
"""mkmatrix.py: prints, from seeded/RESULTS.txt, the catching rule per seed and round (markdown tables for DESIGN.md section 9)."""
import re, collections
res = {}
for l in open('/verif/seeded/RESULTS.txt'):
    m = re.match(r'^(C\d\d)-([a-z])(\d) (\w+) props=\[([^\]]*)\] rules=\[([^\]]*)\]', l)
    if m:
        res[(m.group(1), m.group(2), m.group(3))] = (m.group(4), m.group(6).split())
import os
retired = set(os.listdir('/verif/seeded/retired')) if os.path.isdir('/verif/seeded/retired') else set()
rounds = sorted({k[1] for k in res})
tot = []
for r in rounds:
    hit = sum(1 for k, v in res.items() if k[1] == r and v[0] == 'HIT')
    oth = sum(1 for k, v in res.items() if k[1] == r and v[0] == 'OTHER')
    n = sum(1 for k in res if k[1] == r)
    tot.append("round %s %d/%d (+%d)" % (r, hit, n, oth))
print("TOTALS: " + ", ".join(tot))
for r in rounds:
    print()
    print("| prop | %s1 | %s2 | %s3 |" % (r, r, r))
    print("|---|---|---|---|")
    for p in sorted({k[0] for k in res}):
        cells = []
        for i in "123":
            key = (p, r, i)
            if "%s-%s%s" % (p, r, i) in retired:
                cells.append("(retired)")
            elif key not in res:
                cells.append("?")
            else:
                st, rules = res[key]
                if st == 'HIT':
                    cells.append(", ".join(rules))
                elif st == 'OTHER':
                    cells.append("(" + ", ".join(rules) + ")")
                else:
                    cells.append("—")
        print("| %s | %s |" % (p, " | ".join(cells)))
