#!/bin/bash
# run selected variants of mutants/$BENIGN_DIR (default benign2) on a scratch copy: rb2.sh name...
cd /verif
for n in "$@"; do
  T=$(mktemp -d /tmp/b2.XXXXXX); mkdir -p $T/repo $T/verif
  rsync -a --exclude .git /repo/ $T/repo/; cp known_findings.json $T/verif/
  (cd $T/repo && patch -p1 -s --no-backup-if-mismatch < /verif/mutants/${BENIGN_DIR:-benign2}/$n.diff) >/dev/null 2>&1 || { echo "$n PATCH-FAILED"; rm -rf $T; continue; }
  out=$(/verif/bin/ottocheck all --repo $T/repo --verif $T/verif 2>&1 | grep -E '^(VIOLATED|UNDECIDED)' | sort -u | cut -c1-${W:-300})
  echo "$n: ${out:-quiet}"
  rm -rf $T
done
