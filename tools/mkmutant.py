#!/usr/bin/env python3
"""mkmutant.py <name> <expected-rule> <file> <<< "OLD\n====\nNEW"  : creates mutants/own/<name>.diff (unified diff against /repo)
   and records the rule expected to fire in mutants/own/<name>.rule"""
import sys, subprocess, os, tempfile, shutil
name, rule, path = sys.argv[1:4]
MUTDIR = os.environ.get("MUTDIR", "own")
spec = sys.stdin.read()
old, new = spec.split("\n====\n")
old = old.strip("\n"); new = new.rstrip("\n")
src = open(os.path.join("/repo", path)).read()
if src.count(old) != 1:
    sys.exit(f"{name}: OLD occurs {src.count(old)} times in {path}")
d = tempfile.mkdtemp()
try:
    a = os.path.join(d, "a", path); b = os.path.join(d, "b", path)
    os.makedirs(os.path.dirname(a)); os.makedirs(os.path.dirname(b))
    open(a, "w").write(src); open(b, "w").write(src.replace(old, new))
    out = subprocess.run(["diff", "-u", "a/" + path, "b/" + path], cwd=d, capture_output=True, text=True).stdout
    open(f"/verif/mutants/{MUTDIR}/{name}.diff", "w").write(out)
    open(f"/verif/mutants/{MUTDIR}/{name}.rule", "w").write(rule + "\n")
    print(name, "ok", len(out.splitlines()), "lines")
finally:
    shutil.rmtree(d)
