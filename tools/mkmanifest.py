#!/usr/bin/env python3
"""Regenerates /verif/MANIFEST.json from the per-property table below.
The rule -> property mapping is read from the checker itself (`ottocheck --list`)
so the manifest never claims a property no rule serves."""
import json, subprocess, sys, os

VERIF = os.path.dirname(os.path.dirname(os.path.abspath(__file__)))

# property -> (technique, what is decided, what is not decided / assumed)
P = {
 "C01": ("exhaustiveness chains parser->compiler->evaluator, operator-table agreement, who-may-call routing, node-immutability census, deferred scope/label/lexical restoration on all CFG paths",
         "Decides structural necessary conditions only: every AST node type is compiled and every compiled node type evaluated (no syntactic form lost), every operator token the parser can store has an evaluator arm, all five submission routes funnel into one evaluator entry, compiled nodes are never written after compilation, and scope/label/lexical-environment state is restored by a defer placed before anything can panic.",
         "Not decided: the value any program computes (hoisting, this-binding, completion values, arguments aliasing) - no executable ES5 semantics exists in this technique family."),
 "C02": ("guard-before-use dataflow on script-controlled values in every registered built-in, panic-operand census, unchecked type-assertion census, API-boundary recover coverage, stack-guard ordering, table exhaustiveness",
         "Decides absence (or exact enumeration) of the structural ways a Go panic can be raised by script-controlled data and escape: every public API root that reaches throwing internals does so under catchPanic; every panic operand is a JS-catchable type or sits in a provably dead default arm; every built-in guards call.This/arguments before dereferencing; every unchecked type assertion is justified by the Value/class representation invariant; the stack-depth test precedes the scope push.",
         "Not decided: index-out-of-range / nil dereference on values that are not script-derived, memory exhaustion, every numeric edge. Thorough tier adds call-graph (VTA) reachability and residual-recursion SCC review."),
 "C03": ("precedence-ladder extraction compared with the ES5 grammar table; symbolic execution of the scanner's punctuation switch; keyword table comparison; flag save/restore pairing",
         'Decides the grammar-shape clauses: the binary-operator ladder has the ES5 levels in the ES5 order with the ES5 token sets, left/right associativity and comparison flag, and the conditional/assignment/comma/unary/postfix tails chain as ES5 11.3-11.14 say; the scanner can emit exactly the ES5 7.7 punctuators and each maps to the token of that spelling; the keyword table is the ES5 reserved-word list with the right strictness; every operator the parser emits has an evaluator arm; the no-in and iteration/switch/function flags are restored on every exit.',
         'Not decided: literal values (number/escape decoding), regexp-vs-division choice, automatic semicolon insertion (including restricted productions), whitespace/comment insensitivity.'),
 "C04": ("parser loop-progress (termination) analysis on the CFG, Bad-node-implies-error dominance, parse-before-evaluate ordering, Walk exhaustiveness and typed-nil guards, panic census of parser/ast/file",
         "Decides: every parser loop consumes a token on each iteration and stops at EOF (termination), every BadExpression/BadStatement construction is preceded by an error record, a non-nil parse error makes evaluation unreachable, ast.Walk has a case for every node type visiting every child field exactly once and never passes a typed nil, and no foreign panic is raised in the parser packages outside reviewed dead arms.",
         "Not decided: that error positions lie inside the input, span containment (runtime offsets), the exact set of rejected texts beyond the enumerated early errors."),
 "C05": ("value-representation table agreement (producers of Value payload types vs total readers), operator-table agreement, kind-order evaluation",
         "Decides: every Go payload type that can be stored in a number/string/boolean Value is handled by every total conversion routine (float64, string, bool, number, export, MarshalJSON, toReflectValue); every operator token reaches an implementation and the comparison flag is consistent; ordered comparisons on the kind enum select the ES5 type sets.",
         "Not decided: numeric results of conversions and operators."),
 "C06": ("library-semantics guard rules: strconv/Format calls on script data must be dominated by the ES5 grammar / range guard",
         "Decides the two structural clauses: text->number conversion passes an ES5-grammar guard before strconv.ParseFloat/ParseInt (which accept more than ES5), and toFixed/toExponential/toPrecision/toString(radix) test lower and upper bounds (RangeError) before formatting.",
         "Not decided: shortest-digit output, layout thresholds, correct rounding, radix digits."),
 "C07": ("ownership census of the property table writers, guard dominance at every writer (extensible / configurable), objectClass slot exhaustiveness, property payload types",
         "Decides representation invariants every 8.12 algorithm relies on: the property map and order list change together and only in the two primitive writers; creating a key is dominated by the extensible test and deleting by the configurable test; every objectClass fills all slots; property payloads are Value or propertyGetSet at every construction site; the initial heap is self-consistent.",
         "Not decided: the ~40 decision paths of [[DefineOwnProperty]], descriptor conversion results, enumeration order after arbitrary histories."),
 "C08": ("sibling agreement over the Array.prototype built-ins (receiver and length acquisition, hole tests, callback argument shape), length payload representation, canonical index guard",
         "Decides: every Array.prototype method obtains its receiver by thisObject() and its length via ToUint32(get(length)); iteration methods test hasProperty before get/callback and pass (value, numeric index, object); the array length payload is always uint32; stringToArrayIndex accepts only canonical forms.",
         "Not decided: each method's algorithm, the length invariant under arbitrary writes, sort."),
 "C09": ("unit-typed dataflow (bytes / UTF-16 units / runes) over the string built-ins; sibling receiver-coercion rule; guard-before-use",
         "Decides: no index/slice or position returned to the script definitely mixes byte, rune and UTF-16 units outside the keyed known findings; every String.prototype method coerces its receiver via checkObjectCoercible or a class guard before use.",
         "Not decided: results for particular strings (clamping, case mapping, split)."),
 "C10": ('unit-typed dataflow over the exec/match/replace/search/split protocol, nil-field contradiction rule, Must*-on-constants rule, effect rule for search',
         'Decides: lastIndex/index positions are not definitely mixed between bytes and UTF-16 units outside the keyed known findings; the compiled regexp pointer is non-nil wherever it is dereferenced; no Must* library constructor receives script data; String.prototype.search never reads or writes lastIndex; no package-level cache couples regexps of different runtimes.',
         "Not decided: soundness of the pattern translation, capture groups, the matching protocol's values (a language-equivalence question)."),
 "C11": ("type-switch exhaustiveness over encoding/json's dynamic types, cycle-test dominance, gap bound dominance, error mapping",
         "Decides: JSON.parse's walker covers every dynamic type encoding/json can produce; every recursive stringify step on an object is dominated by the cycle test that throws TypeError; the gap is clamped to 10 before it is stored; Unmarshal errors map to SyntaxError on all paths.",
         "Not decided: acceptance of exactly the JSON grammar (delegated to encoding/json), round-trip equality, reviver order, property order of parsed objects."),
 "C12": ("sibling dominance rule over the Date.prototype built-ins",
         "Decides only the last sentence (an invalid date stays invalid): every Date.prototype method obtains its date through the class guard and branches on isNaN before using the time value.",
         "Not decided: the whole time-value algebra."),
 "C13": ("constant character-set tables compared as sets with ES5; library special-case guard rules",
         "Decides: the URI reserved/unescaped sets, escape()'s unescaped set and the trim whitespace set equal the ES5 sets exactly; Math.pow guards the |x|==1, y=+-Inf case; Math.round is not built on math.Round; isNaN/isFinite apply ToNumber.",
         "Not decided: remaining special-case cells, inverse laws, URI round trips on multi-byte input."),
 "C14": ("abstract interpretation of the generated heap-construction literal compared with an independent ES5 section 15 table (exhaustive)",
         "Decides exhaustively, for a fresh runtime: every ES5 15.1-15.12 + Annex B.2 binding is present with the specified kind, function length, attributes, [[Class]], [[Prototype]], constructor/prototype links and constant value; no built-in binding anywhere is enumerable; property map and order list agree; bindings are injective outside the ES5 alias groups (no cross-wiring); construction order never reads an unassigned intrinsic.",
         "Not decided: the runtime after underscore (JavaScript source) is loaded; behaviour of each bound function. Copy() shape rests on the CLONE rules of C17."),
 "C15": ('value-representation table agreement for Go->Value->Go, API-boundary escape analysis, package-state census',
         'Decides: every Go payload type toValue can store for a number/string/boolean is handled by every conversion routine that later reads it (ToNumber, ToString, ToBoolean); no method of Value/Object/Otto lets a panic escape except the keyed known findings; conversions share no package-level mutable state.',
         'Not decided: equality of the round-tripped value, Export of containers, call equivalence. Thorough tier adds the recursion-cycle review (cyclic Export is a known finding).'),
 "C16": ('panic-operand census in the bridge files, unchecked-assertion census on descriptors and payloads, package-state census',
         'Decides: conversion failures on bridged maps, slices and arrays are raised as TypeError/RangeError exceptions (no Go error value is panicked); every unchecked type assertion on a property descriptor or bridge payload is justified by a dominating test or by the class/payload pairing of the constructors; the bridge keeps no package-level cache shared between runtimes or types.',
         'Not decided: exactness of each numeric conversion cell (overflow/rounding), argument-buffer aliasing, arity reporting, aliasing under interleaved Go-side mutation.'),
 "C17": ("field-by-field clone routing rule over every clone function, positional-literal agreement, lock pairing",
         "Decides: in every clone function each reference-typed field of the produced struct is routed through the cloner (or is in the reviewed immutable table); the positional global{...} literal clones the i-th field from the i-th field; every payload type owning a runtime reference has a clone case; the clone runs under the runtime lock with a deferred unlock.",
         "Not decided: observational equivalence of the copy."),
 "C18": ("must-pass-through analysis for interrupt polling on every evaluator cycle, defer pairing before any may-panic instruction for scope/label/lexical state, recover-site sibling rule, stack-guard ordering",
         "Decides: the evaluator entry points poll the interrupt channel and every unbounded evaluator loop passes through a poll; scope, label and lexical state are restored by a defer registered before anything can panic (so at every injection point); recover sites re-panic foreign payloads; the depth check precedes the push.",
         "Not decided: exact admitted nesting (off-by-one arithmetic), promptness in time, state of host objects."),
 "C19": ('error-name table agreement, thrown-payload exhaustiveness at the recover sites, panic-operand census, call-site offset ordering, intrinsic-prototype rule',
         'Decides: every constant error name raised internally is one of the seven ES5 native errors and has a constructor arm; every JS-catchable payload type has a case in catchPanic and tryCatchEvaluate; internal throws use catchable payloads (never bare Go errors) outside reviewed dead arms; the call-site offset is stored after the arguments are evaluated; internally raised errors take their prototype from the runtime intrinsics, not from a rebindable global.',
         'Not decided: line/column arithmetic, message text, trace contents and limits.'),
 "C20": ("write-census of package-level state and compiled nodes (no store after init on any path), no-concurrency census, lock pairing, clone routing",
         "Decides: no package-level variable of the core packages is written after initialisation from code reachable from the API; compiled nodes, ast and file objects are never written by execution; no goroutine or channel other than Interrupt exists in the core packages; clones share no mutable reference.",
         "Assumed: the standard-library objects used (regexp, time.Local, math/rand top-level, x/text printers) are concurrency-safe as documented. Not decided: result equality under interleavings (follows from no sharing, which is what is checked)."),
}

# additions for the rules built after the second seeding round: (technique, decided) appended to the entries above
ADD = {
 "C01": ("identifier-resolution environment rule; declaration-binding step order; relational-operator operand order and LeftFirst flag; enumeration-under-mutation rule",
         "Identifier resolution starts at the LexicalEnvironment at every call site. Function entry binds parameters, then the arguments object, then function declarations, then vars (ES5 10.5); each relational arm passes its operands in the prescribed order with the prescribed LeftFirst flag; no writer shifts the property-order list in place under a running enumeration."),
 "C02": ("recursion-depth census (parser cycles need a depth guard; cycles driven by script-built values must read the stack limit); recover-handler analysis of the API boundary; nil function-field contradiction rule; typestate of the accessor placeholder; unchecked-assertion census extended to parser/ast/file; typed-nil census; constant-index guard rule in the parser; prototype payload agreement",
         "Every recursion that does not pass through a script call is bounded by a Go type, a constant or the compiled tree, or consults the stack limit itself (the parser's own unbounded nesting is a known finding). The code that turns a caught value into an error makes no call that can throw again; no function field some literal leaves nil is called without a nil test. The placeholder object nilGetSetObject never reaches the property table; no unchecked type assertion in the parser packages can fail on script-supplied text (Function constructor). Every constant index or slice bound on parser input is dominated by a length test that covers it; the internal value of each primitive-wrapper / Date / RegExp prototype has the Go type its constructor stores."),
 "C03": ("interprocedural typestate analysis of the allowIn flag; restricted-production rule; dead flag-store rule (also per call site); member-suffix ladder rule; Idx/offset unit rule",
         "After return/break/continue/throw and before a postfix ++/-- the operand is taken only when the scanner saw no line terminator (7.9.1). Every place the grammar says Expression/AssignmentExpression is entered only with allowIn=true, the for initialiser only with false, and every writer of the flag restores it; no store to a scanner/parser flag is overwritten before it can be read."),
 "C04": ("recursion-depth rule for the parser and the pattern translator; totality proof of the span methods (every parser store into an indexed slice field proved non-empty); position-field reader/writer agreement; typed-nil census; early-error rule for regular expression literals; constant-index guard rule",
         "Idx0/Idx1 of every node type are total on the trees the parser builds and every position field they read is set at every construction site; no possibly-nil pointer is converted to a node interface. A regular expression literal is translated and compiled at parse time and both errors are reported; constant indexing of parser input is length-guarded."),
 "C05": ("abstract execution of the == case analysis over all 36 kind pairs; typeof table; finite evaluation of the relational outcome mapping; argument-conversion table; sibling equality-kind table; positive/negative corpus for the StringNumericLiteral guard",
         "For every ordered pair of kinds the case analysis of == reaches exactly the outcomes the ten steps of 11.9.3 reach; typeof maps each kind to the string of table 20. The four relational operators map the three-valued comparison outcome as ES5 11.8.1-4 prescribe (undefined -> false); sameValue / strict equality / == agree on the six kinds and only SameValue distinguishes the zeros; the ToNumber grammar guard accepts every ES5 form and rejects every Go-only form."),
 "C06": ("argument-conversion table; undefined-default rule",
         "parseInt's radix is converted with ToInt32, toFixed/toExponential/toPrecision/toString arguments with ToInteger, and an explicit undefined takes the default where the clause says so."),
 "C07": ("ToPropertyDescriptor accessor-flag must-assign; placeholder typestate; [[CanPut]] consultation order; integrity-function attribute table; enumeration-under-mutation rule; exotic [[GetOwnProperty]] fallback; SameValue call-site rule",
         "A descriptor with a get or set field (undefined included) is an accessor descriptor on every path; object.extensible is consulted only where 8.12.4 consults it; freeze/seal/preventExtensions/isFrozen/isSealed/isExtensible touch exactly the attributes of their algorithm and freeze clears [[Writable]] independently of [[Configurable]]; the enumeration primitive re-validates names and no writer shifts the order list in place; every exotic [[GetOwnProperty]] answers 'absent' only after the ordinary lookup; [[DefineOwnProperty]] compares with SameValue."),
 "C08": ("undefined-default rule; length-put must-pass-through rule; argument-conversion table; strict-equality call-site rule",
         "slice/splice/join/sort arguments are converted / defaulted as their clauses say; pop push shift splice unshift end every path with Put(length, n, true); indexOf/lastIndexOf compare with ===."),
 "C09": ("undefined-default rule; argument-conversion table; exotic [[GetOwnProperty]] fallback",
         "String.prototype position/length/limit arguments get the conversion of their clause and undefined takes the default; String objects' own-property lookup consults ordinary properties first."),
 "C10": ("sibling agreement of the pattern translator's top-level and group loops; undefined-default rule for the RegExp constructor; argument-conversion table (exec/test/match/replace/search/split)", "RegExp(pattern, flags) treats undefined as empty; the regexp built-ins convert their string arguments with ToString and split's limit with ToUint32."),
 "C11": ("Str step-order rule", "In JSON.stringify's walker toJSON is applied before the replacer function is called (15.12.3 Str steps 2-3)."),
 "C12": ("setter table executed for every argument count; UTC/local sibling rule; argument-conversion table; dead NaN-test contradiction rule", "Each Date.prototype.set* method assigns, for k arguments, exactly the first k time fields of its ES5 list from the arguments of the same position, with the argument limit and the zone flag of its name; UTC getters never convert to local time and local getters always do. Date constructor / Date.UTC / set* arguments are converted with ToNumber (not a NaN-absorbing conversion); no NaN test is applied to a value that can no longer be NaN."),
 "C13": ("argument-conversion table for Math and the global functions; signed-zero obligation for max/min; dead NaN-test rule", "Every Math function converts every argument with ToNumber and nothing else; Math.max/min order +0 above -0 (math.Max/Min or a sign-bit test)."),
 "C14": ("prototype payload agreement", "Boolean/Number/String/Date/RegExp.prototype hold an internal value of the Go type their constructor stores."),
 "C15": ("wrapping-conversion census", "Every conversion from an unsigned 64-bit-wide integer to a signed one is range-guarded or reviewed."),
 "C16": ("two-sided range test in every integer arm of toReflectValue; wrapping-conversion census; captured-buffer rule for native function closures", "No bridged call shares an argument buffer allocated outside the per-call closure; unsigned-to-signed 64-bit conversions are range-guarded."),
 "C17": ("copy-loop exhaustion rule; File immutability; Otto.Copy freshness", "No copy loop in a clone function leaves early; a file.File is never written after construction."),
 "C19": ("frame-address escape rule", "Error traces and Context stack traces hold value copies of frames: the address of a live scope's frame is never stored, appended or passed on; the copy's error prototypes are wired positionally."),
 "C20": ("File immutability; frame-address escape rule; captured-buffer rule", "A Script's file.File is never written after construction (no lazily filled cache); no native closure writes a buffer captured from outside."),
}
for _pid, (_t, _d) in ADD.items():
    t0, d0, n0 = P[_pid]
    P[_pid] = (t0 + "; " + _t, d0 + " Also: " + _d, n0)

ADD2 = {
 "C01": ("labelled-break consumption rule; for-in abrupt-completion rule", "A labelled break/continue is consumed only by the statement carrying that label; every abrupt completion of a for-in body stops the walk over the prototype chain."),
 "C02": ("saturating-arithmetic dataflow for script-supplied integers; in-band sentinel typestate; typed-value dataflow over the reflect calls of the bridge; clone nil contradiction rule", "No sum or difference of script-supplied 64-bit integers that can wrap reaches a slice bound or an index; a sentinel value is distinct from every legitimate result of the function returning it; every reflect Set/SetLen/SetMapIndex/MapIndex/Call/Append/MakeSlice of the Go bridge has its precondition (settable receiver, operand assignable to the required type, non-nil map, non-negative length) established on the path; (*cloner).object is never handed a pointer field that can be nil."),
 "C03": ("delimiter pairing rule", "Every opening delimiter the parser consumes with expect() is matched by an expect() of its closing delimiter on every path that builds the node."),
 "C04": ("delimiter pairing rule", "A construct whose closing delimiter is missing at end of input is a syntax error: no parse function accepts EOF in place of the closer it records the position of."),
 "C07": ("for-in abrupt-completion rule; in-band sentinel typestate", "A return/break out of for-in ends the enumeration of inherited properties as well."),
 "C08": ("saturating-arithmetic dataflow", "Array/String position arithmetic on clamped script integers cannot wrap."),
 "C09": ("saturating-arithmetic dataflow; in-band sentinel typestate", "substr/lastIndexOf position arithmetic cannot wrap; the 'no such index' sentinel of the string exotic object is not a value a valid index can take."),
 "C12": ("must-store dataflow for the Date representation", "Every path through (*dateObject).Set assigns all of the representation fields (time, epoch, value, isNaN), so a Date repaired with a valid time value stops being NaN."),
 "C15": ("typed-value dataflow over the reflect calls of the bridge", "Export's typed-slice construction compares element types, not only kinds."),
 "C16": ("typed-value dataflow over the reflect calls of the bridge (coinductive typed-return summaries of toReflectValue / convertCallParameter / convertNumeric)", "Every value handed to reflect Set/SetMapIndex/Call/Append was made assignable to the type the receiver requires (Convert(T), Zero(T), Make*(T), an AssignableTo test, or a typed-return conversion function), receivers of Set/SetLen are settable by construction or tested, and the failure is an error or exception the script sees rather than a reflect panic."),
 "C17": ("clone nil contradiction rule", "Copy() never dereferences an optional pointer field (the arguments object of a function environment)."),
 "C19": ("error-description census; printf-format dataflow; errors.Is target rule", "Every error the interpreter raises carries a description; run-time text is never used as a printf format (messages containing '%' are reported verbatim); no errors.Is test is dead by construction."),
}
ADD3 = {
 "C03": ("scanner sibling rules (peek / read agreement, line terminators inside multi-line comments, ASI after a dot member, where regexp flags come from)", "peek() looks at the byte the next read() consumes; a multi-line comment containing a line terminator raises the newline flag; the name of a dot member arms automatic semicolon insertion; (known finding) regexp flags are taken from the next token."),
 "C04": ("property-name key-or-error rule; scanner sibling rules", "The object-literal property-name reader returns a key or reports a syntax error on every path."),
 "C08": ("abstract evaluation of the Array [[DefineOwnProperty]] (15.4.5.1) on all arrays of length 0..3 with absent / configurable / non-configurable elements", "Truncation through `length` stops at the first non-configurable element and leaves length one above it, a read-only length takes effect after the truncation, a non-writable length blocks growth but accepts its own value, and an index at or above length grows it. concat / map / slice / splice keep holes (the absent side of every hasProperty branch that fills a result array writes the emptyValue marker); reduce / reduceRight never return an unassigned accumulator; the sort's sign helper does not consult IsInf."),
 "C13": ("must-pass-through of argument conversions in the Math built-ins", "Every Math function converts each of its arguments before computing: no return skips a conversion, no loop over the argument list is left early."),
 "C01": ("for-in shadowing rule", "The for-in evaluator keeps the set of names seen along the prototype chain (non-enumerable own names included), so no name is visited twice and shadowed names stay hidden."),
 "C07": ("abstract evaluation of toPropertyDescriptor + [[DefineOwnProperty]] over every reachable representation of a property and all 1728 descriptor shapes; abstract evaluation of [[Put]]/[[CanPut]]/[[Delete]] over own x prototype representations", "Every edge of the state graph of one property under Object.defineProperty agrees with ES5 8.10.5 + 8.12.9 (TypeError or resulting attributes and payload), hence every history of definitions on it; the Array (15.4.5.1) and arguments-object (10.6) variants agree with their algorithms on small arrays / a mapped and an unmapped index; Object.getOwnPropertyDescriptor reports exactly the stored attributes (8.10.4), the six integrity built-ins (15.2.3.8-13) change and report exactly what their algorithms say on objects with two properties in reachable representations, Object.defineProperties converts all descriptors before defining any; assignment and deletion agree with 8.12.4-5 and 8.12.7 for every combination of own property, prototype property, extensibility and strictness (which setter is called with which receiver included)."),
 "C02": ("depth-accounting must-pass-through rule; third-party call census", "Every path of (*object).call into a callee enters a scope first (or is the direct-eval branch, whose built-in counts its own nesting), so the stack depth limit sees every script-level call; every call into third-party code is recovered, self-recovering or reviewed."),
 "C17": ("native-closure capture rule; mutable-payload clone rule", "No native function literal captures the runtime, an object or a stash of the runtime that created it (payloads are copied verbatim); every pointer payload whose fields change after construction gets a fresh wrapper in the copy."),
 "C18": ("depth-accounting must-pass-through rule", "The stack depth limit is enforced for calls made from Go on a runtime at rest and for nested direct eval as for ordinary calls."),
 "C19": ("frame.file pairing rule; third-party call census", "Eval code run in the caller's scope puts the caller's file and offset back; position lookup through a script-supplied source map cannot panic."),
 "C20": ("native-closure capture rule; mutable-payload clone rule", "Copies share no closure bound to the template runtime and no mutable bridge wrapper."),
}
ADD4 = {
 "C01": ("completion-consumption table evaluated abstractly; [[DefaultValue]] sequence evaluated abstractly", "Loops consume break and continue, switch and labelled blocks only break; [[DefaultValue]] looks up and calls valueOf / toString in the order 8.12.8 prescribes."),
 "C03": ("per-token store of the ASI flag", "Every return of the scanner stores insertSemicolon for the token it returns (reserved words excepted)."),
 "C05": ("[[DefaultValue]] sequence evaluated abstractly; ToPrimitive dataflow in the + operator", "The second method of [[DefaultValue]] is looked up only after the first was called; `+` converts both operands with ToPrimitive before any ToString / ToNumber."),
 "C07": ("class-table slot sibling rule; String index attribute table", "A class with its own [[GetOwnProperty]] also overrides every ordinary slot that reads the property table directly; String index properties are enumerable, read-only, non-configurable."),
 "C09": ("ToString(this) must-pass-through over String.prototype; class-table slot sibling rule", "Every generic String.prototype function applies ToString to its this value on every returning path; the index properties of a String object cannot be redefined."),
 "C18": ("census of the writers of scope.depth", "Only enterScope and the eval built-in's increment / deferred decrement write the depth the stack limit is compared with."),
 "C20": ("method-call census on package-level library objects", "Package-level objects shared by all runtimes are of types documented as safe for concurrent use."),
}
ADD5 = {
 "C01": ("Reference-escape dataflow over the evaluators; declaration environment; finally environment", "Outside the expression evaluator entry an evaluation result reaches a return only through resolve(); declared functions close over the variable environment; the catch environment is taken off before finally."),
 "C02": ("taint census of allocations sized by a claimed length; census of every float64-to-integer conversion", "No slice is sized by ToUint32 of a length without an upper bound test (8 known findings); float conversions are range-tested, reduced modulo a constant, or round-trip tested."),
 "C05": ("census of every float64-to-integer conversion", "ToInt32 / ToUint32 / ToUint16 reduce modulo 2^32 / 2^16 before converting."),
 "C07": ("sibling agreement over the defineOwnProperty slot and over the Object.* argument test; census of fields read but never stored", "Every exotic [[DefineOwnProperty]] consults extensible or delegates; the ES5 functions of Object throw for a non-object; no decision hangs on a field nothing sets."),
 "C11": ("census of [[Put]] on freshly created objects", "The JSON wrapper objects are filled with [[DefineOwnProperty]]."),
 "C12": ("NaN-side table for toISOString; clipped-parameter acceptance for the epoch conversions", "toISOString of an invalid date raises RangeError; time values are clipped to 8.64e15 before any conversion."),
 "C19": ("sibling agreement of the pattern compilers' failure class; valid call-site offsets", "Both regexp compilers' failures are SyntaxErrors; the offset stored in the caller's frame is a node position (known finding for computed callees)."),
 "C04": ("separator path search over the parser's list loops", "Between two elements of a comma-separated list every parser path passes a comma test or expect(COMMA)."),
 "C15": ("reflect.Kind dataflow at every Convert; representation census of string payloads", "Every reflect Convert is numeric/string/bool to the same class, or under CanConvert, or under ConvertibleTo with a non-array target; the raw payload of a possibly-string Value never leaves a function unasserted."),
 "C16": ("reflect.Kind dataflow at every Convert; nil-safe promoted field walks", "Convert cannot panic for any script operand; fields promoted through embedded pointers are reached with FieldByIndexErr."),
 "C18": ("path simulation of every recover handler for the interrupt marker type", "A panic of the function received on Otto.Interrupt is wrapped in a marker at the poll sites, re-panicked unchanged by the try statement's handler and unwrapped by the handlers directly under the exported API."),
}
ADD6 = {
 "C06": ("exhaustive evaluation of parseInt's text handling over a quotient of strings", "Which digit run, radix and sign reach the numeric conversion agrees with 15.1.2.2 for every string up to length 3 over the character classes the algorithm distinguishes."),
 "C08": ("exhaustive evaluation of the index helpers and of the probe sequence of indexOf / lastIndexOf", "Relative-index clamps and scan bounds agree with 15.4.4.10-15 on a domain that realises every ordering of argument, 0 and length."),
 "C09": ("exhaustive evaluation of the index helpers", "slice / substring / substr positions agree with 15.5.4.13, 15.5.4.15 and B.2.3 on the same domain."),
 "C10": ("exhaustive evaluation of the exec helper", "Which suffix is searched, every write of lastIndex and the reported offsets agree with 15.10.6.2 for 30 combinations of lastIndex, global and matcher outcome."),
 "C12": ("two-digit-year window on ToInteger; revive of invalid dates by setFullYear; int64-nanosecond census", "The 0..99 window is tested on an integral value; setFullYear restarts from +0; no UnixNano on script-chosen times."),
 "C14": ("abstract evaluation of the error constructor helper; Date.prototype payload", "Error instances get no own name; Date.prototype is the invalid date."),
}
ADD7 = {
 "C01": ("path census of repeated conversions of one script value; throw-before-arguments order in call / new", "No operand or argument is converted twice on one feasible path; a call or new expression decides no TypeError before its arguments are evaluated."),
 "C02": ("dominance of hasBinding over every createBinding", "The environment-record primitive that asserts a fresh name is only called on the not-bound side of hasBinding for the same record and name (or as the single binding of a record just created)."),
 "C05": ("path census of repeated conversions of one script value", "No operand is converted to a primitive, number or string twice on one feasible path (boolean phi flags are followed)."),
 "C09": ("path census of repeated conversions of one script value", "No argument of a String built-in is converted twice, also across two loops over the argument list."),
 "C11": ("order of the replacer call and the unboxing of wrapper objects", "The stringify walker unboxes Number / String / Boolean objects only after the replacer function has been called (Str steps 3-4)."),
}
ADD8 = {
 "C03": ("exhaustive evaluation of the string-literal value function over a quotient of escapes; one line-terminator table, many readers", "The value of every escape (hex, unicode, octal with the B.1.2 bound, line continuation, identity) agrees with 7.8.4 on ~1600 literals; every scanner function that tests for a line terminator tests for all four."),
 "C04": ("exhaustive evaluation of the string-literal value function; line-terminator set census", "Same two rules: literal values and the line-terminator set of 7.3 in every scanner function."),
 "C05": ("guard-before-use in the `in` / `instanceof` arms", "The right operand is tested for Object and a TypeError raised otherwise, with no ToObject coercion."),
 "C19": ("guard-before-use in the `in` / `instanceof` arms", "A non-object right operand of `in` / `instanceof` raises a TypeError."),
 "C08": ("[[GetOwnProperty]] census in the Array.prototype algorithms", "Elements are tested with [[HasProperty]] and read with [[Get]], never looked up as own properties."),
}
ADD9 = {
 "C05": ("exhaustive evaluation of the comparison implementation over the case analysis of 11.9.3 / 11.9.6 / 11.8.5", "All eight comparison operators agree with ES5 on every ordered pair of twelve operands (1152 cases), including which operand ToPrimitive is applied to first; structural rules on the same function defer to this evaluation when the code is restructured."),
 "C01": ("exhaustive evaluation of the comparison implementation", "Results and conversion order of == != === !== < > <= >= on the operand table."),
}
ADD10 = {
 "C01": ("stale-pointer, take-before-use and per-iteration path rules over the evaluator", "No execution context is written through a scope pointer read before a call that changes rt.scope; the iteration and switch evaluators take the pending label set before evaluating any part of the statement; the for-in reference is computed inside the enumeration callback."),
 "C03": ("exhaustive evaluation of the numeric-literal value function; token-adjacency rules of the regular expression literal", "Every decimal, legacy-octal and hexadecimal literal form (38 + 4 literals, hex beyond 2^63 modulo 2^64, integers beyond 2^53 as doubles) has the value of 7.8.3 / B.1.1; the flags of a regular expression literal are not taken across a line break; the scanner arms semicolon insertion for both tokens that begin a literal; the keyword lookup does not depend on the raw first character."),
 "C04": ("token-state path search for a trailing separator; keyword lookup independent of the raw character", "In lists closed by a right parenthesis a consumed comma is followed by an element or an error (two known findings: the suite pins the leniency); an identifier spelled with a unicode escape is still looked up in the keyword table; a labelled statement hands the pending continues that name an outer label on instead of dropping them."),
 "C05": ("exhaustive evaluation of ToNumber applied to a string; step order of [[HasInstance]]", "70 texts (white space, every StrDecimalLiteral form, negative zero, Infinity, both hex spellings, Go-only numeric forms) convert as 9.3.1 prescribes; [[HasInstance]] tests its argument for Object before it reads `prototype`."),
 "C06": ("exhaustive evaluation of ToNumber(string) and of the numeric literal; 2^53 bound on integers printed as decimal digits; sign of integer remainders", "String-to-number on the 70-text table and literal values on the literal table; a float64 printed through FormatInt / Itoa is bounded by 2^53 on the path; no signed remainder with a possibly negative dividend is used uncorrected."),
 "C07": ("ownership of the raw property-table reader", "The raw reader is applied only to the object a class function was handed, never to one reached through the prototype link (whose class may answer [[GetOwnProperty]] itself)."),
 "C09": ("exhaustive evaluation of String.prototype.indexOf / lastIndexOf", "196 cases (seven search strings, fourteen positions including NaN and the infinities) agree with 15.5.4.7 / 15.5.4.8."),
 "C11": ("nil-ness of the replacer list; control dependence of the reviving walk", "An array replacer always yields a non-nil property list where nil means `no array`; the reviver is applied whatever the parsed root is; a recursion counter kept behind a pointer is decremented again."),
 "C12": ("sign of integer remainders", "No Go remainder of a possibly negative time value is used as a non-negative field (msFromTime before 1970)."),
 "C13": ("surrogate tests of the URI encoder; percent-escape formats", "Two code units are tested against DC00..DFFF on URIError branches; no constant format writes a percent escape with an unpadded hexadecimal verb."),
 "C18": ("operand-type flow into package fmt; nesting-aware unwrap of the interrupt marker", "No value whose String method runs script code (computed: Value, *object) is an operand of a fmt formatter, whose panic recovery would swallow an interrupt (three repairs); a handler that is also reached from the evaluator does not unwrap the marker; the API guards' unconditional unwrap under nested entry is a known finding."),
}
for _pid, (_t, _d) in ADD10.items():
    t0, d0, n0 = P[_pid]
    P[_pid] = (t0 + "; " + _t, d0 + " Also: " + _d, n0)

for _pid, (_t, _d) in ADD9.items():
    t0, d0, n0 = P[_pid]
    P[_pid] = (t0 + "; " + _t, d0 + " Also: " + _d, n0)

for _pid, (_t, _d) in ADD8.items():
    t0, d0, n0 = P[_pid]
    P[_pid] = (t0 + "; " + _t, d0 + " Also: " + _d, n0)

for _pid, (_t, _d) in ADD7.items():
    t0, d0, n0 = P[_pid]
    P[_pid] = (t0 + "; " + _t, d0 + " Also: " + _d, n0)

for _pid, (_t, _d) in ADD6.items():
    t0, d0, n0 = P[_pid]
    P[_pid] = (t0 + "; " + _t, d0 + " Also: " + _d, n0)

for _pid, (_t, _d) in ADD5.items():
    t0, d0, n0 = P[_pid]
    P[_pid] = (t0 + "; " + _t, d0 + " Also: " + _d, n0)

for _pid, (_t, _d) in ADD4.items():
    t0, d0, n0 = P[_pid]
    P[_pid] = (t0 + "; " + _t, d0 + " Also: " + _d, n0)

for _pid, (_t, _d) in ADD3.items():
    t0, d0, n0 = P[_pid]
    P[_pid] = (t0 + "; " + _t, d0 + " Also: " + _d, n0)

for _pid, (_t, _d) in ADD2.items():
    t0, d0, n0 = P[_pid]
    P[_pid] = (t0 + "; " + _t, d0 + " Also: " + _d, n0)

def main():
    env = dict(os.environ, GOFLAGS="-mod=mod", GOPROXY="off", GOSUMDB="off", GOTOOLCHAIN="local")
    out = subprocess.run([os.path.join(VERIF, "check"), "--list"], capture_output=True, text=True, env=env, cwd=VERIF)
    if out.returncode != 0:
        sys.exit("cannot list rules: " + out.stderr)
    served = {}
    thorough = set()
    for line in out.stdout.splitlines():
        f = line.split()
        if len(f) < 4 or not f[-1].startswith("props="):
            continue
        for p in f[-1][6:].split(","):
            served.setdefault(p, []).append(f[0])
            if "tier=thorough" in line:
                thorough.add(p)
    na_path = os.path.join(VERIF, "tools", "not_applicable.json")
    na = json.load(open(na_path)) if os.path.exists(na_path) else {}
    checks, not_app = [], []
    for pid in sorted(P):
        tech, decided, notdec = P[pid]
        if pid not in served or pid in na:
            not_app.append({"property_id": pid, "reason": na.get(pid, "no static rule is built for this property yet; its remaining clauses quantify over runtime values")})
            continue
        checks.append({
            "property_id": pid,
            "quick_cmd": f"./check {pid} quick",
            "thorough_cmd": f"./check {pid} thorough",
            "evidence_file": f"/verif/evidence/{pid}.json",
            "replay_cmd_template": f"./check {pid} quick --replay {{path}}",
            "engine": "ottocheck",
            "level_claimed": {
                "category": "other",
                "text": "Static analysis, structural necessary conditions only. " + decided + " Rules: " + ", ".join(sorted(served[pid])) + ".",
                "design_ref": "DESIGN.md section 6 (" + pid + ") and section 5 (rule catalogue)",
            },
            "level_note": notdec + " Trusted base: go/packages, go/types, go/ssa (x/tools v0.29.0); the hand-written ES5.1 oracle tables and the reviewed exemption tables in /verif/checker.",
            "technique": "static analysis: " + tech,
        })
    m = {
        "version": 1,
        "setup_cmd": "cd /verif/checker && GOFLAGS=-mod=mod GOPROXY=off GOSUMDB=off GOTOOLCHAIN=local CGO_ENABLED=0 go build -o /verif/bin/ottocheck .",
        "hooks": {
            "guard": "verif",
            "enable": "none needed: static analysis reads /repo's working tree; no instrumentation exists in /repo",
            "baseline_off_cmd": "cd /repo && GOFLAGS=-mod=mod GOPROXY=off go test -vet=off -count=1 ./...",
            "source_commits": [],
            "add_only": True,
        },
        "engines": [{
            "name": "ottocheck",
            "path": "/verif/checker",
            "serves_properties": sorted(served),
            "kind_free_text": "repository-specific static analyser (go/packages + go/types + go/ssa + CFG dominance); rules in checker/rules_*.go, ES5 oracle tables in checker/es5_*.go",
        }],
        "checks": checks,
        "not_applicable": not_app,
        "notes": "Every check is level `other`: a static verdict on structural necessary conditions of the property (DESIGN.md section 1). Known genuine defects are listed in /verif/known_findings.json and printed as KNOWN-FINDING lines.",
    }
    json.dump(m, open(os.path.join(VERIF, "MANIFEST.json"), "w"), indent=1)
    print(f"MANIFEST.json: {len(checks)} checks, {len(not_app)} not_applicable")

main()
