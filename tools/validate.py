#!/usr/bin/env python3-vt
import json, jsonschema, glob, sys
m=json.load(open('/verif/MANIFEST.json')); s=json.load(open('/root/.vp/MANIFEST.schema.json'))
jsonschema.validate(m,s); print("manifest ok:", len(m['checks']), "checks")
s=json.load(open('/root/.vp/EVIDENCE.schema.json'))
for c in m['checks']:
    try:
        e=json.load(open(c['evidence_file'])); jsonschema.validate(e,s)
    except Exception as ex:
        print("EVIDENCE BAD", c['property_id'], str(ex)[:200]); continue
print("evidence ok")
