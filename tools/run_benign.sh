#!/bin/bash
# run_benign.sh - behaviour-preserving edits (mutants/benign) must not produce any VIOLATION in any check.
set -u
cd "$(dirname "$0")/.."
VERIF=$(pwd)
run_one() {
  n=$1
  T=$(mktemp -d /tmp/benign.XXXXXX); mkdir -p $T/repo $T/verif
  rsync -a --exclude .git /repo/ $T/repo/; cp $VERIF/known_findings.json $T/verif/
  if ! (cd $T/repo && patch -p1 -s --no-backup-if-mismatch < $VERIF/mutants/${BENIGN_DIR:-benign}/$n.diff) >/dev/null 2>&1; then echo "$n PATCH-FAILED"; rm -rf $T; return; fi
  if ! (cd $T/repo && GOFLAGS=-mod=mod GOPROXY=off go build ./... ) >/dev/null 2>&1; then echo "$n DOES-NOT-COMPILE"; rm -rf $T; return; fi
  out=$($VERIF/bin/ottocheck all --repo $T/repo --verif $T/verif 2>&1)
  if echo "$out" | grep -q "^VIOLATION"; then echo "$n FALSE-ALARM: $(echo "$out" | grep -E '^(VIOLATED|UNDECIDED)' | head -2 | cut -c1-260)"; else echo "$n quiet"; fi
  rm -rf $T
}
export -f run_one; export VERIF; export BENIGN_DIR=${BENIGN_DIR:-benign}
ls mutants/${BENIGN_DIR:-benign}/*.diff | xargs -n1 basename | sed 's/\.diff$//' | xargs -P 6 -I{} bash -c 'run_one {}'
