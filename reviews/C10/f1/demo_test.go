// Place this file in the root of the otto module (package otto), e.g. as
// /tmp/wt4/C10/zz_find_f1_test.go, and run:
//
//	export GOFLAGS=-mod=mod GOPROXY=off GOSUMDB=off GOTOOLCHAIN=local
//	cd /tmp/wt4/C10 && go test -vet=off -count=1 -run 'TestFindF1' .
//
// Finding 1: String.prototype.replace with a *string* searchValue that holds
// bytes which are not valid UTF-8 (a value handed in by the host through
// vm.Set / a Go callback) panics with a raw Go panic out of regexp.MustCompile.
// The panic is not an otto exception, so it escapes vm.Run and takes the host
// down instead of being reported as a JavaScript error / performing the
// literal replacement that ES5 15.5.4.11 describes.
package otto

import (
	"fmt"
	"testing"
)

func TestFindF1ReplaceInvalidUTF8SearchStringCrashesHost(t *testing.T) {
	vm := New()
	// Typical embedding: the host exposes some bytes it has read as a string.
	if err := vm.Set("needle", "\xff"); err != nil {
		t.Fatal(err)
	}

	var (
		val      Value
		err      error
		panicked interface{}
	)
	func() {
		defer func() { panicked = recover() }()
		val, err = vm.Run(`"x".replace(needle, "y")`)
	}()

	if panicked != nil {
		t.Fatalf("vm.Run let a Go panic escape to the host: %v", fmt.Sprint(panicked))
	}
	// ES5 15.5.4.11: searchValue is not a RegExp, so it is ToString'ed and
	// searched for literally; it does not occur in "x", so the result is "x".
	if err != nil {
		t.Fatalf("unexpected error: %v", err)
	}
	if got := val.String(); got != "x" {
		t.Fatalf(`"x".replace(needle, "y") = %q, want "x"`, got)
	}
}

// Same crash through a Go callback returning the string.
func TestFindF1ReplaceInvalidUTF8FromCallback(t *testing.T) {
	vm := New()
	_ = vm.Set("readBytes", func(call FunctionCall) Value {
		v, _ := call.Otto.ToValue("a\xffb")
		return v
	})
	var panicked interface{}
	func() {
		defer func() { panicked = recover() }()
		_, _ = vm.Run(`"zzz".replace(readBytes(), "")`)
	}()
	if panicked != nil {
		t.Fatalf("vm.Run let a Go panic escape to the host: %v", fmt.Sprint(panicked))
	}
}
