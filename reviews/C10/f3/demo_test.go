// Place this file in the root of the otto module (package otto), e.g. as
// /tmp/wt4/C10/zz_find_f3_test.go, and run:
//
//	export GOFLAGS=-mod=mod GOPROXY=off GOSUMDB=off GOTOOLCHAIN=local
//	cd /tmp/wt4/C10 && go test -vet=off -count=1 -run 'TestFindF3' .
//
// Finding 3: String.prototype.match and String.prototype.replace with a
// global RegExp leave rx.lastIndex at the END OF THE LAST MATCH.  ES5
// 15.5.4.10 step 8 sets lastIndex to 0 and then calls exec repeatedly until
// it returns null - and a failing exec sets lastIndex to 0 (15.10.6.2 step
// 9.a.i) - so lastIndex is 0 afterwards; 15.5.4.11 says replace searches "in
// the same manner as in String.prototype.match, including the update of
// searchValue.lastIndex".  The stale lastIndex makes the next exec/test on
// the same RegExp object start in the middle of (or beyond) its subject.
package otto

import "testing"

func TestFindF3GlobalMatchReplaceLeaveLastIndex(t *testing.T) {
	for _, tc := range []struct {
		src  string
		want string
	}{
		{`var r = /a/g; "aa".match(r); r.lastIndex`, "0"},
		{`var r = /a/g; "banana".replace(r, "o"); r.lastIndex`, "0"},
		// Visible consequence: re-using the expression afterwards.
		{`var r = /a/g; "aa".match(r); r.test("a")`, "true"},
		{`var r = /\d+/g; "10 20".replace(r, "#"); String(r.exec("7"))`, "7"},
		{`var r = /a/g; "xa".replace(r, function () { return "b"; }); r.test("a")`, "true"},
	} {
		vm := New()
		v, err := vm.Run(tc.src)
		if err != nil {
			t.Errorf("%s: unexpected error %v", tc.src, err)
			continue
		}
		if got := v.String(); got != tc.want {
			t.Errorf("%s\n   got  %s\n   want %s", tc.src, got, tc.want)
		}
	}
}
