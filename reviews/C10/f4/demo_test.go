// Place this file in the root of the otto module (package otto), e.g. as
// /tmp/wt4/C10/zz_find_f4_test.go, and run:
//
//	export GOFLAGS=-mod=mod GOPROXY=off GOSUMDB=off GOTOOLCHAIN=local
//	cd /tmp/wt4/C10 && go test -vet=off -count=1 -run 'TestFindF4' .
//
// Finding 4: a back-reference written with two (or more) decimal digits, e.g.
// \10 after ten capturing groups, is not rejected like \1 .. \9 are: the
// translator reads the digits as an OCTAL character escape and emits \x08.
// ES5 15.10.2.11 (DecimalEscape) evaluates \10 to the integer 10 and
// 15.10.2.9 (AtomEscape) makes that a back-reference to group 10.  The
// property requires back-references to be "rejected with an error, never
// mis-translated".
package otto

import "testing"

func TestFindF4TwoDigitBackreferenceMistranslated(t *testing.T) {
	vm := New()

	// Sanity: the one-digit form is rejected (this part passes).
	if _, err := vm.Run(`new RegExp("(a)\\1")`); err == nil {
		t.Fatalf(`new RegExp("(a)\\1") was accepted - expected the documented rejection`)
	}

	const pat = `(a)(b)(c)(d)(e)(f)(g)(h)(i)(j)\\10`
	v, err := vm.Run(`
		var r, threw = false;
		try { r = new RegExp("` + pat + `"); } catch (e) { threw = true; }
		threw ? "rejected"
		      : "accepted:" + r.test("abcdefghijj") + ":" + r.test("abcdefghij\b");
	`)
	if err != nil {
		t.Fatal(err)
	}
	switch got := v.String(); got {
	case "rejected":
		// fine: unsupported construct reported
	case "accepted:true:false":
		// fine: ES5 semantics (group 10 == "j" must be repeated)
	default:
		t.Fatalf("/(a)...(j)\\10/: %s\n"+
			"   want \"rejected\" (back-references are unsupported) or ES5 behaviour \"accepted:true:false\";\n"+
			"   got a pattern that matches U+0008 instead of the text of group 10", got)
	}

	// The same through a literal.
	v, err = vm.Run(`
		var out;
		try { out = String(eval("/(a)(b)(c)(d)(e)(f)(g)(h)(i)(j)\\\\10/").exec("abcdefghijj")); }
		catch (e) { out = "rejected"; }
		out`)
	if err != nil {
		t.Fatal(err)
	}
	if got := v.String(); got != "rejected" && got != "abcdefghijj,a,b,c,d,e,f,g,h,i,j" {
		t.Fatalf("literal with \\10: got %q, want rejection or the ES5 match", got)
	}
}
