// Place this file in the root of the otto module (package otto), e.g. as
// /tmp/wt4/C10/zz_find_f2_test.go, and run:
//
//	export GOFLAGS=-mod=mod GOPROXY=off GOSUMDB=off GOTOOLCHAIN=local
//	cd /tmp/wt4/C10 && go test -vet=off -count=1 -run 'TestFindF2' .
//
// Finding 2: RegExp.prototype.exec / test on a global expression with
// lastIndex > 0 run the matcher on the *suffix* target[lastIndex:] instead of
// on the whole string starting at lastIndex.  Assertions that look to the left
// of the current position (^, \b, \B) therefore see "start of input" at
// lastIndex and give wrong answers.  ES5 15.10.6.2 step 9.a calls
// [[Match]](S, i) with the complete S; 15.10.2.6 defines ^ as "e is zero" and
// \b / \B through IsWordChar(e-1) on the whole Input.
package otto

import "testing"

func TestFindF2ExecAtLastIndexLosesLeftContext(t *testing.T) {
	for _, tc := range []struct {
		src  string
		want string
	}{
		// The classic exec loop.  "ab" has exactly one word start.
		{`var r = /\b\w/g, n = 0; while (r.exec("ab") !== null && n < 10) n++; n`, "1"},
		// Same through test().
		{`var r = /\b\w/g, n = 0; while (r.test("abc") && n < 10) n++; n`, "1"},
		// ^ without the m flag only matches at index 0 (15.10.2.6).
		{`var r = /^b/g; r.lastIndex = 1; String(r.exec("ab"))`, "null"},
		{`var r = /^a/g, n = 0; while (r.exec("aaa") !== null && n < 10) n++; n`, "1"},
		// ^ with m: index 1 of "ab" is not preceded by a LineTerminator.
		{`var r = /^b/gm; r.lastIndex = 1; String(r.exec("ab"))`, "null"},
		// \B is the complement: inside "ab" position 1 IS a non-boundary.
		{`var r = /\Bb/g; r.lastIndex = 1; String(r.exec("ab"))`, "b"},
	} {
		vm := New()
		v, err := vm.Run(tc.src)
		if err != nil {
			t.Errorf("%s: unexpected error %v", tc.src, err)
			continue
		}
		if got := v.String(); got != tc.want {
			t.Errorf("%s\n   got  %s\n   want %s", tc.src, got, tc.want)
		}
	}
}
