// Place this file in the root of the otto module (package otto), e.g. as
// /tmp/wt4/C10/zz_find_f5_test.go, and run:
//
//	export GOFLAGS=-mod=mod GOPROXY=off GOSUMDB=off GOTOOLCHAIN=local
//	cd /tmp/wt4/C10 && go test -vet=off -count=1 -run 'TestFindF5' .
//
// Finding 5: capture groups inside a quantified group keep the value of an
// EARLIER iteration.  ES5 15.10.2.5 RepeatMatcher step 4 clears every capture
// contained in the quantified atom at the start of each iteration, and step
// 2.1 forbids a further empty iteration; the expected values below are the
// worked examples given in NOTE 3 and NOTE 4 of that very clause.  Patterns
// use only groups, greedy quantifiers and alternation (portable subset); they
// are accepted without an error and return the wrong captures.
package otto

import "testing"

func TestFindF5CapturesInRepeatedGroupNotReset(t *testing.T) {
	for _, tc := range []struct {
		src  string
		want string
	}{
		// ES5 15.10.2.5 NOTE 3
		{`JSON.stringify(/(z)((a+)?(b+)?(c))*/.exec("zaacbbbcac"))`,
			`["zaacbbbcac","z","ac","a",null,"c"]`},
		// ES5 15.10.2.5 NOTE 4
		{`JSON.stringify(/(a*)*/.exec("b"))`, `["",null]`},
		// smallest everyday shape: last iteration took the other branch
		{`JSON.stringify(/(?:(a)|b)*/.exec("ab"))`, `["ab",null]`},
		{`JSON.stringify(/(?:(a)|(b))+/.exec("ab"))`, `["ab",null,"b"]`},
		// observable through replace and split too
		{`"ab".replace(/(?:(a)|b)*/, "[$1]")`, `[]`},
	} {
		vm := New()
		v, err := vm.Run(tc.src)
		if err != nil {
			t.Errorf("%s: unexpected error %v", tc.src, err)
			continue
		}
		if got := v.String(); got != tc.want {
			t.Errorf("%s\n   got  %s\n   want %s", tc.src, got, tc.want)
		}
	}
}
