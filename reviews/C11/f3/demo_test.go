// Place this file in the root of the otto worktree (package otto), e.g. as zz_find_test.go, and run:
//   export GOFLAGS=-mod=mod GOPROXY=off GOSUMDB=off GOTOOLCHAIN=local
//   cd /tmp/wt4/C11 && go test -vet=off -count=1 -run 'TestFindJSONStringifyMemberOrder' .
package otto

import "testing"

// ES5.1 15.12.3, abstract operation JO: step 5 "If PropertyList is defined, let K be PropertyList",
// step 8 "For each element P of K" - members are emitted in the order of the replacer array.
// Without a replacer array K is the list of own enumerable keys and "the ordering of the Strings
// should be the same as that used by the Object.keys standard built-in function" (step 6).
func TestFindJSONStringifyMemberOrder(t *testing.T) {
	cases := []struct{ src, want string }{
		{`JSON.stringify({a:1,b:2}, ["b","a"])`, `{"b":2,"a":1}`},
		{`JSON.stringify({x:{a:1,b:2,c:3}}, ["x","c","b","a"])`, `{"x":{"c":3,"b":2,"a":1}}`},
		{`JSON.stringify({a:1,b:2}, ["b","a"], 1)`, "{\n \"b\": 2,\n \"a\": 1\n}"},
		// order must agree with Object.keys (which in otto is insertion order: "b,a")
		{`var o = {b:1,a:2}; Object.keys(JSON.parse(JSON.stringify(o))).join() === Object.keys(o).join()`, `true`},
		// a replacer function observes the keys in Object.keys order
		{`var seen=[]; var o={b:1,a:2}; JSON.stringify(o, function(k,v){seen.push(k);return v}); seen.join() === [""].concat(Object.keys(o)).join()`, `true`},
	}
	for _, c := range cases {
		v, err := New().Run(c.src)
		if err != nil {
			t.Errorf("%s threw %v", c.src, err)
			continue
		}
		if v.String() != c.want {
			t.Errorf("%s = %s; want %s", c.src, v.String(), c.want)
		}
	}
}
