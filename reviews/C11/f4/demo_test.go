// Place this file in the root of the otto worktree (package otto), e.g. as zz_find_test.go, and run:
//   export GOFLAGS=-mod=mod GOPROXY=off GOSUMDB=off GOTOOLCHAIN=local
//   cd /tmp/wt4/C11 && go test -vet=off -count=1 -run 'TestFindJSONParseDefinesOwnProperties' .
package otto

import "testing"

// ES5.1 15.12.2 step 3: the JSON text is evaluated "as if it was the source text of an ECMAScript
// Program"; a JSONObject is an ObjectLiteral and 11.1.5 creates every member with
// [[DefineOwnProperty]] ({[[Value]], writable, enumerable, configurable all true}). Inherited
// setters / read-only properties on Object.prototype therefore must not influence the result.
func TestFindJSONParseDefinesOwnProperties(t *testing.T) {
	cases := []struct{ src, want string }{
		// inherited read-only data property: member silently lost, inherited 0 shows through
		{`Object.defineProperty(Object.prototype, "id", {value: 0, writable: false, configurable: true});
		  var o = JSON.parse('{"id":5,"n":1}');
		  [o.id, o.hasOwnProperty("id"), JSON.stringify(o), ({id:5}).id].join("|")`,
			`5|true|{"id":5,"n":1}|5`},
		// inherited setter: JSON.parse runs user code and loses the member
		{`var hit = []; Object.defineProperty(Object.prototype, "x", {set: function(v){ hit.push(v) }, configurable: true});
		  var o = JSON.parse('{"x":1,"y":{"x":2}}');
		  [hit.length, o.hasOwnProperty("x"), o.y.hasOwnProperty("x"), JSON.stringify(o)].join("|")`,
			`0|true|true|{"x":1,"y":{"x":2}}`},
	}
	for _, c := range cases {
		v, err := New().Run(c.src)
		if err != nil {
			t.Errorf("%s threw %v", c.src, err)
			continue
		}
		if v.String() != c.want {
			t.Errorf("got  %s\nwant %s\nsrc: %s", v.String(), c.want, c.src)
		}
	}
}
