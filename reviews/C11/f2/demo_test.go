// Place this file in the root of the otto worktree (package otto), e.g. as zz_find_test.go, and run:
//   export GOFLAGS=-mod=mod GOPROXY=off GOSUMDB=off GOTOOLCHAIN=local
//   cd /tmp/wt4/C11 && go test -vet=off -count=1 -run 'TestFindJSONStringifyPropertyListSlots' .
package otto

import "testing"

// ES5.1 15.12.3 step 4.b: PropertyList is built by APPENDING every element of the replacer array
// that is a String/Number (or String/Number object) and is not already in the list. Elements that
// are skipped (duplicates, undefined, null, plain objects, booleans) must not consume a slot.
func TestFindJSONStringifyPropertyListSlots(t *testing.T) {
	cases := []struct{ src, want string }{
		// duplicate: "b" is dropped
		{`JSON.stringify({a:1,b:2}, ["a","a","b"])`, `{"a":1,"b":2}`},
		// skipped non-string element: "b" is dropped
		{`JSON.stringify({a:1,b:2}, [{}, "b"])`, `{"b":2}`},
		{`JSON.stringify({a:1,b:2}, [undefined, "a", null, "b"])`, `{"a":1,"b":2}`},
		// skipped element leaves an "" entry behind: the property named "" is wrongly selected
		{`JSON.stringify({"":0,a:1,b:2}, [true, "b"])`, `{"b":2}`},
		// nested objects are filtered by the same list
		{`JSON.stringify({k:{k:1,z:2},z:3}, ["k","k","z"])`, `{"k":{"k":1,"z":2},"z":3}`},
	}
	for _, c := range cases {
		v, err := New().Run(c.src)
		if err != nil {
			t.Errorf("%s threw %v", c.src, err)
			continue
		}
		if v.String() != c.want {
			t.Errorf("%s = %s; want %s", c.src, v.String(), c.want)
		}
	}
}
