// Place this file in the root of the otto worktree (package otto), e.g. as zz_find_test.go, and run:
//   export GOFLAGS=-mod=mod GOPROXY=off GOSUMDB=off GOTOOLCHAIN=local
//   cd /tmp/wt4/C11 && go test -vet=off -count=1 -run 'TestFindJSONStringifyQuote' .
package otto

import "testing"

// ES5.1 15.12.3, abstract operation Quote(value), step 2: only '"' and '\' (backslash-prefixed),
// backspace/formfeed/newline/CR/tab (\b \f \n \r \t) and other code units < 0x20 (\uXXXX) are
// escaped; "Else ... let product be the concatenation of product and C" - every other character,
// including '<', '>', '&', U+2028 and U+2029, is copied verbatim.
func TestFindJSONStringifyQuote(t *testing.T) {
	cases := []struct{ src, want string }{
		{`JSON.stringify("a<b>&c")`, `"a<b>&c"`},
		{`JSON.stringify("<script>") === '"<script>"'`, `true`},
		{`JSON.stringify("a<b").length`, `5`},
		{`JSON.stringify({"<k>": "R&D"})`, `{"<k>":"R&D"}`},
		{`JSON.stringify(["1 < 2 && 3 > 2"], null, 1)`, "[\n \"1 < 2 && 3 > 2\"\n]"},
		{`JSON.stringify(String.fromCharCode(0x2028, 0x2029)).length`, `4`},
	}
	for _, c := range cases {
		v, err := New().Run(c.src)
		if err != nil {
			t.Errorf("%s threw %v", c.src, err)
			continue
		}
		if v.String() != c.want {
			t.Errorf("%s = %s; want %s", c.src, v.String(), c.want)
		}
	}
}
