// Place this file in the root of the otto worktree (package otto), e.g. as zz_find_test.go, and run:
//   export GOFLAGS=-mod=mod GOPROXY=off GOSUMDB=off GOTOOLCHAIN=local
//   cd /tmp/wt4/C11 && go test -vet=off -count=1 -run 'TestFindJSONParseHugeNumber' .
package otto

import (
	"strings"
	"testing"
)

// ES5.1 15.12.1.1: JSONNumber :: -opt DecimalIntegerLiteral JSONFraction_opt ExponentPart_opt.
// "1e999" is a JSONNumber, so it is a valid JSONText; 15.12.2 step 3 evaluates it as an
// ECMAScript numeric literal whose MV is rounded to the Number type (7.8.3, 8.5) => +Infinity.
// JSON.parse must not throw for it.
func TestFindJSONParseHugeNumber(t *testing.T) {
	cases := []struct{ text, want string }{
		{`1e999`, "Infinity"},
		{`-1e999`, "-Infinity"},
		{`[1E+400]`, "Infinity"},
		{`{"a":2e308}`, "[object Object]"},
		{"1" + strings.Repeat("0", 400), "Infinity"},
	}
	for _, c := range cases {
		vm := New()
		vm.Set("text", c.text)
		// sanity: the same text as an ECMAScript literal is accepted by otto itself
		v, err := vm.Run(`String(JSON.parse(text))`)
		if err != nil {
			t.Errorf("JSON.parse(%.20q...) threw %v; want %s", c.text, err, c.want)
			continue
		}
		if v.String() != c.want {
			t.Errorf("JSON.parse(%.20q...) = %s; want %s", c.text, v.String(), c.want)
		}
	}
}
