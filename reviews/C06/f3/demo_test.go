// Place this file in the root of the otto module (package otto), e.g. as
// /tmp/wt4/C06/zz_find_f3_test.go, and run:
//
//	export GOFLAGS=-mod=mod GOPROXY=off GOSUMDB=off GOTOOLCHAIN=local
//	cd /tmp/wt4/C06 && go test -vet=off -count=1 -run 'TestFindC06F3' .
//
// C06 finding 3: ToString(Number) picks fixed vs exponent layout from
// math.Log10(|x|), which rounds to exactly 21 (resp. -6) for doubles just below
// 1e21 (resp. 1e-6).  ES5.1 9.8.1 steps 6 and 8-10 decide on the decimal
// exponent n of the shortest digit string: k <= n <= 21 -> plain digits,
// n <= -6 -> exponent form.
package otto

import (
	"math"
	"testing"
)

func TestFindC06F3(t *testing.T) {
	vm := New()
	for _, c := range []struct{ src, want string }{
		{`String(999999999999999900000)`, "999999999999999900000"},
		{`"" + 999999999999999000000`, "999999999999999000000"},
		{`(-999999999999999900000).toString()`, "-999999999999999900000"},
		{`(1e21 - 131072).toString()`, "999999999999999900000"},
		{`[999999999999999900000].join()`, "999999999999999900000"},
		{`String(9.999999999999997e-7)`, "9.999999999999997e-7"},
		// for contrast, these already work:
		{`String(1e21)`, "1e+21"},
		{`String(99999999999999900000)`, "99999999999999900000"},
		{`String(0.000001)`, "0.000001"},
	} {
		v, err := vm.Run(c.src)
		if err != nil {
			t.Errorf("%s: unexpected error %v", c.src, err)
			continue
		}
		if got := v.String(); got != c.want {
			t.Errorf("%s = %q, want %q", c.src, got, c.want)
		}
	}

	// The 50 doubles immediately below 1e21 all have n = 21 and k <= 16 digits,
	// so 9.8.1 step 6 applies: no exponent may appear.
	x := 1e21
	bad := 0
	for i := 0; i < 50; i++ {
		x = math.Nextafter(x, 0)
		if err := vm.Set("x", x); err != nil {
			t.Fatal(err)
		}
		v, err := vm.Run(`String(x)`)
		if err != nil {
			t.Fatal(err)
		}
		for _, ch := range v.String() {
			if ch == 'e' {
				bad++
				break
			}
		}
	}
	if bad != 0 {
		t.Errorf("%d of the 50 doubles just below 1e21 are printed in exponent form", bad)
	}
}
