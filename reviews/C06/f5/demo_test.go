// Place this file in the root of the otto module (package otto), e.g. as
// /tmp/wt4/C06/zz_find_f5_test.go, and run:
//
//	export GOFLAGS=-mod=mod GOPROXY=off GOSUMDB=off GOTOOLCHAIN=local
//	cd /tmp/wt4/C06 && go test -vet=off -count=1 -run 'TestFindC06F5' .
//
// C06 finding 5: parseFloat hands the whole input to strconv.ParseFloat, which
// accepts Go's float syntax (case-insensitive "inf"/"infinity", hexadecimal
// floats, digit-separating underscores), and it rejects any input that merely
// CONTAINS "infinity" or ends in "inf".  ES5.1 15.1.2.3 step 4 requires the
// longest prefix that is a StrDecimalLiteral (9.3.1): decimal digits, one '.',
// an optional exponent, or the exact spelling "Infinity".
package otto

import (
	"math"
	"testing"
)

func TestFindC06F5(t *testing.T) {
	vm := New()
	nan := math.NaN()
	for _, c := range []struct {
		src  string
		want float64
	}{
		// accepted although not StrDecimalLiteral
		{`parseFloat("INF")`, nan},
		{`parseFloat("-INF")`, nan},
		{`parseFloat("INFINITY")`, nan},
		{`parseFloat("+iNFiNiTY")`, nan},
		{`parseFloat("0x1p4")`, 0},   // longest prefix is "0"
		{`parseFloat("0X1P-1")`, 0},  // longest prefix is "0"
		{`parseFloat("1_0")`, 1},     // longest prefix is "1"
		{`parseFloat("1_000.5")`, 1}, // longest prefix is "1"
		{`parseFloat("1e1_0")`, 10},  // longest prefix is "1e1"
		// rejected although a valid prefix exists
		{`parseFloat("1infinity")`, 1},
		{`parseFloat("1.5inf")`, 1.5},
		{`parseFloat("12 units, max infinity")`, 12},
		// for contrast, these already work
		{`parseFloat("Infinityx")`, math.Inf(1)},
		{`parseFloat("0x10")`, 0},
		{`parseFloat("inf")`, nan},
	} {
		v, err := vm.Run(c.src)
		if err != nil {
			t.Errorf("%s: unexpected error %v", c.src, err)
			continue
		}
		got, _ := v.ToFloat()
		if math.IsNaN(c.want) {
			if !math.IsNaN(got) {
				t.Errorf("%s = %v, want NaN", c.src, got)
			}
			continue
		}
		if got != c.want {
			t.Errorf("%s = %v, want %v", c.src, got, c.want)
		}
	}
}
