// Place this file in the root of the otto module (package otto), e.g. as
// /tmp/wt4/C06/zz_find_f2_test.go, and run:
//
//	export GOFLAGS=-mod=mod GOPROXY=off GOSUMDB=off GOTOOLCHAIN=local
//	cd /tmp/wt4/C06 && go test -vet=off -count=1 -run 'TestFindC06F2' .
//
// C06 finding 2: exact decimal ties in toFixed / toExponential / toPrecision
// are rounded half-to-even (strconv.FormatFloat) while ES5.1 15.7.4.5 step 7.a,
// 15.7.4.6 step 9.b.i and 15.7.4.7 step 10.a require the LARGER n.
// All receivers below are exactly representable doubles, so these are true ties.
package otto

import "testing"

func TestFindC06F2(t *testing.T) {
	vm := New()
	for _, c := range []struct{ src, want string }{
		{`(0.5).toFixed(0)`, "1"},
		{`(2.5).toFixed(0)`, "3"},
		{`(-2.5).toFixed(0)`, "-3"},
		{`(0.125).toFixed(2)`, "0.13"},
		{`(1.125).toFixed(2)`, "1.13"},
		{`(10.625).toFixed(2)`, "10.63"},
		// mantissa only, so that the (separate) exponent layout defect does not interfere
		{`(2.5).toExponential(0).split("e")[0]`, "3"},
		{`(1.25).toExponential(1).split("e")[0]`, "1.3"},
		{`(2.5).toPrecision(1)`, "3"},
		{`(12.5).toPrecision(2)`, "13"},
		{`(0.125).toPrecision(2)`, "0.13"},
	} {
		v, err := vm.Run(c.src)
		if err != nil {
			t.Errorf("%s: unexpected error %v", c.src, err)
			continue
		}
		if got := v.String(); got != c.want {
			t.Errorf("%s = %q, want %q", c.src, got, c.want)
		}
	}
}
