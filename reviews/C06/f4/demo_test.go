// Place this file in the root of the otto module (package otto), e.g. as
// /tmp/wt4/C06/zz_find_f4_test.go, and run:
//
//	export GOFLAGS=-mod=mod GOPROXY=off GOSUMDB=off GOTOOLCHAIN=local
//	cd /tmp/wt4/C06 && go test -vet=off -count=1 -run 'TestFindC06F4' .
//
// C06 finding 4: parseInt (and hexadecimal numeric literals, which duplicate the
// same loop) of an integer that does not fit int64 is accumulated digit by digit
// in float64 (value = value*base + digit), rounding at every step.  The result is
// not the correctly rounded double.  ES5.1 15.1.2.2 step 13 only allows an
// approximation for radix 10 beyond the 20th significant digit and for radixes
// other than 2, 4, 8, 10, 16, 32; 7.8.3 requires a HexIntegerLiteral to be rounded
// to "the Number value for the MV" (8.5).
package otto

import (
	"math/big"
	"strconv"
	"testing"
)

func TestFindC06F4(t *testing.T) {
	vm := New()

	for _, c := range []struct{ src, want string }{
		// 2^63, exactly representable, 19 significant digits
		{`parseInt("9223372036854775808") === 9223372036854775808`, "true"},
		{`parseInt("9223372036854775808") - 9223372036854775808`, "0"},
		{`parseInt("-9223372036854775809") === -9223372036854775808`, "true"},
		{`parseInt("26833905237508658840") === Number("26833905237508658840")`, "true"},
		// for contrast (passes): every partial sum is exactly representable
		{`parseInt("10000000000001000", 16) === Math.pow(2, 64) + 4096`, "true"},
	} {
		v, err := vm.Run(c.src)
		if err != nil {
			t.Errorf("%s: unexpected error %v", c.src, err)
			continue
		}
		if got := v.String(); got != c.want {
			t.Errorf("%s = %q, want %q", c.src, got, c.want)
		}
	}

	// Reference: exact integer -> nearest double (round half even), via math/big.
	for _, c := range []struct {
		digits string
		radix  int
	}{
		{"9223372036854775808", 10},
		{"26833905237508658840", 10},
		{"62512265265093191944", 10},
		{"10001110000001000001101000110001111011110011011011000100110111100", 2},
		{"1320022301301013312221110122012222123113030", 4},
		{"756761001454016305543712767413625753665570212", 8},
		{"d20b8abbda6f544b5", 16},
		{"b7d1d8e0b53944fac65b752282", 16},
		{"b05knpvsmets8s", 32},
	} {
		bi, ok := new(big.Int).SetString(c.digits, c.radix)
		if !ok {
			t.Fatal("bad test input")
		}
		want, _ := new(big.Float).SetInt(bi).Float64()
		if err := vm.Set("s", c.digits); err != nil {
			t.Fatal(err)
		}
		v, err := vm.Run(`parseInt(s, ` + strconv.Itoa(c.radix) + `)`)
		if err != nil {
			t.Fatal(err)
		}
		got, _ := v.ToFloat()
		if got != want {
			t.Errorf("parseInt(%q, %d) = %v, want %v", c.digits, c.radix, got, want)
		}
		if c.radix == 16 {
			v, err := vm.Run(`0x` + c.digits)
			if err != nil {
				t.Fatal(err)
			}
			got, _ := v.ToFloat()
			if got != want {
				t.Errorf("literal 0x%s = %v, want %v", c.digits, got, want)
			}
		}
	}
}
