// Place this file in the root of the otto module (package otto), e.g. as
// /tmp/wt4/C06/zz_find_f1_test.go, and run:
//
//	export GOFLAGS=-mod=mod GOPROXY=off GOSUMDB=off GOTOOLCHAIN=local
//	cd /tmp/wt4/C06 && go test -vet=off -count=1 -run 'TestFindC06F1' .
//
// C06 finding 1: Number.prototype.toExponential / toPrecision emit Go's
// strconv layout ("e+02", dropped trailing zeros, %g's -4 threshold, "+Inf")
// instead of the layout of ES5.1 15.7.4.6 / 15.7.4.7.
package otto

import "testing"

func TestFindC06F1(t *testing.T) {
	vm := New()
	for _, c := range []struct{ src, want string }{
		// 15.7.4.6 step 9.c-e: "d" is the decimal representation of e with no leading zeros.
		{`(123.456).toExponential(2)`, "1.23e+2"},
		{`(1).toExponential()`, "1e+0"},
		{`(0).toExponential(2)`, "0.00e+0"},
		{`(0.00015).toExponential(1)`, "1.5e-4"},
		{`(-7).toExponential(3)`, "-7.000e+0"},
		// 15.7.4.6 steps 5-6: Infinity is handled before any digit generation.
		{`(Infinity).toExponential(2)`, "Infinity"},
		{`(-Infinity).toExponential()`, "-Infinity"},
		// 15.7.4.7 step 10-12: always exactly p significant digits.
		{`(1).toPrecision(3)`, "1.00"},
		{`(0).toPrecision(4)`, "0.000"},
		{`(100).toPrecision(5)`, "100.00"},
		{`(1.5).toPrecision(4)`, "1.500"},
		// 15.7.4.7 step 10.c: exponential notation only if e < -6 or e >= p.
		{`(0.00001).toPrecision(1)`, "0.00001"},
		{`(0.000001).toPrecision(2)`, "0.0000010"},
		{`(0.0000001).toPrecision(2)`, "1.0e-7"},
		{`(1234567).toPrecision(6)`, "1.23457e+6"},
		{`(123.456).toPrecision(2)`, "1.2e+2"},
		{`(1e21).toPrecision(21)`, "1.00000000000000000000e+21"},
		// 15.7.4.7 step 7.
		{`(Infinity).toPrecision(3)`, "Infinity"},
		{`(-Infinity).toPrecision(3)`, "-Infinity"},
	} {
		v, err := vm.Run(c.src)
		if err != nil {
			t.Errorf("%s: unexpected error %v", c.src, err)
			continue
		}
		if got := v.String(); got != c.want {
			t.Errorf("%s = %q, want %q", c.src, got, c.want)
		}
	}
}
