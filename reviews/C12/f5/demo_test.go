// Place as /tmp/wt4/C12/zz_find_test.go (package otto, module root) and run:
//   export GOFLAGS=-mod=mod GOPROXY=off GOSUMDB=off GOTOOLCHAIN=local
//   cd /tmp/wt4/C12 && go test -vet=off -count=1 -run 'TestFindF5' .
//
// ES5.1 15.9.5.41 Date.prototype.setUTCFullYear(year [, month [, date]]):
//   1. Let t be this time value; but if this time value is NaN, let t be +0.
//   ...
//   6. Let v be TimeClip(newDate).  7. Set [[PrimitiveValue]] to v.  8. Return v.
// (15.9.5.40 setFullYear: same, with LocalTime(+0).)
// So the year setters are the way to revive an invalid Date; otto returns NaN.
package otto

import "testing"

func findRun(t *testing.T, vm *Otto, src string) string {
	t.Helper()
	v, err := vm.Run(src)
	if err != nil {
		return "ERR " + err.Error()
	}
	return v.String()
}

func findCheck(t *testing.T, src, want string) {
	t.Helper()
	if got := findRun(t, New(), src); got != want {
		t.Errorf("%s\n   got  %s\n   want %s", src, got, want)
	}
}

func TestFindF5SetFullYearOnInvalidDate(t *testing.T) {
	findCheck(t, `new Date(NaN).setUTCFullYear(2000)`, "946684800000")
	findCheck(t, `var d = new Date(NaN); d.setUTCFullYear(2000, 1, 29); d.toISOString()`, "2000-02-29T00:00:00.000Z")
	findCheck(t, `var d = new Date(NaN); d.setUTCFullYear(1970); d.getTime()`, "0")
	// short sequence of setUTC* calls: invalidate, then set the year
	findCheck(t, `var d = new Date(12345); d.setUTCHours(NaN); d.setUTCFullYear(1971); d.getTime()`, "31536000000")
	// local variant, zone independent check
	findCheck(t, `var d = new Date(NaN); d.setFullYear(2000); d.getFullYear()`, "2000")
}
