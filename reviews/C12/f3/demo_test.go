// Place as /tmp/wt4/C12/zz_find_test.go (package otto, module root) and run:
//   export GOFLAGS=-mod=mod GOPROXY=off GOSUMDB=off GOTOOLCHAIN=local
//   cd /tmp/wt4/C12 && go test -vet=off -count=1 -run 'TestFindF3' .
//
// ES5.1 15.9.4.3 Date.UTC step 8 (and 15.9.3.1 step 8 for the constructor):
//   "If y is not NaN and 0 <= ToInteger(y) <= 99, then let yr be
//    1900+ToInteger(y); otherwise, let yr be y."
// otto tests the un-truncated y, so fractional years in (-1,0) and (99,100)
// miss the two-digit-year adjustment.
package otto

import "testing"

func findRun(t *testing.T, vm *Otto, src string) string {
	t.Helper()
	v, err := vm.Run(src)
	if err != nil {
		return "ERR " + err.Error()
	}
	return v.String()
}

func findCheck(t *testing.T, src, want string) {
	t.Helper()
	if got := findRun(t, New(), src); got != want {
		t.Errorf("%s\n   got  %s\n   want %s", src, got, want)
	}
}

func TestFindF3TwoDigitYear(t *testing.T) {
	// sanity: integral two digit years work
	findCheck(t, `Date.UTC(99, 0)`, "915148800000")
	findCheck(t, `Date.UTC(0, 0)`, "-2208988800000")
	// ToInteger(99.5) = 99  -> 1999-01-01
	findCheck(t, `Date.UTC(99.5, 0)`, "915148800000")
	findCheck(t, `new Date(Date.UTC(99.9, 11, 31)).toISOString()`, "1999-12-31T00:00:00.000Z")
	// ToInteger(-0.5) = -0 -> 1900-01-01
	findCheck(t, `Date.UTC(-0.5, 0)`, "-2208988800000")
	findCheck(t, `new Date(Date.UTC(-0.999, 0)).getUTCFullYear()`, "1900")
	// the multi-argument constructor shares the code
	findCheck(t, `new Date(99.5, 5, 15).getFullYear()`, "1999")
	findCheck(t, `new Date(-0.5, 5, 15).getFullYear()`, "1900")
}
