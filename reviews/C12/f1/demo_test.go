// Place as /tmp/wt4/C12/zz_find_test.go (package otto, module root) and run:
//   export GOFLAGS=-mod=mod GOPROXY=off GOSUMDB=off GOTOOLCHAIN=local
//   cd /tmp/wt4/C12 && go test -vet=off -count=1 -run 'TestFindF1' .
//
// ES5.1 15.9.5.27 Date.prototype.setTime(time):
//   1. Let v be TimeClip(ToNumber(time)).
//   2. Set the [[PrimitiveValue]] internal property of this Date object to v.
//   3. Return v.
// A Date that was invalid (NaN) must become valid again after setTime(finite).
package otto

import "testing"

func findRun(t *testing.T, vm *Otto, src string) string {
	t.Helper()
	v, err := vm.Run(src)
	if err != nil {
		return "ERR " + err.Error()
	}
	return v.String()
}

func findCheck(t *testing.T, src, want string) {
	t.Helper()
	if got := findRun(t, New(), src); got != want {
		t.Errorf("%s\n   got  %s\n   want %s", src, got, want)
	}
}

func TestFindF1SetTimeAfterInvalid(t *testing.T) {
	// constructed invalid, then made valid
	findCheck(t, `var d = new Date(NaN); d.setTime(0); d.getTime()`, "0")
	findCheck(t, `var d = new Date(NaN); d.setTime(86400000); d.toISOString()`, "1970-01-02T00:00:00.000Z")
	findCheck(t, `var d = new Date("garbage"); d.setTime(1e12); d.getUTCFullYear()`, "2001")
	// became invalid through setTime(NaN), then made valid again
	findCheck(t, `var d = new Date(5); d.setTime(NaN); d.setTime(7); d.valueOf()`, "7")
	// the return value of setTime and the stored value disagree
	findCheck(t, `var d = new Date(NaN); var r = d.setTime(7); [r, d.getTime()].join()`, "7,7")
	// JSON of a revived date
	findCheck(t, `var d = new Date(NaN); d.setTime(0); JSON.stringify(d)`, `"1970-01-01T00:00:00.000Z"`)
}
