// Place as /tmp/wt4/C12/zz_find_test.go (package otto, module root) and run:
//   export GOFLAGS=-mod=mod GOPROXY=off GOSUMDB=off GOTOOLCHAIN=local
//   cd /tmp/wt4/C12 && go test -vet=off -count=1 -run 'TestFindF4' .
//
// ES5.1 15.9.5.43 toISOString: "The format of the String is the Date Time string
// format defined in 15.9.1.15. All fields are present in the String."
// ES5.1 15.9.1.15: YYYY is *four* decimal digits (0000-9999).
// ES5.1 15.9.1.15.1 Extended years: years outside 0..9999 are written as a sign
// followed by *six* digits ("+275760-09-13T00:00:00.000Z",
// "-271821-04-20T00:00:00.000Z", "-000001-01-01T00:00:00Z").
// ES5.1 15.9.4.2: Date.parse(x.toISOString()) === x.valueOf().
package otto

import "testing"

func findRun(t *testing.T, vm *Otto, src string) string {
	t.Helper()
	v, err := vm.Run(src)
	if err != nil {
		return "ERR " + err.Error()
	}
	return v.String()
}

func findCheck(t *testing.T, src, want string) {
	t.Helper()
	if got := findRun(t, New(), src); got != want {
		t.Errorf("%s\n   got  %s\n   want %s", src, got, want)
	}
}

func TestFindF4ISOStringExpandedYear(t *testing.T) {
	findCheck(t, `new Date(253402300800000).toISOString()`, "+010000-01-01T00:00:00.000Z")
	findCheck(t, `new Date(-62198755200000).toISOString()`, "-000001-01-01T00:00:00.000Z")
	findCheck(t, `new Date(8.64e15).toISOString()`, "+275760-09-13T00:00:00.000Z")
	findCheck(t, `new Date(-8.64e15).toJSON()`, "-271821-04-20T00:00:00.000Z")
}

func TestFindF4ISOStringRoundTrip(t *testing.T) {
	for _, tv := range []string{"253402300800000", "-62198755200000", "-62167219200001", "8.64e15", "-8.64e15", "4e14"} {
		findCheck(t, `var d = new Date(`+tv+`); Date.parse(d.toISOString()) === d.getTime()`, "true")
	}
}

func TestFindF4ParseExpandedYear(t *testing.T) {
	// the parser half of the same defect: 15.9.1.15.1 strings are rejected
	findCheck(t, `Date.parse("+010000-01-01T00:00:00.000Z")`, "253402300800000")
	findCheck(t, `Date.parse("-000001-01-01T00:00:00.000Z")`, "-62198755200000")
	findCheck(t, `Date.parse("+275760-09-13T00:00:00.000Z")`, "8640000000000000")
	findCheck(t, `new Date("-271821-04-20T00:00:00.000Z").getTime()`, "-8640000000000000")
}
