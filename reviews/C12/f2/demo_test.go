// Place as /tmp/wt4/C12/zz_find_test.go (package otto, module root) and run:
//   export GOFLAGS=-mod=mod GOPROXY=off GOSUMDB=off GOTOOLCHAIN=local
//   cd /tmp/wt4/C12 && go test -vet=off -count=1 -run 'TestFindF2' .
//
// ES5.1 15.9.1.14 TimeClip(time): "If abs(time) > 8.64e15, return NaN."
// TimeClip is applied by new Date(value) (15.9.3.2), new Date(y,m,...) (15.9.3.1),
// Date.UTC (15.9.4.3 step 9), setTime (15.9.5.27) and every set* method
// (15.9.5.28 - 15.9.5.41).  otto never applies it.
package otto

import "testing"

func findRun(t *testing.T, vm *Otto, src string) string {
	t.Helper()
	v, err := vm.Run(src)
	if err != nil {
		return "ERR " + err.Error()
	}
	return v.String()
}

func findCheck(t *testing.T, src, want string) {
	t.Helper()
	if got := findRun(t, New(), src); got != want {
		t.Errorf("%s\n   got  %s\n   want %s", src, got, want)
	}
}

func TestFindF2TimeClip(t *testing.T) {
	// one millisecond beyond the range
	findCheck(t, `new Date(8.64e15 + 1).getTime()`, "NaN")
	findCheck(t, `new Date(-8.64e15 - 1).getTime()`, "NaN")
	findCheck(t, `Date.UTC(275760, 8, 13, 0, 0, 0, 1)`, "NaN")
	// field tuple with components within +-1e6
	findCheck(t, `Date.UTC(1e6, 0)`, "NaN")
	findCheck(t, `Date.UTC(1970, 0, 1, 0, 0, 0, 0) === 0 && isNaN(Date.UTC(-1e6, 0, 1))`, "true")
	// setters
	findCheck(t, `var d = new Date(0); d.setUTCFullYear(300000)`, "NaN")
	findCheck(t, `var d = new Date(8.64e15); d.setUTCMilliseconds(1); d.getTime()`, "NaN")
	findCheck(t, `var d = new Date(0); d.setTime(8.64e15 + 1); d.getTime()`, "NaN")
	// far out of range: the float -> int64 conversion wraps and a "valid" date with
	// a garbage value / year comes out
	findCheck(t, `new Date(1e20).getTime()`, "NaN")
	findCheck(t, `new Date(1e300).getUTCFullYear()`, "NaN")
	findCheck(t, `try { new Date(1e20).toISOString() } catch (e) { e.name }`, "RangeError")
}
