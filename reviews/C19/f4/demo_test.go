// Place this file in the root of the otto worktree (package otto) as
// zz_find_test.go (or demo_test.go) and run:
//
//	export GOFLAGS=-mod=mod GOPROXY=off GOSUMDB=off GOTOOLCHAIN=local
//	go test -vet=off -count=1 -run 'TestFindStalePositionForNonCallErrors' .
package otto

import (
	"strings"
	"testing"
)

// Property C19: errors surface with the right source position; the trace gives
// file, line and column for every active call.  Errors that are not raised by
// a call / member expression (`in` and `instanceof` on non-objects, invalid
// array length assignment, ...) and calls that are not written as calls
// (getters, setters, valueOf/toString conversions) are reported at the
// position of the *previous, successfully completed* call of the same
// function - or `<unknown>` if there was none.
func TestFindStalePositionForNonCallErrors(t *testing.T) {
	run := func(src string) string {
		vm := New()
		s, err := vm.Compile("test.js", src)
		if err != nil {
			t.Fatal(err)
		}
		_, err = vm.Run(s)
		oe, ok := err.(*Error)
		if !ok {
			t.Fatalf("want *otto.Error, got %T %v", err, err)
		}
		return oe.String()
	}
	firstFrame := func(trace string) string {
		lines := strings.Split(trace, "\n")
		if len(lines) < 2 {
			return ""
		}
		return strings.TrimSpace(lines[1])
	}

	cases := []struct {
		name, src string
		wantLine  string // prefix of the location of the innermost frame
	}{
		{"in on a non-object", "function ok(){}\nfunction f(o){\n  ok();\n\n  return 'a' in o;\n}\nf(1);\n", "at f (test.js:5:"},
		{"instanceof a non-object", "function ok(){}\nfunction f(o){\n  ok();\n\n  return o instanceof 1;\n}\nf({});\n", "at f (test.js:5:"},
		{"invalid array length", "function ok(){}\nfunction f(a){\n  ok();\n\n  a.length = -1;\n}\nf([]);\n", "at f (test.js:5:"},
		{"in, no earlier call", "function f(o){\n  return 'a' in o;\n}\nf(1);\n", "at f (test.js:2:"},
		{"invalid array length in global code", "\n\nvar a = [];\na.length = -1;\n", "at test.js:4:"},
	}
	for _, c := range cases {
		got := run(c.src)
		if ff := firstFrame(got); !strings.HasPrefix(ff, c.wantLine) {
			t.Errorf("%s: innermost frame is %q, want %q...\n%s", c.name, ff, c.wantLine, got)
		}
	}

	// Implicit calls: the frame of the caller of a getter / valueOf has no (or a stale) call site.
	got := run("var o = { get m(){\n  null.x;\n} };\nfunction ok(){}\nfunction f(){\n  ok();\n\n  return o.m;\n}\nf();\n")
	if !strings.Contains(got, "at f (test.js:8:") {
		t.Errorf("getter: caller frame should be f (test.js:8:...):\n%s", got)
	}
	got = run("var o = { valueOf: function(){ nosuch() } };\nfunction f(){\n  return o + 1;\n}\nf();\n")
	if !strings.Contains(got, "at f (test.js:3:") {
		t.Errorf("valueOf: caller frame should be f (test.js:3:...):\n%s", got)
	}
}
