// Place this file in the root of the otto worktree (package otto) as
// zz_find_test.go (or demo_test.go) and run:
//
//	export GOFLAGS=-mod=mod GOPROXY=off GOSUMDB=off GOTOOLCHAIN=local
//	go test -vet=off -count=1 -run 'TestFindComputedCalleeDropsCallerFrame' .
package otto

import (
	"strings"
	"testing"
)

// Property C19: "The stack trace names, innermost first and up to the
// configured limit, every active call with the file name, line and column of
// its call site".  A call whose callee is not written as identifier / a.b /
// a[b] - an IIFE `(function(){..})()`, `mk()()`, `(a || b)()`, `(0, f)()` -
// makes the *calling* activation vanish from the trace.
func TestFindComputedCalleeDropsCallerFrame(t *testing.T) {
	run := func(limit int, src string) string {
		vm := New()
		if limit > 0 {
			vm.SetStackTraceLimit(limit)
		}
		s, err := vm.Compile("test.js", src)
		if err != nil {
			t.Fatal(err)
		}
		_, err = vm.Run(s)
		oe, ok := err.(*Error)
		if !ok {
			t.Fatalf("want *otto.Error, got %T %v", err, err)
		}
		return oe.String()
	}

	// The module pattern: the global call of the IIFE (line 6, column 2..3) is missing.
	got := run(0, "(function(){\n  function init(){\n    nosuch();\n  }\n  init();\n})();\n")
	if n := countLines(got); n != 4 { // header + init + anonymous + global
		t.Errorf("IIFE: want 3 frames (init, anonymous function, global code), got %d:\n%s", n-1, got)
	}

	// g is an active call, but is not named at all.
	got = run(0, "function f(){\n  nosuch();\n}\nvar h;\nfunction g(){\n  (h || f)();\n}\ng();\n")
	if !strings.Contains(got, "    at g (test.js:6:") {
		t.Errorf("(h || f)(): no frame for the active call of g (call site line 6):\n%s", got)
	}

	// control: same program with a plain callee
	got = run(0, "function f(){\n  nosuch();\n}\nvar h;\nfunction g(){\n  f();\n}\ng();\n")
	want := "ReferenceError: 'nosuch' is not defined\n    at f (test.js:2:3)\n    at g (test.js:6:3)\n    at test.js:8:1\n"
	if got != want {
		t.Fatalf("control:\n got: %q\nwant: %q", got, want)
	}

	// mk()() - result of a call used as callee
	got = run(0, "function f(){\n  nosuch();\n}\nfunction mk(){ return f }\nfunction g(){\n  mk()();\n}\ng();\n")
	if n := countLines(got); n != 4 {
		t.Errorf("mk()(): want 3 frames (f, g, global code), got %d:\n%s", n-1, got)
	}

	// The dropped frame still consumes the limit: with limit 3 and four active
	// calls + global code only two frames are reported.
	got = run(3, "function a(){ nosuch() }\nfunction b(){ (0,a)() }\nfunction c(){ b() }\nfunction d(){ c() }\nd()")
	if n := countLines(got); n != 4 {
		t.Errorf("limit 3: want 3 frames, got %d:\n%s", n-1, got)
	}
}

func countLines(s string) int {
	n := 0
	for _, c := range s {
		if c == '\n' {
			n++
		}
	}
	return n
}
