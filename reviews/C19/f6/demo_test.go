// Place this file in the root of the otto worktree (package otto) as
// zz_find_test.go (or demo_test.go) and run:
//
//	export GOFLAGS=-mod=mod GOPROXY=off GOSUMDB=off GOTOOLCHAIN=local
//	go test -vet=off -count=1 -run 'TestFindEvalParseThrow' .
package otto

import (
	"strings"
	"testing"
)

// ES5.1 clause 16 makes "3 = 4" an early error and 8.7.2 (PutValue) step 1 /
// 11.13.1 fix its class: ReferenceError (test262 ES5 11.13.1-1-1 .. -1-4 use
// eval("42 = 42") and require ReferenceError).  runtime.parseThrow has a branch
// for exactly this, but it is dead code.
func TestFindEvalParseThrow(t *testing.T) {
	for _, src := range []string{
		`eval("42 = 42")`,
		`eval("'x' = 1")`,
		`eval("1++")`,
		`new Function("42 = 42")`,
	} {
		v, err := New().Run(`(function(){ try { ` + src + ` } catch (e) { return e.name + '|' + (e instanceof ReferenceError) + '|' + Object.getPrototypeOf(e).constructor.prototype.name } return 'no error' })()`)
		if err != nil {
			t.Fatal(err)
		}
		if got, want := v.String(), "ReferenceError|true|ReferenceError"; got != want {
			t.Errorf("%-40s caught %q, want %q", src, got, want)
		}
	}

	// Same root cause: the text of the first parser error is meant to become the
	// message; instead the whole ErrorList text is used - as a *format string*.
	v, err := New().Run(`try { eval("var a = %;") } catch (e) { e.message }`)
	if err != nil {
		t.Fatal(err)
	}
	if got := v.String(); strings.Contains(got, "%!") || !strings.Contains(got, "Unexpected token %") {
		// observed: "(anonymous): Line 1:9 Unexpected token %!((MISSING)and 1 more errors)"
		t.Errorf("message of eval SyntaxError is garbled: %q", got)
	}
}
