// Place this file in the root of the otto worktree (package otto) as
// zz_find_test.go (or demo_test.go) and run:
//
//	export GOFLAGS=-mod=mod GOPROXY=off GOSUMDB=off GOTOOLCHAIN=local
//	go test -vet=off -count=1 -run 'TestFindRethrowMutatedError' .
package otto

import (
	"strings"
	"testing"
)

// An uncaught exception must come back from Run as "Name: message" of the
// thrown value (property C19; ES5.1 15.11.4.4 Error.prototype.toString reads
// the *current* "name" and "message" properties).
func TestFindRethrowMutatedError(t *testing.T) {
	cases := []struct {
		name, src, want string
	}{
		{
			"catch, add context to message, rethrow",
			`try { null.x } catch (e) { e.message = 'loading config: ' + e.message; throw e }`,
			`TypeError: loading config: Cannot access member "x" of null`,
		},
		{
			"message assigned after construction",
			`var e = new TypeError('a'); e.message = 'b'; throw e`,
			`TypeError: b`,
		},
		{
			"name assigned after construction (custom error idiom)",
			`function MyError(m) { var e = Error.call(this, m); e.name = 'MyError'; return e }
			 throw new MyError('boom')`,
			`MyError: boom`,
		},
	}
	for _, c := range cases {
		vm := New()
		// What a script sees for the very same value.
		seen, err := vm.Run(`(function(){ try { ` + c.src + ` } catch (x) { return String(x) } })()`)
		if err != nil {
			t.Fatalf("%s: %v", c.name, err)
		}
		if seen.String() != c.want {
			t.Fatalf("%s: script-side String(e) = %q, want %q", c.name, seen, c.want)
		}
		// What the host gets when it is not caught.
		_, err = vm.Run(c.src)
		if err == nil {
			t.Fatalf("%s: expected an error", c.name)
		}
		if err.Error() != c.want {
			t.Errorf("%s:\n  Run error text = %q\n  want           = %q", c.name, err.Error(), c.want)
		}
		if oe, ok := err.(*Error); ok && !strings.HasPrefix(oe.String(), c.want+"\n") {
			t.Errorf("%s: Error.String() starts with %q, want %q", c.name, strings.SplitN(oe.String(), "\n", 2)[0], c.want)
		}
	}
}
