// Place this file in the root of the otto worktree (package otto) as
// zz_find_test.go (or demo_test.go) and run:
//
//	export GOFLAGS=-mod=mod GOPROXY=off GOSUMDB=off GOTOOLCHAIN=local
//	go test -vet=off -count=1 -run 'TestFindDirectEvalClobbersFrameFile' .
package otto

import (
	"strings"
	"testing"
)

// After a *direct* eval has run inside a function (or in global code), every
// later error / call site of that same activation must still be reported with
// the file, line and column of the enclosing source (property C19: "every
// active call with the file name, line and column of its call site").
func TestFindDirectEvalClobbersFrameFile(t *testing.T) {
	run := func(src string) string {
		vm := New()
		s, err := vm.Compile("test.js", src)
		if err != nil {
			t.Fatal(err)
		}
		_, err = vm.Run(s)
		oe, ok := err.(*Error)
		if !ok {
			t.Fatalf("want *otto.Error, got %T %v", err, err)
		}
		return oe.String()
	}

	// 1. error raised in the function that used eval
	src := "function f(){\n  eval('1');\n  nosuch();\n}\nf();\n"
	want := "ReferenceError: 'nosuch' is not defined\n    at f (test.js:3:3)\n    at test.js:5:1\n"
	if got := run(src); got != want {
		t.Errorf("error after eval:\n got: %q\nwant: %q", got, want)
	}
	// control: identical program without the eval
	ctl := "function f(){\n  void('1');\n  nosuch();\n}\nf();\n"
	if got := run(ctl); got != want {
		t.Fatalf("control (no eval) differs:\n got: %q\nwant: %q", got, want)
	}

	// 2. the function that used eval is only an intermediate caller
	src = "function g(){ nosuch(); }\nfunction f(){\n  eval('var a = 1');\n  g();\n}\nf();\n"
	want = "ReferenceError: 'nosuch' is not defined\n    at g (test.js:1:15)\n    at f (test.js:4:3)\n    at test.js:6:1\n"
	if got := run(src); got != want {
		t.Errorf("call site after eval:\n got: %q\nwant: %q", got, want)
	}

	// 3. a longer eval text silently yields a WRONG position instead of <unknown>
	src = "function f(){\n  eval(new Array(100).join(';\\n'));\n  nosuch();\n}\nf();\n"
	got := run(src)
	if !strings.Contains(got, "at f (test.js:3:3)") {
		t.Errorf("error after long eval:\n got: %q\nwant a frame %q", got, "at f (test.js:3:3)")
	}

	// 4. global code
	src = "eval('var a = 1;');\nnosuch();\n"
	want = "ReferenceError: 'nosuch' is not defined\n    at test.js:2:1\n"
	if got := run(src); got != want {
		t.Errorf("global code after eval:\n got: %q\nwant: %q", got, want)
	}
}
