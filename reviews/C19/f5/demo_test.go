// Place this file in the root of the otto worktree (package otto) as
// zz_find_test.go (or demo_test.go) and run:
//
//	export GOFLAGS=-mod=mod GOPROXY=off GOSUMDB=off GOTOOLCHAIN=local
//	go test -vet=off -count=1 -run 'TestFindArrayLengthRangeErrorHasNoMessage' .
package otto

import (
	"testing"
)

// Property C19: every run-time error the interpreter raises itself - "invalid
// array length" is named explicitly - is catchable with the right name,
// prototype chain and a NON-EMPTY message, and an uncaught one comes back from
// Run as "Name: message".
func TestFindArrayLengthRangeErrorHasNoMessage(t *testing.T) {
	srcs := []string{
		`new Array(-1)`,                 // 15.4.2.2
		`Array(1.5)`,                    // 15.4.1 -> 15.4.2.2
		`new Array(4294967296)`,         // 15.4.2.2
		`var a = []; a.length = -1`,     // 15.4.5.1 step 3.d
		`var a = [1]; a.length = 'x'`,   // 15.4.5.1 step 3.d
		`Object.defineProperty([], 'length', {value: 2.5})`,
	}
	for _, src := range srcs {
		vm := New()
		v, err := vm.Run(`(function(){ try { ` + src + ` } catch (e) {
			if (!(e instanceof RangeError) || e.name !== 'RangeError') return 'wrong class ' + e;
			if (typeof e.message !== 'string' || e.message.length === 0) return 'BAD message: typeof=' + typeof e.message + ' value=' + e.message + ' String(e)=' + String(e);
			return 'ok';
		} return 'no error' })()`)
		if err != nil {
			t.Fatal(err)
		}
		if got := v.String(); got != "ok" {
			t.Errorf("%-50s caught: %s", src, got)
		}

		_, err = New().Run(src)
		if err == nil {
			t.Fatalf("%s: expected RangeError", src)
		}
		if err.Error() == "RangeError" {
			t.Errorf("%-50s uncaught: Run error text is %q, want \"RangeError: <message>\"", src, err.Error())
		}
	}
}
