// C01 finding 3: the name of a function DECLARATION is additionally bound in a
// private scope wrapped around the function (as if it were a named function
// expression), so an assignment to that name from inside the function body never
// reaches the real (outer) variable.  The classic self-replacing "init once"
// idiom therefore runs the initialiser on every call.
//
// Place this file in the root of the otto module (package otto) as
// zz_find_test.go (or demo_test.go) and run:
//
//	export GOFLAGS=-mod=mod GOPROXY=off GOSUMDB=off GOTOOLCHAIN=local
//	go test -vet=off -count=1 -run 'TestFindC01F3' .
package otto

import (
	"fmt"
	"strings"
	"testing"

	"github.com/robertkrimen/otto/parser"
)

// c01f3Run evaluates src through one of the five submission routes of the
// property and returns "[host calls] completion-or-error".
func c01f3Run(route, src string) (out string) {
	defer func() {
		if r := recover(); r != nil {
			out = fmt.Sprintf("GO PANIC escaped from the interpreter: %v", r)
		}
	}()
	var log []string
	newVM := func() *Otto {
		vm := New()
		_ = vm.Set("log", func(call FunctionCall) Value {
			parts := []string{}
			for _, a := range call.ArgumentList {
				parts = append(parts, a.String())
			}
			log = append(log, strings.Join(parts, ","))
			return Value{}
		})
		return vm
	}
	vm := newVM()
	var v Value
	var err error
	switch route {
	case "source":
		v, err = vm.Run(src)
	case "script":
		s, cerr := vm.Compile("", src)
		if cerr != nil {
			return "compile: " + cerr.Error()
		}
		v, err = vm.Run(s)
	case "program":
		p, perr := parser.ParseFile(nil, "", src, 0)
		if perr != nil {
			return "parse: " + perr.Error()
		}
		v, err = vm.Run(p)
	case "eval":
		v, err = vm.Eval(src)
	case "script-other-runtime":
		other := newVM()
		s, cerr := other.Compile("", src)
		if cerr != nil {
			return "compile: " + cerr.Error()
		}
		_, _ = other.Run(s)
		log = nil
		v, err = vm.Run(s)
	}
	res := v.String()
	if err != nil {
		res = "uncaught " + err.Error()
	}
	return "[" + strings.Join(log, "|") + "] " + res
}

var c01f3Routes = []string{"source", "script", "program", "eval", "script-other-runtime"}

func TestFindC01F3(t *testing.T) {
	// ES5.1 13 (FunctionDeclaration) + 10.5 step 5: a function declaration creates
	// exactly one binding, in the VariableEnvironment of the enclosing context, and the
	// function's [[Scope]] is that environment.  Only a FunctionExpression with an
	// Identifier gets an extra (immutable) binding of its own name.  Hence inside
	// `function f(){ f = v }` the identifier f resolves (10.3.1/10.2.2.1) to the outer
	// binding and the assignment (11.13.1, PutValue 8.7.2) changes it.
	cases := []struct{ name, src, want string }{
		{
			"self-replacing-function",
			`function init() {
			   log('expensive init');
			   init = function () { log('cached') };
			 }
			 init(); init(); init(); typeof init`,
			`[expensive init|cached|cached] function`,
		},
		{
			"assignment-visible-outside",
			`function f() { f = 1 } f(); typeof f`,
			`[] number`,
		},
		{
			"nested-declaration",
			`function outer() { function g() { g = 'changed' } g(); return typeof g === 'string' ? g : 'still a function' } outer()`,
			`[] changed`,
		},
		{
			// and the converse for FunctionExpression (ES5.1 13, third production): the
			// binding of its own name must be immutable, the assignment is ignored.
			"named-function-expression-binding-is-immutable",
			`var h = function me() { me = 1; return typeof me }; h()`,
			`[] function`,
		},
	}

	for _, c := range cases {
		for _, route := range c01f3Routes {
			if got := c01f3Run(route, c.src); got != c.want {
				t.Errorf("%s via %s:\n   got  %s\n   want %s", c.name, route, got, c.want)
			}
		}
	}
}
