// C01 finding 2: compound assignment (`x += f()`, `o.p *= g()` ...) reads the
// left operand AFTER the right operand has been evaluated, so any side effect of
// the right-hand side on the target is wrongly folded into the result.
//
// Place this file in the root of the otto module (package otto) as
// zz_find_test.go (or demo_test.go) and run:
//
//	export GOFLAGS=-mod=mod GOPROXY=off GOSUMDB=off GOTOOLCHAIN=local
//	go test -vet=off -count=1 -run 'TestFindC01F2' .
package otto

import (
	"fmt"
	"strings"
	"testing"

	"github.com/robertkrimen/otto/parser"
)

// c01f2Run evaluates src through one of the five submission routes of the
// property and returns "[host calls] completion-or-error".
func c01f2Run(route, src string) (out string) {
	defer func() {
		if r := recover(); r != nil {
			out = fmt.Sprintf("GO PANIC escaped from the interpreter: %v", r)
		}
	}()
	var log []string
	newVM := func() *Otto {
		vm := New()
		_ = vm.Set("log", func(call FunctionCall) Value {
			parts := []string{}
			for _, a := range call.ArgumentList {
				parts = append(parts, a.String())
			}
			log = append(log, strings.Join(parts, ","))
			return Value{}
		})
		return vm
	}
	vm := newVM()
	var v Value
	var err error
	switch route {
	case "source":
		v, err = vm.Run(src)
	case "script":
		s, cerr := vm.Compile("", src)
		if cerr != nil {
			return "compile: " + cerr.Error()
		}
		v, err = vm.Run(s)
	case "program":
		p, perr := parser.ParseFile(nil, "", src, 0)
		if perr != nil {
			return "parse: " + perr.Error()
		}
		v, err = vm.Run(p)
	case "eval":
		v, err = vm.Eval(src)
	case "script-other-runtime":
		other := newVM()
		s, cerr := other.Compile("", src)
		if cerr != nil {
			return "compile: " + cerr.Error()
		}
		_, _ = other.Run(s)
		log = nil
		v, err = vm.Run(s)
	}
	res := v.String()
	if err != nil {
		res = "uncaught " + err.Error()
	}
	return "[" + strings.Join(log, "|") + "] " + res
}

var c01f2Routes = []string{"source", "script", "program", "eval", "script-other-runtime"}

func TestFindC01F2(t *testing.T) {
	// ES5.1 11.13.2 Compound Assignment (op=):
	//   1. Let lref be the result of evaluating LeftHandSideExpression.
	//   2. Let lval be GetValue(lref).                      <-- before step 3
	//   3. Let rref be the result of evaluating AssignmentExpression.
	//   4. Let rval be GetValue(rref).
	//   5. Let r be the result of applying operator @ to lval and rval.
	cases := []struct{ name, src, want string }{
		{
			"accumulator-updated-by-callee",
			`var total = 1;
			 function add(n) { total += n; log('add', n, total); return n }
			 total += add(10);          // 1 + 10, not 11 + 10
			 log('total', total); total`,
			`[add,10,11|total,11] 11`,
		},
		{
			"plain-variable",
			`var x = 1; x += (x = 5); x`,
			`[] 6`,
		},
		{
			"property-target",
			`var o = {n: 2}; function bump() { o.n = 100; return 3 } o.n *= bump(); o.n`,
			`[] 6`,
		},
		{
			"string-building",
			`var s = 'a'; function tail() { s = 'X'; return 'b' } s += tail(); s`,
			`[] ab`,
		},
	}

	for _, c := range cases {
		for _, route := range c01f2Routes {
			if got := c01f2Run(route, c.src); got != c.want {
				t.Errorf("%s via %s:\n   got  %s\n   want %s", c.name, route, got, c.want)
			}
		}
	}
}
