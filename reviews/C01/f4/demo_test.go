// C01 finding 4: `return` (or `break`/`continue` to an OUTER label) inside the body
// of a for-in loop only stops the enumeration of the object that is currently
// being walked; the loop then carries on with the next object on the prototype
// chain, runs the body again for its enumerable properties, and the value
// finally returned is the one produced by the LAST such extra iteration.
//
// Place this file in the root of the otto module (package otto) as
// zz_find_test.go (or demo_test.go) and run:
//
//	export GOFLAGS=-mod=mod GOPROXY=off GOSUMDB=off GOTOOLCHAIN=local
//	go test -vet=off -count=1 -run 'TestFindC01F4' .
package otto

import (
	"fmt"
	"strings"
	"testing"

	"github.com/robertkrimen/otto/parser"
)

// c01f4Run evaluates src through one of the five submission routes of the
// property and returns "[host calls] completion-or-error".
func c01f4Run(route, src string) (out string) {
	defer func() {
		if r := recover(); r != nil {
			out = fmt.Sprintf("GO PANIC escaped from the interpreter: %v", r)
		}
	}()
	var log []string
	newVM := func() *Otto {
		vm := New()
		_ = vm.Set("log", func(call FunctionCall) Value {
			parts := []string{}
			for _, a := range call.ArgumentList {
				parts = append(parts, a.String())
			}
			log = append(log, strings.Join(parts, ","))
			return Value{}
		})
		return vm
	}
	vm := newVM()
	var v Value
	var err error
	switch route {
	case "source":
		v, err = vm.Run(src)
	case "script":
		s, cerr := vm.Compile("", src)
		if cerr != nil {
			return "compile: " + cerr.Error()
		}
		v, err = vm.Run(s)
	case "program":
		p, perr := parser.ParseFile(nil, "", src, 0)
		if perr != nil {
			return "parse: " + perr.Error()
		}
		v, err = vm.Run(p)
	case "eval":
		v, err = vm.Eval(src)
	case "script-other-runtime":
		other := newVM()
		s, cerr := other.Compile("", src)
		if cerr != nil {
			return "compile: " + cerr.Error()
		}
		_, _ = other.Run(s)
		log = nil
		v, err = vm.Run(s)
	}
	res := v.String()
	if err != nil {
		res = "uncaught " + err.Error()
	}
	return "[" + strings.Join(log, "|") + "] " + res
}

var c01f4Routes = []string{"source", "script", "program", "eval", "script-other-runtime"}

func TestFindC01F4(t *testing.T) {
	// ES5.1 12.6.4 step 6.g / 7.g: "If stmt is an abrupt completion, return stmt."
	// (a return, or a break/continue whose target is not in the current label set,
	// terminates the whole for-in statement); 12.9 return; 13.2.1 [[Call]].
	cases := []struct{ name, src, want string }{
		{
			"return-first-key",
			`function Animal() { this.name = 'rex' }
			 Animal.prototype.speak = function () {};
			 function firstKey(o) { for (var k in o) { log('visit', k); return k } }
			 firstKey(new Animal())`,
			`[visit,name] name`,
		},
		{
			"search-loop-with-return",
			`var base = {z: 26}; var o = Object.create(base); o.a = 1; o.b = 2;
			 function find(obj, v) { for (var k in obj) { log(k); if (obj[k] === v) return k; } return 'none' }
			 find(o, 1)`,
			`[a] a`,
		},
		{
			"continue-outer-label",
			`var proto = {q: 1}; var inner = Object.create(proto); inner.p = 1;
			 var s = '';
			 outer: for (var a in {x: 1, y: 2}) { for (var b in inner) { s += a + b + ' '; continue outer; } }
			 s`,
			`[] xp yp `,
		},
		{
			"break-outer-label",
			`var proto = {q: 1}; var inner = Object.create(proto); inner.p = 1;
			 var s = '';
			 outer: { for (var b in inner) { s += b; log(b); break outer; } }
			 s`,
			`[p] p`,
		},
	}

	for _, c := range cases {
		for _, route := range c01f4Routes {
			if got := c01f4Run(route, c.src); got != c.want {
				t.Errorf("%s via %s:\n   got  %s\n   want %s", c.name, route, got, c.want)
			}
		}
	}
}
