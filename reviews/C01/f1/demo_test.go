// C01 finding 1: a labelled `break` that is not lexically inside the FIRST block
// evaluated after the label (e.g. it sits in the catch or finally block of a
// directly labelled try statement, or in the body of `L: if (f()) {...}`) is not
// consumed by its label.  At program level the rest of the program is silently
// skipped (Run returns undefined, nil); inside a function the call returns the
// interpreter-internal "empty" value, which makes the host process panic.
//
// Place this file in the root of the otto module (package otto) as
// zz_find_test.go (or demo_test.go) and run:
//
//	export GOFLAGS=-mod=mod GOPROXY=off GOSUMDB=off GOTOOLCHAIN=local
//	go test -vet=off -count=1 -run 'TestFindC01F1' .
package otto

import (
	"fmt"
	"strings"
	"testing"

	"github.com/robertkrimen/otto/parser"
)

// c01f1Run evaluates src through one of the five submission routes of the
// property and returns "[host calls] completion-or-error".
func c01f1Run(route, src string) (out string) {
	defer func() {
		if r := recover(); r != nil {
			out = fmt.Sprintf("GO PANIC escaped from the interpreter: %v", r)
		}
	}()
	var log []string
	newVM := func() *Otto {
		vm := New()
		_ = vm.Set("log", func(call FunctionCall) Value {
			parts := []string{}
			for _, a := range call.ArgumentList {
				parts = append(parts, a.String())
			}
			log = append(log, strings.Join(parts, ","))
			return Value{}
		})
		return vm
	}
	vm := newVM()
	var v Value
	var err error
	switch route {
	case "source":
		v, err = vm.Run(src)
	case "script":
		s, cerr := vm.Compile("", src)
		if cerr != nil {
			return "compile: " + cerr.Error()
		}
		v, err = vm.Run(s)
	case "program":
		p, perr := parser.ParseFile(nil, "", src, 0)
		if perr != nil {
			return "parse: " + perr.Error()
		}
		v, err = vm.Run(p)
	case "eval":
		v, err = vm.Eval(src)
	case "script-other-runtime":
		other := newVM()
		s, cerr := other.Compile("", src)
		if cerr != nil {
			return "compile: " + cerr.Error()
		}
		_, _ = other.Run(s)
		log = nil
		v, err = vm.Run(s)
	}
	res := v.String()
	if err != nil {
		res = "uncaught " + err.Error()
	}
	return "[" + strings.Join(log, "|") + "] " + res
}

var c01f1Routes = []string{"source", "script", "program", "eval", "script-other-runtime"}

func TestFindC01F1(t *testing.T) {
	cases := []struct{ name, src, want string }{
		{
			// ES5.1 12.12: "LabelledStatement : Identifier : Statement ... If the result of
			// evaluating Statement is (break, V, L) where L is equal to Identifier, the
			// production results in (normal, V, empty)."  12.14: the catch block's
			// completion is the completion of the try statement.
			"break-from-catch-at-program-level",
			`log('start'); out: try { throw 1 } catch (e) { log('caught'); break out; } log('after'); 'done'`,
			`[start|caught|after] done`,
		},
		{
			"break-from-finally-at-program-level",
			`out: try { log('try') } finally { break out; } log('after'); 'done'`,
			`[try|after] done`,
		},
		{
			// the function body block of t() eats the pending label set
			"break-from-labelled-if-whose-test-calls-a-function",
			`function t() { return true } out: if (t()) { log('in'); break out; } log('after'); 'done'`,
			`[in|after] done`,
		},
		{
			"break-from-catch-inside-function",
			`function parse(s) {
			   attempt: try { return JSON.parse(s) } catch (e) { break attempt }
			   return 'fallback'
			 }
			 var r = parse('{'); log(typeof r); r`,
			`[string] fallback`,
		},
	}
	for _, c := range cases {
		for _, route := range c01f1Routes {
			if got := c01f1Run(route, c.src); got != c.want {
				t.Errorf("%s via %s:\n   got  %s\n   want %s", c.name, route, got, c.want)
			}
		}
	}
}
