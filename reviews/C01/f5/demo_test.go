// C01 finding 5: the discriminant of a switch statement is kept as an unresolved
// Reference and GetValue is applied to it again for every case clause that is
// tested (and never if there is no case clause).  A getter / host-backed property
// is therefore read N times instead of once, a case expression with a side effect
// on the discriminant variable changes which clause is selected, and
// `switch (undeclared) {}` does not throw.
//
// Place this file in the root of the otto module (package otto) as
// zz_find_test.go (or demo_test.go) and run:
//
//	export GOFLAGS=-mod=mod GOPROXY=off GOSUMDB=off GOTOOLCHAIN=local
//	go test -vet=off -count=1 -run 'TestFindC01F5' .
package otto

import (
	"fmt"
	"strings"
	"testing"

	"github.com/robertkrimen/otto/parser"
)

// c01f5Run evaluates src through one of the five submission routes of the
// property and returns "[host calls] completion-or-error".
func c01f5Run(route, src string) (out string) {
	defer func() {
		if r := recover(); r != nil {
			out = fmt.Sprintf("GO PANIC escaped from the interpreter: %v", r)
		}
	}()
	var log []string
	newVM := func() *Otto {
		vm := New()
		_ = vm.Set("log", func(call FunctionCall) Value {
			parts := []string{}
			for _, a := range call.ArgumentList {
				parts = append(parts, a.String())
			}
			log = append(log, strings.Join(parts, ","))
			return Value{}
		})
		return vm
	}
	vm := newVM()
	var v Value
	var err error
	switch route {
	case "source":
		v, err = vm.Run(src)
	case "script":
		s, cerr := vm.Compile("", src)
		if cerr != nil {
			return "compile: " + cerr.Error()
		}
		v, err = vm.Run(s)
	case "program":
		p, perr := parser.ParseFile(nil, "", src, 0)
		if perr != nil {
			return "parse: " + perr.Error()
		}
		v, err = vm.Run(p)
	case "eval":
		v, err = vm.Eval(src)
	case "script-other-runtime":
		other := newVM()
		s, cerr := other.Compile("", src)
		if cerr != nil {
			return "compile: " + cerr.Error()
		}
		_, _ = other.Run(s)
		log = nil
		v, err = vm.Run(s)
	}
	res := v.String()
	if err != nil {
		res = "uncaught " + err.Error()
	}
	return "[" + strings.Join(log, "|") + "] " + res
}

var c01f5Routes = []string{"source", "script", "program", "eval", "script-other-runtime"}

func TestFindC01F5(t *testing.T) {
	// ES5.1 12.11: "SwitchStatement : switch ( Expression ) CaseBlock
	//   1. Let exprRef be the result of evaluating Expression.
	//   2. Let R be the result of evaluating CaseBlock, passing it GetValue(exprRef)
	//      as a parameter."
	// i.e. GetValue happens exactly once, before any CaseClause expression is evaluated.
	cases := []struct{ name, src, want string }{
		{
			"getter-read-once",
			`var o = {get kind() { log('read kind'); return 3 }};
			 var r; switch (o.kind) { case 1: r = 'one'; break; case 2: r = 'two'; break; case 3: r = 'three'; break } r`,
			`[read kind] three`,
		},
		{
			"case-expression-modifies-discriminant-variable",
			`var x = 1; var r;
			 function next() { return x = 2 }
			 switch (x) { case next(): r = 'two'; break; case 1: r = 'one'; break; default: r = 'none' } r`,
			`[] one`,
		},
		{
			"empty-case-block-still-evaluates-discriminant",
			`var o = {get kind() { log('read kind'); return 3 }}; switch (o.kind) { } 'done'`,
			`[read kind] done`,
		},
		{
			"unresolvable-discriminant-throws",
			`var r = 'no error'; try { switch (undeclaredVariable) { default: } } catch (e) { r = e.name } r`,
			`[] ReferenceError`,
		},
	}

	for _, c := range cases {
		for _, route := range c01f5Routes {
			if got := c01f5Run(route, c.src); got != c.want {
				t.Errorf("%s via %s:\n   got  %s\n   want %s", c.name, route, got, c.want)
			}
		}
	}
}
