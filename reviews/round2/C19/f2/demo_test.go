// Place as zz_find_test.go in the root of the otto module (package otto) and run:
//   export GOFLAGS=-mod=mod GOPROXY=off GOSUMDB=off GOTOOLCHAIN=local
//   go test -vet=off -count=1 -run 'TestFindF2' .
package otto

import "testing"

// An uncaught exception comes back from Run as an error whose text is
// "Name: message" of the THROWN VALUE (ES5.1 15.11.4.4 applied to the value
// as it is when thrown). otto reports the name/message the Error object had
// when it was constructed.
func TestFindF2(t *testing.T) {
	for _, tc := range []struct{ src, want string }{
		{`var e = new Error("a"); e.message = "b"; throw e`, "Error: b"},
		{`var e = new Error("a"); e.name = "MyError"; throw e`, "MyError: a"},
		{`var e = new Error("a"); delete e.message; throw e`, "Error"},
		{`try { null.x } catch (e) { e.message = "wrapped: " + e.message; throw e }`,
			`TypeError: wrapped: Cannot access member "x" of null`},
	} {
		vm := New()
		// what the script itself sees
		seen, _ := vm.Run(`(function(){ try { ` + tc.src + ` } catch (x) { return String(x) } })()`)
		vm = New()
		_, err := vm.Run(tc.src)
		if err == nil {
			t.Errorf("%s: no error", tc.src)
			continue
		}
		if err.Error() != tc.want {
			t.Errorf("%s:\n  Run error text = %q\n  want            %q (script sees String(e) = %q)", tc.src, err.Error(), tc.want, seen)
		}
	}
}
