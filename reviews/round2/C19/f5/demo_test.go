// Place as zz_find_test.go in the root of the otto module (package otto) and run:
//   export GOFLAGS=-mod=mod GOPROXY=off GOSUMDB=off GOTOOLCHAIN=local
//   go test -vet=off -count=1 -run 'TestFindF5' .
package otto

import (
	"strings"
	"testing"
)

// The RangeError for an invalid array length (ES5.1 15.4.2.2, 15.4.5.1 step
// 3.d) must have a non-empty message, and uncaught it must read
// "RangeError: <message>". otto raises it with no message at all.
func TestFindF5(t *testing.T) {
	for _, src := range []string{
		`new Array(-1)`,
		`Array(1.5)`,
		`new Array(4294967296)`,
		`var a = []; a.length = -1`,
		`var a = []; a.length = 4294967296`,
		`Object.defineProperty([], "length", {value: -1})`,
	} {
		vm := New()
		v, err := vm.Run(`(function(){ try { ` + src + `; return "no error" } catch (e) {
			return (e instanceof RangeError) + "|" + (typeof e.message) + "|" + String(e.message === undefined ? "" : e.message).length + "|" + e.hasOwnProperty("message") } })()`)
		if err != nil {
			t.Fatal(err)
		}
		got := v.String()
		parts := strings.Split(got, "|")
		if len(parts) != 4 || parts[0] != "true" || parts[1] != "string" || parts[2] == "0" {
			t.Errorf("%s: caught [instanceof RangeError|typeof message|message.length|own message] = %s, want a non-empty message", src, got)
		}
		_, err = New().Run(src)
		if err == nil || !strings.HasPrefix(err.Error(), "RangeError: ") || len(err.Error()) <= len("RangeError: ") {
			t.Errorf("%s: uncaught Run error = %q, want \"RangeError: <non-empty message>\"", src, err)
		}
	}
}
