// Place as zz_find_test.go in the root of the otto module (package otto) and run:
//   export GOFLAGS=-mod=mod GOPROXY=off GOSUMDB=off GOTOOLCHAIN=local
//   go test -vet=off -count=1 -run 'TestFindF3' .
package otto

import (
	"strings"
	"testing"
)

// A TypeError raised by instanceof / in on a non-object (ES5.1 11.8.6 step 5,
// 11.8.7 step 5) must carry the source position of the construct. otto gives
// the position of the last *call* evaluated in the same activation (a different
// line and column), or "<unknown>" if there was none.
func TestFindF3(t *testing.T) {
	for _, tc := range []struct{ name, src, want string }{
		{"instanceof-after-call", "function g(){}\nfunction f(){ g();\n\n   1 instanceof 2 }\nf()", "f (<anonymous>:4:"},
		{"in-after-call", "function g(){}\nfunction f(){ g();\n\n   'a' in 2 }\nf()", "f (<anonymous>:4:"},
		{"instanceof-noncallable", "function g(){}\nfunction f(){ g();\n\n   1 instanceof {} }\nf()", "f (<anonymous>:4:"},
		{"instanceof-toplevel", "\n\n   1 instanceof 2", "<anonymous>:3:"},
		{"in-in-function", "function f(){\n\n   'a' in 1 }\nf()", "f (<anonymous>:3:"},
	} {
		vm := New()
		_, err := vm.Run(tc.src)
		oe, ok := err.(*Error)
		if !ok {
			t.Errorf("%s: want *Error, got %T %v", tc.name, err, err)
			continue
		}
		if !strings.HasPrefix(oe.Error(), "TypeError: ") {
			t.Errorf("%s: text %q", tc.name, oe.Error())
		}
		lines := strings.Split(oe.String(), "\n")
		if len(lines) < 2 || !strings.Contains(lines[1], tc.want) {
			t.Errorf("%s: innermost frame %q, want it to contain %q\n%s", tc.name, lines[1], tc.want, oe.String())
		}
	}
}
