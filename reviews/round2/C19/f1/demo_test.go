// Place as zz_find_test.go in the root of the otto module (package otto) and run:
//   export GOFLAGS=-mod=mod GOPROXY=off GOSUMDB=off GOTOOLCHAIN=local
//   go test -vet=off -count=1 -run 'TestFindF1' .
package otto

import (
	"strings"
	"testing"
)

// The stack trace must name every active call, innermost first. A call whose
// callee is not an identifier / member expression (an IIFE, f()(), (0,f)(),
// new (f())()) makes the calling activation vanish from the trace.
func TestFindF1(t *testing.T) {
	for _, tc := range []struct {
		name, src string
		want      []string // one substring per expected "at" line, innermost first
	}{
		{
			"iife",
			"function f(){\n (function(){ null.x })() }\nf()",
			[]string{"<anonymous>:2:", "f (<anonymous>:2:", "<anonymous>:3:1"},
		},
		{
			"call-of-call",
			"function f(){\n g()() }\nfunction g(){ return function h(){ null.x } }\nf()",
			[]string{"h (<anonymous>:3:", "f (<anonymous>:2:", "<anonymous>:4:1"},
		},
		{
			"comma-callee",
			"function f(){\n (0,g)() }\nfunction g(){ null.x }\nf()",
			[]string{"g (<anonymous>:3:", "f (<anonymous>:2:", "<anonymous>:4:1"},
		},
		{
			"new-of-call",
			"function f(){\n new (g())() }\nfunction g(){ return function h(){ null.x } }\nf()",
			[]string{"h (<anonymous>:3:", "f (<anonymous>:2:", "<anonymous>:4:1"},
		},
	} {
		vm := New()
		_, err := vm.Run(tc.src)
		oe, ok := err.(*Error)
		if !ok {
			t.Errorf("%s: want *Error, got %T %v", tc.name, err, err)
			continue
		}
		var at []string
		for _, line := range strings.Split(oe.String(), "\n") {
			if strings.HasPrefix(line, "    at ") {
				at = append(at, line)
			}
		}
		if len(at) != len(tc.want) {
			t.Errorf("%s: want %d frames, got %d:\n%s", tc.name, len(tc.want), len(at), oe.String())
			continue
		}
		for i, w := range tc.want {
			if !strings.Contains(at[i], w) {
				t.Errorf("%s: frame %d = %q, want it to contain %q\n%s", tc.name, i, at[i], w, oe.String())
			}
		}
	}
}
