// Place as zz_find_test.go in the root of the otto module (package otto) and run:
//   export GOFLAGS=-mod=mod GOPROXY=off GOSUMDB=off GOTOOLCHAIN=local
//   go test -vet=off -count=1 -run 'TestFindF4' .
package otto

import (
	"strings"
	"testing"
)

// ES5.1 15.10.4.1: "If the characters of P do not have the syntactic form
// Pattern, then throw a SyntaxError exception." otto raises a TypeError for
// every pattern its own regexp transformer rejects.
func TestFindF4(t *testing.T) {
	for _, pattern := range []string{"(", "[", "a)", "(?", "[b-a]", "\\"} {
		vm := New()
		if err := vm.Set("p", pattern); err != nil {
			t.Fatal(err)
		}
		v, err := vm.Run(`(function(){ try { new RegExp(p); return "no error" } catch (e) {
			return [e instanceof SyntaxError, e instanceof TypeError, e.name, Object.getPrototypeOf(e) === SyntaxError.prototype].join("|") } })()`)
		if err != nil {
			t.Fatal(err)
		}
		if got := v.String(); got != "no error" && got != "true|false|SyntaxError|true" {
			t.Errorf("new RegExp(%q): caught [instanceof SyntaxError|instanceof TypeError|name|proto] = %s, want true|false|SyntaxError|true", pattern, got)
		}
		_, err = vm.Run(`RegExp(p)`)
		if err != nil && !strings.HasPrefix(err.Error(), "SyntaxError: ") {
			t.Errorf("RegExp(%q) uncaught: Run error %q, want it to start with \"SyntaxError: \"", pattern, err.Error())
		}
	}
}
