// Place as /tmp/wt6/C10/zz_find_test.go (package otto, module root) and run:
//   cd /tmp/wt6/C10 && go test -vet=off -count=1 -run 'TestFindC10F3' .
//
// Captures inside a quantified group are not reset at the start of each
// iteration (15.10.2.5 RepeatMatcher step 4, and NOTE 3 of that clause, whose
// example is the first case below).
package otto

import "testing"

func TestFindC10F3(t *testing.T) {
	for _, c := range []struct{ src, want string }{
		// literally the example of 15.10.2.5 NOTE 3
		{`JSON.stringify(/(z)((a+)?(b+)?(c))*/.exec("zaacbbbcac"))`, `["zaacbbbcac","z","ac","a",null,"c"]`},
		{`JSON.stringify(/(?:(a)|b)*/.exec("ab"))`, `["ab",null]`},
		{`JSON.stringify(/(?:(a)|(b))+/.exec("ab"))`, `["ab",null,"b"]`},
		{`"ab".replace(/(?:(a)|b)*/, "[$1]")`, `[]`},
		{`JSON.stringify("xaby".split(/(?:(a)|b)+/))`, `["x",null,"y"]`},
	} {
		vm := New()
		v, err := vm.Run(c.src)
		if err != nil {
			t.Errorf("%s: %v", c.src, err)
			continue
		}
		if got := v.String(); got != c.want {
			t.Errorf("%s\n   got  %s\n   want %s", c.src, got, c.want)
		}
	}
}
