// Place as /tmp/wt6/C10/zz_find_test.go (package otto, module root) and run:
//   cd /tmp/wt6/C10 && go test -vet=off -count=1 -run 'TestFindC10F5' .
//
// A two-digit back-reference (\10 ... \77 written with the digits 0-7 only) is
// not rejected like \1..\9 are: it is silently translated to an octal
// character escape, so the pattern compiles and matches the wrong strings.
package otto

import (
	"strings"
	"testing"
)

func TestFindC10F5(t *testing.T) {
	ten := `(a)(b)(c)(d)(e)(f)(g)(h)(i)(j)`
	for _, src := range []string{
		// 15.10.2.11 / 15.10.2.9: \10 with ten groups is a back-reference to group 10 ("j").
		`new RegExp("` + ten + `\\10").test("abcdefghijj")`,
		`/` + ten + `\10/.test("abcdefghijj")`,
		// ... and must not match U+0008
		`!new RegExp("` + ten + `\\10").test("abcdefghij\b")`,
		`!new RegExp("` + ten + `(k)\\11").test("abcdefghijk\t")`,
	} {
		vm := New()
		v, err := vm.Run(src)
		if err != nil {
			// Rejecting the unsupported construct is what the property asks for
			// (this is what happens for \1 .. \9).
			if strings.Contains(err.Error(), "Invalid regular expression") {
				continue
			}
			t.Errorf("%s: %v", src, err)
			continue
		}
		if got := v.String(); got != "true" {
			t.Errorf("%s\n   got  %s (no error either)\n   want true, or an \"Invalid regular expression\" error as for \\1", src, got)
		}
	}
	// for comparison: the one-digit form is rejected
	if _, err := New().Run(`new RegExp("(a)\\1")`); err == nil {
		t.Errorf(`(a)\1 accepted`)
	}
}
