// Place as /tmp/wt6/C10/zz_find_test.go (package otto, module root) and run:
//   cd /tmp/wt6/C10 && go test -vet=off -count=1 -run 'TestFindC10F4' .
//
// Global match / replace drop an empty match that directly follows a non-empty
// one (Go's FindAll* rule), which the exec loop of 15.5.4.10 step 8.f keeps.
package otto

import "testing"

func TestFindC10F4(t *testing.T) {
	for _, c := range []struct{ src, want string }{
		{`JSON.stringify("baac".match(/a*/g))`, `["","aa","",""]`},
		{`"baac".replace(/a*/g, "-")`, `-b--c-`},
		{`"abc".replace(/b*/g, "-")`, `-a--c-`},
		{`"aa".replace(/a*/g, "X")`, `XX`},
		{`var n = 0; "baac".replace(/a*/g, function () { n++; return "" }); n`, `4`},
		// the same loop written by hand with exec gives the ES5 answer in otto too
		{`var r = /a*/g, out = [], m; while ((m = r.exec("baac"))) { out.push(m[0]); if (m[0] === "") r.lastIndex++; } JSON.stringify(out)`, `["","aa","",""]`},
	} {
		vm := New()
		v, err := vm.Run(c.src)
		if err != nil {
			t.Errorf("%s: %v", c.src, err)
			continue
		}
		if got := v.String(); got != c.want {
			t.Errorf("%s\n   got  %s\n   want %s", c.src, got, c.want)
		}
	}
}
