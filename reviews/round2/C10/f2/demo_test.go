// Place as /tmp/wt6/C10/zz_find_test.go (package otto, module root) and run:
//   cd /tmp/wt6/C10 && go test -vet=off -count=1 -run 'TestFindC10F2' .
//
// String.prototype.match with a global expression that matches nowhere returns
// undefined; 15.5.4.10 step 8.g says null.
package otto

import "testing"

func TestFindC10F2(t *testing.T) {
	for _, c := range []struct{ src, want string }{
		{`"abc".match(/x/g) === null`, `true`},
		{`String("abc".match(/x/g))`, `null`},
		{`var m = "abc".match(/x/g); typeof m`, `object`},
		// the non-global path is right, for comparison
		{`"abc".match(/x/) === null`, `true`},
	} {
		vm := New()
		v, err := vm.Run(c.src)
		if err != nil {
			t.Errorf("%s: %v", c.src, err)
			continue
		}
		if got := v.String(); got != c.want {
			t.Errorf("%s\n   got  %s\n   want %s", c.src, got, c.want)
		}
	}
}
