// Place as /tmp/wt6/C10/zz_find_test.go (package otto, module root) and run:
//   cd /tmp/wt6/C10 && go test -vet=off -count=1 -run 'TestFindC10F1' .
//
// RegExp.prototype.exec on a global expression cuts the subject at lastIndex
// before matching, so ^ (and \b, \B) are evaluated as if lastIndex were the
// start of the input.
package otto

import "testing"

func TestFindC10F1(t *testing.T) {
	for _, c := range []struct{ src, want string }{
		// 15.10.2.6: ^ succeeds only at e == 0 (no multiline flag).
		{`var r = /^a/g; r.exec("aa"); JSON.stringify(r.exec("aa"))`, `null`},
		{`var r = /^\d/g, n = 0; while (r.exec("123")) n++; n`, `1`},
		{`var r = /^a/g; r.lastIndex = 1; r.test("aa") + ":" + r.lastIndex`, `false:0`},
		// 15.10.2.6: \b at e looks at the characters e-1 and e of the WHOLE input.
		{`var r = /\bb/g; r.lastIndex = 1; JSON.stringify(r.exec("ab"))`, `null`},
		{`var r = /\Bb/g; r.lastIndex = 1; r.exec("ab").index`, `1`},
	} {
		vm := New()
		v, err := vm.Run(c.src)
		if err != nil {
			t.Errorf("%s: %v", c.src, err)
			continue
		}
		if got := v.String(); got != c.want {
			t.Errorf("%s\n   got  %s\n   want %s", c.src, got, c.want)
		}
	}
}
