// Place this file in the root of the otto module (package otto), e.g. /tmp/wt6/C09/zz_find_test.go, and run:
//   export GOFLAGS=-mod=mod GOPROXY=off GOSUMDB=off GOTOOLCHAIN=local
//   cd /tmp/wt6/C09 && go test -vet=off -count=1 -run 'TestFindLoneSurrogate' .
package otto

import "testing"

func findRunLoneSurrogate(t *testing.T, cases [][2]string) {
	t.Helper()
	for _, c := range cases {
		vm := New()
		v, err := vm.Run(c[0])
		if err != nil {
			t.Errorf("%s: error %v, want %q", c[0], err, c[1])
			continue
		}
		if got := v.String(); got != c[1] {
			t.Errorf("%s: got %q, want %q", c[0], got, c[1])
		}
	}
}

// ES5.1 8.4: a String is a sequence of arbitrary 16-bit unsigned integers.
// 15.5.4.4 charAt returns "a String of length 1, containing one character from
// S, namely the character at position"; 15.5.3.2 fromCharCode returns the
// string whose elements are exactly the ToUint16 of the arguments; 15.5.5.2
// the index property of a String object is that same single character.
// So taking an astral character apart and putting it together again is lossless.
func TestFindLoneSurrogate(t *testing.T) {
	findRunLoneSurrogate(t, [][2]string{
		{`"😀".charCodeAt(0)`, "55357"},                         // passes
		{`"😀".charAt(0).charCodeAt(0)`, "55357"},               // got 65533
		{`"😀"[1].charCodeAt(0)`, "56832"},                      // got 65533
		{`new String("😀")[0].charCodeAt(0)`, "55357"},          // got 65533
		{`"😀".charAt(0) + "😀".charAt(1) === "😀"`, "true"},    // got false
		{`String.fromCharCode(0xD800).charCodeAt(0)`, "55296"}, // got 65533
		{`String.fromCharCode(0xD83D) + String.fromCharCode(0xDE00) === "😀"`, "true"}, // got false
		{`"\uD83D".charCodeAt(0)`, "55357"},                    // got 65533
		{`"😀".charAt(0) === "😀".charAt(1)`, "false"},          // got true: both halves collapse to U+FFFD
		{`"😀".split("").length`, "2"},                          // got 1 (15.5.4.14: empty separator splits into single characters)
		{`"😀a".indexOf("\uDE00")`, "1"},                        // got -1
	})
}
