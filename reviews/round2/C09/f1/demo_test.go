// Place this file in the root of the otto module (package otto), e.g. /tmp/wt6/C09/zz_find_test.go, and run:
//   export GOFLAGS=-mod=mod GOPROXY=off GOSUMDB=off GOTOOLCHAIN=local
//   cd /tmp/wt6/C09 && go test -vet=off -count=1 -run 'TestFindSliceCodeUnits' .
package otto

import "testing"

func findRunSliceCodeUnits(t *testing.T, cases [][2]string) {
	t.Helper()
	for _, c := range cases {
		vm := New()
		v, err := vm.Run(c[0])
		if err != nil {
			t.Errorf("%s: error %v, want %q", c[0], err, c[1])
			continue
		}
		if got := v.String(); got != c[1] {
			t.Errorf("%s: got %q, want %q", c[0], got, c[1])
		}
	}
}

// ES5.1 15.5.4.13 (slice), 15.5.4.15 (substring), B.2.3 (substr): positions and
// lengths are counted in "characters" = 16-bit code units (8.4, 15.5.4.13 step 3
// "len be the number of characters in S").  "a😀b" is the 4 code units
// 0x61 0xD83D 0xDE00 0x62.
func TestFindSliceCodeUnits(t *testing.T) {
	findRunSliceCodeUnits(t, [][2]string{
		{`"a😀b".length`, "4"},              // passes: length is in code units
		{`"a😀b".substring(3)`, "b"},        // got ""
		{`"a😀b".slice(3)`, "b"},            // got ""
		{`"a😀b".substr(3)`, "b"},           // got ""
		{`"a😀b".slice(1, 3)`, "😀"},        // got "😀b"
		{`"a😀b".substr(1, 2)`, "😀"},       // got "😀b"
		{`"a😀b".slice(-3, -1)`, "😀"},      // got "a😀"
		{`"a😀b".substring(0, 3).length`, "3"}, // got 4
		{`var s = "x😀y"; s.slice(0, s.indexOf("y"))`, "x😀"}, // got "x😀y": indexOf answers 3 (code units), slice counts code points
	})
}
