// Place this file in the root of the otto module (package otto), e.g. /tmp/wt6/C09/zz_find_test.go, and run:
//   export GOFLAGS=-mod=mod GOPROXY=off GOSUMDB=off GOTOOLCHAIN=local
//   cd /tmp/wt6/C09 && go test -vet=off -count=1 -run 'TestFindLastIndexOfNaN' .
package otto

import "testing"

func findRunLastIndexOfNaN(t *testing.T, cases [][2]string) {
	t.Helper()
	for _, c := range cases {
		vm := New()
		v, err := vm.Run(c[0])
		if err != nil {
			t.Errorf("%s: error %v, want %q", c[0], err, c[1])
			continue
		}
		if got := v.String(); got != c[1] {
			t.Errorf("%s: got %q, want %q", c[0], got, c[1])
		}
	}
}

// ES5.1 15.5.4.8 lastIndexOf:
//   4. Let numPos be ToNumber(position).
//   5. If numPos is NaN, let pos be +Infinity; otherwise, let pos be ToInteger(numPos).
//   7. Let start = min(max(pos, 0), len).
// So a NaN position searches the whole string, and -Infinity behaves as 0.
// ASCII only: no encoding question involved.
func TestFindLastIndexOfNaN(t *testing.T) {
	findRunLastIndexOfNaN(t, [][2]string{
		{`"abc".lastIndexOf("c", undefined)`, "2"}, // passes (special-cased)
		{`"abc".lastIndexOf("c", NaN)`, "2"},       // got -1
		{`"abc".lastIndexOf("c", "x")`, "2"},       // got -1
		{`"abc".lastIndexOf("c", {})`, "2"},        // got -1
		{`"abcabc".lastIndexOf("b", 0/0)`, "4"},    // got -1
		{`"abc".lastIndexOf("c", -Infinity)`, "-1"}, // got 2
		{`"abc".lastIndexOf("b", -Infinity)`, "-1"}, // got 1
		{`"abc".lastIndexOf("a", -Infinity)`, "0"},  // passes by accident
	})
}
