// Place this file in the root of the otto module (package otto), e.g. /tmp/wt6/C09/zz_find_test.go, and run:
//   export GOFLAGS=-mod=mod GOPROXY=off GOSUMDB=off GOTOOLCHAIN=local
//   cd /tmp/wt6/C09 && go test -vet=off -count=1 -run 'TestFindIndexOfPosition' .
package otto

import "testing"

func findRunIndexOfPosition(t *testing.T, cases [][2]string) {
	t.Helper()
	for _, c := range cases {
		vm := New()
		v, err := vm.Run(c[0])
		if err != nil {
			t.Errorf("%s: error %v, want %q", c[0], err, c[1])
			continue
		}
		if got := v.String(); got != c[1] {
			t.Errorf("%s: got %q, want %q", c[0], got, c[1])
		}
	}
}

// ES5.1 15.5.4.7 (indexOf) steps 4-8 and 15.5.4.8 (lastIndexOf) steps 4-9:
// position is clamped against len = number of characters (16-bit code units) of
// S, and the answer k is a code-unit index.  The strings below contain only BMP
// characters, one code unit each.
func TestFindIndexOfPosition(t *testing.T) {
	findRunIndexOfPosition(t, [][2]string{
		{`"éabc".indexOf("c")`, "3"},         // passes (no position)
		{`"éabc".indexOf("c", 1)`, "3"},      // got 4
		{`"éabc".indexOf("c", 3)`, "3"},      // got 4
		{`"éabc".indexOf("", 10)`, "4"},      // got 5 (byte length)
		{`"日本語".indexOf("語", 2)`, "2"},      // got 4
		{`"日本語".indexOf("語", 3)`, "-1"},     // got 4: a match is reported beyond the start position's reach
		{`"日本語".indexOf("本", 2)`, "-1"},     // got 3: a match BEFORE position 2 is reported, shifted
		{`"éabc".lastIndexOf("c")`, "3"},     // passes (no position)
		{`"éabc".lastIndexOf("c", 3)`, "3"},  // got -1
		{`"日本語".lastIndexOf("語", 2)`, "2"},  // got -1
		{`"日本語".lastIndexOf("本", 1)`, "1"},  // got -1
	})
}
