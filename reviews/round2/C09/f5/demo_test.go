// Place this file in the root of the otto module (package otto), e.g. /tmp/wt6/C09/zz_find_test.go, and run:
//   export GOFLAGS=-mod=mod GOPROXY=off GOSUMDB=off GOTOOLCHAIN=local
//   cd /tmp/wt6/C09 && go test -vet=off -count=1 -run 'TestFindUndefinedReceiver' .
package otto

import "testing"

func findRunUndefinedReceiver(t *testing.T, cases [][2]string) {
	t.Helper()
	for _, c := range cases {
		vm := New()
		v, err := vm.Run(c[0])
		if err != nil {
			t.Errorf("%s: error %v, want %q", c[0], err, c[1])
			continue
		}
		if got := v.String(); got != c[1] {
			t.Errorf("%s: got %q, want %q", c[0], got, c[1])
		}
	}
}

// Property: "The methods are generic: they ... reject only undefined and null."
// ES5.1 15.5.4.4 .. 15.5.4.20 step 1: "Call CheckObjectCoercible passing the this
// value as its argument" (9.10: undefined and null throw a TypeError), and
// 15.3.4.4 / 15.3.4.3 / 15.3.4.5 NOTE: "The thisArg value is passed without
// modification as the this value" (the replacement of undefined by the global
// object in 10.4.3 applies to non-strict FUNCTION CODE only, not to built-ins).
func TestFindUndefinedReceiver(t *testing.T) {
	var cases [][2]string
	for _, src := range []string{
		`String.prototype.trim.call(null)`, // passes
		`String.prototype.trim.call(undefined)`,
		`String.prototype.trim.call()`,
		`String.prototype.charAt.call(undefined, 0)`,
		`String.prototype.toUpperCase.apply(undefined)`,
		`String.prototype.slice.apply(undefined, [8, 14])`,
		`String.prototype.concat.bind(undefined)("x")`,
		`String.prototype.indexOf.call(undefined, "object")`,
	} {
		cases = append(cases, [2]string{"(function(){ try { return 'no exception: ' + (" + src + "); } catch (e) { return e instanceof TypeError ? 'TypeError' : 'other ' + e; } })()", "TypeError"})
	}
	findRunUndefinedReceiver(t, cases)
}
