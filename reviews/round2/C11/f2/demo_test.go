// Place as /tmp/wt6/C11/zz_find_test.go (package otto, module root) and run:
//   export GOFLAGS=-mod=mod GOPROXY=off GOSUMDB=off GOTOOLCHAIN=local
//   cd /tmp/wt6/C11 && go test -vet=off -count=1 -run 'TestFindParseHugeNumber' .
package otto

import (
	"strings"
	"testing"
)

func TestFindParseHugeNumber(t *testing.T) {
	vm := New()
	for _, tc := range []struct{ src, want string }{
		{`String(JSON.parse('1e400'))`, "Infinity"},
		{`String(JSON.parse('-1E+999'))`, "-Infinity"},
		{`String(JSON.parse('{"a":[0,1e309]}').a[1])`, "Infinity"},
		{`String(JSON.parse('1` + strings.Repeat("0", 400) + `'))`, "Infinity"},
		// same literal is fine for the ECMAScript lexer of the same engine
		{`String(eval('1e400'))`, "Infinity"},
	} {
		v, err := vm.Run(tc.src)
		if err != nil {
			t.Errorf("%.60s: unexpected error %v (want %s)", tc.src, err, tc.want)
			continue
		}
		if s, _ := v.ToString(); s != tc.want {
			t.Errorf("%.60s = %q, want %q", tc.src, s, tc.want)
		}
	}
}
