// Place as /tmp/wt6/C11/zz_find_test.go (package otto, module root) and run:
//   export GOFLAGS=-mod=mod GOPROXY=off GOSUMDB=off GOTOOLCHAIN=local
//   cd /tmp/wt6/C11 && go test -vet=off -count=1 -run 'TestFindReviverCycleCrashesHost' .
//
// The test binary dies with "fatal error: stack overflow" (not recoverable),
// although the embedder asked for a stack depth limit.
package otto

import (
	"runtime/debug"
	"testing"
)

func TestFindReviverCycleCrashesHost(t *testing.T) {
	// Only to make the crash quick and cheap; the default 1 GB limit gives the same fatal error.
	debug.SetMaxStack(64 << 20)

	vm := New()
	vm.SetStackDepthLimit(100)

	// Sanity: with the limit set, runaway recursion is a catchable RangeError elsewhere.
	if _, err := vm.Run(`(function f(){ f() })()`); err == nil {
		t.Fatal("expected RangeError for JS recursion")
	}
	if _, err := vm.Run(`var a=[]; for (var i=0;i<200;i++) a=[a]; JSON.stringify(a)`); err == nil {
		t.Fatal("expected RangeError for deep JSON.stringify")
	}

	// The reviver makes the array contain itself; 15.12.2 Walk then recurses for ever.
	// Expected: a catchable RangeError (as above). Observed: Go fatal error, process dies.
	_, err := vm.Run(`JSON.parse('[1,2]', function(k,v){ if (k==='0') this[1]=this; return v })`)
	if err == nil {
		t.Fatal("expected an error")
	}
	t.Logf("got %v", err)
}
