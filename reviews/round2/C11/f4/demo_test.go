// Place as /tmp/wt6/C11/zz_find_test.go (package otto, module root) and run:
//   export GOFLAGS=-mod=mod GOPROXY=off GOSUMDB=off GOTOOLCHAIN=local
//   cd /tmp/wt6/C11 && go test -vet=off -count=1 -run 'TestFindGapNonASCII' .
package otto

import "testing"

func TestFindGapNonASCII(t *testing.T) {
	vm := New()
	for _, tc := range []struct{ src, want string }{
		// 7 characters (<= 10): the gap is the whole string
		{`JSON.stringify([1], null, "ééééééé") === "[\nééééééé1\n]"`, "true"},
		// 12 characters: the gap is the first 10 characters
		{`JSON.stringify([1], null, "éééééééééééé").length`, "14"},
		// 10 characters, 19 bytes of UTF-8: kept whole, and certainly not cut inside a character
		{`JSON.stringify([1], null, "aééééééééé") === "[\naééééééééé1\n]"`, "true"},
		// U+3000 x 4 is 4 characters
		{`JSON.stringify({a:1}, null, "　　　　") === "{\n　　　　\"a\": 1\n}"`, "true"},
	} {
		v, err := vm.Run(tc.src)
		if err != nil {
			t.Fatalf("%s: %v", tc.src, err)
		}
		if s, _ := v.ToString(); s != tc.want {
			t.Errorf("%s = %q, want %q", tc.src, s, tc.want)
		}
	}
}
