// Place as /tmp/wt6/C11/zz_find_test.go (package otto, module root) and run:
//   export GOFLAGS=-mod=mod GOPROXY=off GOSUMDB=off GOTOOLCHAIN=local
//   cd /tmp/wt6/C11 && go test -vet=off -count=1 -run 'TestFindPropertyListOrder' .
package otto

import "testing"

func TestFindPropertyListOrder(t *testing.T) {
	vm := New()
	for _, tc := range []struct{ src, want string }{
		{`JSON.stringify({a:1,b:2}, ['b','a'])`, `{"b":2,"a":1}`},
		{`JSON.stringify({id:7,name:"x",zip:1}, ['zip','name','id'])`, `{"zip":1,"name":"x","id":7}`},
		{`JSON.stringify([{a:1,b:2}], ['b','a'], 1)`, "[\n {\n  \"b\": 2,\n  \"a\": 1\n }\n]"},
	} {
		v, err := vm.Run(tc.src)
		if err != nil {
			t.Fatalf("%s: %v", tc.src, err)
		}
		if s, _ := v.ToString(); s != tc.want {
			t.Errorf("%s = %q, want %q", tc.src, s, tc.want)
		}
	}
}
