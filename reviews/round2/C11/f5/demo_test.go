// Place as /tmp/wt6/C11/zz_find_test.go (package otto, module root) and run:
//   export GOFLAGS=-mod=mod GOPROXY=off GOSUMDB=off GOTOOLCHAIN=local
//   cd /tmp/wt6/C11 && go test -vet=off -count=1 -run 'TestFindWrapperUsesPut' .
package otto

import "testing"

func TestFindWrapperUsesPut(t *testing.T) {
	for _, tc := range []struct{ src, want string }{
		// read-only data property "" on Object.prototype
		{`Object.defineProperty(Object.prototype, '', {value: 5, writable: false, configurable: true});
		  JSON.stringify([7])`, `[7]`},
		{`Object.defineProperty(Object.prototype, '', {value: 5, writable: false, configurable: true});
		  var r = JSON.parse('[7]', function(k, v){ return v }); Array.isArray(r) + ':' + r`, `true:7`},
		// accessor "" on Object.prototype
		{`Object.defineProperty(Object.prototype, '', {get: function(){ return 99 }, set: function(){}, configurable: true});
		  JSON.stringify({a:1})`, `{"a":1}`},
		{`Object.defineProperty(Object.prototype, '', {set: function(){ throw new Error('setter ran') }, configurable: true});
		  var r = JSON.parse('{"a":1}', function(k, v){ return v }); typeof r + ':' + r.a`, `object:1`},
	} {
		vm := New()
		v, err := vm.Run(tc.src)
		if err != nil {
			t.Errorf("%s: unexpected error %v (want %s)", tc.src, err, tc.want)
			continue
		}
		if s, _ := v.ToString(); s != tc.want {
			t.Errorf("%s = %q, want %q", tc.src, s, tc.want)
		}
	}
}
