// Place this file in the root of the otto module (package otto), e.g. as
// /tmp/wt6/C20/zz_find_test.go, and run:
//
//	cd /tmp/wt6/C20 && go test -vet=off -count=1 -run 'TestFindMultiReturnLeaksTemplateObject' .
//
// and, for the data race on the property table of the shared JavaScript object:
//
//	cd /tmp/wt6/C20 && go test -race -vet=off -count=1 -run 'TestFindMultiReturnRace' .
package otto

import (
	"sync"
	"testing"
)

type findPoint struct{ X, Y int }

// The template has two ordinary Go functions with TWO results each. otto turns
// the results of such a call into a list [first, second]. The template script
// keeps the lists in globals, then copies are taken.
//
// Property C20: copies of a common template share no mutable state; results are
// identical to those of the same scripts run alone.
func TestFindMultiReturnLeaksTemplateObject(t *testing.T) {
	tmpl := New()
	if err := tmpl.Set("lookup", func(name string) (*findPoint, bool) { return &findPoint{1, 2}, true }); err != nil {
		t.Fatal(err)
	}
	if err := tmpl.Set("split", func(s string) ([]string, int) { return []string{"a", "b"}, 2 }); err != nil {
		t.Fatal(err)
	}
	if _, err := tmpl.Run(`var r = lookup("p"); var s = split("a b");`); err != nil {
		t.Fatal(err)
	}

	a := tmpl.Copy()
	b := tmpl.Copy()

	// In copy a: everything inherits from a's Object.prototype / Array.prototype.
	v, err := a.Run(`
		Object.prototype.tag = "A";
		Array.prototype.atag = "AA";
		s[0].mark = "from-a";            // an expando property on "a's" object
		[r.tag, r[0].tag, s.atag, s[0].atag].join()`)
	if err != nil {
		t.Fatal(err)
	}
	if v.String() != "A,A,AA,AA" {
		t.Errorf("copy a: got %q, want %q (r[0] and s[0] are objects of the TEMPLATE's heap, they inherit from the template's prototypes)", v, "A,A,AA,AA")
	}

	// Copy b never ran anything but this.
	v, err = b.Run(`String(s[0].mark)`)
	if err != nil {
		t.Fatal(err)
	}
	if v.String() != "undefined" {
		t.Errorf("copy b: s[0].mark is %q, want undefined (the property was set by copy a)", v)
	}
}

// Concurrent use of the copies: a data race on object.property (a plain Go map)
// of the JavaScript object all copies share.
func TestFindMultiReturnRace(t *testing.T) {
	tmpl := New()
	if err := tmpl.Set("split", func(s string) ([]string, int) { return []string{"a", "b"}, 2 }); err != nil {
		t.Fatal(err)
	}
	if _, err := tmpl.Run(`var s = split("a b");`); err != nil {
		t.Fatal(err)
	}
	var wg sync.WaitGroup
	for i := 0; i < 4; i++ {
		vm := tmpl.Copy()
		wg.Add(1)
		go func() {
			defer wg.Done()
			for j := 0; j < 300; j++ {
				if _, err := vm.Run(`var list = s[0]; list.n = (list.n || 0) + 1; list["k" + list.n] = 1`); err != nil {
					t.Error(err)
					return
				}
			}
		}()
	}
	wg.Wait()
}
