// Place this file in the root of the otto module (package otto), e.g. as
// /tmp/wt6/C20/zz_find_test.go, and run:
//
//	cd /tmp/wt6/C20 && go test -vet=off -count=1 -run 'TestFindSliceCopiesShareBackingArray' .
//
// (the second test additionally needs -race:
//
//	cd /tmp/wt6/C20 && go test -race -vet=off -count=1 -run 'TestFindSliceCopiesRace' . )
package otto

import (
	"sync"
	"testing"
)

// A template runtime holds a Go slice that was handed over BY VALUE
// (vm.Set("list", []int{})). The template script pushes three elements, so the
// slice that reflect.Append built has len 3, cap 4. Two copies of the template
// then push one element each.
//
// Property C20: copies of a common template share no mutable state; every
// runtime's results are identical to those of the same script run alone.
func TestFindSliceCopiesShareBackingArray(t *testing.T) {
	tmpl := New()
	if err := tmpl.Set("list", []int{}); err != nil {
		t.Fatal(err)
	}
	if _, err := tmpl.Run(`list.push(1); list.push(2); list.push(3);`); err != nil {
		t.Fatal(err)
	}

	a := tmpl.Copy()
	b := tmpl.Copy()

	if _, err := a.Run(`list.push(10)`); err != nil {
		t.Fatal(err)
	}
	if _, err := b.Run(`list.push(20); list[0] = 99`); err != nil {
		t.Fatal(err)
	}

	// Run alone, a's script gives 1,2,3,10.
	if v, _ := a.Run(`list.join()`); v.String() != "1,2,3,10" {
		t.Errorf("copy a: list is %q, want %q (b's push and b's element write show through)", v, "1,2,3,10")
	}
	if v, _ := b.Run(`list.join()`); v.String() != "99,2,3,20" {
		t.Errorf("copy b: list is %q, want %q", v, "99,2,3,20")
	}
	if v, _ := tmpl.Run(`list.join()`); v.String() != "1,2,3" {
		t.Errorf("template: list is %q, want %q", v, "1,2,3")
	}
}

// The same thing with the copies on their own goroutines: the race detector
// reports the unsynchronised writes to the common backing array.
func TestFindSliceCopiesRace(t *testing.T) {
	tmpl := New()
	if err := tmpl.Set("list", make([]int, 3, 1024)); err != nil {
		t.Fatal(err)
	}
	var wg sync.WaitGroup
	for i := 0; i < 4; i++ {
		vm := tmpl.Copy()
		wg.Add(1)
		go func() {
			defer wg.Done()
			for j := 0; j < 200; j++ {
				if _, err := vm.Run(`list.push(1); list[0] = list.length`); err != nil {
					t.Error(err)
					return
				}
			}
		}()
	}
	wg.Wait()
}
