// Place this file in the root of the otto module (package otto), e.g. as
// /tmp/wt6/C20/zz_find_test.go, and run:
//
//	cd /tmp/wt6/C20 && go test -vet=off -count=1 -run 'TestFindRandomSourceSharedByCopies' .
//
// and, for the data race inside the shared generator:
//
//	cd /tmp/wt6/C20 && go test -race -vet=off -count=1 -run 'TestFindRandomSourceRace' .
package otto

import (
	"math/rand"
	"sync"
	"testing"
)

func findSeededTemplate() *Otto {
	tmpl := New()
	// The documented way to make Math.random() reproducible.
	tmpl.SetRandomSource(rand.New(rand.NewSource(42)).Float64)
	return tmpl
}

// Property C20: every runtime's results are identical to those of the same
// scripts run alone; copies of a common template share no mutable state.
func TestFindRandomSourceSharedByCopies(t *testing.T) {
	const script = `[Math.random(), Math.random(), Math.random()].join()`

	// A copy of the seeded template, run alone.
	alone, err := findSeededTemplate().Copy().Run(script)
	if err != nil {
		t.Fatal(err)
	}

	// The same script on a copy, after a sibling copy ran something.
	tmpl := findSeededTemplate()
	a := tmpl.Copy()
	b := tmpl.Copy()
	if _, err := a.Run(`Math.random(); Math.random()`); err != nil {
		t.Fatal(err)
	}
	got, err := b.Run(script)
	if err != nil {
		t.Fatal(err)
	}
	if got.String() != alone.String() {
		t.Errorf("copy b:\n got %s\nwant %s (what the script gives on a copy run alone)", got, alone)
	}
}

func TestFindRandomSourceRace(t *testing.T) {
	tmpl := findSeededTemplate()
	var wg sync.WaitGroup
	for i := 0; i < 4; i++ {
		vm := tmpl.Copy()
		wg.Add(1)
		go func() {
			defer wg.Done()
			if _, err := vm.Run(`for (var i = 0; i < 2000; i++) Math.random()`); err != nil {
				t.Error(err)
			}
		}()
	}
	wg.Wait()
}
