// Place this file in the root of the otto module (package otto), e.g. as
// /tmp/wt6/C20/zz_find_test.go, and run:
//
//	cd /tmp/wt6/C20 && go test -vet=off -count=1 -run 'TestFindMapCopiesShareMap' .
//
// and, for the host crash (kills the test binary with
// "fatal error: concurrent map writes" / "concurrent map read and map write",
// no -race needed):
//
//	cd /tmp/wt6/C20 && go test -vet=off -count=1 -run 'TestFindMapCopiesCrash' .
package otto

import (
	"sync"
	"testing"
)

// A template runtime is given a configuration map
// (vm.Set("config", map[string]interface{}{...})), copies are made of it and
// each copy runs a script that writes to its `config`.
//
// Property C20: copies of a common template share no mutable state; results are
// identical to those of the same scripts run alone.
func TestFindMapCopiesShareMap(t *testing.T) {
	tmpl := New()
	if err := tmpl.Set("config", map[string]interface{}{"debug": false}); err != nil {
		t.Fatal(err)
	}
	a := tmpl.Copy()
	b := tmpl.Copy()

	if _, err := a.Run(`config.debug = true; config.extra = "a"`); err != nil {
		t.Fatal(err)
	}

	const probe = `[config.debug, config.extra, Object.keys(config).length].join()`
	if v, _ := b.Run(probe); v.String() != "false,,1" {
		t.Errorf("copy b sees the writes of copy a: got %q, want %q", v, "false,,1")
	}
	if v, _ := tmpl.Run(probe); v.String() != "false,,1" {
		t.Errorf("template sees the writes of copy a: got %q, want %q", v, "false,,1")
	}
}

// Separate copies on separate goroutines: the Go runtime aborts the process.
func TestFindMapCopiesCrash(t *testing.T) {
	tmpl := New()
	if err := tmpl.Set("config", map[string]interface{}{"debug": false}); err != nil {
		t.Fatal(err)
	}
	var wg sync.WaitGroup
	for i := 0; i < 4; i++ {
		vm := tmpl.Copy()
		wg.Add(1)
		go func() {
			defer wg.Done()
			for j := 0; j < 5000; j++ {
				if _, err := vm.Run(`config.n = (config.n || 0) + 1; config["k" + config.n] = 1;`); err != nil {
					t.Error(err)
					return
				}
			}
		}()
	}
	wg.Wait()
}
