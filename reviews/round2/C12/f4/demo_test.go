// Place this file in the root of the otto worktree (package otto), e.g.
//
//	cp demo_test.go /tmp/wt6/C12/zz_find_test.go
//
// and run:
//
//	cd /tmp/wt6/C12 && export GOFLAGS=-mod=mod GOPROXY=off GOSUMDB=off GOTOOLCHAIN=local && go test -vet=off -count=1 -run 'TestFindISOStringInvalid' .
package otto

import "testing"

func findRun(t *testing.T, src string) string {
	t.Helper()
	vm := New()
	v, err := vm.Run(src)
	if err != nil {
		return "throws " + err.Error()
	}
	return v.String()
}

// ES5.1 15.9.5.43: "If the time value of this object is not a finite Number a
// RangeError exception is thrown."  otto returns the string "Invalid Date",
// which is not an ISO string (and Date.parse of it is NaN only by accident).
func TestFindISOStringInvalid(t *testing.T) {
	for _, c := range []struct{ src, want string }{
		{`try { new Date(NaN).toISOString() } catch (e) { (e instanceof RangeError) + "" }`, "true"},
		{`var d = new Date(0); d.setUTCDate(NaN); try { "returned " + d.toISOString() } catch (e) { e.name }`, "RangeError"},
		{`try { "returned " + new Date(Infinity).toISOString() } catch (e) { e.name }`, "RangeError"},
		// toJSON of an object whose valueOf is finite delegates to toISOString (15.9.5.44),
		// so the exception has to come through
		{`var d = new Date(NaN); d.valueOf = function () { return 1 }; try { "returned " + d.toJSON() } catch (e) { e.name }`, "RangeError"},
	} {
		if got := findRun(t, c.src); got != c.want {
			t.Errorf("%s = %s, want %s", c.src, got, c.want)
		}
	}
}
