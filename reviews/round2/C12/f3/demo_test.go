// Place this file in the root of the otto worktree (package otto), e.g.
//
//	cp demo_test.go /tmp/wt6/C12/zz_find_test.go
//
// and run:
//
//	cd /tmp/wt6/C12 && export GOFLAGS=-mod=mod GOPROXY=off GOSUMDB=off GOTOOLCHAIN=local && go test -vet=off -count=1 -run 'TestFindSetFullYearOnInvalid' .
package otto

import "testing"

func findRun(t *testing.T, src string) string {
	t.Helper()
	vm := New()
	v, err := vm.Run(src)
	if err != nil {
		return "throws " + err.Error()
	}
	return v.String()
}

// ES5.1 15.9.5.41 setUTCFullYear step 1 (and 15.9.5.40 setFullYear step 1):
// "Let t be this time value; but if this time value is NaN, let t be +0."
// So setting the year of an invalid Date makes it valid again.
func TestFindSetFullYearOnInvalid(t *testing.T) {
	for _, c := range []struct{ src, want string }{
		{`new Date(NaN).setUTCFullYear(2000)`, "946684800000"},
		{`var d = new Date(NaN); d.setUTCFullYear(2000, 1, 29); d.toISOString()`, "2000-02-29T00:00:00.000Z"},
		{`var d = new Date(0); d.setUTCHours(NaN); d.setUTCFullYear(1999, 11, 31); d.getTime()`, "946598400000"},
		{`var d = new Date("garbage"); d.setUTCFullYear(1970); d.getTime()`, "0"},
	} {
		if got := findRun(t, c.src); got != c.want {
			t.Errorf("%s = %s, want %s", c.src, got, c.want)
		}
	}
}
