// Place this file in the root of the otto worktree (package otto), e.g.
//
//	cp demo_test.go /tmp/wt6/C12/zz_find_test.go
//
// and run:
//
//	cd /tmp/wt6/C12 && export GOFLAGS=-mod=mod GOPROXY=off GOSUMDB=off GOTOOLCHAIN=local && go test -vet=off -count=1 -run 'TestFindISOExtendedYear' .
package otto

import "testing"

func findRun(t *testing.T, src string) string {
	t.Helper()
	vm := New()
	v, err := vm.Run(src)
	if err != nil {
		return "throws " + err.Error()
	}
	return v.String()
}

// ES5.1 15.9.5.43 toISOString uses the format of 15.9.1.15; 15.9.1.15.1: years
// outside 0..9999 are written as a sign and SIX digits. Date.parse must accept
// that format (15.9.4.2), and Date.parse(x.toISOString()) == x.valueOf().
func TestFindISOExtendedYear(t *testing.T) {
	for _, c := range []struct{ src, want string }{
		{`new Date(253402300800000).toISOString()`, "+010000-01-01T00:00:00.000Z"},
		{`new Date(-62167219200001).toISOString()`, "-000001-12-31T23:59:59.999Z"},
		{`new Date(8.64e15).toISOString()`, "+275760-09-13T00:00:00.000Z"},
		{`new Date(-8.64e15).toISOString()`, "-271821-04-20T00:00:00.000Z"},
		{`new Date(253402300800000).toJSON()`, "+010000-01-01T00:00:00.000Z"},
		// round trip (the sentence of the property)
		{`Date.parse(new Date(253402300800000).toISOString())`, "253402300800000"},
		{`Date.parse(new Date(-62167219200001).toISOString())`, "-62167219200001"},
		{`Date.parse(new Date(8.64e15).toISOString())`, "8640000000000000"},
		// the parser side on its own
		{`Date.parse("+010000-01-01T00:00:00.000Z")`, "253402300800000"},
		{`Date.parse("-000001-12-31T23:59:59.999Z")`, "-62167219200001"},
		{`new Date("+275760-09-13T00:00:00.000Z").getTime()`, "8640000000000000"},
	} {
		if got := findRun(t, c.src); got != c.want {
			t.Errorf("%s = %s, want %s", c.src, got, c.want)
		}
	}
}
