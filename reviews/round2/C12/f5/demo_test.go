// Place this file in the root of the otto worktree (package otto), e.g.
//
//	cp demo_test.go /tmp/wt6/C12/zz_find_test.go
//
// and run:
//
//	cd /tmp/wt6/C12 && export GOFLAGS=-mod=mod GOPROXY=off GOSUMDB=off GOTOOLCHAIN=local && go test -vet=off -count=1 -run 'TestFindTwoDigitYear' .
package otto

import "testing"

func findRun(t *testing.T, src string) string {
	t.Helper()
	vm := New()
	v, err := vm.Run(src)
	if err != nil {
		return "throws " + err.Error()
	}
	return v.String()
}

// ES5.1 15.9.4.3 Date.UTC step 8 / 15.9.3.1 step 8:
// "If y is not NaN and 0 <= ToInteger(y) <= 99, then let yr be 1900+ToInteger(y)".
// The range test is on ToInteger(y), otto tests the raw Number.
func TestFindTwoDigitYear(t *testing.T) {
	for _, c := range []struct{ src, want string }{
		{`Date.UTC(99.9, 0)`, "915148800000"}, // 1999-01-01
		{`Date.UTC(99.5, 11, 31) === Date.UTC(1999, 11, 31)`, "true"},
		{`Date.UTC(-0.9, 0)`, "-2208988800000"}, // ToInteger(-0.9) = -0 -> 1900
		{`Date.UTC(-0.5, 0) === Date.UTC(1900, 0)`, "true"},
		{`new Date(99.9, 0, 1).getFullYear()`, "1999"},
		{`new Date(-0.1, 0, 1).getFullYear()`, "1900"},
	} {
		if got := findRun(t, c.src); got != c.want {
			t.Errorf("%s = %s, want %s", c.src, got, c.want)
		}
	}
}
