// Place this file in the root of the otto worktree (package otto), e.g.
//
//	cp demo_test.go /tmp/wt6/C12/zz_find_test.go
//
// and run:
//
//	cd /tmp/wt6/C12 && export GOFLAGS=-mod=mod GOPROXY=off GOSUMDB=off GOTOOLCHAIN=local && go test -vet=off -count=1 -run 'TestFindTimeClip' .
package otto

import "testing"

func findRun(t *testing.T, src string) string {
	t.Helper()
	vm := New()
	v, err := vm.Run(src)
	if err != nil {
		return "throws " + err.Error()
	}
	return v.String()
}

// ES5.1 15.9.1.14 TimeClip: a time value whose magnitude exceeds 8.64e15 is NaN.
// TimeClip is applied by the constructor (15.9.3.1 step 11, 15.9.3.2), Date.UTC
// (15.9.4.3 step 9), setTime (15.9.5.27) and every set* method.
func TestFindTimeClip(t *testing.T) {
	for _, c := range []struct{ src, want string }{
		{`new Date(8.64e15 + 1).getTime()`, "NaN"},
		{`new Date(-8.64e15 - 1).getTime()`, "NaN"},
		{`Date.UTC(275760, 8, 13, 0, 0, 0, 1)`, "NaN"},
		{`Date.UTC(275761, 0)`, "NaN"},
		{`Date.UTC(-271821, 3, 19)`, "NaN"},
		{`Date.UTC(1e6, 1e6, 1e6, 1e6, 1e6, 1e6, 1e6)`, "NaN"},
		{`new Date(0).setTime(8.64e15 + 1)`, "NaN"},
		{`var d = new Date(8.64e15); d.setUTCMilliseconds(1); d.getTime()`, "NaN"},
		{`new Date(0).setUTCFullYear(275761)`, "NaN"},
		{`new Date(1e300).getTime()`, "NaN"},
		{`new Date(8.64e15 + 1).getUTCFullYear()`, "NaN"},
		{`JSON.stringify(new Date(8.64e15 + 1))`, "null"},
	} {
		if got := findRun(t, c.src); got != c.want {
			t.Errorf("%s = %s, want %s", c.src, got, c.want)
		}
	}
}
