// Place in the root of the otto worktree (package otto) as zz_find_test.go and run:
//
//	export GOFLAGS=-mod=mod GOPROXY=off GOSUMDB=off GOTOOLCHAIN=local
//	go test -vet=off -count=1 -run 'TestFindBoundFunctionShape' .
package otto

import "testing"

// ES5.1 15.3.4.5: a function object F created by Function.prototype.bind
//   - "do[es] not have a prototype property" (NOTE at the end of 15.3.4.5, and 15.3.5.2
//     is not applied: steps 1-22 never define "prototype"),
//   - has "caller" and "arguments" own ACCESSOR properties whose [[Get]] and [[Set]] are
//     the [[ThrowTypeError]] function, {enumerable:false, configurable:false} (steps 20, 21).
//
// otto gives every bound function an own data property "prototype" (a fresh object with
// a "constructor" back link) and plain data properties caller/arguments = undefined.
func TestFindBoundFunctionShape(t *testing.T) {
	for label, vm := range map[string]*Otto{"fresh": New(), "copy": New().Copy()} {
		check := func(src, want string) {
			t.Helper()
			v, err := vm.Run(src)
			if err != nil {
				t.Errorf("%s: %s: %v", label, src, err)
				return
			}
			if got := v.String(); got != want {
				t.Errorf("%s: %s\n   got  %q\n   want %q", label, src, got, want)
			}
		}
		check(`Object.prototype.hasOwnProperty.call(function(){}.bind(null), 'prototype')`, "false")
		check(`typeof (function(){}).bind(null).prototype`, "undefined")
		check(`typeof Math.max.bind(null).prototype`, "undefined")
		// 15.3.4.5 steps 20/21
		check(`var d = Object.getOwnPropertyDescriptor(function(){}.bind(null), 'caller'); typeof d.get + ',' + (d.get === d.set) + ',' + d.enumerable + ',' + d.configurable`, "function,true,false,false")
		check(`var d = Object.getOwnPropertyDescriptor(function(){}.bind(null), 'arguments'); typeof d.get + ',' + (d.get === d.set) + ',' + d.enumerable + ',' + d.configurable`, "function,true,false,false")
		check(`try { (function(){}).bind(null).caller; 'no throw' } catch (e) { e instanceof TypeError ? 'TypeError' : String(e) }`, "TypeError")
		check(`try { (function(){}).bind(null).arguments; 'no throw' } catch (e) { e instanceof TypeError ? 'TypeError' : String(e) }`, "TypeError")
	}
}
