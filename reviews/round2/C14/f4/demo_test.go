// Place in the root of the otto worktree (package otto) as zz_find_test.go and run:
//
//	export GOFLAGS=-mod=mod GOPROXY=off GOSUMDB=off GOTOOLCHAIN=local
//	go test -vet=off -count=1 -run 'TestFindRegExpPrototypeShape' .
package otto

import "testing"

// ES5.1 15.10.6: "The RegExp prototype object is itself a regular expression object; its
// [[Class]] is "RegExp". The initial values of the RegExp prototype object's data properties
// (15.10.7) are set as if the object was created by the expression new RegExp() ..."
// 15.10.7.1-5: source, global, ignoreCase, multiline {w:false,e:false,c:false},
// lastIndex {w:true,e:false,c:false}.
// otto's RegExp.prototype has [[Class]] "RegExp" and works as a receiver of exec/test, but has
// none of the five data properties.
func TestFindRegExpPrototypeShape(t *testing.T) {
	for label, vm := range map[string]*Otto{"fresh": New(), "copy": New().Copy()} {
		check := func(src, want string) {
			t.Helper()
			v, err := vm.Run(src)
			if err != nil {
				t.Errorf("%s: %s: %v", label, src, err)
				return
			}
			if got := v.String(); got != want {
				t.Errorf("%s: %s\n   got  %q\n   want %q", label, src, got, want)
			}
		}
		desc := func(p string) string {
			return `(function(){ var d = Object.getOwnPropertyDescriptor(RegExp.prototype, '` + p + `'); return d ? [typeof d.value, d.value, d.writable, d.enumerable, d.configurable].join() : 'missing' })()`
		}
		check(desc("global"), "boolean,false,false,false,false")
		check(desc("ignoreCase"), "boolean,false,false,false,false")
		check(desc("multiline"), "boolean,false,false,false,false")
		check(desc("lastIndex"), "number,0,true,false,false")
		check(`typeof RegExp.prototype.source`, "string")
		check(`(function(){ var d = Object.getOwnPropertyDescriptor(RegExp.prototype, 'source'); return d ? [d.writable, d.enumerable, d.configurable].join() : 'missing' })()`, "false,false,false")
		// as created by new RegExp(): same own property names
		check(`Object.getOwnPropertyNames(new RegExp()).filter(function (n) { return !Object.prototype.hasOwnProperty.call(RegExp.prototype, n) }).join()`, "")
		// a visible consequence: toString of the prototype (15.10.6.4) must not mention "undefined"
		check(`/undefined/.test(RegExp.prototype.toString())`, "false")
	}
}
