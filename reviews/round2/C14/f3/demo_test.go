// Place in the root of the otto worktree (package otto) as zz_find_test.go and run:
//
//	export GOFLAGS=-mod=mod GOPROXY=off GOSUMDB=off GOTOOLCHAIN=local
//	go test -vet=off -count=1 -run 'TestFindNativeErrorPrototypeShape' .
package otto

import "testing"

// ES5.1 15.11.7.7: "The prototype object for each NativeError constructor is an Error
// object (its [[Class]] is "Error")."  15.11.7.8-10 list its own properties exhaustively:
// constructor, name, message.  toString is inherited from Error.prototype (15.11.4.4).
// otto builds each NativeError.prototype with [[Class]] = the error name and with an own
// toString that is a different function object from Error.prototype.toString.
func TestFindNativeErrorPrototypeShape(t *testing.T) {
	names := []string{"EvalError", "RangeError", "ReferenceError", "SyntaxError", "TypeError", "URIError"}
	for label, vm := range map[string]*Otto{"fresh": New(), "copy": New().Copy()} {
		check := func(src, want string) {
			t.Helper()
			v, err := vm.Run(src)
			if err != nil {
				t.Errorf("%s: %s: %v", label, src, err)
				return
			}
			if got := v.String(); got != want {
				t.Errorf("%s: %s\n   got  %q\n   want %q", label, src, got, want)
			}
		}
		for _, n := range names {
			// [[Class]] is "Error" (15.11.7.7, observable through 15.2.4.2)
			check(`Object.prototype.toString.call(`+n+`.prototype)`, "[object Error]")
			// own properties are exactly constructor, name, message
			check(`Object.prototype.hasOwnProperty.call(`+n+`.prototype, 'toString')`, "false")
			check(n+`.prototype.toString === Error.prototype.toString`, "true")
		}
		// A consequence in ordinary code: customising Error.prototype.toString must
		// reach every native error, since they inherit it.
		check(`Error.prototype.toString = function () { return 'custom:' + this.message }; var s = String(new TypeError('m')); s`, "custom:m")
	}
}
