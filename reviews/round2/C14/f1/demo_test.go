// Place in the root of the otto worktree (package otto) as zz_find_test.go and run:
//
//	export GOFLAGS=-mod=mod GOPROXY=off GOSUMDB=off GOTOOLCHAIN=local
//	go test -vet=off -count=1 -run 'TestFindErrorInstanceOwnName' .
package otto

import "testing"

// ES5.1 15.11.2.1 / 15.11.5: `new Error(msg)` creates an object whose only own
// property is `message` (and only when msg is not undefined); `name` is inherited
// from Error.prototype (15.11.4.2). otto gives every `new Error(...)` / `Error(...)`
// instance an own, ENUMERABLE, writable, configurable `name` property.
func TestFindErrorInstanceOwnName(t *testing.T) {
	for label, vm := range map[string]*Otto{"fresh": New(), "copy": New().Copy()} {
		check := func(src, want string) {
			t.Helper()
			v, err := vm.Run(src)
			if err != nil {
				t.Errorf("%s: %s: %v", label, src, err)
				return
			}
			if got := v.String(); got != want {
				t.Errorf("%s: %s\n   got  %q\n   want %q", label, src, got, want)
			}
		}
		// no own "name" on an Error instance
		check(`Object.prototype.hasOwnProperty.call(new Error(), 'name')`, "false")
		check(`Object.prototype.hasOwnProperty.call(Error('x'), 'name')`, "false")
		// for-in / Object.keys must not show the built-in "name"
		check(`var ks=[]; for (var k in new Error()) ks.push(k); ks.join()`, "")
		check(`Object.keys(new Error()).join()`, "")
		// the name is looked up on the prototype (15.11.4.4 step 3: Get(O, "name"))
		check(`Error.prototype.name = 'Foo'; var s = new Error('x').toString(); Error.prototype.name = 'Error'; s`, "Foo: x")
		// the native errors behave (no own name): the plain Error is the odd one out
		check(`Object.prototype.hasOwnProperty.call(new TypeError(), 'name')`, "false")
	}
}
