// Place in the root of the otto worktree (package otto) as zz_find_test.go and run:
//
//	export GOFLAGS=-mod=mod GOPROXY=off GOSUMDB=off GOTOOLCHAIN=local
//	go test -vet=off -count=1 -run 'TestFindDatePrototypeTimeValue' .
package otto

import "testing"

// ES5.1 15.9.5: "The Date prototype object is itself a Date object (its [[Class]] is "Date")
// whose [[PrimitiveValue]] is NaN."
// otto's Date.prototype carries the time value 0 (1970-01-01T00:00:00Z).
func TestFindDatePrototypeTimeValue(t *testing.T) {
	for label, vm := range map[string]*Otto{"fresh": New(), "copy": New().Copy()} {
		check := func(src, want string) {
			t.Helper()
			v, err := vm.Run(src)
			if err != nil {
				t.Errorf("%s: %s: %v", label, src, err)
				return
			}
			if got := v.String(); got != want {
				t.Errorf("%s: %s\n   got  %q\n   want %q", label, src, got, want)
			}
		}
		check(`Object.prototype.toString.call(Date.prototype)`, "[object Date]") // passes
		check(`String(Date.prototype.valueOf())`, "NaN")
		check(`String(Date.prototype.getTime())`, "NaN")
		check(`String(Date.prototype.getUTCFullYear())`, "NaN")                                                                      // 15.9.5.11: NaN time value -> NaN
		check(`String(Date.prototype.getTimezoneOffset())`, "NaN")                                                                   // 15.9.5.26
		check(`try { Date.prototype.toISOString() } catch (e) { e instanceof RangeError ? 'RangeError' : String(e) }`, "RangeError") // 15.9.5.43
		check(`String(Date.prototype.toJSON())`, "null")                                                                             // 15.9.5.44 step 3
	}
}
