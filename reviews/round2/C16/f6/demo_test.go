// Place this file in the root of the otto worktree (package otto) as zz_find_test.go and run:
//   export GOFLAGS=-mod=mod GOPROXY=off GOSUMDB=off GOTOOLCHAIN=local
//   go test -vet=off -count=1 -run TestFind .

package otto

import "testing"

// 2^63 does not fit an int64 and 2^64 does not fit a uint64, yet writing them to an
// element of a bridged slice stores a wrapped value without any error.
func TestFindF6Int64BoundaryWraps(t *testing.T) {
	vm := New()
	s := []int64{1}
	u := []uint64{1}
	vm.Set("s", s)
	vm.Set("u", u)

	if _, err := vm.Run(`s[0] = 9223372036854775808`); err == nil {
		t.Errorf("s[0] = 2^63 gave no error; the []int64 now holds %d", s[0])
	}
	if _, err := vm.Run(`u[0] = 18446744073709551616`); err == nil {
		t.Errorf("u[0] = 2^64 gave no error; the []uint64 now holds %d", u[0])
	}

	// Go int64 -> script -> Go int64 round trip flips the sign.
	vm.Set("big", func() int64 { return 9223372036854775806 })
	s[0] = 0
	if _, err := vm.Run(`s[0] = big()`); err == nil && s[0] != 9223372036854775806 {
		t.Errorf("s[0] = big() stored %d, want 9223372036854775806 or a RangeError", s[0])
	}
}
