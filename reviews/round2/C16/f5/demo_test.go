// Place this file in the root of the otto worktree (package otto) as zz_find_test.go and run:
//   export GOFLAGS=-mod=mod GOPROXY=off GOSUMDB=off GOTOOLCHAIN=local
//   go test -vet=off -count=1 -run TestFind .

package otto

import "testing"

type FindF5Base struct {
	ID   int
	Note string
}

type FindF5Doc struct {
	FindF5Base     // embedded; its ID is shadowed by Doc.ID below
	ID         int // Go: doc.ID is THIS field (shallowest depth wins)
}

func TestFindF5ShadowedFieldReadsAndWritesTheWrongField(t *testing.T) {
	vm := New()
	doc := &FindF5Doc{}
	doc.ID = 1
	doc.FindF5Base.ID = 2
	vm.Set("doc", doc)

	v, err := vm.Run(`doc.ID`)
	if err != nil {
		t.Fatal(err)
	}
	if n, _ := v.ToInteger(); n != int64(doc.ID) {
		t.Errorf("script reads doc.ID = %d, Go reads doc.ID = %d", n, doc.ID)
	}

	if _, err := vm.Run(`doc.ID = 7`); err != nil {
		t.Fatal(err)
	}
	if doc.ID != 7 {
		t.Errorf("after script doc.ID = 7: Go doc.ID = %d, doc.FindF5Base.ID = %d (the write went to the embedded field)", doc.ID, doc.FindF5Base.ID)
	}

	// The same lookup is used to build a struct parameter from an object literal.
	var got FindF5Doc
	vm.Set("f", func(d FindF5Doc) { got = d })
	if _, err := vm.Run(`f({ID: 5})`); err == nil && got.ID != 5 {
		t.Errorf("f({ID: 5}): Go function received d.ID = %d, d.FindF5Base.ID = %d", got.ID, got.FindF5Base.ID)
	}
}
