// Place this file in the root of the otto worktree (package otto) as zz_find_test.go and run:
//   export GOFLAGS=-mod=mod GOPROXY=off GOSUMDB=off GOTOOLCHAIN=local
//   go test -vet=off -count=1 -run TestFind .

package otto

import "testing"

// Writes to elements of bridged slices / arrays / maps go through Value.toReflectValue.
// A positive fraction is refused (RangeError) but a negative one is truncated towards
// zero, and NaN / non-numeric strings are stored as 0.
func TestFindF4NegativeFractionTruncated(t *testing.T) {
	vm := New()
	s := []int{10, 20, 30}
	vm.Set("s", s)

	if _, err := vm.Run(`s[0] = 1.5`); err == nil {
		t.Errorf("s[0] = 1.5 did not fail; s = %v", s)
	}
	if _, err := vm.Run(`s[0] = -1.5`); err == nil {
		t.Errorf("s[0] = -1.5 gave no error and stored %d in the []int (silently truncated)", s[0])
	}
	if _, err := vm.Run(`s[1] = NaN`); err == nil {
		t.Errorf("s[1] = NaN gave no error and stored %d in the []int", s[1])
	}

	m := map[string]int8{"a": 1}
	vm.Set("m", m)
	if _, err := vm.Run(`m.a = -0.75`); err == nil {
		t.Errorf("m.a = -0.75 gave no error and stored %d in the map[string]int8", m["a"])
	}

	arr := &[2]uint16{7, 7}
	vm.Set("arr", arr)
	if _, err := vm.Run(`arr[0] = -0.5`); err == nil {
		t.Errorf("arr[0] = -0.5 gave no error and stored %d in the [2]uint16", arr[0])
	}
}
