// Place this file in the root of the otto worktree (package otto) as zz_find_test.go and run:
//   export GOFLAGS=-mod=mod GOPROXY=off GOSUMDB=off GOTOOLCHAIN=local
//   go test -vet=off -count=1 -run TestFind .

package otto

import (
	"reflect"
	"testing"
)

// A number handed to a Go string parameter is formatted with fmt "%v", not with
// ToString (ES5.1 9.8.1) - and not refused either.
func TestFindF7NumberToStringParam(t *testing.T) {
	vm := New()
	var got []string
	vm.Set("f", func(s string) { got = append(got, s) })
	_, err := vm.Run(`
		var want = [];
		var xs = [Infinity, -Infinity, -0, 1e-7, 0.000001, 123456789012345680000];
		for (var i = 0; i < xs.length; i++) { f(xs[i]); want.push(String(xs[i])); }
		want
	`)
	if err != nil {
		t.Logf("failed loudly (fine): %v", err)
		return
	}
	wantV, _ := vm.Get("want")
	exp, _ := wantV.Export()
	want, _ := exp.([]string)
	if !reflect.DeepEqual(got, want) {
		t.Errorf("Go received %q\n        String(x) is %q", got, want)
	}
}
