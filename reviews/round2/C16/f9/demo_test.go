// Place this file in the root of the otto worktree (package otto) as zz_find_test.go and run:
//   export GOFLAGS=-mod=mod GOPROXY=off GOSUMDB=off GOTOOLCHAIN=local
//   go test -vet=off -count=1 -run TestFind .

package otto

import "testing"

// Storing a too-short script array into an element whose Go type is a fixed-size
// array: reflect.Type.ConvertibleTo([]T -> [N]T) is true since Go 1.20, but
// reflect.Value.Convert panics when the slice is shorter than N. The Go panic
// escapes vm.Run (unless the script happens to be inside its own try/catch).
func TestFindF9SliceToArrayConvertPanics(t *testing.T) {
	vm := New()
	points := [][2]int64{{1, 2}}
	vm.Set("points", points)
	v, err := vm.Run(`points[0] = [5]; "stored"`)
	t.Logf("value=%v err=%v points=%v", v, err, points)
}

func TestFindF9MapOfArrays(t *testing.T) {
	vm := New()
	m := map[string][3]float64{}
	vm.Set("m", m)
	v, err := vm.Run(`m.origin = [0.5, 0.5]; "stored"`)
	t.Logf("value=%v err=%v m=%v", v, err, m)
}
