// Place this file in the root of the otto worktree (package otto) as zz_find_test.go and run:
//   export GOFLAGS=-mod=mod GOPROXY=off GOSUMDB=off GOTOOLCHAIN=local
//   go test -vet=off -count=1 -run TestFind .

package otto

import "testing"

// Property names of a bridged map with an integer key type are parsed with
// strconv.ParseInt(name, 0, ...): base prefixes, a leading 0 (octal) and
// underscores are honoured, so distinct property names alias one Go key.
func TestFindF10IntKeyedMapAliases(t *testing.T) {
	vm := New()
	m := map[int]string{8: "eight", 10: "ten"}
	vm.Set("m", m)

	v, err := vm.Run(`["010" in m, m["010"], m["0x0a"], m["1_0"]].join()`)
	if err != nil {
		t.Fatal(err)
	}
	// Object.keys(m) is "8,10" - none of these names is a property of m.
	if v.String() != "false,,," {
		t.Errorf(`["010" in m, m["010"], m["0x0a"], m["1_0"]] = %q, want "false,,," (keys are 8 and 10)`, v)
	}

	if _, err := vm.Run(`m["012"] = "clobbered"`); err == nil && m[10] != "ten" {
		t.Errorf(`m["012"] = ... overwrote Go key 10: %v`, m)
	}
}
