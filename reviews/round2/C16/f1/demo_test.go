// Place this file in the root of the otto worktree (package otto) as zz_find_test.go and run:
//   export GOFLAGS=-mod=mod GOPROXY=off GOSUMDB=off GOTOOLCHAIN=local
//   go test -vet=off -count=1 -run TestFind .

package otto

import "testing"

type FindF1Inner struct{ A int }

type FindF1Outer struct {
	*FindF1Inner // embedded pointer, nil in the value handed to the script
	B            int
}

// Reading a promoted field through a nil embedded pointer must not take the host down:
// the script must get undefined or a TypeError it can catch.
func TestFindF1NilEmbeddedPointerRead(t *testing.T) {
	vm := New()
	if err := vm.Set("o", &FindF1Outer{B: 1}); err != nil {
		t.Fatal(err)
	}
	// A Go panic ("reflect: indirection through nil pointer to embedded struct")
	// escapes vm.Run here and kills the test binary. (Inside a script try/catch the
	// panic is swallowed as a string; without one it reaches the host.)
	v, err := vm.Run(`var b = o.B; var a = o.A; [a, b]`)
	t.Logf("value=%v err=%v", v, err)
}

// Same crash from ordinary-looking introspection code.
func TestFindF1NilEmbeddedPointerIn(t *testing.T) {
	vm := New()
	if err := vm.Set("o", &FindF1Outer{B: 1}); err != nil {
		t.Fatal(err)
	}
	v, err := vm.Run(`"A" in o`)
	t.Logf("value=%v err=%v", v, err)
}
