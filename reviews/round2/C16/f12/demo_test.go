// Place this file in the root of the otto worktree (package otto) as zz_find_test.go and run:
//   export GOFLAGS=-mod=mod GOPROXY=off GOSUMDB=off GOTOOLCHAIN=local
//   go test -vet=off -count=1 -run TestFind .

package otto

import "testing"

type FindF12Menu struct {
	Éclair int // exported in Go (unicode upper-case first letter)
	Apple  int
}

// An exported field whose name starts with a non-ASCII upper-case letter is treated
// as unexported: reads give undefined and writes create a shadow script property,
// so Go and the script disagree about the contents.
func TestFindF12NonASCIIExportedField(t *testing.T) {
	vm := New()
	menu := &FindF12Menu{Éclair: 3, Apple: 1}
	vm.Set("menu", menu)

	v, err := vm.Run(`menu.Éclair`)
	if err != nil {
		t.Fatal(err)
	}
	if n, _ := v.ToInteger(); !v.IsNumber() || n != 3 {
		t.Errorf("menu.Éclair = %v, Go value is %d", v, menu.Éclair)
	}
	v, err = vm.Run(`menu.Éclair = 9; menu.Éclair`)
	if err == nil && menu.Éclair != 9 {
		t.Errorf("after menu.Éclair = 9 the script reads %v but Go reads %d", v, menu.Éclair)
	}
}
