// Place this file in the root of the otto worktree (package otto) as zz_find_test.go and run:
//   export GOFLAGS=-mod=mod GOPROXY=off GOSUMDB=off GOTOOLCHAIN=local
//   go test -vet=off -count=1 -run TestFind .

package otto

import (
	"reflect"
	"testing"
)

type FindF3Box struct{ Items []int }

// The slice is a field of a struct handed over by pointer, so it is addressable:
// element writes, length decreases, sort, reverse all reach the Go slice.
// A write one past the end (push, unshift, s[len] = v, length increase) is lost.
func TestFindF3AppendOnAddressableSliceIsLost(t *testing.T) {
	vm := New()
	box := &FindF3Box{Items: []int{1, 2, 3}}
	vm.Set("box", box)

	v, err := vm.Run(`box.Items.push(4)`)
	if err != nil {
		t.Logf("push failed loudly (fine): %v", err)
		return
	}
	n, _ := v.ToInteger()
	after, _ := vm.Run(`box.Items.length`)
	jsLen, _ := after.ToInteger()
	t.Logf("push returned %d; JS length afterwards %d; Go slice %v", n, jsLen, box.Items)
	if !reflect.DeepEqual(box.Items, []int{1, 2, 3, 4}) || jsLen != 4 {
		t.Errorf("box.Items.push(4) returned %d without an error, but Go sees %v and JS sees length %d (want [1 2 3 4] / 4)", n, box.Items, jsLen)
	}
}

func TestFindF3UnshiftDropsLastElement(t *testing.T) {
	vm := New()
	box := &FindF3Box{Items: []int{2, 1}}
	vm.Set("box", box)
	v, err := vm.Run(`box.Items.unshift(9)`)
	if err != nil {
		t.Logf("unshift failed loudly (fine): %v", err)
		return
	}
	if !reflect.DeepEqual(box.Items, []int{9, 2, 1}) {
		t.Errorf("unshift(9) returned %v, Go sees %v, want [9 2 1]", v, box.Items)
	}
}
