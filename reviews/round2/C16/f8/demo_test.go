// Place this file in the root of the otto worktree (package otto) as zz_find_test.go and run:
//   export GOFLAGS=-mod=mod GOPROXY=off GOSUMDB=off GOTOOLCHAIN=local
//   go test -vet=off -count=1 -run TestFind .

package otto

import "testing"

// A slice parameter built from an object that has a numeric length but is not an
// Array / bridged slice / bridged array: the elements are never read, the Go
// function receives length-many zero values and no error is raised.
func TestFindF8ArrayLikeToSliceParam(t *testing.T) {
	vm := New()
	var got []int
	called := false
	vm.Set("sum", func(xs []int) int {
		called = true
		got = xs
		n := 0
		for _, x := range xs {
			n += x
		}
		return n
	})

	for _, src := range []string{
		`(function () { return sum(arguments) })(4, 5, 6)`, // 15
		`sum({length: 2, 0: 7, 1: 8})`,                     // 15
	} {
		called, got = false, nil
		v, err := vm.Run(src)
		if err != nil {
			t.Logf("%s: failed loudly (fine): %v", src, err)
			continue
		}
		if n, _ := v.ToInteger(); n != 15 {
			t.Errorf("%s = %v, Go function received %v (called=%v); want 15 or a TypeError", src, v, got, called)
		}
	}

	// Array elements that are accessors (or inherited) are skipped the same way.
	called, got = false, nil
	v, err := vm.Run(`var a = [1, 2]; Object.defineProperty(a, 0, {get: function () { return 9 }}); [a[0] + a[1], sum(a)].join()`)
	if err == nil && v.String() != "11,11" {
		t.Errorf("accessor element: script sees a[0]+a[1] = 11, Go received %v (%v)", got, v)
	}
}
