// Place this file in the root of the otto worktree (package otto) as zz_find_test.go and run:
//   export GOFLAGS=-mod=mod GOPROXY=off GOSUMDB=off GOTOOLCHAIN=local
//   go test -vet=off -count=1 -run TestFind .

package otto

import "testing"

type FindF11Base struct{ Count int }

type FindF11Node struct {
	*FindF11Base // embedded by pointer, non-nil
	Label        string
}

// A field promoted through an embedded POINTER is readable (and reported writable)
// but a write to it is dropped without an error.
func TestFindF11WriteThroughEmbeddedPointerDropped(t *testing.T) {
	vm := New()
	n := &FindF11Node{FindF11Base: &FindF11Base{Count: 1}}
	vm.Set("n", n)

	v, err := vm.Run(`n.Count = 5; n.Count`)
	if err != nil {
		t.Logf("failed loudly (fine): %v", err)
		return
	}
	if got, _ := v.ToInteger(); got != 5 || n.Count != 5 {
		t.Errorf("n.Count = 5 raised nothing; script reads %d, Go reads %d", got, n.Count)
	}
	d, _ := vm.Run(`Object.getOwnPropertyDescriptor(n, "Count").writable`)
	t.Logf("descriptor says writable=%v", d)
}
