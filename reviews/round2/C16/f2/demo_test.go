// Place this file in the root of the otto worktree (package otto) as zz_find_test.go and run:
//   export GOFLAGS=-mod=mod GOPROXY=off GOSUMDB=off GOTOOLCHAIN=local
//   go test -vet=off -count=1 -run TestFind .

package otto

import "testing"

type FindF2T struct {
	N    int
	Name string
}

type FindF2U struct{ Q string }

// A Go function taking a struct BY VALUE, called with bridged Go values.
func TestFindF2BridgedValueToStructParam(t *testing.T) {
	vm := New()
	var got []FindF2T
	vm.Set("f", func(x FindF2T) { got = append(got, x) })
	vm.Set("p", &FindF2T{N: 5, Name: "five"})           // *T handed to func(T)
	vm.Set("u", FindF2U{Q: "q"})                          // unrelated struct type
	vm.Set("m", map[string]interface{}{"N": 3, "Name": "three"}) // bridged Go map

	check := func(src string, want *FindF2T) {
		got = nil
		_, err := vm.Run(src)
		if err != nil {
			t.Logf("%s: failed loudly (fine): %v", src, err)
			return
		}
		if len(got) != 1 {
			t.Errorf("%s: Go function called %d times", src, len(got))
			return
		}
		if want == nil {
			t.Errorf("%s: no error, Go function silently received %+v", src, got[0])
			return
		}
		if got[0] != *want {
			t.Errorf("%s: Go function received %+v, want %+v (or a TypeError)", src, got[0], *want)
		}
	}
	check(`f(p)`, &FindF2T{N: 5, Name: "five"})
	check(`f(u)`, nil)
	check(`f(m)`, &FindF2T{N: 3, Name: "three"})
}
