// Place this file in the root of the otto module (package otto), e.g. as
// zz_find_test.go, and run:
//
//	export GOFLAGS=-mod=mod GOPROXY=off GOSUMDB=off GOTOOLCHAIN=local
//	go test -vet=off -count=1 -run 'TestFindDeepNesting' .
//
// Both tests kill the test binary with
//
//	runtime: goroutine stack exceeds 1000000000-byte limit
//	fatal error: stack overflow
//
// (a Go fatal error, which no recover() can stop) inside the recursive-descent
// parser (parser.(*parser).parseAssignmentExpression -> ... -> parseArrayLiteral).
package otto

import (
	"strings"
	"testing"
)

// A 150 byte script, run with a stack depth limit configured, takes the host down.
func TestFindDeepNestingEval(t *testing.T) {
	vm := New()
	vm.SetStackDepthLimit(100)
	v, err := vm.Run(`
		var s = '[';
		for (var i = 0; i < 22; i++) s += s;   // 4M times '['
		var r;
		try { eval(s); r = 'no error' } catch (e) { r = e.name }
		r`)
	if err != nil {
		t.Fatalf("unexpected error: %v", err)
	}
	// 15.1.2.1 step 2-3: a string that is not a Program makes eval throw SyntaxError
	// (a RangeError for the nesting would satisfy the property as well).
	if s := v.String(); s != "SyntaxError" && s != "RangeError" {
		t.Fatalf("got %q, want SyntaxError or RangeError", s)
	}
}

// The same through the source text itself ("for all byte strings as source").
func TestFindDeepNestingSource(t *testing.T) {
	vm := New()
	vm.SetStackDepthLimit(100)
	_, err := vm.Run(strings.Repeat("(", 1<<22))
	if err == nil {
		t.Fatalf("want a syntax error")
	}
	if _, err = vm.Compile("", strings.Repeat("[", 1<<22)); err == nil {
		t.Fatalf("want a syntax error")
	}
}
