// Place this file in the root of the otto module (package otto), e.g. as
// zz_find_test.go, and run:
//
//	export GOFLAGS=-mod=mod GOPROXY=off GOSUMDB=off GOTOOLCHAIN=local
//	go test -vet=off -count=1 -run 'TestFindCallEmptyProgram' .
//
// Fails with: panic: runtime error: index out of range [0] with length 0
// (otto.Otto.Call, otto.go:554).
package otto

import (
	"testing"
)

func TestFindCallEmptyProgram(t *testing.T) {
	for _, source := range []string{"//", "// not a function", "f //", "<!--"} {
		func() {
			defer func() {
				if r := recover(); r != nil {
					t.Errorf("Call(%q, nil) panicked in the host: %v", source, r)
				}
			}()
			vm := New()
			_, _ = vm.Run(`function f() { return 1 }`)
			v, err := vm.Call(source, nil)
			t.Logf("Call(%q, nil) = %v, %v", source, v, err)
			// Expected: a value or an error (for "//" and "<!--": undefined is not a function).
		}()
	}
}
