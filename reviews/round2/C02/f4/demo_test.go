// Place this file in the root of the otto module (package otto), e.g. as
// zz_find_test.go, and run:
//
//	export GOFLAGS=-mod=mod GOPROXY=off GOSUMDB=off GOTOOLCHAIN=local
//	go test -vet=off -count=1 -run 'TestFindFromCharCodeToGo' .
//
// Fails with: panic: reflect.Value.Convert: value of type []uint16 cannot be
// converted to type string (runtime.convertCallParameter, runtime.go:415).
package otto

import (
	"testing"
)

type zzFindUser struct {
	Name string
}

func TestFindFromCharCodeToGo(t *testing.T) {
	vm := New()
	if err := vm.Set("greet", func(name string) string { return "hello " + name }); err != nil {
		t.Fatal(err)
	}
	if err := vm.Set("user", &zzFindUser{}); err != nil {
		t.Fatal(err)
	}
	if err := vm.Set("names", func(list []string) int { return len(list) }); err != nil {
		t.Fatal(err)
	}
	for _, tc := range []struct{ src, want string }{
		// 15.5.3.2: String.fromCharCode returns a String value like any other.
		{`greet(String.fromCharCode(65, 66))`, "hello AB"},
		{`user.Name = String.fromCharCode(65, 66); user.Name`, "AB"},
		{`names(["x", String.fromCharCode(65)])`, "2"},
		// Inside try/catch the foreign Go panic is swallowed by the script's catch
		// instead, the call still fails.
		{`try { greet(String.fromCharCode(65, 66)) } catch (e) { "caught: " + e }`, "hello AB"},
	} {
		func() {
			defer func() {
				if r := recover(); r != nil {
					t.Errorf("%s\n\tGo panic escaped Run: %v", tc.src, r)
				}
			}()
			v, err := vm.Run(tc.src)
			if err != nil || v.String() != tc.want {
				t.Errorf("%s\n\tgot %v, %v; want %q", tc.src, v, err, tc.want)
			}
		}()
	}
}
