// Place this file in the root of the otto module (package otto), e.g. as
// zz_find_test.go, and run:
//
//	export GOFLAGS=-mod=mod GOPROXY=off GOSUMDB=off GOTOOLCHAIN=local
//	go test -vet=off -count=1 -run 'TestFindNilBridge' .
//
// Fails with
//
//	Go panic escaped Run: reflect.Value.Call: call of nil function
//	Go panic escaped Run: reflect: indirection through nil pointer to embedded struct
package otto

import (
	"testing"
)

type ZzFindBase struct {
	ID int
}

type zzFindJob struct {
	*ZzFindBase // not set
	Name        string
	OnDone      func(int) int // optional callback, not set
}

func TestFindNilBridge(t *testing.T) {
	vm := New()
	if err := vm.Set("job", &zzFindJob{Name: "j"}); err != nil {
		t.Fatal(err)
	}
	for _, src := range []string{
		// (a) a func-typed field (or variable, map element, return value) that is nil
		`job.OnDone(1)`,
		`if (typeof job.OnDone === "function") job.OnDone(1)`, // even the careful script
		// (b) a field promoted from an embedded pointer that is nil
		`job.ID`,
		`"ID" in job`,
		`job.hasOwnProperty("ID")`,
	} {
		func() {
			defer func() {
				if r := recover(); r != nil {
					t.Errorf("%s\n\tGo panic escaped Run: %v", src, r)
				}
			}()
			v, err := vm.Run(src)
			t.Logf("%s => %v, %v", src, v, err) // a value or an error (TypeError) is fine
		}()
	}
}
