// Place this file in the root of the otto module (package otto), e.g. as
// zz_find_test.go, and run:
//
//	export GOFLAGS=-mod=mod GOPROXY=off GOSUMDB=off GOTOOLCHAIN=local
//	go test -vet=off -count=1 -run 'TestFindHugeLength' .
//
// Each test kills the test binary at once with
//
//	fatal error: runtime: out of memory
//
// (runtime.makeslice called from builtinArrayJoin / builtinFunctionApply /
// builtinJSONStringifyWalk); a fatal error cannot be recovered. (On a machine
// where a 64-96 GB allocation succeeds the script instead spins for minutes in
// a native loop that never polls vm.Interrupt.)
package otto

import (
	"testing"
)

func runHuge(t *testing.T, src string) {
	t.Helper()
	vm := New()
	vm.SetStackDepthLimit(100)
	v, err := vm.Run(src)
	// Expected: a catchable RangeError (as other engines: "Invalid array/string length").
	t.Logf("%v, %v", v, err)
}

func TestFindHugeLengthJoin(t *testing.T) {
	runHuge(t, `var a = []; a[4294967294] = 0; try { String(a) } catch (e) { "caught " + e.name }`)
}

func TestFindHugeLengthApply(t *testing.T) {
	runHuge(t, `try { (function(){}).apply(null, {length: -1}) } catch (e) { "caught " + e.name }`)
}

func TestFindHugeLengthStringify(t *testing.T) {
	runHuge(t, `var a = []; a.length = 4294967295; try { JSON.stringify(a) } catch (e) { "caught " + e.name }`)
}
