// Place this file in the root of the otto module (package otto), e.g. as
// zz_find_test.go, and run:
//
//	export GOFLAGS=-mod=mod GOPROXY=off GOSUMDB=off GOTOOLCHAIN=local
//	go test -vet=off -count=1 -run 'TestFindExportCycle' .
//
// The test binary dies with "fatal error: stack overflow" in otto.Value.export
// (value.go:708/711 <-> object_class.go:30), which no recover() can stop.
package otto

import (
	"testing"
)

// Value.Export on an object that (directly or indirectly) refers to itself.
func TestFindExportCycle(t *testing.T) {
	vm := New()
	vm.SetStackDepthLimit(100)
	v, err := vm.Run(`var a = {name: "a"}; a.self = a; a`)
	if err != nil {
		t.Fatal(err)
	}
	// "the Value/Object accessors return to the caller with a value or an error"
	x, err := v.Export()
	t.Log(x, err)
}

// The same from a script alone: every bridged Go function with an interface{}
// (or json.RawMessage) parameter exports its argument.
func TestFindExportCycleFromScript(t *testing.T) {
	vm := New()
	vm.SetStackDepthLimit(100)
	if err := vm.Set("show", func(x interface{}) bool { return x != nil }); err != nil {
		t.Fatal(err)
	}
	v, err := vm.Run(`var n = {}; var list = [n]; n.owner = list; try { show(list) } catch (e) { "caught" }`)
	t.Log(v, err)
}
