// Place this file in the root of the otto module (package otto), e.g. as
// zz_find_test.go, and run:
//
//	export GOFLAGS=-mod=mod GOPROXY=off GOSUMDB=off GOTOOLCHAIN=local
//	go test -vet=off -count=1 -run 'TestFindInterruptSwallowed' .
//
// Both tests fail: the script survives the host's interrupt (the documented
// "Halting Problem" recipe of otto.go) and keeps the goroutine busy forever.
package otto

import (
	"errors"
	"testing"
	"time"
)

func runWithHalt(t *testing.T, halt interface{}, src string) {
	t.Helper()
	vm := New()
	vm.Interrupt = make(chan func(), 1) // as in the package documentation
	out := make(chan string, 1)
	go func() {
		defer func() {
			if r := recover(); r != nil {
				if r == halt {
					out <- "halted"
				} else {
					out <- "other panic"
				}
			}
		}()
		_, err := vm.Run(src)
		if err != nil {
			out <- "returned error: " + err.Error()
		} else {
			out <- "returned"
		}
	}()
	time.Sleep(100 * time.Millisecond)
	vm.Interrupt <- func() { panic(halt) }
	select {
	case s := <-out:
		if s != "halted" {
			t.Errorf("Run ended with %q, want the host's halt panic to come out of Run", s)
		}
	case <-time.After(3 * time.Second):
		t.Errorf("script still running 3s after the interrupt function panicked: the host is wedged")
	}
}

// The halt value of the documentation: errors.New(...).
func TestFindInterruptSwallowedError(t *testing.T) {
	runWithHalt(t, errors.New("Stahp"), `
		for (;;) {
			try {
				try { for (;;) {} } catch (e) { }
			} catch (e2) { }
		}`)
}

// Any halt value that toValue understands (string, number, ...): one try is enough.
func TestFindInterruptSwallowedString(t *testing.T) {
	runWithHalt(t, "halt", `for (;;) { try { for (;;) {} } catch (e) { } }`)
}
