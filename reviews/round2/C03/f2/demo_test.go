// Place this file in the root of the otto module (package otto), e.g.
//   cp demo_test.go /tmp/wt6/C03/zz_find_test.go
// and run
//   export GOFLAGS=-mod=mod GOPROXY=off GOSUMDB=off GOTOOLCHAIN=local
//   cd /tmp/wt6/C03 && go test -vet=off -count=1 -run 'TestFindNoInConditionalConsequent' .
package otto

import (
	"testing"

	"github.com/robertkrimen/otto/ast"
	"github.com/robertkrimen/otto/parser"
	"github.com/robertkrimen/otto/token"
)

// ES5.1 11.12:
//   ConditionalExpressionNoIn :
//       LogicalORExpressionNoIn ? AssignmentExpression : AssignmentExpressionNoIn
// The middle operand of ?: is a plain AssignmentExpression: `in` is allowed there
// even inside the first clause of a for header.
func TestFindNoInConditionalConsequent(t *testing.T) {
	for _, src := range []string{
		"for (var x = a ? b in c : d; ; ) break;",
		"for (x = a ? b in c : d; ; ) break;",
		"for (a ? b in c : d; ; ) break;",
		"for (var x = a ? b in c : d in e) break;", // for-in with an initialiser (12.6.4, VariableDeclarationNoIn)
	} {
		program, err := parser.ParseFile(nil, "", src, 0)
		if err != nil {
			t.Errorf("parse %q: %v", src, err)
			continue
		}
		_ = program
	}

	// Structure check for the first one.
	program, err := parser.ParseFile(nil, "", "for (var x = a ? b in c : d; ; ) break;", 0)
	if err == nil {
		fs := program.Body[0].(*ast.ForStatement)
		ve := fs.Initializer.(*ast.SequenceExpression).Sequence[0].(*ast.VariableExpression)
		ce, ok := ve.Initializer.(*ast.ConditionalExpression)
		if !ok {
			t.Fatalf("initializer is %T, want conditional", ve.Initializer)
		}
		be, ok := ce.Consequent.(*ast.BinaryExpression)
		if !ok || be.Operator != token.IN {
			t.Errorf("consequent is %T, want `b in c`", ce.Consequent)
		}
	}

	vm := New()
	v, err := vm.Run("var n = 0; for (var x = true ? 'a' in {a: 1} : 0; n < 1; n++) ; x")
	if err != nil {
		t.Fatalf("run: %v", err)
	}
	if got := v.String(); got != "true" {
		t.Errorf("got %s, want true", got)
	}
}
