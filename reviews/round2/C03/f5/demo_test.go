// Place this file in the root of the otto module (package otto), e.g.
//   cp demo_test.go /tmp/wt6/C03/zz_find_test.go
// and run
//   export GOFLAGS=-mod=mod GOPROXY=off GOSUMDB=off GOTOOLCHAIN=local
//   cd /tmp/wt6/C03 && go test -vet=off -count=1 -run 'TestFindSurrogatePairEscape' .
package otto

import (
	"strings"
	"testing"

	"github.com/robertkrimen/otto/ast"
	"github.com/robertkrimen/otto/parser"
)

// In the sources below '@' stands for a backslash (replaced before use), so that
// this file itself contains no escape sequence that a tool could pre-decode.
//
// ES5.1 7.8.4: the SV of a string literal is the sequence of the CVs of its
// characters, and the CV of a UnicodeEscapeSequence is the code unit whose value
// is the four hex digits.  So '@uD83D@uDE00' is the two code units D83D DE00,
// i.e. exactly the string whose source spelling is the character U+1F600
// (clause 6: source text is a sequence of UTF-16 code units).
func TestFindSurrogatePairEscape(t *testing.T) {
	bs := func(s string) string { return strings.ReplaceAll(s, "@", string(rune(92))) }
	grin := string(rune(0x1F600)) // GRINNING FACE, as real UTF-8 text

	// Parser level.
	src := bs("x = '@uD83D@uDE00'")
	program, err := parser.ParseFile(nil, "", src, 0)
	if err != nil {
		t.Fatalf("parse %q: %v", src, err)
	}
	literal := program.Body[0].(*ast.ExpressionStatement).Expression.(*ast.AssignExpression).Right.(*ast.StringLiteral)
	if literal.Value != grin {
		t.Errorf("%s: StringLiteral.Value = %+q, want %+q", src, literal.Value, grin)
	}

	// Script level.
	vm := New()
	for _, test := range []struct{ src, want string }{
		{"'@uD83D@uDE00'.charCodeAt(0)", "55357"},
		{"'@uD83D@uDE00'.charCodeAt(1)", "56832"},
		{"'@uD83D@uDE00' === '" + grin + "'", "true"},
		{"'@uD83D@uDE00' === String.fromCharCode(0xD83D, 0xDE00)", "true"},
		{"encodeURIComponent('@uD83D@uDE00')", "%F0%9F%98%80"},
		{"JSON.parse('\"@@uD83D@@uDE00\"') === '@uD83D@uDE00'", "true"},
		{"({'@uD83D@uDE00': 1})['" + grin + "']", "1"},
	} {
		src := bs(test.src)
		v, err := vm.Run(src)
		if err != nil {
			t.Errorf("%s: %v", src, err)
			continue
		}
		if got := v.String(); got != test.want {
			t.Errorf("%s: got %q, want %q", src, got, test.want)
		}
	}
}
