// Place this file in the root of the otto module (package otto), e.g.
//   cp demo_test.go /tmp/wt6/C03/zz_find_test.go
// and run
//   export GOFLAGS=-mod=mod GOPROXY=off GOSUMDB=off GOTOOLCHAIN=local
//   cd /tmp/wt6/C03 && go test -vet=off -count=1 -run 'TestFindDotMemberIdentifierName' .
package otto

import (
	"testing"

	"github.com/robertkrimen/otto/ast"
	"github.com/robertkrimen/otto/parser"
)

// ES5.1 11.2.1: MemberExpression . IdentifierName, and 7.6:
//   IdentifierPart :: IdentifierStart | UnicodeCombiningMark (Mn, Mc) | UnicodeDigit (Nd)
//                   | UnicodeConnectorPunctuation (Pc) | <ZWNJ> | <ZWJ>
//   UnicodeLetter  :: Lu Ll Lt Lm Lo Nl
// The same names are accepted as plain identifiers (var ...), but not after a dot.
func TestFindDotMemberIdentifierName(t *testing.T) {
	names := []string{
		string([]rune{0x0928, 0x093E, 0x092E}), // Devanagari "naam": U+093E is a spacing combining mark (Mc)
		string([]rune{'c', 'a', 'f', 'e', 0x0301}), // "cafe" + COMBINING ACUTE ACCENT (NFD spelling), Mn
		string([]rune{'a', 0x203F, 'b'}),            // U+203F UNDERTIE, connector punctuation (Pc)
		string([]rune{0x2163}),                      // ROMAN NUMERAL FOUR, letter number (Nl)
	}
	vm := New()
	for _, name := range names {
		// Sanity: the scanner accepts it as an identifier.
		if _, err := parser.ParseFile(nil, "", "var "+name+" = 1;", 0); err != nil {
			t.Fatalf("var %s: %v", name, err)
		}

		src := "o." + name + " = 1;"
		program, err := parser.ParseFile(nil, "", src, 0)
		if err != nil {
			t.Errorf("parse %q: %v", src, err)
		} else {
			left := program.Body[0].(*ast.ExpressionStatement).Expression.(*ast.AssignExpression).Left
			if dot, ok := left.(*ast.DotExpression); !ok || dot.Identifier.Name != name {
				t.Errorf("%q: left side is %T", src, left)
			}
		}

		v, err := vm.Run("var o = {}; o." + name + " = 7; o['" + name + "']")
		if err != nil {
			t.Errorf("run o.%s: %v", name, err)
		} else if v.String() != "7" {
			t.Errorf("run o.%s: got %s, want 7", name, v)
		}
	}
}
