// Place this file in the root of the otto module (package otto), e.g.
//   cp demo_test.go /tmp/wt6/C03/zz_find_test.go
// and run
//   export GOFLAGS=-mod=mod GOPROXY=off GOSUMDB=off GOTOOLCHAIN=local
//   cd /tmp/wt6/C03 && go test -vet=off -count=1 -run 'TestFindNumericPropertyName' .
package otto

import (
	"testing"

	"github.com/robertkrimen/otto/ast"
	"github.com/robertkrimen/otto/parser"
)

// ES5.1 11.1.5: PropertyName : NumericLiteral
//   1. Let nbr be the result of forming the value of the NumericLiteral.
//   2. Return ToString(nbr).
func TestFindNumericPropertyName(t *testing.T) {
	src := "x = {1.0: 'a', 0x10: 'b', .5: 'c', 1e3: 'd', 010: 'e', 2.: 'f'}"
	want := []string{"1", "16", "0.5", "1000", "8", "2"}

	program, err := parser.ParseFile(nil, "", src, 0)
	if err != nil {
		t.Fatalf("parse %q: %v", src, err)
	}
	object := program.Body[0].(*ast.ExpressionStatement).Expression.(*ast.AssignExpression).Right.(*ast.ObjectLiteral)
	for i, property := range object.Value {
		if property.Key != want[i] {
			t.Errorf("property %d: key %q, want %q", i, property.Key, want[i])
		}
	}

	vm := New()
	for _, test := range []struct{ src, want string }{
		{"({1.0: 'a'})[1]", "a"},
		{"({0x10: 'b'})[16]", "b"},
		{"({.5: 'c'})[0.5]", "c"},
		{"({1e3: 'd'})[1000]", "d"},
		{"Object.keys({1.0: 'a', 0x10: 'b', .5: 'c', 1e3: 'd'}).join()", "1,16,0.5,1000"},
		{"var o = {1.0: 'a'}; o[1] = 'z'; Object.keys(o).length", "1"},
		{"var o = {get 0x10() { return 'g' }}; o[16]", "g"},
	} {
		v, err := vm.Run(test.src)
		if err != nil {
			t.Errorf("%s: %v", test.src, err)
			continue
		}
		if got := v.String(); got != test.want {
			t.Errorf("%s: got %q, want %q", test.src, got, test.want)
		}
	}
}
