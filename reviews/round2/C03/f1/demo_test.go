// Place this file in the root of the otto module (package otto), e.g.
//   cp demo_test.go /tmp/wt6/C03/zz_find_test.go
// and run
//   export GOFLAGS=-mod=mod GOPROXY=off GOSUMDB=off GOTOOLCHAIN=local
//   cd /tmp/wt6/C03 && go test -vet=off -count=1 -run 'TestFindRegExpFlagsAcrossNewline' .
package otto

import (
	"testing"

	"github.com/robertkrimen/otto/ast"
	"github.com/robertkrimen/otto/parser"
)

// A regular expression literal without flags, ending a line, followed by a
// statement that starts with an identifier.  ES5.1 7.8.5: the flags are part of
// the RegularExpressionLiteral *token* (no white space inside a token); 7.9.1:
// a semicolon is inserted before `foo`.
func TestFindRegExpFlagsAcrossNewline(t *testing.T) {
	src := "var re = /abc/\nfoo()"

	program, err := parser.ParseFile(nil, "", src, 0)
	if err != nil {
		t.Fatalf("parse %q: %v", src, err)
	}
	if len(program.Body) != 2 {
		t.Errorf("%q: got %d statements, want 2 (var statement; call statement)", src, len(program.Body))
	}
	if vs, ok := program.Body[0].(*ast.VariableStatement); ok {
		init := vs.List[0].(*ast.VariableExpression).Initializer
		if re, ok := init.(*ast.RegExpLiteral); !ok {
			t.Errorf("%q: initializer is %T, want *ast.RegExpLiteral", src, init)
		} else if re.Flags != "" {
			t.Errorf("%q: flags = %q, want \"\"", src, re.Flags)
		}
	}

	// The same thing seen from a script.
	vm := New()
	v, err := vm.Run("var n = 0; function foo() { n++ }\nvar re = /abc/\nfoo()\n;[n, re.source, re.global].join()")
	if err != nil {
		t.Fatalf("run: %v", err)
	}
	if got := v.String(); got != "1,abc,false" {
		t.Errorf("got %q, want %q", got, "1,abc,false")
	}

	// Flags "g" silently appear.
	v, err = vm.Run("var g = 7; var r2 = /x/\ng\n;r2.global")
	if err != nil {
		t.Fatalf("run: %v", err)
	}
	if got := v.String(); got != "false" {
		t.Errorf("/x/<newline>g : r2.global = %s, want false", got)
	}
}
