// Place this file in the root of the otto module (package otto), e.g. as
// zz_find_f3_test.go, and run:
//
//	go test -vet=off -count=1 -run 'TestFindF3' .
//
// Asking a bridged Go struct for a property that lives in an embedded struct
// reached through a nil pointer ('X' in o, o.X, o.hasOwnProperty('X'),
// Object.getOwnPropertyDescriptor(o,'X'), o.X = 1 ...) makes the reflect package
// panic, and that Go panic escapes Otto.Run. ES5.1 11.8.7 / 8.12.6: `in` answers
// a Boolean; the property text: every observation is a value or a TypeError.
package otto

import "testing"

type FindF3Inner struct{ X int }

type FindF3Outer struct {
	*FindF3Inner
	Y int
}

func TestFindF3NilEmbeddedPointer(t *testing.T) {
	for _, src := range []string{
		`'X' in o`,
		`o.X`,
		`o.hasOwnProperty('X')`,
		`Object.getOwnPropertyDescriptor(o, 'X')`,
		`o.X = 1`,
		`Object.defineProperty(o, 'X', {value: 1})`,
		`delete o.X`,
	} {
		func() {
			defer func() {
				if r := recover(); r != nil {
					t.Errorf("%s: Go panic escaped Otto.Run: %v", src, r)
				}
			}()
			vm := New()
			if err := vm.Set("o", &FindF3Outer{Y: 1}); err != nil {
				t.Fatal(err)
			}
			// The other members work, and the embedded field is listed.
			if v, err := vm.Run(`[o.Y, Object.keys(o).join('/')].join()`); err != nil || v.String() != "1,FindF3Inner/Y" {
				t.Fatalf("setup: %v %v", v, err)
			}
			v, err := vm.Run(src)
			t.Logf("%s -> %v, %v", src, v, err)
		}()
	}
}
