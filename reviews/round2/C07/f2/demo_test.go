// Place this file in the root of the otto module (package otto), e.g. as
// zz_find_f2_test.go, and run:
//
//	go test -vet=off -count=1 -run 'TestFindF2' .
//
// A non-extensible object never gains properties (property text; ES5.1 8.12.9
// step 3, and 8.6.2: "The [[DefineOwnProperty]] internal method of a host object
// must not permit the addition of a new property to a host object if the
// [[Extensible]] internal property of that host object has been observed by
// ECMAScript code to be false").
// The objects that wrap a Go map or a Go slice never look at [[Extensible]].
package otto

import "testing"

func TestFindF2GoMapIgnoresExtensible(t *testing.T) {
	vm := New()
	m := map[string]int{"a": 1}
	if err := vm.Set("m", m); err != nil {
		t.Fatal(err)
	}
	v, err := vm.Run(`
		Object.preventExtensions(m);
		var r = [Object.isExtensible(m)];
		try {
			Object.defineProperty(m, 'c', {value: 3, writable: true, enumerable: true, configurable: true});
			r.push('nothrow');
		} catch (e) { r.push(e.name) }
		r.push('c' in m, Object.keys(m).sort().join('/'), Object.isExtensible(m));
		r.join();
	`)
	if err != nil {
		t.Fatal(err)
	}
	if want := "false,TypeError,false,a,false"; v.String() != want {
		t.Errorf("got %s, want %s (Go map is now %v)", v, want, m)
	}
}

func TestFindF2GoSliceIgnoresExtensible(t *testing.T) {
	vm := New()
	if err := vm.Set("s", []int{1, 2, 3}); err != nil {
		t.Fatal(err)
	}
	v, err := vm.Run(`
		Object.preventExtensions(s);
		var r = [Object.isExtensible(s)];
		s[3] = 9;                       // a plain assignment: must be ignored
		r.push(s.length, 3 in s && s[3] === 9);
		try { s.push(10); r.push('nothrow') } catch (e) { r.push(e.name) }  // 15.4.4.7: [[Put]] with throw=true
		r.push(s.length, Object.keys(s).join('/'), Object.isExtensible(s));
		r.join();
	`)
	if err != nil {
		t.Fatal(err)
	}
	if want := "false,3,false,TypeError,3,0/1/2,false"; v.String() != want {
		t.Errorf("got %s, want %s", v, want)
	}
}
