// Place this file in the root of the otto module (package otto), e.g. as
// zz_find_f5_test.go, and run:
//
//	go test -vet=off -count=1 -run 'TestFindF5' .
//
// ES5.1 10.5 step 2: "If code is eval code, then let configurableBindings be true"
// and 10.2.1.2.2: CreateMutableBinding(N, D) on the global object environment
// defines the property {[[Value]]: undefined, [[Writable]]: true,
// [[Enumerable]]: true, [[Configurable]]: D}.  A variable or function declared by
// eval code is therefore a configurable property of the global object and
// `delete` removes it (11.4.1, 8.12.7).  otto creates it non-configurable.
package otto

import "testing"

func TestFindF5EvalDeclaredBindingIsConfigurable(t *testing.T) {
	for _, tc := range []struct{ src, want string }{
		{`eval('var z1 = 3'); var d = Object.getOwnPropertyDescriptor(this, 'z1');
		  [d.writable, d.enumerable, d.configurable, delete z1, typeof z1, 'z1' in this].join()`,
			"true,true,true,true,undefined,false"},
		{`eval('function zf() {}'); var d = Object.getOwnPropertyDescriptor(this, 'zf');
		  [d.configurable, delete this.zf, typeof zf].join()`,
			"true,true,undefined"},
		// indirect eval: global code, still eval code
		{`(0, eval)('var z2 = 3'); [Object.getOwnPropertyDescriptor(this, 'z2').configurable, delete z2, typeof z2].join()`,
			"true,true,undefined"},
		// the same in a function (declarative environment record, 10.2.1.1.2 / 10.2.1.1.5)
		{`(function () { eval('var q = 1'); return [delete q, typeof q].join() })()`,
			"true,undefined"},
		// control: a var of the program itself is not configurable
		{`var z3 = 1; [Object.getOwnPropertyDescriptor(this, 'z3').configurable, delete z3, typeof z3].join()`,
			"false,false,number"},
	} {
		vm := New()
		v, err := vm.Run(tc.src)
		if err != nil {
			t.Fatal(err)
		}
		if v.String() != tc.want {
			t.Errorf("%s\n   got %s, want %s", tc.src, v, tc.want)
		}
	}
}
