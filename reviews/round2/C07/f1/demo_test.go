// Place this file in the root of the otto module (package otto), e.g. as
// zz_find_f1_test.go, and run:
//
//	go test -vet=off -count=1 -run 'TestFindF1GetOwnPropertyNamesNonObject' .
//
// ES5.1 15.2.3.4 step 1: "If Type(O) is not Object throw a TypeError exception."
// otto answers an empty array for undefined, null, numbers, booleans and strings.
package otto

import "testing"

func TestFindF1GetOwnPropertyNamesNonObject(t *testing.T) {
	vm := New()
	for _, arg := range []string{"undefined", "null", "1", "true", "'abc'", ""} {
		src := `(function(){ try { var r = Object.getOwnPropertyNames(` + arg + `); return 'returned [' + r + '] (length ' + r.length + ')' } catch (e) { return e.name } })()`
		v, err := vm.Run(src)
		if err != nil {
			t.Fatal(err)
		}
		if got := v.String(); got != "TypeError" {
			t.Errorf("Object.getOwnPropertyNames(%s): got %q, want a TypeError (ES5.1 15.2.3.4 step 1)", arg, got)
		}
	}
	// Every sibling in 15.2.3 does throw; getOwnPropertyNames is the odd one out.
	v, _ := vm.Run(`(function(){ try { Object.keys(undefined); return 'nothrow' } catch (e) { return e.name } })()`)
	if v.String() != "TypeError" {
		t.Errorf("Object.keys(undefined): %s", v)
	}
}
