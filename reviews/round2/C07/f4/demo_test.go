// Place this file in the root of the otto module (package otto), e.g. as
// zz_find_f4_test.go, and run:
//
//	go test -vet=off -count=1 -run 'TestFindF4' .
//
// ES5.1 10.6 step 11: the formal parameter names are walked from the last to the
// first and a name that is already in mappedNames is not mapped again. With
// function f(a, a) called as f(1, 2) only arguments[1] is tied to the variable a;
// arguments[0] is an ordinary data property that holds 1.
// otto ties both index properties to a.
package otto

import "testing"

func TestFindF4ArgumentsDuplicateParameter(t *testing.T) {
	vm := New()
	for _, tc := range []struct{ src, want string }{
		// own property values
		{`(function f(a, a) { return [arguments[0], arguments[1], a].join() })(1, 2)`, "1,2,2"},
		// the descriptor the property model shows
		{`(function f(a, a) { return Object.getOwnPropertyDescriptor(arguments, '0').value })(1, 2)`, "1"},
		// a write to arguments[0] must not reach a; a write to arguments[1] must
		{`(function f(a, a) { arguments[0] = 9; var r = [a]; arguments[1] = 8; r.push(a); return r.join() })(1, 2)`, "2,8"},
		// a write to a must not show in arguments[0]
		{`(function f(a, a) { a = 7; return [arguments[0], arguments[1]].join() })(1, 2)`, "1,7"},
		// Object.keys/values as seen by generic code
		{`(function f(x, y, x) { return Array.prototype.slice.call(arguments).join() })(1, 2, 3)`, "1,2,3"},
	} {
		v, err := vm.Run(tc.src)
		if err != nil {
			t.Fatal(err)
		}
		if v.String() != tc.want {
			t.Errorf("%s\n   got %s, want %s (ES5.1 10.6 step 11.c.ii)", tc.src, v, tc.want)
		}
	}
}
