// C06 finding 2: ToString(Number) picks the wrong layout next to 1e21 and 1e-6 (math.Log10 rounding)
//
// Place this file in the root of the otto module (package otto), e.g. as
// /tmp/wt6/C06/zz_find_test.go, and run:
//
//   export GOFLAGS=-mod=mod GOPROXY=off GOSUMDB=off GOTOOLCHAIN=local
//   cd /tmp/wt6/C06 && go test -vet=off -count=1 -run 'TestFindC06F2' .
//
// The test FAILS on the code as it stands; every expectation follows from ES5.1
// (clauses cited in notes.md).
package otto

import "testing"

func findCheckF2(t *testing.T, cases [][2]string) {
	t.Helper()
	vm := New()
	for _, c := range cases {
		v, err := vm.Run(`(function(){ var r = ` + c[0] + `; return (r === 0 && 1/r < 0) ? "-0" : String(r); })()`)
		if err != nil {
			t.Errorf("%s: unexpected error %v (want %s)", c[0], err, c[1])
			continue
		}
		if got := v.String(); got != c[1] {
			t.Errorf("%s: got %q, want %q", c[0], got, c[1])
		}
	}
}

func TestFindC06F2(t *testing.T) {
	findCheckF2(t, [][2]string{
		{`String(999999999999999900000)`, "999999999999999900000"},
		{`"" + 999999999999999500000`, "999999999999999500000"},
		{`String(-999999999999999900000)`, "-999999999999999900000"},
		{`String(9.999999999999997e-7)`, "9.999999999999997e-7"},
		{`String(9.999999999999991e-7)`, "9.999999999999991e-7"},
		{`Number(String(999999999999999900000)) === 999999999999999900000`, "true"},
	})
}
