// C06 finding 5: parseInt and hex literals >= 2^63 are accumulated digit by digit in float64 and are misrounded
//
// Place this file in the root of the otto module (package otto), e.g. as
// /tmp/wt6/C06/zz_find_test.go, and run:
//
//   export GOFLAGS=-mod=mod GOPROXY=off GOSUMDB=off GOTOOLCHAIN=local
//   cd /tmp/wt6/C06 && go test -vet=off -count=1 -run 'TestFindC06F5' .
//
// The test FAILS on the code as it stands; every expectation follows from ES5.1
// (clauses cited in notes.md).
package otto

import "testing"

func findCheckF5(t *testing.T, cases [][2]string) {
	t.Helper()
	vm := New()
	for _, c := range cases {
		v, err := vm.Run(`(function(){ var r = ` + c[0] + `; return (r === 0 && 1/r < 0) ? "-0" : String(r); })()`)
		if err != nil {
			t.Errorf("%s: unexpected error %v (want %s)", c[0], err, c[1])
			continue
		}
		if got := v.String(); got != c[1] {
			t.Errorf("%s: got %q, want %q", c[0], got, c[1])
		}
	}
}

func TestFindC06F5(t *testing.T) {
	findCheckF5(t, [][2]string{
		{`parseInt("-9223372036854775808") === -9223372036854775808`, "true"},
		{`parseInt("9223372036854775808")`, "9223372036854776000"},
		{`parseInt("9999999999999999999999")`, "1e+22"},
		{`parseInt("8000000000000401", 16) === 9223372036854777856`, "true"},
		{`parseInt("0x8000000000000401") === 9223372036854777856`, "true"},
		{`0x8000000000000401 === 9223372036854777856`, "true"},
		{`0x8000000000000401 - 0x8000000000000000`, "2048"},
	})
}
