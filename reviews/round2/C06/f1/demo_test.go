// C06 finding 1: toExponential / toPrecision / toFixed use Go strconv layouts and rounding
//
// Place this file in the root of the otto module (package otto), e.g. as
// /tmp/wt6/C06/zz_find_test.go, and run:
//
//   export GOFLAGS=-mod=mod GOPROXY=off GOSUMDB=off GOTOOLCHAIN=local
//   cd /tmp/wt6/C06 && go test -vet=off -count=1 -run 'TestFindC06F1' .
//
// The test FAILS on the code as it stands; every expectation follows from ES5.1
// (clauses cited in notes.md).
package otto

import "testing"

func findCheckF1(t *testing.T, cases [][2]string) {
	t.Helper()
	vm := New()
	for _, c := range cases {
		v, err := vm.Run(`(function(){ var r = ` + c[0] + `; return (r === 0 && 1/r < 0) ? "-0" : String(r); })()`)
		if err != nil {
			t.Errorf("%s: unexpected error %v (want %s)", c[0], err, c[1])
			continue
		}
		if got := v.String(); got != c[1] {
			t.Errorf("%s: got %q, want %q", c[0], got, c[1])
		}
	}
}

func TestFindC06F1(t *testing.T) {
	findCheckF1(t, [][2]string{
		{`(1.5).toExponential()`, "1.5e+0"},
		{`(123456).toExponential(2)`, "1.23e+5"},
		{`(0).toExponential()`, "0e+0"},
		{`(1e-7).toExponential()`, "1e-7"},
		{`(2.5).toExponential(0)`, "3e+0"},
		{`Infinity.toExponential()`, "Infinity"},
		{`(-Infinity).toExponential(2)`, "-Infinity"},
		{`(1.5).toPrecision(5)`, "1.5000"},
		{`(0).toPrecision(3)`, "0.00"},
		{`(100).toPrecision(2)`, "1.0e+2"},
		{`(123456).toPrecision(2)`, "1.2e+5"},
		{`(0.00001).toPrecision(2)`, "0.000010"},
		{`(0.000001).toPrecision(2)`, "0.0000010"},
		{`(1e-7).toPrecision(2)`, "1.0e-7"},
		{`(1e21).toPrecision(3)`, "1.00e+21"},
		{`(123).toPrecision(21)`, "123.000000000000000000"},
		{`(2.5).toPrecision(1)`, "3"},
		{`Infinity.toPrecision(3)`, "Infinity"},
		{`(0.5).toFixed(0)`, "1"},
		{`(2.5).toFixed(0)`, "3"},
		{`(-2.5).toFixed(0)`, "-3"},
		{`(1.125).toFixed(2)`, "1.13"},
		{`(-0).toFixed(2)`, "0.00"},
	})
}
