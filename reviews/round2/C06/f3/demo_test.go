// C06 finding 3: integer literals / parseInt results above 2^53 are kept as int64 and stringified without rounding to a double
//
// Place this file in the root of the otto module (package otto), e.g. as
// /tmp/wt6/C06/zz_find_test.go, and run:
//
//   export GOFLAGS=-mod=mod GOPROXY=off GOSUMDB=off GOTOOLCHAIN=local
//   cd /tmp/wt6/C06 && go test -vet=off -count=1 -run 'TestFindC06F3' .
//
// The test FAILS on the code as it stands; every expectation follows from ES5.1
// (clauses cited in notes.md).
package otto

import "testing"

func findCheckF3(t *testing.T, cases [][2]string) {
	t.Helper()
	vm := New()
	for _, c := range cases {
		v, err := vm.Run(`(function(){ var r = ` + c[0] + `; return (r === 0 && 1/r < 0) ? "-0" : String(r); })()`)
		if err != nil {
			t.Errorf("%s: unexpected error %v (want %s)", c[0], err, c[1])
			continue
		}
		if got := v.String(); got != c[1] {
			t.Errorf("%s: got %q, want %q", c[0], got, c[1])
		}
	}
}

func TestFindC06F3(t *testing.T) {
	findCheckF3(t, [][2]string{
		{`String(9007199254740993)`, "9007199254740992"},
		{`(1000000000000000128).toString()`, "1000000000000000100"},
		{`"" + 9223372036854775807`, "9223372036854776000"},
		{`String(0x7fffffffffffffff)`, "9223372036854776000"},
		{`String(parseInt("9007199254740993"))`, "9007199254740992"},
		{`String(9007199254740993) === String(9007199254740992)`, "true"},
		{`(function(){ var o = {}; o[9007199254740993] = 1; return Object.keys(o)[0]; })()`, "9007199254740992"},
	})
}
