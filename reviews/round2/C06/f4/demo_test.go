// C06 finding 4: parseFloat accepts the Go float grammar and rejects valid prefixes followed by "inf"/"infinity"
//
// Place this file in the root of the otto module (package otto), e.g. as
// /tmp/wt6/C06/zz_find_test.go, and run:
//
//   export GOFLAGS=-mod=mod GOPROXY=off GOSUMDB=off GOTOOLCHAIN=local
//   cd /tmp/wt6/C06 && go test -vet=off -count=1 -run 'TestFindC06F4' .
//
// The test FAILS on the code as it stands; every expectation follows from ES5.1
// (clauses cited in notes.md).
package otto

import "testing"

func findCheckF4(t *testing.T, cases [][2]string) {
	t.Helper()
	vm := New()
	for _, c := range cases {
		v, err := vm.Run(`(function(){ var r = ` + c[0] + `; return (r === 0 && 1/r < 0) ? "-0" : String(r); })()`)
		if err != nil {
			t.Errorf("%s: unexpected error %v (want %s)", c[0], err, c[1])
			continue
		}
		if got := v.String(); got != c[1] {
			t.Errorf("%s: got %q, want %q", c[0], got, c[1])
		}
	}
}

func TestFindC06F4(t *testing.T) {
	findCheckF4(t, [][2]string{
		{`parseFloat("0x1p4")`, "0"},
		{`parseFloat("0X1P-2")`, "0"},
		{`parseFloat("1_0")`, "1"},
		{`parseFloat("1e5_0")`, "100000"},
		{`parseFloat("INF")`, "NaN"},
		{`parseFloat("INFINITY")`, "NaN"},
		{`parseFloat("-iNfInItY")`, "NaN"},
		{`parseFloat("5 to infinity")`, "5"},
		{`parseFloat("1inf")`, "1"},
		{`parseFloat("3.5 inf")`, "3.5"},
	})
}
