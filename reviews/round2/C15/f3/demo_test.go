// Place this file in the root of the otto worktree (package otto), e.g. as
// /tmp/wt6/C15/zz_find_test.go, and run:
//
//	cd /tmp/wt6/C15 && go test -vet=off -count=1 -run 'TestFindF3' .
//
// A struct whose embedded pointer is nil (the zero value of the struct) is
// set into the runtime.  Reading a field promoted from the embedded struct
// (o.X, "X" in o, o.hasOwnProperty("X")) makes reflect panic with
// "reflect: indirection through nil pointer to embedded struct"; the panic is
// not an otto exception, so it escapes Otto.Run and kills the host.
// Expected: undefined (or a catchable TypeError), never a Go panic.
package otto

import "testing"

type zzF3Inner struct{ X int }

type zzF3Outer struct {
	*zzF3Inner
	Y int
}

func TestFindF3(t *testing.T) {
	vm := New()
	if err := vm.Set("o", zzF3Outer{Y: 1}); err != nil {
		t.Fatal(err)
	}
	v, err := vm.Run(`o.Y`)
	if err != nil || v.String() != "1" {
		t.Fatalf("o.Y = %v, %v", v, err)
	}
	for _, src := range []string{`o.X`, `"X" in o`, `o.hasOwnProperty("X")`, `try { o.X } catch (e) { "caught" }`} {
		func() {
			defer func() {
				if r := recover(); r != nil {
					t.Errorf("%s: Go panic escaped Otto.Run: %v", src, r)
				}
			}()
			v, err := vm.Run(src)
			t.Logf("%s => %v, %v", src, v, err)
		}()
	}
}
