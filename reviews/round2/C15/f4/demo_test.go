// Place this file in the root of the otto worktree (package otto), e.g. as
// /tmp/wt6/C15/zz_find_test.go, and run:
//
//	cd /tmp/wt6/C15 && go test -vet=off -count=1 -run 'TestFindF4' .
//
// Boundary integers: storing a number into an element of a bridged []int64,
// []int, []uint64 or []uint (or a map with such an element type) is range
// checked - 1e19 or -1 give a RangeError.  The value one past the top of the
// range (2^63 for the signed, 2^64 for the unsigned 64 bit kinds) slips
// through the check and is stored as a completely different number:
// a[0] = 9223372036854775808 leaves math.MinInt64 in the Go slice and the
// script reads back -9223372036854775808.
package otto

import (
	"math"
	"testing"
)

func TestFindF4_Int64(t *testing.T) {
	vm := New()
	a := []int64{0}
	if err := vm.Set("a", a); err != nil {
		t.Fatal(err)
	}
	// control: a clearly out of range value is refused
	if _, err := vm.Run(`a[0] = 1e19`); err == nil {
		t.Fatalf("a[0] = 1e19 accepted, a[0] = %d", a[0])
	}
	// in range boundary values survive
	if _, err := vm.Run(`a[0] = -9223372036854775808`); err != nil || a[0] != math.MinInt64 {
		t.Fatalf("a[0] = -2^63: %d, %v", a[0], err)
	}
	a[0] = 0
	// 2^63 does not fit an int64
	v, err := vm.Run(`a[0] = 9223372036854775808; a[0]`)
	if err == nil {
		t.Errorf("a[0] = 9223372036854775808 (2^63) accepted: Go slice holds %d, script reads back %v; want RangeError", a[0], v)
	}
}

func TestFindF4_Uint64(t *testing.T) {
	vm := New()
	b := []uint64{1}
	if err := vm.Set("b", b); err != nil {
		t.Fatal(err)
	}
	v, err := vm.Run(`b[0] = 18446744073709551616; b[0]`)
	if err == nil {
		t.Errorf("b[0] = 18446744073709551616 (2^64) accepted: Go slice holds %d, script reads back %v; want RangeError", b[0], v)
	}
}

func TestFindF4_MapInt(t *testing.T) {
	vm := New()
	m := map[string]int{}
	if err := vm.Set("m", m); err != nil {
		t.Fatal(err)
	}
	v, err := vm.Run(`m.x = 9223372036854775808; m.x`)
	if err == nil {
		t.Errorf("m.x = 9223372036854775808 (2^63) accepted: Go map holds %d, script reads back %v; want RangeError", m["x"], v)
	}
}
