// Place this file in the root of the otto worktree (package otto), e.g. as
// /tmp/wt6/C15/zz_find_test.go, and run:
//
//	cd /tmp/wt6/C15 && go test -vet=off -count=1 -run 'TestFindF5' .
//
// A JavaScript number handed to a Go string (parameter of a bridged Go
// function, string field of a bridged struct) is converted with fmt's %v
// instead of ToString (ES5.1 9.8.1).  Every non-integer-typed number >= 1e6,
// and every number < 1e-4, arrives in Go's exponent notation:
// 1000 * 1000 -> "1e+06" instead of "1000000", 0.00001 -> "1e-05" instead of
// "0.00001", Infinity -> "+Inf" instead of "Infinity", 2^33 -> "8.589934592e+09".
// The same value gives the right text through String(x), x + "", and
// Value.ToString().
package otto

import "testing"

type zzF5Struct struct{ S string }

func TestFindF5(t *testing.T) {
	vm := New()
	if err := vm.Set("id", func(s string) string { return s }); err != nil {
		t.Fatal(err)
	}
	st := &zzF5Struct{}
	if err := vm.Set("st", st); err != nil {
		t.Fatal(err)
	}
	for _, expr := range []string{`1000 * 1000`, `1234567.5`, `4294967296 * 2`, `0.00001`, `Infinity`, `-Infinity`, `1e21`, `1.5`, `7`} {
		want, err := vm.Run(`String(` + expr + `)`)
		if err != nil {
			t.Fatal(err)
		}
		got, err := vm.Run(`id(` + expr + `)`)
		if err != nil {
			t.Errorf("id(%s): %v", expr, err)
			continue
		}
		if got.String() != want.String() {
			t.Errorf("Go func(string) called with the number %s received %q; want %q (ToString, 9.8.1)", expr, got, want)
		}
		if _, err := vm.Run(`st.S = ` + expr); err != nil {
			t.Errorf("st.S = %s: %v", expr, err)
		} else if st.S != want.String() {
			t.Errorf("string field assigned the number %s holds %q; want %q", expr, st.S, want)
		}
		// the public conversion agrees with String()
		v, _ := vm.Run(expr)
		if s, _ := v.ToString(); s != want.String() {
			t.Errorf("Value.ToString(%s) = %q; want %q", expr, s, want)
		}
	}
}
