// Place this file in the root of the otto worktree (package otto), e.g. as
// /tmp/wt6/C15/zz_find_test.go, and run:
//
//	cd /tmp/wt6/C15 && go test -vet=off -count=1 -run 'TestFindF1' .
//
// A string produced by String.fromCharCode is an ordinary JavaScript string
// (15.5.3.2): String.fromCharCode(72, 105) === "Hi".  Passing it to a Go
// function that takes a string (or storing it in a string field of a bridged
// struct) must behave exactly like passing the literal "Hi".  Instead a Go
// panic (reflect.Value.Convert: value of type []uint16 cannot be converted to
// type string) escapes Otto.Run and kills the host.
package otto

import "testing"

type zzF1Struct struct{ S string }

func TestFindF1_FuncParam(t *testing.T) {
	vm := New()
	if err := vm.Set("id", func(s string) string { return s }); err != nil {
		t.Fatal(err)
	}

	// control: the literal works
	v, err := vm.Run(`id("Hi")`)
	if err != nil || v.String() != "Hi" {
		t.Fatalf(`id("Hi") = %v, %v`, v, err)
	}

	// the same string value, built by String.fromCharCode: panics
	defer func() {
		if r := recover(); r != nil {
			t.Errorf("Go panic escaped Otto.Run: %v", r)
		}
	}()
	v, err = vm.Run(`id(String.fromCharCode(72, 105))`)
	if err != nil || v.String() != "Hi" {
		t.Fatalf(`id(String.fromCharCode(72, 105)) = %v, %v; want "Hi"`, v, err)
	}
}

func TestFindF1_StructField(t *testing.T) {
	vm := New()
	s := &zzF1Struct{}
	if err := vm.Set("s", s); err != nil {
		t.Fatal(err)
	}
	defer func() {
		if r := recover(); r != nil {
			t.Errorf("Go panic escaped Otto.Run: %v", r)
		}
	}()
	_, err := vm.Run(`s.S = String.fromCharCode(72, 105)`)
	if err != nil || s.S != "Hi" {
		t.Fatalf(`s.S = %q, err %v; want "Hi"`, s.S, err)
	}
}
