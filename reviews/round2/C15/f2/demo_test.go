// Place this file in the root of the otto worktree (package otto), e.g. as
// /tmp/wt6/C15/zz_find_test.go, and run:
//
//	cd /tmp/wt6/C15 && go test -vet=off -count=1 -run 'TestFindF2' .
//
// Storing a JavaScript string into a bridged map[string]interface{} or
// []interface{} must store a Go string, and reading it back must give the same
// JavaScript string.  For a string made by String.fromCharCode the Go
// container receives a []uint16 instead, and the script reads back an array
// object ("72,105") instead of the string "Hi".
package otto

import "testing"

func TestFindF2_Map(t *testing.T) {
	vm := New()
	m := map[string]interface{}{}
	if err := vm.Set("m", m); err != nil {
		t.Fatal(err)
	}
	v, err := vm.Run(`m.x = String.fromCharCode(72, 105); [typeof m.x, m.x === "Hi", String(m.x)].join("|")`)
	if err != nil {
		t.Fatal(err)
	}
	if got, ok := m["x"].(string); !ok || got != "Hi" {
		t.Errorf(`Go side: m["x"] = %#v; want "Hi"`, m["x"])
	}
	if v.String() != "string|true|Hi" {
		t.Errorf(`JS side: %s; want string|true|Hi`, v)
	}
}

func TestFindF2_Slice(t *testing.T) {
	vm := New()
	s := []interface{}{nil}
	if err := vm.Set("s", s); err != nil {
		t.Fatal(err)
	}
	v, err := vm.Run(`s[0] = String.fromCharCode(72, 105); typeof s[0]`)
	if err != nil {
		t.Fatal(err)
	}
	if got, ok := s[0].(string); !ok || got != "Hi" {
		t.Errorf(`Go side: s[0] = %#v; want "Hi"`, s[0])
	}
	if v.String() != "string" {
		t.Errorf(`JS side: typeof s[0] = %s; want string`, v)
	}
}
