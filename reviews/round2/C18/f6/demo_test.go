// Place this file in the root of the otto module (package otto), e.g. as
// zz_find_test.go, and run:
//
//	export GOFLAGS=-mod=mod GOPROXY=off GOSUMDB=off GOTOOLCHAIN=local
//	go test -vet=off -count=1 -run 'TestFindCatchScopeNotUnwoundBeforeFinally' .
package otto

import (
	"testing"
)

// ES5.1 12.14, production Catch, step 6: the lexical environment of the catch
// clause is removed again before the Catch production returns, i.e. before the
// Finally block is evaluated (TryStatement, step 4).
func TestFindCatchScopeNotUnwoundBeforeFinally(t *testing.T) {
	for _, tc := range []struct{ src, want string }{
		// reading: finally must see the outer e
		{`var e = "outer", r; try { throw "inner" } catch (e) { } finally { r = e; } r`, "outer"},
		// writing: the assignment in finally must reach the variable e
		{`var e = "outer"; try { throw "inner" } catch (e) { } finally { e = "set in finally"; } e`, "set in finally"},
		// the catch clause exits abnormally (rethrow): same
		{`var e = "outer", r; try { try { throw "inner" } catch (e) { throw "again"; } finally { r = e; } } catch (x) { } r`, "outer"},
		// closures created in finally capture the dead catch scope
		{`function f() { var e = "outer", g; try { throw "inner" } catch (e) { } finally { g = function () { return e; }; } return g(); } f()`, "outer"},
	} {
		vm := New()
		val, err := vm.Run(tc.src)
		if err != nil || val.String() != tc.want {
			t.Errorf("%s\n\tgot %q err=%v, want %q", tc.src, val, err, tc.want)
		}
	}
}
