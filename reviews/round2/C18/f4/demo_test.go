// Place this file in the root of the otto module (package otto), e.g. as
// zz_find_test.go, and run:
//
//	export GOFLAGS=-mod=mod GOPROXY=off GOSUMDB=off GOTOOLCHAIN=local
//	go test -vet=off -count=1 -run 'TestFindInterruptNotPolledInBuiltinLoops' .
//
// (The test needs about 5 s per program; the runaway scripts are abandoned when
// the test binary exits.)
package otto

import (
	"testing"
	"time"
)

type haltF4 struct{}

// Each of these one-liners keeps the interpreter busy for 2^32 iterations of a
// Go loop inside a built-in (minutes to hours). The interrupt channel is only
// polled by the statement/expression evaluators, so as long as the built-in
// (and the native callback it calls) runs, an interrupt is never delivered.
func TestFindInterruptNotPolledInBuiltinLoops(t *testing.T) {
	progs := []string{
		// a (native) callback running inside a built-in
		`Array.prototype.forEach.call({length: 4294967295}, isNaN)`,
		// ordinary looking code on a sparse array
		`var a = []; a[4294967294] = 1; a.length = 0`,
		`var a = []; a[4294967294] = 1; a.indexOf(2)`,
		`var a = []; a[4294967294] = 1; a.reverse()`,
	}
	for _, src := range progs {
		vm := New()
		vm.Interrupt = make(chan func(), 1)
		done := make(chan interface{}, 1)
		go func() {
			defer func() { done <- recover() }()
			vm.Run(src) //nolint:errcheck
		}()
		select {
		case <-done:
			continue // finished on its own: nothing to interrupt
		case <-time.After(2 * time.Second):
		}
		vm.Interrupt <- func() { panic(haltF4{}) }
		select {
		case c := <-done:
			if _, ok := c.(haltF4); !ok {
				t.Errorf("%s: unexpected exit %v", src, c)
			}
		case <-time.After(3 * time.Second):
			t.Errorf("%s: still running 3 s after the interrupt was sent; the interrupt function was never invoked", src)
		}
	}
}
