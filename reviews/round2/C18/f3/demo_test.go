// Place this file in the root of the otto module (package otto), e.g. as
// zz_find_test.go, and run:
//
//	export GOFLAGS=-mod=mod GOPROXY=off GOSUMDB=off GOTOOLCHAIN=local
//	go test -vet=off -count=1 -run 'TestFindInterruptNestedRunClobbersLabels' .
package otto

import (
	"testing"
)

// An interrupt function that does NOT panic but uses the runtime (it is invoked
// on the interpreter's goroutine precisely so that it may): here it runs a tiny
// independent script. The interrupted script must be unaffected by that.
// The interrupt is delivered at every possible evaluation step k in turn.
func TestFindInterruptNestedRunClobbersLabels(t *testing.T) {
	src := `
		var log = [];
		a: for (var i = 0; i < 3; i++) {
			for (var j = 0; j < 3; j++) {
				if (j == 1) continue a;
				log.push(i + ":" + j);
			}
		}
		log.push("end");
		JSON.stringify(log)`
	const want = `["0:0","1:0","2:0","end"]`

	for k := 1; k < 1000; k++ {
		vm := New()
		ch := make(chan func(), 1)
		vm.Interrupt = ch
		n, fired := 0, false
		var f func()
		f = func() {
			n++
			if n < k {
				ch <- f // poll again at the next step
				return
			}
			fired = true
			vm.Interrupt = nil // (keeps the nested script simple)
			if _, err := vm.Run(`x: { for (;;) { break x; } }`); err != nil {
				t.Errorf("k=%d: nested script: %v", k, err)
			}
			vm.Interrupt = ch
		}
		ch <- f
		val, err := vm.Run(src)
		if !fired {
			break // the script has fewer than k steps
		}
		if err != nil || val.String() != want {
			t.Errorf("interrupt at step %d: script result %q err=%v, want %s; log=%v", k, val, err, want, mustGetF3(vm, "log"))
		}
	}
}

func mustGetF3(vm *Otto, name string) string {
	v, _ := vm.Run(`JSON.stringify(` + name + `)`)
	return v.String()
}
