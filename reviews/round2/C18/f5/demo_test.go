// Place this file in the root of the otto module (package otto), e.g. as
// zz_find_test.go, and run:
//
//	export GOFLAGS=-mod=mod GOPROXY=off GOSUMDB=off GOTOOLCHAIN=local
//	go test -vet=off -count=1 -run 'TestFindInterruptOnOttoValue' .
package otto

import (
	"testing"
	"time"
)

type haltF5 struct{}

// Otto is a plain struct whose execution methods (Run, Eval, Call, Get, Set,
// SetStackDepthLimit, ...) all have VALUE receivers, and Interrupt is an
// exported field of it. An embedder that keeps the Otto by value and sets
// Interrupt on it gets a runtime on which interrupts are never delivered.
func TestFindInterruptOnOttoValue(t *testing.T) {
	type engine struct {
		vm Otto // held by value
	}
	e := engine{vm: *New()}
	e.vm.Interrupt = make(chan func(), 1)
	e.vm.SetStackDepthLimit(100) // for comparison: this setting does take effect

	if _, err := e.vm.Run(`(function f() { f(); })()`); err == nil {
		t.Fatalf("stack depth limit not effective on the Otto value")
	}

	done := make(chan interface{}, 1)
	go func() {
		defer func() { done <- recover() }()
		e.vm.Run(`for (;;) {}`) //nolint:errcheck
	}()
	time.Sleep(50 * time.Millisecond)
	e.vm.Interrupt <- func() { panic(haltF5{}) }
	select {
	case c := <-done:
		if _, ok := c.(haltF5); !ok {
			t.Errorf("unexpected exit: %v", c)
		}
	case <-time.After(3 * time.Second):
		t.Errorf("script runs on a runtime with an interrupt channel, but the function sent on the channel was never invoked")
	}
}
