// Place this file in the root of the otto module (package otto), e.g. as
// zz_find_test.go, and run:
//
//	export GOFLAGS=-mod=mod GOPROXY=off GOSUMDB=off GOTOOLCHAIN=local
//	go test -vet=off -count=1 -run 'TestFindInterruptSwallowedByTryCatch' .
package otto

import (
	"errors"
	"testing"
)

// runArmedF1 runs src on a fresh runtime whose host function arm() puts an
// interrupt on the channel; the interrupt function panics with pv. The
// interrupt is therefore delivered at the first poll after arm() returns,
// i.e. inside whatever construct the script called arm() from.
func runArmedF1(src string, pv interface{}) (caught interface{}, val Value, err error) {
	vm := New()
	vm.Interrupt = make(chan func(), 1)
	vm.Set("arm", func(call FunctionCall) Value { //nolint:errcheck
		vm.Interrupt <- func() { panic(pv) }
		return Value{}
	})
	defer func() { caught = recover() }()
	val, err = vm.Run(src)
	return nil, val, err
}

// The documented way to halt a script (see the package documentation, "Halting
// Problem"): the interrupt function panics with a sentinel and the caller of
// Run recovers it. A try/catch (or try/finally) in the script defeats it.
func TestFindInterruptSwallowedByTryCatch(t *testing.T) {
	halt := errors.New("halt")

	// 1. The sentinel is a string: the catch clause receives it as an ordinary
	//    exception value and the script continues to completion.
	caught, val, err := runArmedF1(`
		var seen;
		try { arm(); for (;;) {} } catch (e) { seen = e; }
		"continued, caught " + seen
	`, "halt")
	if caught != "halt" {
		t.Errorf("string sentinel: Run did not unwind with the interrupt panic: recovered=%v value=%v err=%v", caught, val, err)
	}

	// 2. The sentinel is an error value (exactly the documented pattern): inside
	//    the recover handler of the try statement the panic is replaced by a
	//    script-level TypeError ("invalid value ..."), which the next enclosing
	//    try/catch of the script catches; the script continues. (Without the
	//    outer try, Run *returns* that TypeError instead of panicking.)
	caught, val, err = runArmedF1(`
		var seen;
		try {
			try { arm(); for (;;) {} } finally { }
		} catch (e) { seen = String(e); }
		"continued, caught " + seen
	`, halt)
	if caught != halt {
		t.Errorf("error sentinel + catch: Run did not unwind with the interrupt panic: recovered=%v value=%v err=%v", caught, val, err)
	}

	// 3. try/finally: the finally block (script code) runs after the interrupt.
	caught, val, err = runArmedF1(`
		var ranFinally = false;
		try { arm(); for (;;) {} } finally { ranFinally = true; }
	`, "halt")
	if caught != "halt" {
		t.Errorf("try/finally: Run did not unwind with the interrupt panic: recovered=%v value=%v err=%v", caught, val, err)
	}
}
