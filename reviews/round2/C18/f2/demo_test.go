// Place this file in the root of the otto module (package otto), e.g. as
// zz_find_test.go, and run:
//
//	export GOFLAGS=-mod=mod GOPROXY=off GOSUMDB=off GOTOOLCHAIN=local
//	go test -vet=off -count=1 -run 'TestFindInterruptSwallowedByFmt' .
package otto

import (
	"errors"
	"testing"
)

// The script contains no try statement at all. The interrupt is delivered while
// a toString method of the script is running on behalf of fmt.Sprintf (error
// message formatting with %v/%q of a Value, or console.log); fmt recovers the
// panic of the Stringer and prints "%!v(PANIC=String method: ...)" instead.
func TestFindInterruptSwallowedByFmt(t *testing.T) {
	halt := errors.New("halt")

	run := func(src string) (caught interface{}, val Value, err error) {
		vm := New()
		vm.Interrupt = make(chan func(), 1)
		vm.Set("arm", func(call FunctionCall) Value { //nolint:errcheck
			vm.Interrupt <- func() { panic(halt) }
			return Value{}
		})
		defer func() { caught = recover() }()
		val, err = vm.Run(src)
		return nil, val, err
	}

	progs := []string{
		// TypeError message of Array.prototype.sort: "%q" of the comparator
		`var o = { toString: function () { arm(); for (;;) {} } }; [1, 2].sort(o); "continued"`,
		// TypeError message of a call of a non-function: "%v is not a function"
		`var o = { toString: function () { arm(); for (;;) {} } }; (function () { return o; })()(); "continued"`,
		// console.log formats its arguments with %v: no exception at all, the script just goes on
		`var o = { toString: function () { arm(); for (;;) {} } }; console.log(o); "continued"`,
	}
	for i, src := range progs {
		caught, val, err := run(src)
		if caught != halt {
			t.Errorf("prog %d: Run did not unwind with the interrupt panic: recovered=%v value=%v err=%v", i, caught, val, err)
		}
	}
}
