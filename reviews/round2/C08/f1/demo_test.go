// Place this file in the root of the otto worktree (package otto) as zz_find_f1_test.go and run:
//   export GOFLAGS=-mod=mod GOPROXY=off GOSUMDB=off GOTOOLCHAIN=local
//   go test -vet=off -count=1 -run 'TestFindF1SpliceNoArguments' .
package otto

import "testing"

// ES5.1 15.4.4.12: with no arguments, relativeStart = ToInteger(undefined) = 0 and
// actualDeleteCount = min(max(ToInteger(undefined), 0), len - 0) = 0, so splice()
// removes nothing and returns an empty array (every engine agrees on this case).
func TestFindF1SpliceNoArguments(t *testing.T) {
	vm := New()
	v, err := vm.Run(`
		var a = [1, 2, 3];
		var removed = a.splice();
		JSON.stringify({a: a, removed: removed});
	`)
	if err != nil {
		t.Fatal(err)
	}
	want := `{"a":[1,2,3],"removed":[]}`
	if got := v.String(); got != want {
		t.Fatalf("a=[1,2,3]; a.splice(): got %s, want %s", got, want)
	}

	// The same on an array-like receiver.
	v, err = vm.Run(`
		var o = {length: 2, 0: 'x', 1: 'y'};
		var r = Array.prototype.splice.call(o);
		JSON.stringify({o: o, r: r});
	`)
	if err != nil {
		t.Fatal(err)
	}
	want = `{"o":{"0":"x","1":"y","length":2},"r":[]}`
	if got := v.String(); got != want {
		t.Fatalf("splice.call(arrayLike): got %s, want %s", got, want)
	}
}
