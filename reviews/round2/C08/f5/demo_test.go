// Place this file in the root of the otto worktree (package otto) as zz_find_f5_test.go and run:
//   export GOFLAGS=-mod=mod GOPROXY=off GOSUMDB=off GOTOOLCHAIN=local
//   go test -vet=off -count=1 -run 'TestFindF5ArrayLikeLengthToUint32' .
package otto

import "testing"

// Every generic Array.prototype method starts with len = ToUint32(O.length) (e.g. 15.4.4.7
// step 3 for push). ES5.1 9.6: ToUint32(x) = sign(x)*floor(abs(x)) modulo 2^32.
// 2^63+2048 = 9223372036854777856 is exactly representable; modulo 2^32 it is 2048.
// 1e20 modulo 2^32 is 1661992960.
func TestFindF5ArrayLikeLengthToUint32(t *testing.T) {
	for _, tc := range []struct{ src, want string }{
		{`var o = {length: 9223372036854777856}; var n = Array.prototype.push.call(o, 'x'); [n, o.length, o[2048], 0 in o].join(",")`,
			"2049,2049,x,false"},
		{`var o = {length: -9223372036854777856, 4294965247: 'last'}; Array.prototype.pop.call(o) + "," + o.length`,
			"last,4294965247"},
		{`var o = {length: 1e20}; Array.prototype.push.call(o, 'x')`, "1661992961"},
		{`Array.prototype.indexOf.call({length: 9223372036854777856, 7: 'hit'}, 'hit')`, "7"},
	} {
		vm := New()
		v, err := vm.Run(tc.src)
		if err != nil {
			t.Errorf("%s: %v", tc.src, err)
			continue
		}
		if got := v.String(); got != tc.want {
			t.Errorf("%s: got %s, want %s", tc.src, got, tc.want)
		}
	}
}
