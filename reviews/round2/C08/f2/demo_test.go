// Place this file in the root of the otto worktree (package otto) as zz_find_f2_test.go and run:
//   export GOFLAGS=-mod=mod GOPROXY=off GOSUMDB=off GOTOOLCHAIN=local
//   go test -vet=off -count=1 -run 'TestFindF2LastIndexOfFromIndexEqualsLength' .
package otto

import "testing"

// ES5.1 15.4.4.15: step 4 "If len is 0, return -1"; step 6 "If n >= 0, then let k be
// min(n, len - 1)". The search never looks at index len or beyond.
func TestFindF2LastIndexOfFromIndexEqualsLength(t *testing.T) {
	for _, tc := range []struct{ src, want string }{
		// fromIndex == len: k must be clamped to len-1 = 0, index 1 is outside the array-like.
		{`Array.prototype.lastIndexOf.call({length: 1, 0: 'a', 1: 'b'}, 'b', 1)`, "-1"},
		// len == 0: the result is -1 whatever the object holds.
		{`Array.prototype.lastIndexOf.call({length: 0, 0: 'a'}, 'a', 0)`, "-1"},
		// A real array with an inherited index property just past its end.
		{`Array.prototype[3] = 'p'; var r = [1, 2, 3].lastIndexOf('p', 3); delete Array.prototype[3]; r`, "-1"},
		// len == 0: step 4 returns before ToInteger(fromIndex) is evaluated (step 5).
		{`var called = 0; var r = [].lastIndexOf(1, {valueOf: function () { called++; return 0; }}); r + ',' + called`, "-1,0"},
	} {
		vm := New()
		v, err := vm.Run(tc.src)
		if err != nil {
			t.Errorf("%s: %v", tc.src, err)
			continue
		}
		if got := v.String(); got != tc.want {
			t.Errorf("%s: got %s, want %s", tc.src, got, tc.want)
		}
	}
}
