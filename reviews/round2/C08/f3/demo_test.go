// Place this file in the root of the otto worktree (package otto) as zz_find_f3_test.go and run:
//   export GOFLAGS=-mod=mod GOPROXY=off GOSUMDB=off GOTOOLCHAIN=local
//   go test -vet=off -count=1 -run 'TestFindF3SortComparesCodeUnits' .
package otto

import "testing"

// ES5.1 15.4.4.11 SortCompare steps 13-16 (no comparefn): xString = ToString(x),
// yString = ToString(y), "If xString < yString, return -1", where < on strings is the
// code-unit comparison of 11.8.5 step 4. U+10000 is the code units D800 DC00, and
// 0xD800 < 0xFF61, so "𐀀" sorts before "｡".
func TestFindF3SortComparesCodeUnits(t *testing.T) {
	vm := New()
	v, err := vm.Run(`
		var a = ["｡", "𐀀", "a"];
		a.sort();
		var out = [];
		for (var i = 0; i < a.length; i++) {
			var s = [];
			for (var j = 0; j < a[i].length; j++) s.push(a[i].charCodeAt(j).toString(16));
			out.push(s.join("+"));
		}
		out.join(",");
	`)
	if err != nil {
		t.Fatal(err)
	}
	want := "61,d800+dc00,ff61"
	if got := v.String(); got != want {
		t.Fatalf(`["｡","𐀀","a"].sort(): got %s, want %s`, got, want)
	}
}
