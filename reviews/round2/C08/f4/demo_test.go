// Place this file in the root of the otto worktree (package otto) as zz_find_f4_test.go and run:
//   export GOFLAGS=-mod=mod GOPROXY=off GOSUMDB=off GOTOOLCHAIN=local
//   go test -vet=off -count=1 -run 'TestFindF4ReversePutBeforeDelete' .
package otto

import "testing"

// ES5.1 15.4.4.8 step 6.i: "Else if lowerExists is false and upperExists is true, then
//   i.  Call the [[Put]] internal method of O with arguments lowerP, upperValue, and true.
//   ii. Call the [[Delete]] internal method of O with arguments upperP and true."
// The [[Put]] comes first. On a non-extensible array the [[Put]] into the hole throws a
// TypeError, so the upper element must still be there afterwards.
func TestFindF4ReversePutBeforeDelete(t *testing.T) {
	vm := New()
	v, err := vm.Run(`
		var a = [1, , 3, 4];
		Object.preventExtensions(a);
		var thrown = "none";
		try { a.reverse(); } catch (e) { thrown = e.name; }
		// Pair (0,3) was swapped; pair (1,2) throws in the [[Put]] of index 1.
		[thrown, a.length, 0 in a, a[0], 1 in a, 2 in a, a[2], 3 in a, a[3]].join(",");
	`)
	if err != nil {
		t.Fatal(err)
	}
	want := "TypeError,4,true,4,false,true,3,true,1"
	if got := v.String(); got != want {
		t.Errorf("reverse on non-extensible [1,,3,4]: got %s, want %s", got, want)
	}

	// The same on a non-extensible array-like object.
	v, err = vm.Run(`
		var o = {length: 2, 1: "keep"};
		Object.preventExtensions(o);
		var thrown = "none";
		try { Array.prototype.reverse.call(o); } catch (e) { thrown = e.name; }
		[thrown, 0 in o, 1 in o, o[1]].join(",");
	`)
	if err != nil {
		t.Fatal(err)
	}
	want = "TypeError,false,true,keep"
	if got := v.String(); got != want {
		t.Fatalf("reverse on non-extensible {length:2, 1:'keep'}: got %s, want %s", got, want)
	}
}
