// Place this file at  <worktree>/parser/zz_find_test.go  (package parser) and run:
//
//	export GOFLAGS=-mod=mod GOPROXY=off GOSUMDB=off GOTOOLCHAIN=local
//	cd /tmp/wt6/C04 && go test -vet=off -count=1 -run 'TestFindDeepNestingStackOverflow' ./parser
//
// The test binary dies with "fatal error: stack overflow" (goroutine stack exceeds the
// 1000000000-byte limit) after about three seconds. A fatal error is not a panic: it cannot be
// recovered by the caller, the whole host process is killed.
package parser

import (
	"strings"
	"testing"
)

// A syntactically VALID ES5 program (11.1.6 grouping operator): 250000 nested parentheses
// around the literal 1, 500 KB of source. C04: "for any byte sequence ... the parser terminates
// without panicking and returns either a tree or an error list".
func TestFindDeepNestingStackOverflow(t *testing.T) {
	const depth = 250000
	src := strings.Repeat("(", depth) + "1" + strings.Repeat(")", depth)

	program, err := ParseFile(nil, "", src, 0) // never returns: fatal error: stack overflow
	if program == nil && err == nil {
		t.Fatalf("neither a tree nor an error list")
	}
	// Reaching this line (with a tree, or with a clean "nested too deeply" error list) is a pass.
}

// The same crash from junk: a truncated program, nothing but opening brackets.
func TestFindDeepNestingStackOverflowJunk(t *testing.T) {
	src := strings.Repeat("[", 300000)
	program, err := ParseFile(nil, "", src, 0) // never returns: fatal error: stack overflow
	if program == nil && err == nil {
		t.Fatalf("neither a tree nor an error list")
	}
}
