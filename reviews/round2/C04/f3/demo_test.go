// Place this file at  <worktree>/zz_find_test.go  (package otto) and run:
//
//	export GOFLAGS=-mod=mod GOPROXY=off GOSUMDB=off GOTOOLCHAIN=local
//	cd /tmp/wt6/C04 && go test -vet=off -count=1 -run 'TestFindObjectLiteralMissingComma' .
package otto

import (
	"testing"

	"github.com/robertkrimen/otto/parser"
)

// ES5.1 11.1.5:
//
//	ObjectLiteral : { } | { PropertyNameAndValueList } | { PropertyNameAndValueList , }
//	PropertyNameAndValueList : PropertyAssignment | PropertyNameAndValueList , PropertyAssignment
//
// Property assignments are separated by commas. Deleting one comma token from a valid object literal
// (C04 quantifier: "all single-token deletions ... of valid programs") must give a SyntaxError.
func TestFindObjectLiteralMissingComma(t *testing.T) {
	for _, src := range []string{
		`x = {a: 1 b: 2}`,
		`x = {a: 1 "b": 2 3: 4}`,
		`x = {a: f() get b() { return 1 } set b(v) {}}`,
		`x = {get b() { return 1 } c: 2}`,
		"x = {a: 1\nb: 2}", // no ASI inside an object literal either
	} {
		if _, err := parser.ParseFile(nil, "", src, 0); err == nil {
			t.Errorf("parser accepted %q, want a SyntaxError (ES5.1 11.1.5)", src)
		}
	}

	// Control: the comma forms stay legal.
	for _, src := range []string{`x = {a: 1, b: 2}`, `x = {a: 1, b: 2,}`, `x = {}`} {
		if _, err := parser.ParseFile(nil, "", src, 0); err != nil {
			t.Errorf("parser rejected legal %q: %v", src, err)
		}
	}

	// The rejected text must have no effect on a runtime; instead it runs to completion.
	vm := New()
	value, err := vm.Run(`var o = {a: 1 b: 2}; o.a + "," + o.b`)
	if err == nil {
		t.Errorf("Run accepted the program and produced %q, want a SyntaxError", value)
	}
}
