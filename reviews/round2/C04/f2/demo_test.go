// Place this file at  <worktree>/zz_find_test.go  (package otto) and run:
//
//	export GOFLAGS=-mod=mod GOPROXY=off GOSUMDB=off GOTOOLCHAIN=local
//	cd /tmp/wt6/C04 && go test -vet=off -count=1 -run 'TestFindContinueNonIterationLabel' .
package otto

import (
	"testing"

	"github.com/robertkrimen/otto/parser"
)

// ES5.1 12.7: "A program is considered syntactically incorrect if ... the program contains a
// continue statement with the optional Identifier, where Identifier does not appear in the label
// set of an enclosing (but not crossing function boundaries) IterationStatement."
// The label set of an IterationStatement holds only the labels placed directly on it (12.12), so a
// label on a block, an if or a switch that merely CONTAINS the loop is not a legal continue target.
func TestFindContinueNonIterationLabel(t *testing.T) {
	illegal := []string{
		`a: { while (x) { continue a; } }`,
		`a: if (x) while (y) continue a;`,
		`a: switch (x) { case 1: for (;;) continue a; }`,
		`for (;;) a: { continue a; }`,
		`a: { b: for (;;) { continue a; } }`,
	}
	for _, src := range illegal {
		if _, err := parser.ParseFile(nil, "", src, 0); err == nil {
			t.Errorf("parser accepted %q, want a SyntaxError (ES5.1 12.7)", src)
		}
	}

	// Controls: these are legal and must stay accepted.
	for _, src := range []string{
		`a: while (x) { continue a; }`,
		`a: b: for (;;) { continue a; }`,
		`a: for (;;) { b: for (;;) { continue a; } }`,
	} {
		if _, err := parser.ParseFile(nil, "", src, 0); err != nil {
			t.Errorf("parser rejected legal %q: %v", src, err)
		}
	}

	// What the accepted tree then does at run time: the continue completion finds no loop that
	// owns label a, escapes the while, the block and the whole program; the statements after it
	// are silently skipped and Run reports success.
	vm := New()
	value, err := vm.Run(`
		var n = 0, after = "not reached";
		a: { while (n < 3) { n++; continue a; } }
		after = "reached";
		n;
	`)
	if err == nil {
		after, _ := vm.Get("after")
		t.Errorf("Run accepted the program: err=nil value=%v after=%v, want a SyntaxError and no side effect", value, after)
	}
}
