// Place this file at  <worktree>/zz_find_test.go  (package otto) and run:
//
//	export GOFLAGS=-mod=mod GOPROXY=off GOSUMDB=off GOTOOLCHAIN=local
//	cd /tmp/wt6/C04 && go test -vet=off -count=1 -run 'TestFindRegExpLiteralFlagsNotEarlyError' .
package otto

import (
	"testing"

	"github.com/robertkrimen/otto/parser"
)

// ES5.1 15.10.4.1: "If F contains any character other than "g", "i", or "m", or if it contains the
// same character more than once, then throw a SyntaxError exception."
// ES5.1 7.8.5: "If the call to new RegExp would generate an error as specified in 15.10.4.1, the
// error must be treated as an early error (Clause 16)" - i.e. reported before any code of the
// Program runs.
func TestFindRegExpLiteralFlagsNotEarlyError(t *testing.T) {
	for _, src := range []string{
		`/a/gg`,
		`/a/gig`,
		`/a/mm`,
		`if (false) { /a/ii }`,
	} {
		if _, err := parser.ParseFile(nil, "", src, 0); err == nil {
			t.Errorf("parser accepted %q, want an early SyntaxError (ES5.1 7.8.5 + 15.10.4.1)", src)
		}
	}

	// otto itself agrees that /a/gg is a SyntaxError - but only when the literal is evaluated, after
	// the statements in front of it have run. C04: "rejected source has no side effect on a runtime
	// asked to run it".
	vm := New()
	_, err := vm.Run(`
		var launched = "missiles";
		function f() { return /a/gg; }
		f();
	`)
	if err == nil {
		t.Fatalf("Run: no error at all")
	}
	t.Logf("Run error: %v", err)
	if launched, _ := vm.Get("launched"); !launched.IsUndefined() {
		t.Errorf("the rejected program ran: launched = %v, want undefined (early error, nothing executed)", launched)
	}

	// In dead code the error is never reported.
	if _, err := New().Run(`if (false) { /a/ii }`); err == nil {
		t.Errorf("Run accepted `if (false) { /a/ii }`, want a SyntaxError")
	}
}
