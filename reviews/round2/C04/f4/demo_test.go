// Place this file at  <worktree>/zz_find_test.go  (package otto) and run:
//
//	export GOFLAGS=-mod=mod GOPROXY=off GOSUMDB=off GOTOOLCHAIN=local
//	cd /tmp/wt6/C04 && go test -vet=off -count=1 -run 'TestFindRegExpFlagsFromNextToken' .
package otto

import (
	"testing"

	"github.com/robertkrimen/otto/ast"
	"github.com/robertkrimen/otto/parser"
)

// ES5.1 7.8.5:  RegularExpressionLiteral :: / RegularExpressionBody / RegularExpressionFlags
//
//	RegularExpressionFlags :: [empty] | RegularExpressionFlags IdentifierPart
//
// The flags are lexically part of the one token: they are the IdentifierPart characters that follow
// the closing slash IMMEDIATELY. White space, a comment or a line terminator ends the token; an
// identifier after that is a separate token.
func TestFindRegExpFlagsFromNextToken(t *testing.T) {
	// 1. Invalid programs (two primary expressions with no operator, no line break => no ASI, 7.9.1).
	for _, src := range []string{
		`x = /a/ g`,
		`x = /a/ /* c */ g`,
		`/a/ i.test("A")`,
	} {
		if _, err := parser.ParseFile(nil, "", src, 0); err == nil {
			t.Errorf("parser accepted %q, want a SyntaxError (ES5.1 7.8.5, 7.9.1)", src)
		}
	}

	// 2. A VALID program that means something else: by 7.9.1 a semicolon is inserted before the
	// identifier on the next line, so this is three statements: var r = /a/;  g;  r.global;
	src := "var g = 0\nvar r = /a/\ng\nr.global"
	program, err := parser.ParseFile(nil, "", src, 0)
	if err != nil {
		t.Fatalf("valid program rejected: %v", err)
	}
	if n := len(program.Body); n != 4 {
		t.Errorf("got %d statements, want 4 (var g; var r; g; r.global)", n)
	}
	lit := program.Body[1].(*ast.VariableStatement).List[0].(*ast.VariableExpression).Initializer.(*ast.RegExpLiteral)
	if lit.Flags != "" || lit.Literal != "/a/" {
		t.Errorf("RegExpLiteral{Literal: %q, Flags: %q}, want Literal \"/a/\" and no flags", lit.Literal, lit.Flags)
	}

	value, err := New().Run(src)
	if err != nil {
		t.Fatalf("Run: %v", err)
	}
	if got, _ := value.ToBoolean(); got {
		t.Errorf("r.global = %v, want false: the g on the next line is a statement of its own", value)
	}
}
