// Place this file in the root of the otto worktree (package otto) as
// zz_find_f3_test.go and run:
//
//	export GOFLAGS=-mod=mod GOPROXY=off GOSUMDB=off GOTOOLCHAIN=local
//	go test -vet=off -count=1 -run 'TestFindF3' .
//
// The addition operator (ES5.1 11.6.1) must fetch the value of the right
// operand (step 4, GetValue(rref)) BEFORE it converts the left operand
// (step 5, ToPrimitive(lval)). otto calls the left operand's valueOf /
// toString first, so a side-effecting valueOf changes what the right operand
// evaluates to. All other binary operators (-, *, <, &, ...) do it right.
package otto

import "testing"

func TestFindF3(t *testing.T) {
	cases := [][2]string{
		// valueOf of the left operand changes the variable that is the right operand
		{`var b = 1; var a = {valueOf: function(){ b = 100; return 1; }}; a + b`, `2`},
		// control: the same with '-' is right
		{`var b = 1; var a = {valueOf: function(){ b = 100; return 1; }}; a - b`, `0`},
		// string concatenation flavour
		{`var s = "old"; var a = {toString: function(){ s = "new"; return "<"; }}; a + s`, `<old`},
		// the order as a trace: getter of the right operand must run before valueOf of the left one
		{`var log = [];
		  var o = {};
		  Object.defineProperty(o, "a", {get: function(){ log.push("get a"); return {valueOf: function(){ log.push("valueOf a"); return 1; }}; }});
		  Object.defineProperty(o, "b", {get: function(){ log.push("get b"); return {valueOf: function(){ log.push("valueOf b"); return 2; }}; }});
		  o.a + o.b; log.join()`, `get a,get b,valueOf a,valueOf b`},
		// abnormal exit: GetValue(rref) throws a ReferenceError before valueOf may run
		{`var ran = false; var a = {valueOf: function(){ ran = true; return 1; }};
		  try { a + notDefinedAnywhere; } catch (e) {} ran`, `false`},
	}
	for _, c := range cases {
		v, err := New().Run(c[0])
		got := ""
		if err != nil {
			got = "ERR: " + err.Error()
		} else {
			got = v.String()
		}
		if got != c[1] {
			t.Errorf("%s => %s, want %s", c[0], got, c[1])
		}
	}
}
