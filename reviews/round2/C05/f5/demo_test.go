// Place this file in the root of the otto worktree (package otto) as
// zz_find_f5_test.go and run:
//
//	export GOFLAGS=-mod=mod GOPROXY=off GOSUMDB=off GOTOOLCHAIN=local
//	go test -vet=off -count=1 -run 'TestFindF5' .
//
// Relational comparison of two strings (ES5.1 11.8.5 step 4) compares UTF-16
// code unit values. otto compares the UTF-8 bytes of its Go strings, which
// orders by code point: a character in U+E000..U+FFFF sorts BEFORE a
// supplementary character (surrogate pair 0xD800..0xDFFF) instead of after it.
package otto

import "testing"

func TestFindF5(t *testing.T) {
	cases := [][2]string{
		// controls
		{`"a" < "b"`, `true`},
		{`"퟿" < "𐀀"`, `true`},
		// U+FF5E (0xFF5E) vs U+10000 (0xD800 0xDC00): 0xFF5E > 0xD800
		{`"～" < "𐀀"`, `false`},
		{`"～" > "𐀀"`, `true`},
		{`"～" <= "𐀀"`, `false`},
		{`"～" >= "𐀀"`, `true`},
		{`"😀" < "�"`, `true`}, // emoji U+1F600 vs U+FFFD
		{`"\uFF5E" < "\uD800\uDC00"`, `false`},
		{`String.fromCharCode(0xFF5E) < String.fromCharCode(0xD800, 0xDC00)`, `false`},
		// the same through objects with scripted conversion
		{`({toString: function(){ return "ﬁ"; }}) > ({valueOf: function(){ return "𝐀"; }})`, `true`},
		// consistency with the code units the script itself can observe
		{`var a = "～", b = "𐀀"; (a.charCodeAt(0) < b.charCodeAt(0)) === (a < b)`, `true`},
	}
	for _, c := range cases {
		v, err := New().Run(c[0])
		got := ""
		if err != nil {
			got = "ERR: " + err.Error()
		} else {
			got = v.String()
		}
		if got != c[1] {
			t.Errorf("%s => %s, want %s", c[0], got, c[1])
		}
	}
}
