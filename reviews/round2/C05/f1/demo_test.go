// Place this file in the root of the otto worktree (package otto) as
// zz_find_f1_test.go and run:
//
//	export GOFLAGS=-mod=mod GOPROXY=off GOSUMDB=off GOTOOLCHAIN=local
//	go test -vet=off -count=1 -run 'TestFindF1' .
//
// ToInt32 / ToUint32 / ToUint16 (ES5.1 9.5, 9.6, 9.7) of a finite number whose
// magnitude is >= 2^63 must be the value modulo 2^32 (2^16); otto returns 0
// (on amd64) because it goes through an out-of-range float64 -> int64
// conversion.
package otto

import "testing"

func TestFindF1(t *testing.T) {
	cases := [][2]string{
		{`1e21 | 0`, `-559939584`},
		{`1e21 >>> 0`, `3735027712`},
		{`~~1e19`, `-1981284352`},
		{`~~-1e19`, `1981284352`},
		{`(Math.pow(2,63) + 2048) | 0`, `2048`},
		{`(Math.pow(2,63) + 2048) >>> 0`, `2048`},
		{`-(Math.pow(2,63) + 2048) >> 0`, `-2048`},
		{`(Math.pow(2,63) + 2048) ^ 0`, `2048`},
		{`String.fromCharCode(Math.pow(2,63) + 2048).charCodeAt(0)`, `2048`},
	}
	for _, c := range cases {
		v, err := New().Run(c[0])
		got := ""
		if err != nil {
			got = "ERR: " + err.Error()
		} else {
			got = v.String()
		}
		if got != c[1] {
			t.Errorf("%s => %s, want %s", c[0], got, c[1])
		}
	}
}
