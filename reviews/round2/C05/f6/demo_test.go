// Place this file in the root of the otto worktree (package otto) as
// zz_find_f6_test.go and run:
//
//	export GOFLAGS=-mod=mod GOPROXY=off GOSUMDB=off GOTOOLCHAIN=local
//	go test -vet=off -count=1 -run 'TestFindF6' .
//
// Compound assignment `a op= b` (ES5.1 11.13.2) must read the old value of the
// left operand (step 2, GetValue(lref)) BEFORE the right operand is evaluated
// (step 3/4). otto evaluates the right operand first and reads the left
// operand afterwards, so any right operand that modifies the left one gives a
// wrong result.
package otto

import "testing"

func TestFindF6(t *testing.T) {
	cases := [][2]string{
		{`var x = 1; x += x++; x`, `2`},
		{`var x = 1; x += (x = 10); x`, `11`},
		{`var x = 2; x *= (x = 10, 3); x`, `6`},
		{`var x = 5; x -= x--; x`, `0`},
		{`var x = 1; x <<= (x = 4, 1); x`, `2`},
		{`var s = "a"; s += (s = "b", "c"); s`, `ac`},
		{`var o = {n: 1}; function bump(){ o.n = 100; return 1; } o.n += bump(); o.n`, `2`},
		{`var i = 0, a = [10, 20]; a[i] += (a[0] = 7, 1); a[0]`, `11`},
		// the order as a trace: the getter of the left operand runs before the right operand
		{`var log = []; var o = {};
		  Object.defineProperty(o, "p", {get: function(){ log.push("get p"); return 1; }, set: function(v){ log.push("set p=" + v); }});
		  o.p += (log.push("rhs"), 2); log.join()`, `get p,rhs,set p=3`},
	}
	for _, c := range cases {
		v, err := New().Run(c[0])
		got := ""
		if err != nil {
			got = "ERR: " + err.Error()
		} else {
			got = v.String()
		}
		if got != c[1] {
			t.Errorf("%s => %s, want %s", c[0], got, c[1])
		}
	}
}
