// Place this file in the root of the otto worktree (package otto) as
// zz_find_f4_test.go and run:
//
//	export GOFLAGS=-mod=mod GOPROXY=off GOSUMDB=off GOTOOLCHAIN=local
//	go test -vet=off -count=1 -run 'TestFindF4' .
//
// ToString applied to a Number (ES5.1 9.8.1) switches to exponent notation at
// exactly 10^21 (upper) and 10^-6 (lower). otto decides with
// math.Log10(|x|), which rounds to 21 / -6 for the doubles just below those
// bounds, so they are printed in the wrong notation.
package otto

import "testing"

func TestFindF4(t *testing.T) {
	cases := [][2]string{
		// controls (pass)
		{`String(1e21)`, `1e+21`},
		{`String(1e20)`, `100000000000000000000`},
		{`String(0.000001)`, `0.000001`},
		{`String(1e-7)`, `1e-7`},
		// just below 10^21: n = 21, so 9.8.1 step 6 applies (digits followed by zeros)
		{`String(999999999999999900000)`, `999999999999999900000`},
		{`"" + (1e21 - 131072)`, `999999999999999900000`},
		{`999999999999999900000 + ""`, `999999999999999900000`},
		{`var o = {}; o[999999999999999900000] = 1; Object.keys(o)[0]`, `999999999999999900000`},
		{`String(-999999999999999900000)`, `-999999999999999900000`},
		// just below 10^-6: n = -6, so 9.8.1 step 9/10 applies (exponent notation)
		{`String(9.99999999999999e-7)`, `9.99999999999999e-7`},
		{`String(0.000000999999999999999)`, `9.99999999999999e-7`},
		{`String(-9.99999999999999e-7)`, `-9.99999999999999e-7`},
	}
	for _, c := range cases {
		v, err := New().Run(c[0])
		got := ""
		if err != nil {
			got = "ERR: " + err.Error()
		} else {
			got = v.String()
		}
		if got != c[1] {
			t.Errorf("%s => %s, want %s", c[0], got, c[1])
		}
	}
}
