// Place this file in the root of the otto worktree (package otto) as
// zz_find_f2_test.go and run:
//
//	export GOFLAGS=-mod=mod GOPROXY=off GOSUMDB=off GOTOOLCHAIN=local
//	go test -vet=off -count=1 -run 'TestFindF2' .
//
// ToNumber (ES5.1 9.3.1) of a hexadecimal string whose value is >= 2^63 must
// be that value (rounded to a double); otto returns NaN.
package otto

import "testing"

func TestFindF2(t *testing.T) {
	cases := [][2]string{
		{`Number("0x7FFFFFFFFFFFFFFF")`, `9223372036854776000`}, // control: passes
		{`Number("0x8000000000000000")`, `9223372036854776000`},
		{`+"0xFFFFFFFFFFFFFFFF"`, `18446744073709552000`},
		{`"0x10000000000000000" - 0`, `18446744073709552000`},
		{`"0x10000000000000000" == 18446744073709551616`, `true`},
		{`" 0X8000000000000000\n" * 1 === Math.pow(2, 63)`, `true`},
		{`"0x8000000000000000" < 1`, `false`},
		{`"0x8000000000000000" > 1`, `true`},
		{`"0x100000000000000000000" | 0`, `0`}, // control: 2^80 -> 0 either way
		{`isNaN("0x100000000000000000000")`, `false`},
	}
	for _, c := range cases {
		v, err := New().Run(c[0])
		got := ""
		if err != nil {
			got = "ERR: " + err.Error()
		} else {
			got = v.String()
		}
		if got != c[1] {
			t.Errorf("%s => %s, want %s", c[0], got, c[1])
		}
	}
}
