// Place this file in the root of the otto module (package otto), e.g.
//   cp demo_test.go /tmp/wt6/C01/zz_demo_f2_test.go
// and run
//   cd /tmp/wt6/C01 && export GOFLAGS=-mod=mod GOPROXY=off GOSUMDB=off GOTOOLCHAIN=local && \
//   go test -vet=off -count=1 -run 'TestDemoC01F2' .
package otto

import (
	"testing"

	"github.com/robertkrimen/otto/parser"
)

// demoF2Routes runs src through the five submission routes of property C01
// (source text, compiled Script, pre-parsed Program, Eval, Script compiled on
// another runtime) and returns the results as strings.
func demoF2Routes(t *testing.T, src string) map[string]string {
	t.Helper()
	show := func(v Value, err error) string {
		if err != nil {
			return "error: " + err.Error()
		}
		s, err := v.ToString()
		if err != nil {
			return "error: " + err.Error()
		}
		return s
	}
	out := map[string]string{}
	out["source"] = show(New().Run(src))

	vm := New()
	script, err := vm.Compile("", src)
	if err != nil {
		t.Fatalf("compile: %v", err)
	}
	out["script"] = show(vm.Run(script))

	program, err := parser.ParseFile(nil, "", src, 0)
	if err != nil {
		t.Fatalf("parse: %v", err)
	}
	out["program"] = show(New().Run(program))

	out["eval"] = show(New().Eval(src))

	out["script-other-runtime"] = show(New().Run(script))
	return out
}

// ES5.1 12.4 step 2: an ExpressionStatement calls GetValue on the result of its
// expression. A getter runs, an unresolvable identifier throws ReferenceError,
// and the completion value is the value at that moment, not a Reference.
func TestDemoC01F2(t *testing.T) {
	cases := []struct{ name, src, want string }{
		{
			"unresolvable identifier as a statement of a loop body",
			`var r = "start";
			 try { for (var i = 0; i < 1; i++) { undefinedVariable; r = "went on"; } } catch (e) { r = e.name; }
			 r;`,
			"ReferenceError",
		},
		{
			"unresolvable identifier as a statement of a case clause",
			`var r = "start";
			 try { switch (1) { case 1: undefinedVariable; r = "went on"; } } catch (e) { r = e.name; }
			 r;`,
			"ReferenceError",
		},
		{
			"getter read as a statement of a loop body",
			`var n = 0, o = { get next() { n++; return n; } };
			 for (var i = 0; i < 3; i++) { o.next; i; }
			 n;`,
			"3",
		},
		{
			"getter read as a statement of a for-in body",
			`var n = 0, o = { get next() { n++; return n; } };
			 for (var k in { a: 1, b: 2 }) { o.next; 0; }
			 n;`,
			"2",
		},
		{
			"completion value of a loop (12.6.3: V is a value)",
			`for (var i = 0; i < 3; i++) i;`,
			"2",
		},
		{
			"completion value of do-while",
			`var j = 0; do j; while (++j < 3);`,
			"2",
		},
	}
	for _, c := range cases {
		for route, got := range demoF2Routes(t, c.src) {
			if got != c.want {
				t.Errorf("%s [%s]: got %q, want %q", c.name, route, got, c.want)
			}
		}
	}
}
