// Place this file in the root of the otto module (package otto), e.g.
//   cp demo_test.go /tmp/wt6/C01/zz_demo_f1_test.go
// and run
//   cd /tmp/wt6/C01 && export GOFLAGS=-mod=mod GOPROXY=off GOSUMDB=off GOTOOLCHAIN=local && \
//   go test -vet=off -count=1 -run 'TestDemoC01F1' .
package otto

import (
	"testing"

	"github.com/robertkrimen/otto/parser"
)

// demoF1Routes runs src through the five submission routes of property C01
// (source text, compiled Script, pre-parsed Program, Eval, Script compiled on
// another runtime) and returns the results as strings.
func demoF1Routes(t *testing.T, src string) map[string]string {
	t.Helper()
	show := func(v Value, err error) string {
		if err != nil {
			return "error: " + err.Error()
		}
		s, err := v.ToString()
		if err != nil {
			return "error: " + err.Error()
		}
		return s
	}
	out := map[string]string{}
	out["source"] = show(New().Run(src))

	vm := New()
	script, err := vm.Compile("", src)
	if err != nil {
		t.Fatalf("compile: %v", err)
	}
	out["script"] = show(vm.Run(script))

	program, err := parser.ParseFile(nil, "", src, 0)
	if err != nil {
		t.Fatalf("parse: %v", err)
	}
	out["program"] = show(New().Run(program))

	out["eval"] = show(New().Eval(src))

	out["script-other-runtime"] = show(New().Run(script))
	return out
}

// ES5.1 clause 13 / 10.5 step 5: a FunctionDeclaration is instantiated with the
// VariableEnvironment of the running context as its scope; only a named
// FunctionExpression gets a private environment binding its own name. Inside a
// declared function its name therefore refers to the (mutable) outer binding.
func TestDemoC01F1(t *testing.T) {
	cases := []struct{ name, src, want string }{
		{
			"self-redefining function (lazy initialisation)",
			`function init() { init = function () { return "second"; }; return "first"; }
			 init() + "," + init();`,
			"first,second",
		},
		{
			"memoised recursion through the rebound global name",
			`var calls = 0, cache = {};
			 function fib(n) { calls++; return n < 2 ? n : fib(n - 1) + fib(n - 2); }
			 var raw = fib;
			 fib = function (n) { return n in cache ? cache[n] : (cache[n] = raw(n)); };
			 fib(10) + ":" + calls;`,
			"55:11",
		},
		{
			"the name is not a private binding",
			`function f() { return f; } var g = f; f = 5; g();`,
			"5",
		},
	}
	for _, c := range cases {
		for route, got := range demoF1Routes(t, c.src) {
			if got != c.want {
				t.Errorf("%s [%s]: got %q, want %q", c.name, route, got, c.want)
			}
		}
	}
}
