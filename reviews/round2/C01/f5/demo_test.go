// Place this file in the root of the otto module (package otto), e.g.
//   cp demo_test.go /tmp/wt6/C01/zz_demo_f5_test.go
// and run
//   cd /tmp/wt6/C01 && export GOFLAGS=-mod=mod GOPROXY=off GOSUMDB=off GOTOOLCHAIN=local && \
//   go test -vet=off -count=1 -run 'TestDemoC01F5' .
package otto

import (
	"testing"

	"github.com/robertkrimen/otto/parser"
)

// demoF5Routes runs src through the five submission routes of property C01
// (source text, compiled Script, pre-parsed Program, Eval, Script compiled on
// another runtime) and returns the results as strings.
func demoF5Routes(t *testing.T, src string) map[string]string {
	t.Helper()
	show := func(v Value, err error) string {
		if err != nil {
			return "error: " + err.Error()
		}
		s, err := v.ToString()
		if err != nil {
			return "error: " + err.Error()
		}
		return s
	}
	out := map[string]string{}
	out["source"] = show(New().Run(src))

	vm := New()
	script, err := vm.Compile("", src)
	if err != nil {
		t.Fatalf("compile: %v", err)
	}
	out["script"] = show(vm.Run(script))

	program, err := parser.ParseFile(nil, "", src, 0)
	if err != nil {
		t.Fatalf("parse: %v", err)
	}
	out["program"] = show(New().Run(program))

	out["eval"] = show(New().Eval(src))

	out["script-other-runtime"] = show(New().Run(script))
	return out
}

// ES5.1 12.14, production "catch (Identifier) Block": 2. catchEnv =
// NewDeclarativeEnvironment(oldEnv) ... 5. set LexicalEnvironment to catchEnv,
// 6. B = evaluate Block, 7. set LexicalEnvironment to oldEnv. The Finally block
// of "try Block Catch Finally" is evaluated afterwards, in the old environment:
// the catch parameter is not in scope there.
func TestDemoC01F5(t *testing.T) {
	cases := []struct{ name, src, want string }{
		{
			"finally reads an outer variable named like the catch parameter",
			`var e = "outer", seen;
			 try { throw "thrown"; } catch (e) { } finally { seen = e; }
			 seen;`,
			"outer",
		},
		{
			"finally assigns a variable named like the catch parameter",
			`var err = null;
			 function run() {
			   try { throw new Error("boom"); } catch (err) { } finally { err = "cleaned up"; }
			 }
			 run();
			 String(err);`,
			"cleaned up",
		},
		{
			"typeof an otherwise undeclared name in finally",
			`var t; try { throw 1; } catch (onlyInCatch) { } finally { t = typeof onlyInCatch; } t;`,
			"undefined",
		},
		{
			"closure created in finally",
			`var x = "outer", f;
			 try { throw "caught"; } catch (x) { } finally { f = function () { return x; }; }
			 f();`,
			"outer",
		},
	}
	for _, c := range cases {
		for route, got := range demoF5Routes(t, c.src) {
			if got != c.want {
				t.Errorf("%s [%s]: got %q, want %q", c.name, route, got, c.want)
			}
		}
	}
}
