// Place this file in the root of the otto module (package otto), e.g.
//   cp demo_test.go /tmp/wt6/C01/zz_demo_f3_test.go
// and run
//   cd /tmp/wt6/C01 && export GOFLAGS=-mod=mod GOPROXY=off GOSUMDB=off GOTOOLCHAIN=local && \
//   go test -vet=off -count=1 -run 'TestDemoC01F3' .
package otto

import (
	"testing"

	"github.com/robertkrimen/otto/parser"
)

// demoF3Routes runs src through the five submission routes of property C01
// (source text, compiled Script, pre-parsed Program, Eval, Script compiled on
// another runtime) and returns the results as strings.
func demoF3Routes(t *testing.T, src string) map[string]string {
	t.Helper()
	show := func(v Value, err error) string {
		if err != nil {
			return "error: " + err.Error()
		}
		s, err := v.ToString()
		if err != nil {
			return "error: " + err.Error()
		}
		return s
	}
	out := map[string]string{}
	out["source"] = show(New().Run(src))

	vm := New()
	script, err := vm.Compile("", src)
	if err != nil {
		t.Fatalf("compile: %v", err)
	}
	out["script"] = show(vm.Run(script))

	program, err := parser.ParseFile(nil, "", src, 0)
	if err != nil {
		t.Fatalf("parse: %v", err)
	}
	out["program"] = show(New().Run(program))

	out["eval"] = show(New().Eval(src))

	out["script-other-runtime"] = show(New().Run(script))
	return out
}

// ES5.1 11.13.2 (compound assignment): 1. lref = evaluate LeftHandSideExpression,
// 2. lval = GetValue(lref), 3. rref = evaluate AssignmentExpression, 4. rval =
// GetValue(rref), 5. r = lval op rval. The old value of the left operand is read
// BEFORE the right operand is evaluated.
func TestDemoC01F3(t *testing.T) {
	cases := []struct{ name, src, want string }{
		{
			"right operand calls a function that updates the variable",
			`var total = 0;
			 function next() { total++; return 10; }
			 total += next();
			 total;`,
			"10",
		},
		{
			"right operand assigns the variable",
			`var x = 1; x += (x = 5, 10); x;`,
			"11",
		},
		{
			"property target, getter runs before the right operand",
			`var log = "";
			 var o = { get p() { log += "get "; return 1; }, set p(v) { log += "set" + v; } };
			 o.p *= (log += "rhs ", 3);
			 log;`,
			"get rhs set3",
		},
		{
			"ReferenceError of the left operand precedes the right operand",
			`var log = "";
			 try { undeclaredVariable -= (log += "rhs ", 1); } catch (e) { log += e.name; }
			 log;`,
			"ReferenceError",
		},
	}
	for _, c := range cases {
		for route, got := range demoF3Routes(t, c.src) {
			if got != c.want {
				t.Errorf("%s [%s]: got %q, want %q", c.name, route, got, c.want)
			}
		}
	}
}
