// Place this file in the root of the otto module (package otto), e.g.
//   cp demo_test.go /tmp/wt6/C01/zz_demo_f4_test.go
// and run
//   cd /tmp/wt6/C01 && export GOFLAGS=-mod=mod GOPROXY=off GOSUMDB=off GOTOOLCHAIN=local && \
//   go test -vet=off -count=1 -run 'TestDemoC01F4' .
package otto

import (
	"testing"

	"github.com/robertkrimen/otto/parser"
)

// demoF4Routes runs src through the five submission routes of property C01
// (source text, compiled Script, pre-parsed Program, Eval, Script compiled on
// another runtime) and returns the results as strings.
func demoF4Routes(t *testing.T, src string) map[string]string {
	t.Helper()
	show := func(v Value, err error) string {
		if err != nil {
			return "error: " + err.Error()
		}
		s, err := v.ToString()
		if err != nil {
			return "error: " + err.Error()
		}
		return s
	}
	out := map[string]string{}
	out["source"] = show(New().Run(src))

	vm := New()
	script, err := vm.Compile("", src)
	if err != nil {
		t.Fatalf("compile: %v", err)
	}
	out["script"] = show(vm.Run(script))

	program, err := parser.ParseFile(nil, "", src, 0)
	if err != nil {
		t.Fatalf("parse: %v", err)
	}
	out["program"] = show(New().Run(program))

	out["eval"] = show(New().Eval(src))

	out["script-other-runtime"] = show(New().Run(script))
	return out
}

// ES5.1 11.12: "ConditionalExpression: ... 3.b/4.b Return GetValue(trueRef /
// falseRef)". The result of ?: is a value, never a Reference. So a call through
// it has this = undefined (the global object in non-strict code, 11.2.3 step 7 /
// 10.4.3), typeof of it throws for an unresolvable name (11.4.3 applies only to
// References), and delete of it deletes nothing (11.4.1 step 2).
func TestDemoC01F4(t *testing.T) {
	cases := []struct{ name, src, want string }{
		{
			"this of a call whose callee is a conditional expression",
			`var name = "global";
			 var o = { name: "o", a: function () { return this.name; }, b: function () { return "b"; } };
			 (true ? o.a : o.b)();`,
			"global",
		},
		{
			"typeof of a conditional expression over an undeclared identifier",
			`var r; try { r = typeof (true ? notDeclaredAnywhere : 0); } catch (e) { r = e.name; } r;`,
			"ReferenceError",
		},
		{
			"delete of a conditional expression",
			`var o = { x: 1 }; var d = delete (true ? o.x : 0); d + "," + o.x;`,
			"true,1",
		},
		{
			"eval reached through a conditional expression is an indirect eval",
			`var v = "global"; function f() { var v = "local"; return (true ? eval : 0)("v"); } f();`,
			"global",
		},
	}
	for _, c := range cases {
		for route, got := range demoF4Routes(t, c.src) {
			if got != c.want {
				t.Errorf("%s [%s]: got %q, want %q", c.name, route, got, c.want)
			}
		}
	}
}
