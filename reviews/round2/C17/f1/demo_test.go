// Place this file in the root of the otto worktree (package otto), e.g.
//   cp demo_test.go /tmp/wt6/C17/zz_find_test.go
// and run:
//   cd /tmp/wt6/C17 && export GOFLAGS=-mod=mod GOPROXY=off GOSUMDB=off GOTOOLCHAIN=local && \
//     go test -vet=off -count=1 -run 'TestFindCopyDeepGraph' .
//
// C17: Copy() must yield an equivalent runtime for ALL setup histories.  A
// history that builds a long singly linked list (an ordinary pure-JavaScript
// heap the original runtime builds and walks without trouble, both done
// iteratively) makes Copy() kill the whole host process with
//   fatal error: stack overflow  (goroutine stack exceeds 1000000000-byte limit)
// because the cloner recurses once per object-graph edge.  A Go "fatal error"
// cannot be recovered, so the crash is provoked in a child process and the
// parent test reports it as an ordinary failure.
package otto

import (
	"os"
	"os/exec"
	"strings"
	"testing"
)

const zzDeepN = 2000000

func zzDeepChild(t *testing.T) {
	vm := New()
	// H: build the list iteratively; the original runtime is perfectly healthy.
	if _, err := vm.Run(`var head = null; for (var i = 0; i < ` + itoaZZ(zzDeepN) + `; i++) head = {next: head, i: i};`); err != nil {
		t.Fatal(err)
	}
	q := `var n = 0; for (var p = head; p; p = p.next) n++; n`
	v, err := vm.Run(q)
	if err != nil || v.String() != itoaZZ(zzDeepN) {
		t.Fatalf("original: %v %v", v, err)
	}
	c := vm.Copy() // <- fatal error: stack overflow
	v, err = c.Run(q)
	if err != nil || v.String() != itoaZZ(zzDeepN) {
		t.Fatalf("copy: got %v %v, want %d", v, err, zzDeepN)
	}
}

func itoaZZ(n int) string {
	s := ""
	for n > 0 {
		s = string(rune('0'+n%10)) + s
		n /= 10
	}
	return s
}

func TestFindCopyDeepGraph(t *testing.T) {
	if os.Getenv("ZZ_DEEP_CHILD") == "1" {
		zzDeepChild(t)
		return
	}
	cmd := exec.Command(os.Args[0], "-test.run=^TestFindCopyDeepGraph$", "-test.count=1")
	cmd.Env = append(os.Environ(), "ZZ_DEEP_CHILD=1")
	out, err := cmd.CombinedOutput()
	if err != nil {
		s := string(out)
		if len(s) > 1500 {
			s = s[:1500]
		}
		what := "child failed"
		if strings.Contains(s, "stack overflow") {
			what = "Copy() crashed the host process with a Go stack overflow"
		}
		t.Fatalf("%s: %v\n%s", what, err, s)
	}
}
