// Place as zz_find_test.go in the root of the otto worktree (package otto) and run:
//   export GOFLAGS=-mod=mod GOPROXY=off GOSUMDB=off GOTOOLCHAIN=local
//   cd /tmp/wt6/C13 && go test -vet=off -count=1 -run 'TestFindEscapeAstral' .
package otto

import "testing"

// ES5.1 B.2.1 escape works code unit by code unit (step 2 "Compute the number of
// characters in Result(1)", step 6..11): every 16-bit unit >= 256 yields one
// "%uXXXX". An astral character is two code units, so it must yield two escapes.
func TestFindEscapeAstral(t *testing.T) {
	vm := New()
	for _, c := range []struct{ src, want string }{
		{`escape("😀")`, "%uD83D%uDE00"},
		{`escape("a😀b")`, "a%uD83D%uDE00b"},
		{`escape(String.fromCharCode(0xD83D, 0xDE00))`, "%uD83D%uDE00"},
		{`escape(String.fromCharCode(0xDBFF, 0xDFFF))`, "%uDBFF%uDFFF"},
		// one escape sequence per code unit: length is 6 * s.length here
		{`escape("😀").length`, "12"},
	} {
		v, err := vm.Run(c.src)
		if err != nil {
			t.Fatalf("%s: %v", c.src, err)
		}
		if v.String() != c.want {
			t.Errorf("%s = %s, want %s", c.src, v.String(), c.want)
		}
	}
}
