// Place as zz_find_test.go in the root of the otto worktree (package otto) and run:
//   export GOFLAGS=-mod=mod GOPROXY=off GOSUMDB=off GOTOOLCHAIN=local
//   cd /tmp/wt6/C13 && go test -vet=off -count=1 -run 'TestFindUnescapeNonASCIILiteral' .
package otto

import "testing"

// ES5.1 B.2.2 unescape: a character that is not '%' is copied unchanged
// (step 5 / step 18: "Let c be the character at position k within Result(1)",
// "Let R be a new String value computed by concatenating the previous value of R and c").
func TestFindUnescapeNonASCIILiteral(t *testing.T) {
	vm := New()
	for _, c := range []struct{ src, want string }{
		{`unescape("café") === "café"`, "true"},
		{`unescape("café").length`, "4"},
		{`unescape("€").charCodeAt(0)`, "8364"},
		{`unescape("€%41") === "€A"`, "true"},
		// unescape(unescape(x)) = unescape(x) when the result has no '%'
		{`unescape(unescape("%E9")) === "é"`, "true"},
		// unescape must be a left inverse of escape also on strings escape leaves alone,
		// and the identity on strings without '%'.
		{`var s = String.fromCharCode(0xe9, 0x100, 0x4e2d); unescape(s) === s`, "true"},
	} {
		v, err := vm.Run(c.src)
		if err != nil {
			t.Fatalf("%s: %v", c.src, err)
		}
		if v.String() != c.want {
			t.Errorf("%s = %s, want %s", c.src, v.String(), c.want)
		}
	}
}
