// Place as zz_find_test.go in the root of the otto worktree (package otto) and run:
//   export GOFLAGS=-mod=mod GOPROXY=off GOSUMDB=off GOTOOLCHAIN=local
//   cd /tmp/wt6/C13 && go test -vet=off -count=1 -run 'TestFindIsNaNHexString' .
package otto

import "testing"

// ES5.1 15.1.2.4 / 15.1.2.5: isNaN/isFinite call ToNumber(number).
// ES5.1 9.3.1: StrNumericLiteral ::: HexIntegerLiteral, whose MV is the
// mathematical value of the hex digits (any number of them), then rounded to a
// Number; a hex string never converts to NaN and only overflows to Infinity
// above ~1.8e308 (more than 256 hex digits).
func TestFindIsNaNHexString(t *testing.T) {
	vm := New()
	for _, c := range []struct{ src, want string }{
		{`isNaN("0x7FFFFFFFFFFFFFFF")`, "false"}, // control: 2^63-1 works today
		{`isNaN("0x8000000000000000")`, "false"},
		{`isFinite("0x8000000000000000")`, "true"},
		{`isNaN("0xFFFFFFFFFFFFFFFF")`, "false"},
		{`isFinite("0x10000000000000000")`, "true"},
		{`isFinite("0xFFFFFFFFFFFFFFFF") && +"0xFFFFFFFFFFFFFFFF" === 18446744073709551615`, "true"},
		// the same value as a Number or as a hex literal in source is finite
		{`isFinite(0x8000000000000000)`, "true"},
		{`isFinite(" 0X8000000000000000\n")`, "true"},
	} {
		v, err := vm.Run(c.src)
		if err != nil {
			t.Fatalf("%s: %v", c.src, err)
		}
		if v.String() != c.want {
			t.Errorf("%s = %s, want %s", c.src, v.String(), c.want)
		}
	}
}
