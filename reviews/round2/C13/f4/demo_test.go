// Place as zz_find_test.go in the root of the otto worktree (package otto) and run:
//   export GOFLAGS=-mod=mod GOPROXY=off GOSUMDB=off GOTOOLCHAIN=local
//   cd /tmp/wt6/C13 && go test -vet=off -count=1 -run 'TestFindUnescapeSurrogatePair' .
package otto

import "testing"

// ES5.1 B.2.2 unescape, step 12-13: "%uXXXX" becomes "the character whose code
// unit value is the integer represented by the four hexadecimal digits". Two
// consecutive escapes that hold a high and a low surrogate therefore give the
// two-code-unit string that IS the astral character.
func TestFindUnescapeSurrogatePair(t *testing.T) {
	vm := New()
	for _, c := range []struct{ src, want string }{
		{`unescape("%uD83D%uDE00") === "😀"`, "true"},
		{`unescape("%uD83D%uDE00").charCodeAt(0).toString(16)`, "d83d"},
		{`unescape("%uD83D%uDE00").charCodeAt(1).toString(16)`, "de00"},
		{`encodeURIComponent(unescape("%uD83D%uDE00"))`, "%F0%9F%98%80"},
		{`unescape("x%uDBFF%uDFFFy") === "x" + String.fromCharCode(0xDBFF, 0xDFFF) + "y"`, "true"},
	} {
		v, err := vm.Run(c.src)
		if err != nil {
			t.Fatalf("%s: %v", c.src, err)
		}
		if v.String() != c.want {
			t.Errorf("%s = %s, want %s", c.src, v.String(), c.want)
		}
	}
}
