// Place as zz_find_test.go in the root of the otto worktree (package otto) and run:
//   export GOFLAGS=-mod=mod GOPROXY=off GOSUMDB=off GOTOOLCHAIN=local
//   cd /tmp/wt6/C13 && go test -vet=off -count=1 -run 'TestFindMathRound' .
package otto

import "testing"

// ES5.1 15.8.2.15: Math.round(x) "Returns the Number value that is closest to x
// and is equal to a mathematical integer" (ties go towards +Infinity).
func TestFindMathRound(t *testing.T) {
	vm := New()
	for _, c := range []struct{ src, want string }{
		// 0.49999999999999994 is the largest double below 0.5: closest integer is 0.
		{`Math.round(0.49999999999999994)`, "0"},
		// Every double >= 2^52 is already an integer and must be returned unchanged.
		{`Math.round(4503599627370497)`, "4503599627370497"},
		{`Math.round(-4503599627370497)`, "-4503599627370497"},
		{`Math.round(9007199254740991)`, "9007199254740991"},
		{`Math.round(9007199254740991) === 9007199254740991`, "true"},
	} {
		v, err := vm.Run(c.src)
		if err != nil {
			t.Fatalf("%s: %v", c.src, err)
		}
		if v.String() != c.want {
			t.Errorf("%s = %s, want %s", c.src, v.String(), c.want)
		}
	}
}
