// Place as zz_find_test.go in the root of the otto worktree (package otto) and run:
//   export GOFLAGS=-mod=mod GOPROXY=off GOSUMDB=off GOTOOLCHAIN=local
//   cd /tmp/wt6/C13 && go test -vet=off -count=1 -run 'TestFindParseFloatInfinitySuffix' .
package otto

import "testing"

// ES5.1 15.1.2.3 parseFloat: step 4 "Let numberString be the longest prefix of
// trimmedString ... that satisfies the syntax of a StrDecimalLiteral"; anything
// after that prefix is ignored ("parseFloat may interpret only a leading portion
// of string as a Number value; it ignores any characters that cannot be
// interpreted as part of the notation of a decimal literal").
func TestFindParseFloatInfinitySuffix(t *testing.T) {
	vm := New()
	for _, c := range []struct{ src, want string }{
		{`parseFloat("3.14abc")`, "3.14"}, // control
		{`parseFloat("3.14 to infinity")`, "3.14"},
		{`parseFloat("12 inf")`, "12"},
		{`parseFloat("1infinity")`, "1"},
		{`parseFloat("1.5Inf")`, "1.5"},
		{`parseFloat("100 (+infinity is the limit)")`, "100"},
	} {
		v, err := vm.Run(c.src)
		if err != nil {
			t.Fatalf("%s: %v", c.src, err)
		}
		if v.String() != c.want {
			t.Errorf("%s = %s, want %s", c.src, v.String(), c.want)
		}
	}
}
