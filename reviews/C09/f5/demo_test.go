// Place this file in the root of the otto worktree (package otto), e.g. as
// zz_find_f5_test.go, then run:
//
//	export GOFLAGS=-mod=mod GOPROXY=off GOSUMDB=off GOTOOLCHAIN=local
//	go test -vet=off -count=1 -run 'TestFindF5ReplacementCharSentinel' .
//
// Finding: stringAt() uses utf8.RuneError (U+FFFD) as its "index out of
// range" sentinel, but U+FFFD REPLACEMENT CHARACTER is an ordinary BMP
// character.  charAt / charCodeAt / s[i] / new String(s)[i] on a position
// that holds U+FFFD behave as if the position were out of range
// (ES5.1 15.5.4.4, 15.5.4.5, 15.5.5.2).
package otto

import "testing"

func TestFindF5ReplacementCharSentinel(t *testing.T) {
	cases := []struct{ src, want string }{
		{`"a�b".length`, "3"},
		// 15.5.4.5: 0 <= 1 < 3, so the result is the code unit value
		{`"a�b".charCodeAt(1)`, "65533"},
		// 15.5.4.4: a String of length 1
		{`"a�b".charAt(1).length`, "1"},
		{`"a�b".charAt(1) === "�"`, "true"},
		// 15.5.5.2: own property "1" exists
		{`"a�b"[1] === "�"`, "true"},
		{`typeof new String("a�b")[1]`, "string"},
		{`new String("a�b").hasOwnProperty("1")`, "true"},
		{`"1" in new String("a�b")`, "true"},
		// char-by-char copy must be the identity
		{`var s = "a�b", r = ""; for (var i = 0; i < s.length; i++) r += s.charAt(i); r === s`, "true"},
		{`var s = "a�b", r = []; for (var i = 0; i < s.length; i++) r.push(s.charCodeAt(i)); r.join()`, "97,65533,98"},
		{`Array.prototype.map.call("a�b", function(c){ return c.charCodeAt(0) }).join()`, "97,65533,98"},
		// controls: neighbours of U+FFFD work
		{`"a￼b".charCodeAt(1)`, "65532"},
		{`"a￾b".charAt(1).length`, "1"},
	}
	for _, c := range cases {
		vm := New()
		v, err := vm.Run(c.src)
		if err != nil {
			t.Errorf("%s: error %v", c.src, err)
			continue
		}
		if got := v.String(); got != c.want {
			t.Errorf("%s => %q, want %q", c.src, got, c.want)
		}
	}
}
