// Place this file in the root of the otto worktree (package otto), e.g. as
// zz_find_f1_test.go, then run:
//
//	export GOFLAGS=-mod=mod GOPROXY=off GOSUMDB=off GOTOOLCHAIN=local
//	go test -vet=off -count=1 -run 'TestFindF1SubstrHugeLength' .
//
// Finding: String.prototype.substr with a very large / infinite length
// argument crashes the host with a Go runtime panic (slice bounds out of
// range) that escapes vm.Run, instead of returning the tail of the string.
package otto

import (
	"fmt"
	"testing"
)

func findF1Run(src string) (got string, panicked interface{}) {
	defer func() {
		if r := recover(); r != nil {
			panicked = r
		}
	}()
	vm := New()
	v, err := vm.Run(src)
	if err != nil {
		return "ERR:" + err.Error(), nil
	}
	return v.String(), nil
}

func TestFindF1SubstrHugeLength(t *testing.T) {
	cases := []struct{ src, want string }{
		// ES5.1 B.2.3: Result(3) = ToInteger(length) = +Infinity,
		// Result(6) = min(max(+Inf,0), 3-1) = 2  => "bc"
		{`"abc".substr(1, Infinity)`, "bc"},
		{`"abc".substr(1, 1e300)`, "bc"},
		{`"abc".substr(1, 9223372036854775807)`, "bc"},
		{`"abc".substr(2, Number.MAX_VALUE)`, "c"},
		{`String.prototype.substr.call(12345, 1, 1/0)`, "2345"},
		// control: these work
		{`"abc".substr(0, Infinity)`, "abc"},
		{`"abc".substr(1, 1e10)`, "bc"},
	}
	for _, c := range cases {
		got, p := findF1Run(c.src)
		if p != nil {
			t.Errorf("%s: Go panic escaped vm.Run: %v (want %q)", c.src, fmt.Sprint(p), c.want)
			continue
		}
		if got != c.want {
			t.Errorf("%s => %q, want %q", c.src, got, c.want)
		}
	}
}
