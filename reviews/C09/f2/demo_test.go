// Place this file in the root of the otto worktree (package otto), e.g. as
// zz_find_f2_test.go, then run:
//
//	export GOFLAGS=-mod=mod GOPROXY=off GOSUMDB=off GOTOOLCHAIN=local
//	go test -vet=off -count=1 -run 'TestFindF2LastIndexOfPosition' .
//
// Finding: String.prototype.lastIndexOf does not convert its position
// argument as ES5.1 15.5.4.8 steps 4-7 require (NaN -> +Infinity, ToInteger,
// clamp to [0,len]).  NaN is treated as 0, -Infinity as +Infinity, and a huge
// finite position overflows a Go int and crashes the host.
// (ASCII-only strings on purpose: this is independent of the UTF-16 issue.)
package otto

import (
	"fmt"
	"testing"
)

func findF2Run(src string) (got string, panicked interface{}) {
	defer func() {
		if r := recover(); r != nil {
			panicked = r
		}
	}()
	vm := New()
	v, err := vm.Run(src)
	if err != nil {
		return "ERR:" + err.Error(), nil
	}
	return v.String(), nil
}

func TestFindF2LastIndexOfPosition(t *testing.T) {
	cases := []struct{ src, want string }{
		// step 5: numPos is NaN -> pos = +Infinity -> search from the end
		{`"abcabc".lastIndexOf("c", NaN)`, "5"},
		{`"abcabc".lastIndexOf("a", "x")`, "3"},
		{`"abcabc".lastIndexOf("b", {})`, "4"},
		{`"abcabc".lastIndexOf("c", [1,2])`, "5"},
		// step 7: start = min(max(-Infinity, 0), len) = 0
		{`"abcabc".lastIndexOf("a", -Infinity)`, "0"},
		{`"abcabc".lastIndexOf("c", -Infinity)`, "-1"},
		// step 7: start = min(max(pos,0), len) = len; must not crash
		{`"abc".lastIndexOf("a", 1e300)`, "0"},
		{`"abc".lastIndexOf("c", 9223372036854775807)`, "2"},
		{`"abc".lastIndexOf("b", Number.MAX_VALUE)`, "1"},
		// controls that already work
		{`"abcabc".lastIndexOf("c", undefined)`, "5"},
		{`"abcabc".lastIndexOf("c", Infinity)`, "5"},
		{`"abcabc".lastIndexOf("c", 2)`, "2"},
		{`"abcabc".lastIndexOf("c", -1)`, "-1"},
	}
	for _, c := range cases {
		got, p := findF2Run(c.src)
		if p != nil {
			t.Errorf("%s: Go panic escaped vm.Run: %v (want %q)", c.src, fmt.Sprint(p), c.want)
			continue
		}
		if got != c.want {
			t.Errorf("%s => %q, want %q", c.src, got, c.want)
		}
	}
}
