// Place this file in the root of the otto worktree (package otto), e.g. as
// zz_find_f4_test.go, then run:
//
//	export GOFLAGS=-mod=mod GOPROXY=off GOSUMDB=off GOTOOLCHAIN=local
//	go test -vet=off -count=1 -run 'TestFindF4SliceRuneIndexing' .
//
// Finding: slice, substring and substr index the receiver by Unicode code
// point ([]rune) whereas length, charCodeAt, indexOf and String indexing use
// UTF-16 code units.  With an astral character in the receiver the positions
// disagree (ES5.1 15.5.4.13, 15.5.4.15, B.2.3; 8.4: string elements are
// 16-bit units and "len" is the number of such units).
package otto

import "testing"

func TestFindF4SliceRuneIndexing(t *testing.T) {
	cases := []struct{ src, want string }{
		// U+1F600 is the surrogate pair D83D DE00: length 2
		{`"😀a".length`, "3"},
		{`"😀a".indexOf("a")`, "2"},
		{`"😀a".substring(2)`, "a"},
		{`"😀a".slice(2)`, "a"},
		{`"😀a".slice(2, 3)`, "a"},
		{`"😀ab".substr(2, 1)`, "a"},
		{`"😀ab".substring(2, 3)`, "a"},
		{`"😀ab".slice(0, -1).length`, "3"},
		{`"ab😀".slice(-2).length`, "2"},
		{`"ab😀".substr(-2).length`, "2"},
		// the everyday idiom s.slice(s.indexOf(x)) must start at x
		{`var s = "😀 key=value"; s.slice(s.indexOf("key"))`, "key=value"},
		{`var s = "😀 key=value"; s.substring(s.indexOf("=") + 1)`, "value"},
		{`var s = "😀 key=value"; s.substr(s.indexOf("key"), 3)`, "key"},
		// slice(0, length) must be the identity
		{`var s = "😀😀"; s.slice(0, s.length - 2) === "😀"`, "true"},
		// controls: BMP only works
		{`"€a".slice(1)`, "a"},
		{`"éab".substr(1, 1)`, "a"},
	}
	for _, c := range cases {
		vm := New()
		v, err := vm.Run(c.src)
		if err != nil {
			t.Errorf("%s: error %v", c.src, err)
			continue
		}
		if got := v.String(); got != c.want {
			t.Errorf("%s => %q, want %q", c.src, got, c.want)
		}
	}
}
