// Place this file in the root of the otto worktree (package otto), e.g. as
// zz_find_f3_test.go, then run:
//
//	export GOFLAGS=-mod=mod GOPROXY=off GOSUMDB=off GOTOOLCHAIN=local
//	go test -vet=off -count=1 -run 'TestFindF3IndexOfPositionBytes' .
//
// Finding: the position argument of indexOf / lastIndexOf is applied as a
// UTF-8 *byte* offset into the Go string (and compared against the byte
// length), while the returned index is a UTF-16 offset of the remainder added
// to that byte offset.  For any receiver containing a non-ASCII character
// before the position the result is wrong (ES5.1 15.5.4.7 steps 5-8,
// 15.5.4.8 steps 6-8: len and positions are counted in 16-bit units, 8.4).
package otto

import "testing"

func TestFindF3IndexOfPositionBytes(t *testing.T) {
	cases := []struct{ src, want string }{
		// Latin-1: e-acute is 2 UTF-8 bytes, 1 code unit
		{`"éa".indexOf("a", 1)`, "1"},
		{`"éab".indexOf("b", 2)`, "2"},
		{`"ééa".indexOf("a", 3)`, "-1"},
		// start = min(max(pos,0),len) with len = 2 -> "" found at 2
		{`"éa".indexOf("", 5)`, "2"},
		// BMP: euro sign is 3 UTF-8 bytes, 1 code unit
		{`"€x".indexOf("x", 1)`, "1"},
		{`"€x".indexOf("x", 2)`, "-1"},
		{`"price: €5, €7".indexOf("€", 8)`, "11"},
		// astral: 4 UTF-8 bytes, 2 code units
		{`"😀x😀x".indexOf("x", 3)`, "5"},
		// lastIndexOf with a finite position
		{`"éaéa".lastIndexOf("a", 1)`, "1"},
		{`"éaéa".lastIndexOf("a", 3)`, "3"},
		{`"€x€x".lastIndexOf("x", 2)`, "1"},
		// invariant: s.indexOf(t, s.indexOf(t)) === s.indexOf(t)
		{`var s = "naïve café"; s.indexOf("caf", s.indexOf("caf")) === s.indexOf("caf")`, "true"},
		// controls (ASCII) that work
		{`"xax".indexOf("x", 1)`, "2"},
		{`"xax".lastIndexOf("x", 1)`, "0"},
	}
	for _, c := range cases {
		vm := New()
		v, err := vm.Run(c.src)
		if err != nil {
			t.Errorf("%s: error %v", c.src, err)
			continue
		}
		if got := v.String(); got != c.want {
			t.Errorf("%s => %q, want %q", c.src, got, c.want)
		}
	}
}
