// Place this file in the root of the otto module (package otto) as zz_find_test.go and run:
//   export GOFLAGS=-mod=mod GOPROXY=off GOSUMDB=off GOTOOLCHAIN=local
//   go test -vet=off -count=1 -run 'TestFindNumberToGoString' .
package otto

import (
	"math"
	"testing"
)

type zzRec struct{ Label string }

// Go float64 -> JavaScript number -> Go string (Go function parameter / struct field of kind string).
// The bridge formats the number with Go's %v instead of ToString (ES5.1 9.8.1), so it disagrees
// with Value.ToString() and with String(x) evaluated in the script for the very same value.
func TestFindNumberToGoString(t *testing.T) {
	vm := New()
	var got string
	vm.Set("f", func(s string) { got = s })
	rec := &zzRec{}
	vm.Set("rec", rec)

	for _, x := range []float64{125000000, 2147483648.0, 1e20, 0.000001, 0.00001234, math.Inf(1), math.Inf(-1), math.Copysign(0, -1), 4294967296.5 * 1024} {
		if err := vm.Set("x", x); err != nil {
			t.Fatal(err)
		}
		xv, _ := vm.Get("x")
		want, _ := xv.ToString() // Value.ToString
		js, err := vm.Run(`String(x)`)
		if err != nil || js.String() != want {
			t.Fatalf("String(x) = %v (%v), Value.ToString = %q", js, err, want)
		}

		if _, err := vm.Run(`f(x)`); err != nil {
			t.Errorf("f(%v): %v", x, err)
		} else if got != want {
			t.Errorf("Go func(string) called with number %v received %q, want %q (= String(x) = Value.ToString())", x, got, want)
		}

		if _, err := vm.Run(`rec.Label = x`); err != nil {
			t.Errorf("rec.Label = %v: %v", x, err)
		} else if rec.Label != want {
			t.Errorf("string field assigned number %v holds %q, want %q", x, rec.Label, want)
		}
	}

	// Also for numbers computed by the script itself (common-looking code).
	if _, err := vm.Run(`f(50000000 * 2.5)`); err != nil || got != "125000000" {
		t.Errorf(`f(50000000 * 2.5) received %q (%v), want "125000000"`, got, err)
	}
}
