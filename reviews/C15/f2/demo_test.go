// Place this file in the root of the otto module (package otto) as zz_find_test.go and run:
//   export GOFLAGS=-mod=mod GOPROXY=off GOSUMDB=off GOTOOLCHAIN=local
//   go test -vet=off -count=1 -run 'TestFindGoSliceShrink' .
package otto

import "testing"

// A Go slice set into the runtime is presented to scripts as an array
// (Array.isArray(s) === true, it inherits Array.prototype). Every operation that
// shrinks it (pop, shift, splice, length = n) crashes the host with a reflect panic.
func TestFindGoSliceShrink(t *testing.T) {
	cases := []struct{ src, want string }{
		{`var r = s.pop();       r + "|" + s.length + "|" + s.join()`, "2|2|3,1"},       // ES5.1 15.4.4.6
		{`var r = s.shift();     r + "|" + s.length + "|" + s.join()`, "3|2|1,2"},       // ES5.1 15.4.4.9
		{`var r = s.splice(0,1); r + "|" + s.length + "|" + s.join()`, "3|2|1,2"},       // ES5.1 15.4.4.12
		{`s.length = 1;          s.length + "|" + s.join()`, "1|3"},                     // ES5.1 15.4.5.1/15.4.5.2
		{`s.length = 0;          s.length + "|" + s.join()`, "0|"},
	}
	for _, c := range cases {
		func() {
			defer func() {
				if r := recover(); r != nil {
					t.Errorf("%s: Go panic escaped from Run: %v", c.src, r)
				}
			}()
			vm := New()
			if err := vm.Set("s", []int{3, 1, 2}); err != nil {
				t.Fatal(err)
			}
			v, err := vm.Run(c.src)
			if err != nil {
				t.Errorf("%s: unexpected error %v", c.src, err)
				return
			}
			if v.String() != c.want {
				t.Errorf("%s = %q, want %q", c.src, v.String(), c.want)
			}
		}()
	}
}
