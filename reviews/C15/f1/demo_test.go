// Place this file in the root of the otto module (package otto) as zz_find_test.go and run:
//   export GOFLAGS=-mod=mod GOPROXY=off GOSUMDB=off GOTOOLCHAIN=local
//   go test -vet=off -count=1 -run 'TestFindExportNestedMixedArrays' .
package otto

import (
	"reflect"
	"testing"
)

// Value.Export of a plain JSON-like array literal must return structurally equal Go data.
// On the unmodified code Export lets a Go runtime panic (reflect.Set) escape to the caller.
func TestFindExportNestedMixedArrays(t *testing.T) {
	cases := []struct {
		src  string
		want interface{}
	}{
		{`[[[1]], [["a"]]]`, []interface{}{
			[]interface{}{[]interface{}{1.0}},
			[]interface{}{[]interface{}{"a"}},
		}},
		// GeoJSON-like: one ring of integer coordinates, one ring of fractional ones.
		{`[[[1,2],[3,4]], [[1.5,2.5],[3.5,4.5]]]`, []interface{}{
			[]interface{}{[]interface{}{1.0, 2.0}, []interface{}{3.0, 4.0}},
			[]interface{}{[]interface{}{1.5, 2.5}, []interface{}{3.5, 4.5}},
		}},
		{`({coords: [[[]], [[1]]]})`, map[string]interface{}{"coords": []interface{}{
			[]interface{}{[]interface{}{}},
			[]interface{}{[]interface{}{1.0}},
		}}},
	}
	for _, c := range cases {
		func() {
			defer func() {
				if r := recover(); r != nil {
					t.Errorf("Export of %s: Go panic escaped: %v", c.src, r)
				}
			}()
			vm := New()
			v, err := vm.Run(c.src)
			if err != nil {
				t.Fatalf("%s: %v", c.src, err)
			}
			got, err := v.Export()
			if err != nil {
				t.Errorf("Export of %s: unexpected error %v", c.src, err)
				return
			}
			if n := normalize(got); !reflect.DeepEqual(n, c.want) {
				t.Errorf("Export of %s = %#v, want data structurally equal to %#v", c.src, got, c.want)
			}
		}()
	}
}

// normalize turns typed slices / numeric types into []interface{} / float64 so that only structure is compared.
func normalize(x interface{}) interface{} {
	if x == nil {
		return nil
	}
	rv := reflect.ValueOf(x)
	switch rv.Kind() {
	case reflect.Slice:
		out := make([]interface{}, rv.Len())
		for i := range out {
			out[i] = normalize(rv.Index(i).Interface())
		}
		return out
	case reflect.Map:
		out := map[string]interface{}{}
		for _, k := range rv.MapKeys() {
			out[k.String()] = normalize(rv.MapIndex(k).Interface())
		}
		return out
	case reflect.Int, reflect.Int8, reflect.Int16, reflect.Int32, reflect.Int64:
		return float64(rv.Int())
	case reflect.Uint, reflect.Uint8, reflect.Uint16, reflect.Uint32, reflect.Uint64:
		return float64(rv.Uint())
	case reflect.Float32, reflect.Float64:
		return rv.Float()
	}
	return x
}
