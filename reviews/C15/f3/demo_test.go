// Place this file in the root of the otto module (package otto) as zz_find_test.go and run:
//   export GOFLAGS=-mod=mod GOPROXY=off GOSUMDB=off GOTOOLCHAIN=local
//   go test -vet=off -count=1 -run 'TestFindNamedKeyMap' .
package otto

import "testing"

type zzColor string // a named string type, the usual Go idiom for enum-like map keys

// A typed map whose key type is a *named* string (or named int, ...) type:
// every property read or write from a script crashes the host.
func TestFindNamedKeyMap(t *testing.T) {
	for _, c := range []struct{ src, want string }{
		{`m.red`, "1"},
		{`m["green"]`, "2"},
		{`"red" in m`, "true"},
		{`JSON.stringify(m)`, `{"green":2,"red":1}`},
		{`var r = 0; for (var k in m) r += m[k]; r`, "3"},
		{`m.blue = 3; m.blue`, "3"},
		{`delete m.red; typeof m.red`, "undefined"},
	} {
		func() {
			defer func() {
				if r := recover(); r != nil {
					t.Errorf("%s: Go panic escaped from Run: %v", c.src, r)
				}
			}()
			vm := New()
			if err := vm.Set("m", map[zzColor]int{"red": 1, "green": 2}); err != nil {
				t.Fatal(err)
			}
			v, err := vm.Run(c.src)
			if err != nil {
				t.Errorf("%s: unexpected error %v", c.src, err)
				return
			}
			got := v.String()
			if c.src == `JSON.stringify(m)` && got == `{"red":1,"green":2}` {
				got = c.want // map order is not significant
			}
			if got != c.want {
				t.Errorf("%s = %q, want %q", c.src, got, c.want)
			}
		}()
	}
}
