// Place this file in the root of the otto module (package otto) as zz_find_test.go and run:
//   export GOFLAGS=-mod=mod GOPROXY=off GOSUMDB=off GOTOOLCHAIN=local
//   go test -vet=off -count=1 -run 'TestFindReplacementCharString' .
package otto

import "testing"

// A Go string containing U+FFFD REPLACEMENT CHARACTER (valid UTF-8: EF BF BD, a perfectly
// ordinary BMP code point) does not look like the same string to scripts.
func TestFindReplacementCharString(t *testing.T) {
	const in = "a\uFFFDb"
	vm := New()
	if err := vm.Set("s", in); err != nil {
		t.Fatal(err)
	}
	// The Go side round-trips ...
	if v, _ := vm.Get("s"); v.String() != in {
		t.Fatalf("Get(s) = %q", v.String())
	}
	// ... but the script does not see the natural counterpart.
	for _, c := range []struct{ src, want string }{
		{`s.length`, "3"},
		{`s.charCodeAt(1)`, "65533"},                    // ES5.1 15.5.4.5: code unit at position 1
		{`s.charAt(1) === "\uFFFD"`, "true"},            // ES5.1 15.5.4.4
		{`typeof s[1]`, "string"},                       // ES5.1 15.5.5.2
		{`s[0] + s[1] + s[2] === s`, "true"},
		{`s.charAt(0) + s.charAt(1) + s.charAt(2) === s`, "true"},
		{`Object(s).hasOwnProperty("1")`, "true"},       // ES5.1 15.5.5.2
		{`"\uFFFD".charCodeAt(0)`, "65533"},             // same defect without any Go value
	} {
		v, err := vm.Run(c.src)
		if err != nil {
			t.Errorf("%s: %v", c.src, err)
			continue
		}
		if v.String() != c.want {
			t.Errorf("%s = %s, want %s", c.src, v.String(), c.want)
		}
	}
}
