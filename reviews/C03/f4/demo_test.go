// Place this file in the worktree root (package otto) as zz_find_f4_test.go and run:
//
//	cd /tmp/wt4/C03 && go test -vet=off -count=1 -run 'TestFindC03F4' .
//
// C03 / regular-expression literal + ASI: ES5.1 7.8.5
//   RegularExpressionLiteral :: / RegularExpressionBody / RegularExpressionFlags
//   RegularExpressionFlags :: [empty] | RegularExpressionFlags IdentifierPart
// the flags are the IdentifierPart characters *immediately* following the
// closing slash.  otto takes the NEXT IDENTIFIER TOKEN as flags, even when
// white space, comments or a line terminator separate it from the literal.
package otto

import (
	"testing"

	"github.com/robertkrimen/otto/ast"
	"github.com/robertkrimen/otto/parser"
)

func TestFindC03F4_RegExpFlagsAcrossNewline(t *testing.T) {
	// (a) valid program (ASI, ES5.1 7.9.1 rule 1) is rejected
	vm := New()
	src := "var i, re = /ab+c/\ni = 1\ni"
	v, err := vm.Run(src)
	if err != nil {
		t.Errorf("%q: valid program rejected: %v", src, err)
	} else if v.String() != "1" {
		t.Errorf("%q = %v, want 1", src, v)
	}

	// (b) silently different tree: the identifier statement on the next line becomes the flags
	src = "var g = 0\nvar re = /a/\ng\n"
	prog, err := parser.ParseFile(nil, "", src, 0)
	if err != nil {
		t.Fatalf("%q: %v", src, err)
	}
	if len(prog.Body) != 3 {
		t.Errorf("%q: want 3 statements (var; var; g;), got %d", src, len(prog.Body))
	}
	re := prog.Body[1].(*ast.VariableStatement).List[0].(*ast.VariableExpression).Initializer.(*ast.RegExpLiteral)
	if re.Flags != "" || re.Literal != "/a/" {
		t.Errorf("%q: want literal /a/ with no flags, got Literal=%q Flags=%q", src, re.Literal, re.Flags)
	}
	v, err = vm.Run("var g = 0\nvar re = /a/\ng\nre.global")
	if err != nil || v.String() != "false" {
		t.Errorf("re.global = %v (%v), want false", v, err)
	}
}
