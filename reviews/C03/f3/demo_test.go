// Place this file in the worktree root (package otto) as zz_find_f3_test.go and run:
//
//	cd /tmp/wt4/C03 && go test -vet=off -count=1 -run 'TestFindC03F3' .
//
// C03 / automatic semicolon insertion: ES5.1 7.6 and 11.2 allow any
// IdentifierName (reserved words included) after "." .  When that name is a
// reserved word (other than this/break/continue/return/throw/debugger) the
// lexer does not arm automatic semicolon insertion, so a following line break
// does not end the statement.
package otto

import (
	"testing"

	"github.com/robertkrimen/otto/ast"
	"github.com/robertkrimen/otto/parser"
)

func TestFindC03F3_KeywordPropertyNameThenNewline(t *testing.T) {
	vm := New()
	// reference: same program with an ordinary name works
	if v, err := vm.Run("var o = {remove: 3}\nvar f = o.remove\nf"); err != nil || v.String() != "3" {
		t.Fatalf("reference program: %v %v", v, err)
	}
	for _, name := range []string{"delete", "default", "catch", "class", "in", "new", "typeof", "finally", "if"} {
		src := "var o = {" + name + ": 3}\nvar f = o." + name + "\nf"
		v, err := vm.Run(src)
		if err != nil {
			t.Errorf("%q: valid program rejected: %v", src, err)
			continue
		}
		if v.String() != "3" {
			t.Errorf("%q = %v, want 3", src, v)
		}
	}

	// AST view: two statements  x = a.delete ; y()
	src := "x = a.delete\ny()"
	prog, err := parser.ParseFile(nil, "", src, 0)
	if err != nil {
		t.Fatalf("%q: valid program rejected: %v", src, err)
	}
	if len(prog.Body) != 2 {
		t.Fatalf("want 2 statements, got %d", len(prog.Body))
	}
	as := prog.Body[0].(*ast.ExpressionStatement).Expression.(*ast.AssignExpression)
	if d, ok := as.Right.(*ast.DotExpression); !ok || d.Identifier.Name != "delete" {
		t.Errorf("want a.delete on the right, got %#v", as.Right)
	}
}
