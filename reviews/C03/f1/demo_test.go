// Place this file in the worktree root (package otto) as zz_find_f1_test.go and run:
//
//	cd /tmp/wt4/C03 && go test -vet=off -count=1 -run 'TestFindC03F1' .
//
// C03 / white-space insensitivity: a lone CARRIAGE RETURN is a LineTerminator
// (ES5.1 7.3).  When the source contains  <CR> X <LF>  (X = any one-byte
// character) the lexer silently DROPS X.
package otto

import (
	"testing"

	"github.com/robertkrimen/otto/ast"
	"github.com/robertkrimen/otto/parser"
)

func TestFindC03F1_CRSwallowsNextChar(t *testing.T) {
	// 1. run-time view: same token stream, only the white space differs.
	vm := New()
	ref, err := vm.Run("var x = 5 + 1 + 2; x")
	if err != nil {
		t.Fatal(err)
	}
	got, err := vm.Run("var x = 5 +\r1\n+ 2; x")
	if err != nil {
		t.Fatalf("valid program rejected: %v", err)
	}
	if ref.String() != "8" || got.String() != "8" {
		t.Errorf("5 +<CR>1<LF>+ 2 evaluated to %s, want 8 (reference rendering gives %s)", got, ref)
	}

	// 2. AST view: the literal 1 must be in the tree.
	prog, err := parser.ParseFile(nil, "", "x = 5 +\r1\n+ 2", 0)
	if err != nil {
		t.Fatalf("parse error: %v", err)
	}
	assign := prog.Body[0].(*ast.ExpressionStatement).Expression.(*ast.AssignExpression)
	outer, ok := assign.Right.(*ast.BinaryExpression)
	if !ok {
		t.Fatalf("right side is %T", assign.Right)
	}
	if inner, ok := outer.Left.(*ast.BinaryExpression); !ok {
		t.Errorf("want ((5 + 1) + 2); got left operand %T, right operand %T (the literal 1 was dropped)", outer.Left, outer.Right)
	} else if n, ok := inner.Right.(*ast.NumberLiteral); !ok || n.Literal != "1" {
		t.Errorf("want inner right operand 1, got %#v", inner.Right)
	}

	// 3. ASI view: a<CR>b<LF>c is three expression statements (ES5.1 7.9.1 rule 1).
	prog, err = parser.ParseFile(nil, "", "a\rb\nc", 0)
	if err != nil {
		t.Errorf("a<CR>b<LF>c: valid program rejected: %v", err)
	} else if len(prog.Body) != 3 {
		t.Errorf("a<CR>b<LF>c: want 3 statements, got %d", len(prog.Body))
	}
}
