// Place this file in the worktree root (package otto) as zz_find_f2_test.go and run:
//
//	cd /tmp/wt4/C03 && go test -vet=off -count=1 -run 'TestFindC03F2' .
//
// C03 / ASI + restricted productions + comment insensitivity:
// ES5.1 7.4: "if a MultiLineComment contains a line terminator character, then
// the entire comment is considered to be a LineTerminator for purposes of
// parsing by the syntactic grammar."  otto treats such a comment as plain
// white space.
package otto

import (
	"testing"

	"github.com/robertkrimen/otto/ast"
	"github.com/robertkrimen/otto/parser"
)

func TestFindC03F2_MultiLineCommentIsLineTerminator(t *testing.T) {
	vm := New()

	// (a) restricted production  return [no LineTerminator here] Expression
	for _, src := range []string{
		"(function(){ return \n 1 })()",       // reference rendering: plain newline
		"(function(){ return /*\n*/ 1 })()",    // newline inside a comment
		"(function(){ return /* a \r\n b */ 1 })()",
	} {
		v, err := vm.Run(src)
		if err != nil {
			t.Errorf("%q: %v", src, err)
			continue
		}
		if !v.IsUndefined() {
			t.Errorf("%q returned %v, want undefined (return; 1;)", src, v)
		}
	}

	// (b) ASI rule 1: offending token separated from the previous one by a LineTerminator
	src := "var a = 1 /* first\n second */ var b = 2"
	prog, err := parser.ParseFile(nil, "", src, 0)
	if err != nil {
		t.Errorf("%q: valid program rejected: %v", src, err)
	} else if len(prog.Body) != 2 {
		t.Errorf("%q: want 2 statements, got %d", src, len(prog.Body))
	}

	// (c) restricted production  LeftHandSideExpression [no LineTerminator here] ++
	src = "a /*\n*/ ++ \n b"
	prog, err = parser.ParseFile(nil, "", src, 0)
	if err != nil {
		t.Errorf("%q: valid program rejected: %v", src, err)
	} else {
		if len(prog.Body) != 2 {
			t.Fatalf("%q: want 2 statements (a; ++b;), got %d", src, len(prog.Body))
		}
		u, ok := prog.Body[1].(*ast.ExpressionStatement).Expression.(*ast.UnaryExpression)
		if !ok || u.Postfix {
			t.Errorf("%q: want second statement to be prefix ++b", src)
		}
	}

	// same with StoreComments (readMultiLineComment has the same defect)
	if _, err := parser.ParseFile(nil, "", "var a = 1 /*\n*/ var b = 2", parser.StoreComments); err != nil {
		t.Errorf("StoreComments: valid program rejected: %v", err)
	}
}
