// Place this file in the worktree root (package otto) as zz_find_f5_test.go and run:
//
//	cd /tmp/wt4/C03 && go test -vet=off -count=1 -run 'TestFindC03F5' .
//
// C03 / literal tokens carry the value ES5 defines: ES5.1 11.1.5
//   PropertyName : NumericLiteral
//     1. Let nbr be the result of forming the value of the NumericLiteral.
//     2. Return ToString(nbr).
// otto uses the raw source text of the numeric literal as the property key.
package otto

import (
	"testing"

	"github.com/robertkrimen/otto/ast"
	"github.com/robertkrimen/otto/parser"
)

func TestFindC03F5_NumericPropertyNames(t *testing.T) {
	for _, c := range []struct{ lit, key string }{
		{"1", "1"}, // reference: passes
		{"0x10", "16"},
		{"1.0", "1"},
		{".5", "0.5"},
		{"1e3", "1000"},
		{"010", "8"}, // legacy octal, ES5.1 B.1.1
		{"1.50", "1.5"},
	} {
		src := "({" + c.lit + ": 0})"
		prog, err := parser.ParseFile(nil, "", src, 0)
		if err != nil {
			t.Errorf("%s: %v", src, err)
			continue
		}
		obj := prog.Body[0].(*ast.ExpressionStatement).Expression.(*ast.ObjectLiteral)
		if got := obj.Value[0].Key; got != c.key {
			t.Errorf("%s: property key %q, want %q", src, got, c.key)
		}
	}

	vm := New()
	for _, c := range []struct{ src, want string }{
		{"({0x10: 'v'})[16]", "v"},
		{"({1.0: 'v'})[1]", "v"},
		{"({.5: 'v'})[0.5]", "v"},
		{"var o = {1e3: 'v'}; o[1000]", "v"},
		{"({get 0x10(){ return 'v' }})[16]", "v"},
		{"Object.keys({0x10: 1, 1.0: 2}).join()", "1,16"},
	} {
		v, err := vm.Run(c.src)
		if err != nil || v.String() != c.want {
			t.Errorf("%s = %v (%v), want %s", c.src, v, err, c.want)
		}
	}
}
