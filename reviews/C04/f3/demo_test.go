// Finding C04/f3: any token - punctuators, an unterminated string, a malformed number -
// is swallowed as an object literal property name.
//
// Place this file in the root of the otto module (package otto) as zz_find_f3_test.go and run:
//
//	export GOFLAGS=-mod=mod GOPROXY=off GOSUMDB=off GOTOOLCHAIN=local
//	go test -vet=off -count=1 -run 'TestFindF3' .
package otto

import (
	"testing"

	"github.com/robertkrimen/otto/parser"
)

// ES5.1 11.1.5: PropertyName : IdentifierName | StringLiteral | NumericLiteral.
// ES5.1 7.8.4: a string literal cannot contain a LineTerminator; 7.8.3: "0x" and "1e" are
// not NumericLiterals.
func TestFindF3_JunkPropertyNameIsRejected(t *testing.T) {
	for _, src := range []string{
		"x = {+:1}",
		"x = {[:1}",
		"x = {]:1}",
		"x = {;:1}",
		"x = {/:1}",
		"x = {>>>=:1}",
		"x = {a:1, &&:2}",
		"x = {'a\n:1}",  // unterminated string literal
		"x = {\"a\r:1}", // unterminated string literal
		"x = {0x:1}",    // malformed hex literal
		"x = {1e:1}",    // malformed exponent
		"x = {get +(){ return 1 }}",
		"x = {set ;(v){}}",
	} {
		if _, err := parser.ParseFile(nil, "", src, 0); err == nil {
			t.Errorf("%q: accepted, want SyntaxError", src)
		}
	}
}

func TestFindF3_RuntimeCreatesEmptyNamedProperty(t *testing.T) {
	vm := New()
	value, err := vm.Run("var o = {'a\n:1, +:2}; Object.keys(o).length + ':' + o['']")
	if err == nil {
		t.Errorf("no SyntaxError; script evaluated to %q", value.String())
	}
}
