// Finding C04/f2: "continue L" is accepted when L labels a statement that is not a loop.
//
// Place this file in the root of the otto module (package otto) as zz_find_f2_test.go and run:
//
//	export GOFLAGS=-mod=mod GOPROXY=off GOSUMDB=off GOTOOLCHAIN=local
//	go test -vet=off -count=1 -run 'TestFindF2' .
package otto

import (
	"testing"

	"github.com/robertkrimen/otto/parser"
)

// ES5.1 12.7: a program is syntactically incorrect if it contains "continue Identifier"
// where Identifier does not appear in the label set of an enclosing IterationStatement.
func TestFindF2_ContinueToNonIterationLabelIsRejected(t *testing.T) {
	for _, src := range []string{
		"a: { while (1) { continue a; } }",
		"a: if (x) { for (;;) { continue a; } }",
		"a: switch (1) { case 1: while (1) { continue a; } }",
		"while (1) { a: { continue a; } }",
		"while (1) { a: continue a; }",
		"a: for (;;) { b: { continue b; } }",
		"a: try { do { continue a; } while (0) } finally {}",
	} {
		if _, err := parser.ParseFile(nil, "", src, 0); err == nil {
			t.Errorf("%q: accepted, want SyntaxError (ES5.1 12.7)", src)
		}
	}

	// Sanity: the legal forms stay legal.
	for _, src := range []string{
		"a: while (1) { continue a; }",
		"a: b: for (;;) { continue a; }",
		"a: do { b: { for (;;) { continue a; } } } while (0)",
	} {
		if _, err := parser.ParseFile(nil, "", src, 0); err != nil {
			t.Errorf("%q: rejected: %v", src, err)
		}
	}
}

// What the runtime does with the accepted program: the continue completion escapes
// every enclosing statement and the rest of the script is silently skipped.
func TestFindF2_RuntimeSilentlyAbortsScript(t *testing.T) {
	vm := New()
	_, err := vm.Run(`
		var n = 0, after = "not reached";
		a: {
			while (n < 3) { n++; continue a; }
		}
		after = "reached";
	`)
	if err == nil {
		after, _ := vm.Get("after")
		n, _ := vm.Get("n")
		t.Errorf("no SyntaxError; script ran with n=%v after=%v", n, after)
	}
}
