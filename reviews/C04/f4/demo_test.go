// Finding C04/f4: regular expression literal flags are never validated by the parser;
// duplicate flags only fail when the literal is evaluated and unknown flags never fail.
//
// Place this file in the root of the otto module (package otto) as zz_find_f4_test.go and run:
//
//	export GOFLAGS=-mod=mod GOPROXY=off GOSUMDB=off GOTOOLCHAIN=local
//	go test -vet=off -count=1 -run 'TestFindF4' .
package otto

import (
	"testing"

	"github.com/robertkrimen/otto/parser"
)

// ES5.1 7.8.5: "If the call to new RegExp would generate an error as specified in 15.10.4.1,
// the error must be treated as an early error (Clause 16)".
// ES5.1 15.10.4.1: "If F contains any character other than "g", "i", or "m", or if it
// contains the same character more than once, then throw a SyntaxError exception."
func TestFindF4_BadFlagsAreAnEarlyError(t *testing.T) {
	for _, src := range []string{
		"/a/gg",
		"/a/gig",
		"/a/x",
		"/a/gimy",
		"/a/G",
		"if (false) { /a/mm }",
		"function never() { return /a/q }",
	} {
		if _, err := parser.ParseFile(nil, "", src, 0); err == nil {
			t.Errorf("%q: accepted, want SyntaxError", src)
		}
	}
}

// Rejected source must have no side effect on a runtime asked to run it.
func TestFindF4_NoSideEffectBeforeTheError(t *testing.T) {
	vm := New()
	_, err := vm.Run("side = 1; /a/gg")
	if err == nil {
		t.Errorf("/a/gg: no error")
	}
	if side, _ := vm.Get("side"); !side.IsUndefined() {
		t.Errorf("/a/gg: the statements before the bad literal were executed (side = %v)", side)
	}

	// Unknown flags are not rejected at all, not even on evaluation.
	vm = New()
	if value, err := vm.Run("side = 1; /a/xyz.test('a')"); err == nil {
		t.Errorf("/a/xyz: no error, evaluated to %v", value)
	}
	if _, err := vm.Run("new RegExp('a', 'x')"); err == nil {
		t.Errorf("new RegExp('a', 'x'): no SyntaxError (15.10.4.1)")
	}
}
