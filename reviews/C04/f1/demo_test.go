// Finding C04/f1: a switch statement cut off before its closing brace is accepted.
//
// Place this file in the root of the otto module (package otto) as zz_find_f1_test.go and run:
//
//	export GOFLAGS=-mod=mod GOPROXY=off GOSUMDB=off GOTOOLCHAIN=local
//	go test -vet=off -count=1 -run 'TestFindF1' .
package otto

import (
	"testing"

	"github.com/robertkrimen/otto/ast"
	"github.com/robertkrimen/otto/parser"
)

// Truncations of the valid program "switch (x) { case 1: y(); }" that end inside
// the case block are not ES5 programs (12.11: the CaseBlock ends with "}").
func TestFindF1_TruncatedSwitchIsRejected(t *testing.T) {
	for _, src := range []string{
		"switch (x) {",
		"switch (x) { case 1:",
		"switch (x) { case 1: y();",
		"switch (x) { default: y()",
		"function f() { return 1 } switch (f()) { case 1: f(); break; default:",
	} {
		program, err := parser.ParseFile(nil, "", src, 0)
		if err != nil {
			continue
		}
		t.Errorf("%q: accepted, want a SyntaxError (missing '}')", src)

		// The accepted tree is not even well-formed: the switch ends before it starts
		// and its children lie outside it.
		stmt := program.Body[len(program.Body)-1].(*ast.SwitchStatement)
		if stmt.Idx1() < stmt.Idx0() || int(stmt.Idx1()) > len(src)+1 {
			t.Errorf("%q: SwitchStatement span [%d,%d) is not a span of the file", src, stmt.Idx0(), stmt.Idx1())
		}
		if d := stmt.Discriminant; d.Idx0() < stmt.Idx0() || d.Idx1() > stmt.Idx1() {
			t.Errorf("%q: discriminant [%d,%d) outside its parent switch [%d,%d)", src, d.Idx0(), d.Idx1(), stmt.Idx0(), stmt.Idx1())
		}
	}
}

// Rejected source must have no side effect on a runtime asked to run it.
func TestFindF1_TruncatedSwitchHasNoSideEffect(t *testing.T) {
	vm := New()
	_, err := vm.Run("side = 1; switch (side) { case 1: side = 2")
	if err == nil {
		t.Errorf("Run of a truncated switch returned no error")
	}
	if side, _ := vm.Get("side"); !side.IsUndefined() {
		t.Errorf("truncated program was executed: side = %v, want undefined", side)
	}
}
