// Finding C04/f5: a multi-line comment that contains a line terminator is not treated
// as a LineTerminator by the parser.
//
// Place this file in the root of the otto module (package otto) as zz_find_f5_test.go and run:
//
//	export GOFLAGS=-mod=mod GOPROXY=off GOSUMDB=off GOTOOLCHAIN=local
//	go test -vet=off -count=1 -run 'TestFindF5' .
package otto

import (
	"testing"

	"github.com/robertkrimen/otto/parser"
)

// ES5.1 7.4: "if a MultiLineComment contains a line terminator character, then the entire
// comment is considered to be a LineTerminator for purposes of parsing by the syntactic grammar."
func TestFindF5_CommentWithNewlineIsALineTerminator(t *testing.T) {
	// 12.13: throw [no LineTerminator here] Expression ;
	// 11.3 + 7.9.1: a [no LineTerminator here] ++  => "a; ++" which is not a program.
	for _, src := range []string{
		"throw /*\n*/ x",
		"throw /* one\r\n two */ new Error('x')",
		"a /*\n*/ ++",
		"a /*\u2028*/ --",
	} {
		if _, err := parser.ParseFile(nil, "", src, 0); err == nil {
			t.Errorf("%q: accepted, want SyntaxError", src)
		}
		// the same text with a plain newline is rejected today:
		plain := map[string]string{"throw /*\n*/ x": "throw \n x", "a /*\n*/ ++": "a \n ++"}[src]
		if plain != "" {
			if _, err := parser.ParseFile(nil, "", plain, 0); err == nil {
				t.Errorf("%q: accepted (control)", plain)
			}
		}
	}
}

// The same root cause gives wrong results for accepted programs (7.9.1 rule 3, "return"
// is a restricted production): the comment must end the return statement.
func TestFindF5_ReturnFollowedByCommentWithNewline(t *testing.T) {
	vm := New()
	value, err := vm.Run("function f() { return /* see\n below */ 1 }; f()")
	if err != nil {
		t.Fatal(err)
	}
	if !value.IsUndefined() {
		t.Errorf("f() = %v, want undefined (return; 1)", value)
	}
	control, _ := vm.Run("function g() { return // see\n 1 }; g()")
	if !control.IsUndefined() {
		t.Errorf("control g() = %v, want undefined", control)
	}
}
