// Place this file in the root of the otto worktree (package otto) as zz_find_test.go and run:
//   export GOFLAGS=-mod=mod GOPROXY=off GOSUMDB=off GOTOOLCHAIN=local
//   go test -vet=off -count=1 -run 'TestFindC08F2' .
//
// concat, map, slice and splice turn the HOLES of the receiver into own properties holding
// undefined in the array they return. ES5.1 15.4.4.4 step 5.b.iii.3, 15.4.4.19 step 8.c,
// 15.4.4.10 step 10.c and 15.4.4.12 step 9.c only define the result element when
// [[HasProperty]] of the source index is true, so the holes must stay holes.
package otto

import "testing"

func TestFindC08F2(t *testing.T) {
	for _, tc := range []struct{ src, want string }{
		{`1 in [1,,3].concat()`, "false"},
		{`2 in [0].concat([1,,3])`, "false"},
		{`1 in [1,,3].map(function(x){ return x })`, "false"},
		{`1 in [1,,3].slice(0)`, "false"},
		{`1 in [1,,3].splice(0, 3)`, "false"},
		// Visible in ordinary code: holes are skipped by forEach / keys / hasOwnProperty.
		{`var n = 0; [1,,3].concat().forEach(function(){ n++ }); n`, "2"},
		{`Object.keys([1,,3].slice()).join()`, "0,2"},
		{`Object.keys(new Array(3).map(function(){ return 1 })).length`, "0"},
		{`[1,,3].map(function(x){ return x }).hasOwnProperty(1)`, "false"},
	} {
		vm := New()
		v, err := vm.Run(tc.src)
		if err != nil {
			t.Errorf("%s: unexpected error %v", tc.src, err)
			continue
		}
		if got := v.String(); got != tc.want {
			t.Errorf("%s\n   got: %s\n  want: %s", tc.src, got, tc.want)
		}
	}
}
