// Place this file in the root of the otto worktree (package otto) as zz_find_test.go and run:
//   export GOFLAGS=-mod=mod GOPROXY=off GOSUMDB=off GOTOOLCHAIN=local
//   go test -vet=off -count=1 -run 'TestFindC08F5' .
//
// Array.prototype.sort treats a comparefn result of +Infinity / -Infinity as 0 ("equal").
// ES5.1 15.4.4.11: comparefn "returns a negative value if x < y, zero if x = y, or a positive
// value if x > y"; SortCompare step 11-12 only tests "< 0" / "> 0". -Infinity is negative and
// +Infinity is positive, and such a comparefn is a consistent comparison function, so the
// array must come back sorted.
package otto

import "testing"

func TestFindC08F5(t *testing.T) {
	for _, tc := range []struct{ src, want string }{
		{`[3,1,2,5,4].sort(function(a, b){ return a > b ? Infinity : a < b ? -Infinity : 0 }).join()`, "1,2,3,4,5"},
		{`[3,1,2,5,4].sort(function(a, b){ return a < b ? Infinity : a > b ? -Infinity : 0 }).join()`, "5,4,3,2,1"},
		// a very common idiom that produces infinities: dividing by a zero "weight"
		{`[{k:3},{k:1},{k:2}].sort(function(a, b){ return (a.k - b.k) / 0 }).map(function(o){ return o.k }).join()`, "1,2,3"},
	} {
		vm := New()
		v, err := vm.Run(tc.src)
		if err != nil {
			t.Errorf("%s: unexpected error %v", tc.src, err)
			continue
		}
		if got := v.String(); got != tc.want {
			t.Errorf("%s\n   got: %s\n  want: %s", tc.src, got, tc.want)
		}
	}
}
