// Place this file in the root of the otto worktree (package otto) as zz_find_test.go and run:
//   export GOFLAGS=-mod=mod GOPROXY=off GOSUMDB=off GOTOOLCHAIN=local
//   go test -vet=off -count=1 -run 'TestFindC08F3' .
//
// Array.prototype.splice() called with NO arguments empties the receiver and returns all of
// its elements. ES5.1 15.4.4.12: relativeStart = ToInteger(undefined) = 0 (step 5),
// actualDeleteCount = min(max(ToInteger(undefined),0), len-0) = 0 (step 7): nothing is removed
// and an empty array is returned.
package otto

import "testing"

func TestFindC08F3(t *testing.T) {
	for _, tc := range []struct{ src, want string }{
		{`var a = [1,2,3]; var r = a.splice(); r.length + ':' + a.length + ':' + a.join()`, "0:3:1,2,3"},
		{`var o = {length: 2, 0: 'a', 1: 'b'}; var r = Array.prototype.splice.call(o); r.length + ':' + o.length + ':' + o[0] + o[1]`, "0:2:ab"},
		// Frozen array: nothing has to be deleted, only length is re-put ... which throws per
		// 8.12.5 because length is not writable, but the elements must survive.
		{`var a = [1,2,3]; Object.defineProperty(a, 'length', {writable: false}); try { a.splice() } catch (e) {} a.join()`, "1,2,3"},
	} {
		vm := New()
		v, err := vm.Run(tc.src)
		if err != nil {
			t.Errorf("%s: unexpected error %v", tc.src, err)
			continue
		}
		if got := v.String(); got != tc.want {
			t.Errorf("%s\n   got: %s\n  want: %s", tc.src, got, tc.want)
		}
	}
}
