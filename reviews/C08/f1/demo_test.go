// Place this file in the root of the otto worktree (package otto) as zz_find_test.go and run:
//   export GOFLAGS=-mod=mod GOPROXY=off GOSUMDB=off GOTOOLCHAIN=local
//   go test -vet=off -count=1 -run 'TestFindC08F1' .
//
// A Go slice handed to the VM by value is an array for Array.isArray and for every
// Array.prototype method. Any method that SHRINKS it (pop, shift, splice, length = n) makes
// vm.Run panic with a raw Go runtime panic ("reflect: reflect.Value.SetLen using unaddressable
// value") instead of returning the ES5 15.4.4.6 result (or, at worst, a JavaScript exception).
package otto

import (
	"fmt"
	"testing"
)

func zzC08F1Run(vm *Otto, src string) (out string) {
	defer func() {
		if r := recover(); r != nil {
			out = fmt.Sprintf("GO PANIC escaped vm.Run: %v", r)
		}
	}()
	v, err := vm.Run(src)
	if err != nil {
		return "error: " + err.Error()
	}
	return v.String()
}

func TestFindC08F1(t *testing.T) {
	for _, tc := range []struct{ src, want string }{
		// 15.4.4.6 pop: returns the last element, length becomes len-1.
		{`var r = gs.pop(); r + ':' + gs.length + ':' + gs.join()`, "2:2:3,1"},
		// 15.4.4.9 shift
		{`var r = gs.shift(); r + ':' + gs.length + ':' + gs.join()`, "3:2:1,2"},
		// 15.4.4.12 splice
		{`var r = gs.splice(0, 1); r.join() + ':' + gs.length + ':' + gs.join()`, "3:2:1,2"},
		// 15.4.5.1 / property text: shrinking length deletes the elements beyond it.
		{`gs.length = 1; gs.length + ':' + gs.join()`, "1:3"},
	} {
		vm := New()
		if err := vm.Set("gs", []int{3, 1, 2}); err != nil {
			t.Fatal(err)
		}
		if got := zzC08F1Run(vm, `Array.isArray(gs)`); got != "true" {
			t.Fatalf("Array.isArray(gs) = %s", got)
		}
		if got := zzC08F1Run(vm, tc.src); got != tc.want {
			t.Errorf("%s\n   got: %s\n  want: %s", tc.src, got, tc.want)
		}
	}
}
