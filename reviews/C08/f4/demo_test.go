// Place this file in the root of the otto worktree (package otto) as zz_find_test.go and run:
//   export GOFLAGS=-mod=mod GOPROXY=off GOSUMDB=off GOTOOLCHAIN=local
//   go test -vet=off -count=1 -run 'TestFindC08F4' .
//
// reduce / reduceRight without an initialValue on a receiver whose length is > 0 but that has
// no present element (only holes) return undefined. ES5.1 15.4.4.21 step 8.c and 15.4.4.22
// step 8.c: "If kPresent is false, throw a TypeError exception."
package otto

import "testing"

func TestFindC08F4(t *testing.T) {
	for _, src := range []string{
		`[,,].reduce(function(a, b){ return a + b })`,
		`[,,].reduceRight(function(a, b){ return a + b })`,
		`new Array(5).reduce(function(a, b){ return a + b })`,
		`(function(){ var a = [1]; delete a[0]; return a })().reduce(function(a, b){ return a + b })`,
		`Array.prototype.reduce.call({length: 2}, function(a, b){ return a + b })`,
		`Array.prototype.reduceRight.call({length: 2, 2: 'x'}, function(a, b){ return a + b })`,
	} {
		vm := New()
		v, err := vm.Run(`var r; try { r = 'returned ' + String(` + src + `) } catch (e) { r = e.name } r`)
		if err != nil {
			t.Errorf("%s: unexpected error %v", src, err)
			continue
		}
		if got := v.String(); got != "TypeError" {
			t.Errorf("%s\n   got: %s\n  want: TypeError", src, got)
		}
	}
}
