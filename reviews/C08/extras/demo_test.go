// Additional, smaller C08 violations found during the review (each sub-test has its own root cause).
// Place this file in the root of the otto worktree (package otto) as zz_find_test.go and run:
//   export GOFLAGS=-mod=mod GOPROXY=off GOSUMDB=off GOTOOLCHAIN=local
//   go test -vet=off -count=1 -run 'TestFindC08Extra' .
package otto

import "testing"

func zzC08Expect(t *testing.T, src, want string) {
	t.Helper()
	vm := New()
	v, err := vm.Run(src)
	got := ""
	if err != nil {
		got = "error: " + err.Error()
	} else {
		got = v.String()
	}
	if got != want {
		t.Errorf("%s\n   got: %s\n  want: %s", src, got, want)
	}
}

// E1: lastIndexOf with fromIndex == length starts at index `length` instead of length-1
// (15.4.4.15 step 6: k = min(n, len-1)). builtinArrayLastIndexOf uses `index > length`.
func TestFindC08ExtraLastIndexOf(t *testing.T) {
	zzC08Expect(t, `Array.prototype.lastIndexOf.call({length: 2, 0: 'a', 1: 'b', 2: 'x'}, 'x', 2)`, "-1")
	zzC08Expect(t, `Array.prototype[2] = 'x'; [1, 2].lastIndexOf('x', 2)`, "-1")
	// 15.4.4.15 step 4: len == 0 returns -1 before ToInteger(fromIndex) is evaluated.
	zzC08Expect(t, `var c = 0; [].lastIndexOf(1, {valueOf: function(){ c++; return 0 }}); c`, "0")
}

// E2: [[DefineOwnProperty]]("length", {value: <current length>}) on an array whose length is
// not writable must succeed (15.4.5.1 step 3.f "newLen >= oldLen" -> default 8.12.9, same value).
// arrayDefineOwnProperty tests `newLength > length` and rejects.
func TestFindC08ExtraSameLength(t *testing.T) {
	zzC08Expect(t, `var a = [1, 2]; Object.freeze(a); Object.defineProperty(a, 'length', {value: 2}); a.length`, "2")
	zzC08Expect(t, `var a = [1, 2]; Object.defineProperty(a, 'length', {writable: false}); Object.defineProperty(a, 'length', {value: 2, writable: false}); a.length`, "2")
}

// E3: reverse, lower missing / upper present: 15.4.4.8 step 6.i does [[Put]](lowerP) first and
// [[Delete]](upperP) second; otto deletes first, so when the Put throws (non-extensible
// receiver) the upper element is already lost.
func TestFindC08ExtraReverseOrder(t *testing.T) {
	zzC08Expect(t, `var a = [, 10, 20]; Object.preventExtensions(a); var r; try { a.reverse(); r = 'no throw' } catch (e) { r = e.name } r + ':' + (2 in a) + ':' + a[2]`, "TypeError:true:20")
}

// E4: a generic descriptor ({enumerable: ..} / {configurable: ..}) applied to an existing data
// property silently makes it non-writable (objectDefineOwnProperty keeps the "writable not set"
// bit 0o200 unless the descriptor is a data descriptor). On an array's length this freezes the
// length: push throws, indexed stores beyond the length are dropped. 8.12.9 step 12 / 15.4.5.1 3.a.
func TestFindC08ExtraGenericDescriptor(t *testing.T) {
	zzC08Expect(t, `var a = [1, 2]; Object.defineProperty(a, 'length', {enumerable: false}); a.push(3); a.length`, "3")
	zzC08Expect(t, `var a = [1, 2]; Object.defineProperty(a, 'length', {configurable: false}); a[5] = 3; a.length`, "6")
	zzC08Expect(t, `var a = [1, 2]; Object.defineProperty(a, 0, {enumerable: false}); a.reverse().join()`, "2,1")
}

// E5: default sort compares the UTF-8 bytes of the strings (code point order) instead of the
// UTF-16 code units required by SortCompare step 13 / 11.8.5: U+FF5E (0xFF5E) must sort AFTER
// U+1F600 (0xD83D 0xDE00).
func TestFindC08ExtraSortUTF16(t *testing.T) {
	zzC08Expect(t, `var a = ["～", "😀"].sort(); a[0] === "😀"`, "true")
}

// E6: ToUint32 of a length >= 2^63 (9.6: modulo 2^32) yields 0: toUint32 converts through int64.
func TestFindC08ExtraHugeLength(t *testing.T) {
	zzC08Expect(t, `var o = {length: 1e20}; Array.prototype.push.call(o, 'x'); o.length`, "1661992961")
}
