// Place as /tmp/wt4/C14/zz_find_test.go (package otto, module root) and run:
//   export GOFLAGS=-mod=mod GOPROXY=off GOSUMDB=off GOTOOLCHAIN=local
//   cd /tmp/wt4/C14 && go test -vet=off -count=1 -run 'TestFindCopyAfterEvalRebound' .
//
// The global binding "eval" is {writable, configurable} (ES5.1 15.1), so a
// program may delete it, overwrite it, or turn it into an accessor.  Otto.Copy()
// of such a runtime panics in the host instead of producing a copy of the same shape.
package otto

import (
	"testing"
)

func TestFindCopyAfterEvalRebound(t *testing.T) {
	for _, tc := range []struct{ pre, check, want string }{
		{`delete this.eval`, `typeof eval + "," + typeof parseInt + "," + [1,2].concat(3).length`, "undefined,function,3"},
		{`eval = 1`, `eval + "," + typeof parseInt`, "1,function"},
		{`Object.defineProperty(this, "eval", {get: function () { return 7 }, configurable: true})`, `eval + "," + typeof parseInt`, "7,function"},
	} {
		func() {
			vm := New()
			if _, err := vm.Run(tc.pre); err != nil {
				t.Fatalf("%s: %v", tc.pre, err)
			}
			// The original keeps working.
			if v, err := vm.Run(tc.check); err != nil || v.String() != tc.want {
				t.Errorf("original after %q: got %v, %v want %q", tc.pre, v, err, tc.want)
			}
			defer func() {
				if r := recover(); r != nil {
					t.Errorf("after %q: Otto.Copy() HOST GO PANIC: %v", tc.pre, r)
				}
			}()
			cp := vm.Copy()
			v, err := cp.Run(tc.check)
			if err != nil {
				t.Errorf("copy after %q: %v", tc.pre, err)
				return
			}
			if v.String() != tc.want {
				t.Errorf("copy after %q: got %q want %q", tc.pre, v.String(), tc.want)
			}
		}()
	}
}
