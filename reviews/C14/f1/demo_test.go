// Place as /tmp/wt4/C14/zz_find_test.go (package otto, module root) and run:
//   export GOFLAGS=-mod=mod GOPROXY=off GOSUMDB=off GOTOOLCHAIN=local
//   cd /tmp/wt4/C14 && go test -vet=off -count=1 -run 'TestFindDescriptorOfBuiltinAccessorPanics' .
//
// Reading the attributes of every own property of a function object (or of an
// Error instance) with Object.getOwnPropertyDescriptor takes the whole host
// process down with a Go runtime panic (interface conversion), instead of
// returning a property descriptor (ES5.1 15.2.3.3 / 8.10.4).
package otto

import (
	"fmt"
	"testing"
)

func findF1Run(src string) (out string, goPanic interface{}) {
	defer func() {
		if r := recover(); r != nil {
			goPanic = r
		}
	}()
	v, err := New().Run(src)
	if err != nil {
		return "JS error: " + err.Error(), nil
	}
	return v.String(), nil
}

func TestFindDescriptorOfBuiltinAccessorPanics(t *testing.T) {
	for _, tc := range []struct{ src, want string }{
		// "caller" is listed by getOwnPropertyNames, so a descriptor must come back.
		{`Object.getOwnPropertyNames(function(){}).indexOf("caller") >= 0`, "true"},
		{`var d = Object.getOwnPropertyDescriptor(function(){}, "caller"); typeof d`, "object"},
		{`var d = Object.getOwnPropertyDescriptor(new Error("x"), "stack"); typeof d`, "object"},
		{`var d = Object.getOwnPropertyDescriptor(new TypeError("x"), "stack"); typeof d`, "object"},
		{`var e; try { null.x } catch (x) { e = x }; typeof Object.getOwnPropertyDescriptor(e, "stack")`, "object"},
		// The ordinary "dump the shape of an object" loop: all attributes of all own properties.
		{`function shape(o) {
			return Object.getOwnPropertyNames(o).map(function (n) {
				var d = Object.getOwnPropertyDescriptor(o, n);
				return n + ":" + (d.writable ? "W" : "-") + (d.enumerable ? "E" : "-") + (d.configurable ? "C" : "-");
			}).sort().join(" ");
		 }
		 shape(function (a, b) {}).indexOf("length:---") >= 0`, "true"},
	} {
		got, p := findF1Run(tc.src)
		if p != nil {
			t.Errorf("%s\n  HOST GO PANIC (not a JS exception): %v", tc.src, fmt.Sprint(p))
			continue
		}
		if got != tc.want {
			t.Errorf("%s\n  got %q want %q", tc.src, got, tc.want)
		}
	}
}
