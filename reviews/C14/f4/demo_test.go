// Place as /tmp/wt4/C14/zz_find_test.go (package otto, module root) and run:
//   export GOFLAGS=-mod=mod GOPROXY=off GOSUMDB=off GOTOOLCHAIN=local
//   cd /tmp/wt4/C14 && go test -vet=off -count=1 -run 'TestFindNativeErrorPrototypeClass' .
//
// ES5.1 15.11.7.7: "Each NativeError prototype object is an Error object (its
// [[Class]] is "Error")."  otto gives the six prototypes the [[Class]] values
// "EvalError", "RangeError", ... which no ES5 object may have (8.6.2, Table 8).
package otto

import (
	"testing"

	"github.com/robertkrimen/otto/underscore"
)

func TestFindNativeErrorPrototypeClass(t *testing.T) {
	const src = `
		var names = ["Error", "EvalError", "RangeError", "ReferenceError", "SyntaxError", "TypeError", "URIError"];
		var bad = [];
		for (var i = 0; i < names.length; i++) {
			var C = this[names[i]];
			var got = Object.prototype.toString.call(C.prototype);
			if (got !== "[object Error]") bad.push(names[i] + ".prototype -> " + got);
			got = Object.prototype.toString.call(new C("m"));           // instances are right
			if (got !== "[object Error]") bad.push("new " + names[i] + " -> " + got);
		}
		bad.join("; ")`

	fresh := New()
	under := New()
	if _, err := under.Run(underscore.Source()); err != nil {
		t.Fatal(err)
	}
	for name, vm := range map[string]*Otto{"fresh": fresh, "underscore": under, "copy": fresh.Copy()} {
		v, err := vm.Run(src)
		if err != nil {
			t.Fatalf("%s: %v", name, err)
		}
		if v.String() != "" {
			t.Errorf("%s runtime: wrong [[Class]] (want [object Error], ES5.1 15.11.7.7): %s", name, v.String())
		}
	}
}
