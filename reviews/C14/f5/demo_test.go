// Place as /tmp/wt4/C14/zz_find_test.go (package otto, module root) and run:
//   export GOFLAGS=-mod=mod GOPROXY=off GOSUMDB=off GOTOOLCHAIN=local
//   cd /tmp/wt4/C14 && go test -vet=off -count=1 -run 'TestFindRegExpPrototypeDataProperties' .
//
// ES5.1 15.10.6: the RegExp prototype object is itself a RegExp object whose data
// properties (15.10.7: source, global, ignoreCase, multiline, lastIndex) are set as if
// created by `new RegExp()`.  In otto RegExp.prototype has [[Class]] "RegExp" but none
// of the five properties, so e.g. RegExp.prototype.toString() is "/undefined/".
package otto

import (
	"testing"
)

func TestFindRegExpPrototypeDataProperties(t *testing.T) {
	const src = `
		var P = RegExp.prototype, ref = new RegExp(), bad = [];
		function attrs(d) { return (d.writable ? "W" : "-") + (d.enumerable ? "E" : "-") + (d.configurable ? "C" : "-"); }
		var want = {source: "---", global: "---", ignoreCase: "---", multiline: "---", lastIndex: "W--"};   // 15.10.7.1-5
		for (var n in want) {
			var d = Object.getOwnPropertyDescriptor(P, n), r = Object.getOwnPropertyDescriptor(ref, n);
			if (!d) { bad.push("RegExp.prototype." + n + " missing (new RegExp()." + n + " = " + JSON.stringify(r.value) + ")"); continue; }
			if (d.value !== r.value) bad.push(n + " value " + d.value);
			if (attrs(d) !== want[n]) bad.push(n + " attrs " + attrs(d));
		}
		if (P.global !== false) bad.push("RegExp.prototype.global === " + P.global);
		if (P.lastIndex !== 0) bad.push("RegExp.prototype.lastIndex === " + P.lastIndex);
		if (P.toString() !== ref.toString()) bad.push("RegExp.prototype.toString() = " + P.toString() + " want " + ref.toString());
		bad.join("\n")`
	vm := New()
	for name, r := range map[string]*Otto{"fresh": vm, "copy": vm.Copy()} {
		v, err := r.Run(src)
		if err != nil {
			t.Fatalf("%s: %v", name, err)
		}
		if v.String() != "" {
			t.Errorf("%s runtime:\n%s", name, v.String())
		}
	}
}
