// Place as /tmp/wt4/C14/zz_find_test.go (package otto, module root) and run:
//   export GOFLAGS=-mod=mod GOPROXY=off GOSUMDB=off GOTOOLCHAIN=local
//   cd /tmp/wt4/C14 && go test -vet=off -count=1 -run 'TestFindBoundFunctionShape' .
//
// Functions made by Function.prototype.bind get an own "prototype" property (and the
// default [[HasInstance]]), contrary to ES5.1 15.3.4.5 / 15.3.4.5.3:
// `new B instanceof B` is false for B = C.bind(null).
package otto

import (
	"testing"
)

func TestFindBoundFunctionShape(t *testing.T) {
	for _, tc := range []struct{ src, want string }{
		// 15.3.4.5 NOTE: bound functions do not have a prototype property.
		{`function C() {}; C.bind(null).hasOwnProperty("prototype")`, "false"},
		{`function C() {}; Object.getOwnPropertyNames(C.bind(null)).indexOf("prototype")`, "-1"},
		{`"prototype" in parseInt.bind(null)`, "false"},
		// 15.3.4.5.3 [[HasInstance]] delegates to the target function.
		{`function C() { this.x = 1 }; var B = C.bind(null); var o = new B; [o.x, o instanceof C, o instanceof B].join()`, "1,true,true"},
		{`function C() {}; var B = C.bind(null); new C instanceof B`, "true"},
		{`function C() {}; var B = C.bind(null).bind(null); new C instanceof B`, "true"},
		{`var B = Date.bind(null, 0); new Date instanceof B`, "true"},
		// the stray property must not influence instanceof either
		{`function C() {}; var B = C.bind(null); B.prototype = {}; new C instanceof B`, "true"},
	} {
		v, err := New().Run(tc.src)
		if err != nil {
			t.Errorf("%s\n  error %v", tc.src, err)
			continue
		}
		if v.String() != tc.want {
			t.Errorf("%s\n  got %q want %q", tc.src, v.String(), tc.want)
		}
	}
}
