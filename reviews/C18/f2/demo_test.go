// Place this file in the root of the otto worktree (package otto), e.g.
//   cp demo_test.go /tmp/wt4/C18/zz_find_f2_test.go
// and run:
//   cd /tmp/wt4/C18 && export GOFLAGS=-mod=mod GOPROXY=off GOSUMDB=off GOTOOLCHAIN=local && \
//     go test -vet=off -count=1 -run 'TestFindF2' .
//
// Finding 2: recursion through *direct* eval never enters a scope, so the configured stack depth
// limit does not see it. A two-statement script exhausts the Go stack: "fatal error: stack
// overflow", which kills the host process (it cannot be recovered) -- the test binary crashes.
package otto

import "testing"

// Control: the same recursion through a function is stopped by the limit.
func TestFindF2_Control(t *testing.T) {
	vm := New()
	vm.SetStackDepthLimit(50)
	_, err := vm.Run(`function f(){ f() } f()`)
	if err == nil || err.Error() != "RangeError: Maximum call stack size exceeded" {
		t.Fatalf("control: err=%v", err)
	}
}

func TestFindF2_DirectEvalRecursion(t *testing.T) {
	vm := New()
	vm.SetStackDepthLimit(50)
	// CRASHES THE TEST BINARY (fatal error: stack overflow) on the unmodified code.
	_, err := vm.Run(`var s = "eval(s)"; eval(s);`)
	if err == nil || err.Error() != "RangeError: Maximum call stack size exceeded" {
		t.Fatalf("expected RangeError: Maximum call stack size exceeded, got %v", err)
	}
	// the runtime stays usable
	if v, err := vm.Run(`1+1`); err != nil || v.String() != "2" {
		t.Fatalf("later script: %v %v", v, err)
	}
}
