// Place this file in the root of the otto worktree (package otto), e.g.
//   cp demo_test.go /tmp/wt4/C18/zz_find_f4_test.go
// and run:
//   cd /tmp/wt4/C18 && export GOFLAGS=-mod=mod GOPROXY=off GOSUMDB=off GOTOOLCHAIN=local && \
//     go test -vet=off -count=1 -run 'TestFindF4' .
//
// Finding 4 (lower confidence, see notes.md): the interrupt channel is polled only by the
// statement / expression evaluator. The index loops inside the Array built-ins run up to
// 2^32-1 iterations (~170ns each => ~12 minutes) on a sparse array or array-like without ever
// polling, so a one-expression script cannot be halted for minutes.
package otto

import (
	"testing"
	"time"
)

func f4Run(vm *Otto, src string, wait time.Duration) (panicked interface{}, finished bool, took time.Duration) {
	done := make(chan interface{}, 1)
	start := time.Now()
	go func() {
		defer func() { done <- recover() }()
		vm.Run(src) //nolint:errcheck
	}()
	time.Sleep(100 * time.Millisecond)
	vm.Interrupt <- func() { panic("halt") }
	select {
	case p := <-done:
		return p, true, time.Since(start)
	case <-time.After(wait):
		return nil, false, time.Since(start)
	}
}

// Control: the same scan written in JavaScript is interrupted at once.
func TestFindF4_Control(t *testing.T) {
	vm := New()
	vm.Interrupt = make(chan func(), 1)
	p, fin, took := f4Run(vm, `var a = new Array(4294967295); for (var i = 0; i < a.length; i++) { if (a[i] === 1) break }`, 5*time.Second)
	if !fin || p != "halt" {
		t.Fatalf("control not interrupted: fin=%v p=%v", fin, p)
	}
	t.Logf("control interrupted after %v", took)
}

func TestFindF4_NativeLoopNotInterruptible(t *testing.T) {
	for _, src := range []string{
		`new Array(4294967295).indexOf(1)`,
		`Array.prototype.reverse.call({length: 4294967295})`,
		`new Array(4294967295).forEach(function(){})`,
	} {
		vm := New()
		vm.Interrupt = make(chan func(), 1)
		p, fin, took := f4Run(vm, src, 5*time.Second)
		if !fin {
			t.Errorf("%s: interrupt function not invoked %v after it was sent (script still running; channel still holds %d pending function)", src, took, len(vm.Interrupt))
			continue
		}
		if p != "halt" {
			t.Errorf("%s: panic=%v", src, p)
		}
	}
}
