// Place this file in the root of the otto worktree (package otto), e.g.
//   cp demo_test.go /tmp/wt4/C18/zz_find_f1_test.go
// and run:
//   cd /tmp/wt4/C18 && export GOFLAGS=-mod=mod GOPROXY=off GOSUMDB=off GOTOOLCHAIN=local && \
//     go test -vet=off -count=1 -run 'TestFindF1' .
//
// Finding 1: a JavaScript try statement (catch and/or finally) intercepts the Go panic raised by
// an Interrupt function (or by a host function): the script keeps running, and Run does not
// unwind with that panic.
package otto

import (
	"errors"
	"testing"
	"time"
)

// f1Run runs src on a fresh runtime. The script can call arm(), which queues an interrupt
// function that panics with `halt`; it is delivered at the interpreter's next poll, i.e. at a
// precisely known point of the script. Returns what Run did.
func f1Run(t *testing.T, halt interface{}, src string) (vm *Otto, panicked interface{}, err error, finished bool) {
	t.Helper()
	vm = New()
	vm.Interrupt = make(chan func(), 1)
	if e := vm.Set("arm", func(call FunctionCall) Value {
		vm.Interrupt <- func() { panic(halt) }
		return Value{}
	}); e != nil {
		t.Fatal(e)
	}
	type res struct {
		p   interface{}
		err error
	}
	done := make(chan res, 1)
	go func() {
		var r res
		defer func() {
			r.p = recover()
			done <- r
		}()
		_, r.err = vm.Run(src)
	}()
	select {
	case r := <-done:
		return vm, r.p, r.err, true
	case <-time.After(3 * time.Second):
		return vm, nil, nil, false
	}
}

// The exact recipe of the package documentation ("Halting Problem"): halt is an error value.
func TestFindF1_ReadmeRecipe_TryCatch(t *testing.T) {
	halt := errors.New("Stahp")
	vm, p, err, fin := f1Run(t, halt, `
		var after = 0;
		try { arm(); for (;;) {} } catch (e) { }
		after = 1;
	`)
	if !fin {
		t.Fatal("Run did not return")
	}
	after, _ := vm.Get("after")
	if p != halt {
		t.Fatalf("Run must unwind with the interrupt's panic value %v; got panic=%v, returned err=%v, after=%v", halt, p, err, after)
	}
}

// halt is a string: the catch clause receives it as an ordinary exception and the script goes on.
func TestFindF1_ScriptContinuesAfterCatch(t *testing.T) {
	vm, p, err, fin := f1Run(t, "halt", `
		var after = 0, seen;
		try { arm(); for (;;) {} } catch (e) { seen = e; }
		after = 1;
	`)
	if !fin {
		t.Fatal("Run did not return")
	}
	after, _ := vm.Get("after")
	seen, _ := vm.Get("seen")
	if p != "halt" || after.String() != "0" {
		t.Fatalf("script continued after the interrupt panicked: panic=%v err=%v after=%v, catch clause saw %q", p, err, after, seen)
	}
}

// A script that wraps its work in try/catch inside a loop can never be halted.
func TestFindF1_UnstoppableScript(t *testing.T) {
	_, p, _, fin := f1Run(t, "halt", `
		for (;;) { try { arm(); for (;;) {} } catch (e) { } }
	`)
	if !fin {
		t.Fatal("script is still running 3s after the interrupt function panicked")
	}
	if p != "halt" {
		t.Fatalf("panic=%v", p)
	}
}

// try/finally without catch: the finally block (script code) runs and the Go panic is turned into
// a returned error, so the documented `recover() == halt` test never matches.
func TestFindF1_TryFinally(t *testing.T) {
	vm, p, err, fin := f1Run(t, "halt", `
		var fin = 0;
		try { arm(); for (;;) {} } finally { fin = 1; }
	`)
	if !fin {
		t.Fatal("Run did not return")
	}
	f, _ := vm.Get("fin")
	if p != "halt" || f.String() != "0" {
		t.Fatalf("panic=%v err=%v fin=%v: finally block ran and/or Run returned instead of unwinding with the panic", p, err, f)
	}
}

// Same root cause for a panic raised by a host function.
func TestFindF1_HostPanicCaughtByScript(t *testing.T) {
	vm := New()
	boom := errors.New("host bug")
	vm.Set("host", func(call FunctionCall) Value { panic(boom) })
	var p interface{}
	var err error
	func() {
		defer func() { p = recover() }()
		_, err = vm.Run(`var after = 0; try { host() } catch (e) { } after = 1;`)
	}()
	after, _ := vm.Get("after")
	if p != boom {
		t.Fatalf("host panic must unwind Run; got panic=%v err=%v after=%v", p, err, after)
	}
}
