// Place this file in the root of the otto worktree (package otto), e.g.
//   cp demo_test.go /tmp/wt4/C18/zz_find_f3_test.go
// and run:
//   cd /tmp/wt4/C18 && export GOFLAGS=-mod=mod GOPROXY=off GOSUMDB=off GOTOOLCHAIN=local && \
//     go test -vet=off -count=1 -run 'TestFindF3' .
// (TestFindF3_OffByOne fails normally; TestFindF3_HostCrash crashes the test binary, run it
//  separately with -run 'TestFindF3_HostCrash'.)
//
// Finding 3: when a call is started from the Go API while the runtime is at rest
// (Value.Call / Value.String / Value.ToString / Object.Call / Object.Get ...), there is no
// current scope: enterScope skips the limit check for the first script function and a native
// function does not enter a scope at all. Consequences:
//   (a) the limit admits one more nesting level than for the same call made from a script;
//   (b) recursion that only goes through native functions (Array.prototype.toString -> join ->
//       ToString(element) -> toString ...) is never counted: fatal Go stack overflow although a
//       limit is configured.
package otto

import (
	"fmt"
	"testing"
)

func TestFindF3_OffByOne(t *testing.T) {
	for L := 1; L <= 6; L++ {
		for d := 1; d <= 8; d++ {
			vm := New()
			if _, err := vm.Run(`function f(n){ return n<=1 ? 1 : 1+f(n-1) }`); err != nil {
				t.Fatal(err)
			}
			vm.SetStackDepthLimit(L)
			_, errRun := vm.Run(fmt.Sprintf(`f(%d)`, d)) // d nested activations of f, from a script
			_, errOtto := vm.Call(`f`, nil, d)            // same through Otto.Call
			fv, _ := vm.Get("f")
			_, errVal := fv.Call(UndefinedValue(), d) // same through Value.Call
			if (errRun == nil) != (errOtto == nil) || (errRun == nil) != (errVal == nil) {
				t.Errorf("limit %d, %d nested calls of f: Run err=%v, Otto.Call err=%v, Value.Call err=%v", L, d, errRun, errOtto, errVal)
			}
		}
	}
}

func TestFindF3_HostCrash(t *testing.T) {
	vm := New()
	vm.SetStackDepthLimit(50)
	v, err := vm.Run(`var a = []; a[0] = a; a`)
	if err != nil {
		t.Fatal(err)
	}
	// From a script the limit works:
	if _, err := vm.Run(`String(a)`); err == nil || err.Error() != "RangeError: Maximum call stack size exceeded" {
		t.Fatalf("control: %v", err)
	}
	// From Go: CRASHES THE TEST BINARY (fatal error: stack overflow) on the unmodified code.
	s, err := v.ToString() // the same happens with v.String(), fmt.Println(v), v.Object().Call("join")
	if err == nil || err.Error() != "RangeError: Maximum call stack size exceeded" {
		t.Fatalf("expected RangeError: Maximum call stack size exceeded, got %q, %v", s, err)
	}
}
