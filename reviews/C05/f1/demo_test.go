// Place in the root of the otto worktree (package otto), e.g. as zz_find_f1_test.go, and run:
//   export GOFLAGS=-mod=mod GOPROXY=off GOSUMDB=off GOTOOLCHAIN=local
//   go test -vet=off -count=1 -run 'TestFindF1' .
//
// ES5.1 9.5 ToInt32 / 9.6 ToUint32 / 9.7 ToUint16: posInt = sign(n)*floor(abs(n)), then
// posInt modulo 2^32 (2^16) - for EVERY finite number, however large.
// otto converts through int64(float64), which is out of range (implementation-specific in Go)
// for |n| >= 2^63, so every such operand collapses to 0 (amd64) / -1 (arm64).
package otto

import "testing"

func TestFindF1ToInt32Beyond2p63(t *testing.T) {
	cases := []struct{ src, want string }{
		{`1e21 | 0`, "-559939584"},                        // 1e21 mod 2^32 = 3735027712 = 0xDEA00000
		{`1e21 >>> 0`, "3735027712"},                      // 9.6
		{`-1e21 >>> 0`, "559939584"},                      // 9.6, negative operand
		{`~1e21`, "559939583"},                            // 11.4.8
		{`(Math.pow(2,63) + 2048) | 0`, "2048"},           // smallest double above 2^63
		{`(Math.pow(2,63) + 2048) ^ 0`, "2048"},
		{`-(Math.pow(2,63) + 2048) >> 0`, "-2048"},
		{`(Math.pow(2,64) + 4096) >>> 0`, "4096"},
		{`String.fromCharCode(Math.pow(2,63) + 2048).charCodeAt(0)`, "2048"}, // 9.7 via 15.5.3.2
		{`"1e21" & 0xFFFFFFFF`, "-559939584"},             // string operand, same conversion
	}
	for _, c := range cases {
		vm := New()
		v, err := vm.Run(c.src)
		if err != nil {
			t.Errorf("%s: unexpected error %v", c.src, err)
			continue
		}
		if got := v.String(); got != c.want {
			t.Errorf("%s = %s, want %s (ES5.1 9.5/9.6/9.7)", c.src, got, c.want)
		}
	}
}
