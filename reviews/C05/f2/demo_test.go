// Place in the root of the otto worktree (package otto), e.g. as zz_find_f2_test.go, and run:
//   export GOFLAGS=-mod=mod GOPROXY=off GOSUMDB=off GOTOOLCHAIN=local
//   go test -vet=off -count=1 -run 'TestFindF2' .
//
// ES5.1 11.6.1 (The Addition operator): steps 1-4 evaluate both operands and call
// GetValue on BOTH references (lval, rval) before step 5/6 ToPrimitive(lval), ToPrimitive(rval).
// otto calls ToPrimitive(lval) (running scripted valueOf/toString) BEFORE GetValue(rref).
package otto

import "testing"

func TestFindF2PlusOrder(t *testing.T) {
	cases := []struct{ src, want string }{
		// valueOf of the left operand modifies the variable named by the right operand.
		// rval must already have been read (1) => 10 + 1.
		{`var x = 1; var o = {valueOf: function(){ x = 2; return 10; }}; o + x`, "11"},
		// same with a string result
		{`var s = "old"; var o = {toString: function(){ s = "new"; return "<"; }}; o + s`, "<old"},
		// right operand is an accessor property: getter (GetValue) must run before valueOf (ToPrimitive)
		{`var log = []; var a = {valueOf: function(){ log.push("valueOf"); return 1; }};
		  var h = {get p(){ log.push("get"); return 2; }}; a + h.p; log.join(",")`, "get,valueOf"},
		// unresolvable right reference: ReferenceError is thrown by GetValue(rref), valueOf must not run
		{`var log = []; var a = {valueOf: function(){ log.push("valueOf"); return 1; }};
		  try { a + zzz; } catch (e) { log.push(e.name); } log.join(",")`, "ReferenceError"},
		// control: the subtraction operator gets it right in otto
		{`var x = 1; var o = {valueOf: function(){ x = 2; return 10; }}; o - x`, "9"},
	}
	for _, c := range cases {
		vm := New()
		v, err := vm.Run(c.src)
		if err != nil {
			t.Errorf("%s: unexpected error %v", c.src, err)
			continue
		}
		if got := v.String(); got != c.want {
			t.Errorf("%s\n   = %s, want %s (ES5.1 11.6.1 steps 1-6)", c.src, got, c.want)
		}
	}
}
