// Place in the root of the otto worktree (package otto), e.g. as zz_find_f4_test.go, and run:
//   export GOFLAGS=-mod=mod GOPROXY=off GOSUMDB=off GOTOOLCHAIN=local
//   go test -vet=off -count=1 -run 'TestFindF4' .
//
// ES5.1 9.3.1 ToNumber applied to the String type: StrNumericLiteral ::: HexIntegerLiteral,
// "The MV of HexIntegerLiteral ::: HexIntegerLiteral HexDigit is (MV of HexIntegerLiteral * 16) + MV of HexDigit",
// then the MV is rounded to a Number value. There is no upper bound on the number of hex digits.
// otto parses hex strings with strconv.ParseInt(.., 64) and turns the overflow error into NaN,
// so every hex string >= 2^63 converts to NaN.
package otto

import "testing"

func TestFindF4HexStringToNumber(t *testing.T) {
	cases := []struct{ src, want string }{
		{`Number("0x7FFFFFFFFFFFFFFF")`, "9223372036854776000"}, // control: passes (2^63-1 rounds to 2^63)
		{`Number("0x8000000000000000")`, "9223372036854776000"}, // 2^63
		{`+"0xFFFFFFFFFFFFFFFF"`, "18446744073709552000"},       // 2^64-1 rounds to 2^64
		{`"0x10000000000000000" - 0`, "18446744073709552000"},   // 2^64
		{`" 0X8000000000000000\n" * 1`, "9223372036854776000"},  // with white space, upper-case X
		{`"0x8000000000000000" == 9223372036854775808`, "true"}, // 11.9.3 step 5 -> ToNumber
		{`"0x8000000000000000" > 1`, "true"},                    // 11.8.5 -> ToNumber; NaN makes it false
		{`isNaN("0x8000000000000000")`, "false"},
		{`"0x8000000000000000" | 0`, "0"},                       // agrees by luck (NaN -> 0, 2^63 mod 2^32 = 0)
		{`"0x8000000000000800" >>> 0`, "2048"},                  // 2^63+2048 is exactly representable
		// the same digits as a source literal (7.8.3) are handled correctly by the lexer:
		{`0x8000000000000000`, "9223372036854776000"},
	}
	for _, c := range cases {
		vm := New()
		v, err := vm.Run(c.src)
		if err != nil {
			t.Errorf("%s: unexpected error %v", c.src, err)
			continue
		}
		if got := v.String(); got != c.want {
			t.Errorf("%s = %s, want %s (ES5.1 9.3.1)", c.src, got, c.want)
		}
	}
}
