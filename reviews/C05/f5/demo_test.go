// Place in the root of the otto worktree (package otto), e.g. as zz_find_f5_test.go, and run:
//   export GOFLAGS=-mod=mod GOPROXY=off GOSUMDB=off GOTOOLCHAIN=local
//   go test -vet=off -count=1 -run 'TestFindF5' .
//
// ES5.1 11.8.5 (The Abstract Relational Comparison Algorithm), step 4 (both operands Strings):
//   "Let k be the smallest nonnegative integer such that the character at position k within px is
//    different from the character at position k within py ... Let m/n be the integer that is the code
//    unit value for the character at position k ... If m < n, return true."
//   NOTE 2: "The comparison of Strings uses a simple lexicographic ordering on sequences of code unit values."
// ES5 Strings are sequences of UTF-16 code units (8.4). otto compares the Go (UTF-8) strings bytewise,
// i.e. by code POINT, which orders U+E000..U+FFFF before supplementary characters (surrogate pairs
// 0xD800..0xDFFF) - the opposite of the code unit order.
package otto

import "testing"

func TestFindF5StringRelationalCodeUnits(t *testing.T) {
	// tilde = U+FF5E FULLWIDTH TILDE  (one code unit 0xFF5E)
	// smile = U+1F600 GRINNING FACE   (code units 0xD83D 0xDE00);  0xFF5E > 0xD83D
	const tilde, smile = "～", "\U0001F600"
	q := func(s string) string { return `"` + s + `"` }
	cases := []struct{ src, want string }{
		// characters spelled literally in the source text
		{q(tilde) + ` < ` + q(smile), "false"},
		{q(tilde) + ` > ` + q(smile), "true"},
		{q(tilde) + ` <= ` + q(smile), "false"},
		{q(tilde) + ` >= ` + q(smile), "true"},
		// difference not at position 0
		{q("abc"+tilde) + ` > ` + q("abc"+smile+"z"), "true"},
		// strings built at run time
		{`String.fromCharCode(0xFFFF) < String.fromCharCode(0xD800, 0xDC00)`, "false"},
		{`String.fromCharCode(0xE000) > String.fromCharCode(0xDBFF, 0xDFFF)`, "true"},
		// consistency with the code unit values otto itself reports through charCodeAt
		{`var a = ` + q(tilde) + `, b = ` + q(smile) + `; [a.charCodeAt(0), b.charCodeAt(0), b.length].join()`, "65374,55357,2"}, // control
		{`var a = ` + q(tilde) + `, b = ` + q(smile) + `; (a.charCodeAt(0) < b.charCodeAt(0)) === (a < b)`, "true"},
		// objects converting to such strings (ToPrimitive hint Number, both results Strings)
		{`({toString: function(){ return ` + q(tilde) + `; }}) > ({toString: function(){ return ` + q(smile) + `; }})`, "true"},
		// control: BMP-only strings are fine
		{`"é" < ` + q(tilde), "true"},
	}
	for _, c := range cases {
		vm := New()
		v, err := vm.Run(c.src)
		if err != nil {
			t.Errorf("%s: unexpected error %v", c.src, err)
			continue
		}
		if got := v.String(); got != c.want {
			t.Errorf("%+q = %s, want %s (ES5.1 11.8.5 step 4, code unit order)", c.src, got, c.want)
		}
	}
}
