// Place in the root of the otto worktree (package otto), e.g. as zz_find_f3_test.go, and run:
//   export GOFLAGS=-mod=mod GOPROXY=off GOSUMDB=off GOTOOLCHAIN=local
//   go test -vet=off -count=1 -run 'TestFindF3' .
//
// ES5.1 11.13.2 (Compound assignment  a op= b):
//   1. lref = evaluate LeftHandSideExpression   2. lval = GetValue(lref)
//   3. rref = evaluate AssignmentExpression     4. rval = GetValue(rref)   5. r = lval op rval
// otto evaluates the right-hand side completely BEFORE reading the old value of the left-hand side.
package otto

import "testing"

func TestFindF3CompoundAssignOrder(t *testing.T) {
	cases := []struct{ src, want string }{
		// very ordinary looking code: the callee updates the accumulator
		{`var total = 0; function f(){ total = 100; return 1; } total += f(); total`, "1"},
		{`var x = 1; x += (x = 5, 10); x`, "11"},
		{`var x = 8; x -= x++; x`, "0"},            // lval 8, rval 8 => 0   (otto: 9 - 8 = 1)
		{`var x = 3; x *= --x; x`, "6"},            // 3 * 2
		{`var x = 1; x <<= (x = 4, 1); x`, "2"},
		{`var s = "a"; s += (s = "b", "c"); s`, "ac"},
		// accessor: [[Get]] must run before the right operand is evaluated
		{`var log = []; var o = {get p(){ log.push("get"); return 1; }, set p(v){ log.push("set"); }};
		  o.p += (log.push("rhs"), 1); log.join(",")`, "get,rhs,set"},
		// unresolvable reference: GetValue(lref) throws before the right-hand side runs
		{`var log = []; try { zzz += (log.push("rhs"), 1); } catch (e) { log.push(e.name); } log.join(",")`, "ReferenceError"},
	}
	for _, c := range cases {
		vm := New()
		v, err := vm.Run(c.src)
		if err != nil {
			t.Errorf("%s: unexpected error %v", c.src, err)
			continue
		}
		if got := v.String(); got != c.want {
			t.Errorf("%s\n   = %s, want %s (ES5.1 11.13.2 steps 1-4)", c.src, got, c.want)
		}
	}
}
