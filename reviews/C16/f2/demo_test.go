// Place this file in the root of the otto worktree (package otto), e.g.
//   cp demo_test.go /tmp/wt4/C16/zz_find_test.go
// and run
//   export GOFLAGS=-mod=mod GOPROXY=off GOSUMDB=off GOTOOLCHAIN=local
//   cd /tmp/wt4/C16 && go test -vet=off -count=1 -run 'TestFind2' .
//
// Finding 2: shortening a bridged Go slice (s.pop(), s.shift(), s.splice(),
// s.length = n) calls reflect.Value.SetLen on the unaddressable slice value that
// vm.Set("s", []int{...}) stored; reflect panics and the panic escapes vm.Run.
// When the slice IS addressable (a field of a bridged *struct) growing it with push()
// only replaces otto's private copy of the slice header, so the push is lost.
package otto

import (
	"fmt"
	"testing"
)

type f2Cfg struct {
	Items []int
}

func f2Run(vm *Otto, src string) (v Value, err error, panicked interface{}) {
	defer func() {
		if r := recover(); r != nil {
			panicked = r
		}
	}()
	v, err = vm.Run(src)
	return v, err, nil
}

func TestFind2SliceShrinkPanics(t *testing.T) {
	for _, c := range []struct {
		src  string
		want string // ES5.1 15.4.4.6 / 15.4.4.9 / 15.4.5.1 / 15.4.4.12
	}{
		{`var r = s.pop();       [r, s.length].join()`, "3,2"},
		{`var r = s.shift();     [r, s.length].join()`, "1,2"},
		{`s.length = 1;          [s[0], s.length].join()`, "1,1"},
		{`var r = s.splice(0,1); [r[0], s.length].join()`, "1,2"},
	} {
		vm := New()
		vm.Set("s", []int{1, 2, 3})
		v, err, p := f2Run(vm, c.src)
		if p != nil {
			t.Errorf("%s: Go panic escaped vm.Run: %v", c.src, p)
			continue
		}
		if err != nil {
			// A TypeError visible to the script would be "failing loudly" and acceptable.
			t.Logf("%s: error %v", c.src, err)
			continue
		}
		if v.String() != c.want {
			t.Errorf("%s: got %q, want %q", c.src, v.String(), c.want)
		}
	}
}

func TestFind2PushOnStructFieldIsLost(t *testing.T) {
	vm := New()
	cfg := &f2Cfg{Items: []int{1, 2, 3}}
	vm.Set("cfg", cfg)
	v, err, p := f2Run(vm, `var n = cfg.Items.push(4); [n, cfg.Items.length].join()`)
	if p != nil {
		t.Fatalf("Go panic: %v", p)
	}
	if err != nil {
		t.Logf("failed loudly (acceptable): %v", err)
		return
	}
	// push reported the new length 4 (ES5.1 15.4.4.7) ...
	if v.String() != "4,4" || fmt.Sprint(cfg.Items) != "[1 2 3 4]" {
		t.Errorf("push returned/observed %q, Go sees %v; want \"4,4\" and [1 2 3 4] (or a TypeError)", v.String(), cfg.Items)
	}
}
