// Place this file in the root of the otto worktree (package otto), e.g.
//   cp demo_test.go /tmp/wt4/C16/zz_find_test.go
// and run
//   export GOFLAGS=-mod=mod GOPROXY=off GOSUMDB=off GOTOOLCHAIN=local
//   cd /tmp/wt4/C16 && go test -vet=off -count=1 -run 'TestFind3ContainerWriteTruncates' .
//
// Finding 3: element writes on bridged slices / arrays / maps go through
// Value.toReflectValue, whose "is it an integer / is it in range" guards are wrong:
//   - negative fractions pass (frac > 0 is never true for them): -1.5 is stored as -1
//   - NaN passes and is stored as 0
//   - 2^63 passes the int64 range test and wraps to -2^63; 2^64 passes the uint64 test
// The positive counterpart (s[0] = 1.5) is correctly rejected with a RangeError.
package otto

import "testing"

func f3Run(vm *Otto, src string) (err error, panicked interface{}) {
	defer func() {
		if r := recover(); r != nil {
			panicked = r
		}
	}()
	_, err = vm.Run(src)
	return err, nil
}

func TestFind3ContainerWriteTruncates(t *testing.T) {
	vm := New()
	ints := []int{7}
	i8 := []int8{7}
	i64 := []int64{7}
	u64 := []uint64{7}
	m := map[string]int32{"k": 7}
	arr := &[1]int16{7}
	vm.Set("ints", ints)
	vm.Set("i8", i8)
	vm.Set("i64", i64)
	vm.Set("u64", u64)
	vm.Set("m", m)
	vm.Set("arr", arr)

	// Control: the positive fraction is rejected, as the property demands.
	if err, _ := f3Run(vm, `ints[0] = 1.5`); err == nil {
		t.Errorf("control: ints[0] = 1.5 was accepted")
	}

	for _, c := range []struct {
		src string
		get func() interface{}
	}{
		{`ints[0] = -1.5`, func() interface{} { return ints[0] }},
		{`i8[0] = -1.5`, func() interface{} { return i8[0] }},
		{`m.k = -2.5`, func() interface{} { return m["k"] }},
		{`arr[0] = -0.5`, func() interface{} { return arr[0] }},
		{`ints[0] = NaN`, func() interface{} { return ints[0] }},
		{`i8[0] = NaN`, func() interface{} { return i8[0] }},
		{`i64[0] = 9223372036854775808`, func() interface{} { return i64[0] }},  // 2^63
		{`u64[0] = 18446744073709551616`, func() interface{} { return u64[0] }}, // 2^64
	} {
		err, p := f3Run(vm, c.src)
		if p != nil {
			t.Errorf("%s: Go panic %v", c.src, p)
			continue
		}
		if err == nil {
			t.Errorf("%s: accepted silently, Go now holds %v (want RangeError/TypeError and the old value 7)", c.src, c.get())
		}
	}
}
