// Place this file in the root of the otto worktree (package otto), e.g.
//   cp demo_test.go /tmp/wt4/C16/zz_find_test.go
// and run
//   export GOFLAGS=-mod=mod GOPROXY=off GOSUMDB=off GOTOOLCHAIN=local
//   cd /tmp/wt4/C16 && go test -vet=off -count=1 -run 'TestFind1NamedTypes' .
//
// Finding 1: a Go function whose parameter (or slice element / struct field) has a
// NAMED basic type (time.Duration, type Celsius float64, type Name string, type Flag
// bool) cannot be called from JavaScript: the conversion yields a value of the
// unnamed underlying type and reflect.Call / reflect.Set panics. The panic is not an
// otto exception, so it escapes vm.Run and takes the host down.
package otto

import (
	"fmt"
	"testing"
	"time"
)

type f1Celsius float64
type f1Name string
type f1Flag bool

type f1Cfg struct {
	Timeout time.Duration
}

func f1Run(vm *Otto, src string) (err error, panicked interface{}) {
	defer func() {
		if r := recover(); r != nil {
			panicked = r
		}
	}()
	_, err = vm.Run(src)
	return err, nil
}

func TestFind1NamedTypes(t *testing.T) {
	vm := New()
	var got interface{}
	vm.Set("sleep", func(d time.Duration) { got = d })
	vm.Set("temp", func(c f1Celsius) { got = c })
	vm.Set("name", func(n f1Name) { got = n })
	vm.Set("flag", func(f f1Flag) { got = f })
	vm.Set("sleeps", func(d []time.Duration) { got = d })
	vm.Set("cfg", &f1Cfg{})

	for _, c := range []struct {
		src  string
		want string
	}{
		{`sleep(5)`, "5ns"},
		{`temp(1.5)`, "1.5"},
		{`name("x")`, "x"},
		{`flag(true)`, "true"},
		{`sleeps([5])`, "[5ns]"},
		{`cfg.Timeout = 5; sleep(cfg.Timeout)`, "5ns"},
	} {
		got = nil
		err, p := f1Run(vm, c.src)
		if p != nil {
			t.Errorf("%s: Go panic escaped vm.Run: %v", c.src, p)
			continue
		}
		if err != nil {
			t.Errorf("%s: unexpected error %v", c.src, err)
			continue
		}
		if s := fmt.Sprint(got); s != c.want {
			t.Errorf("%s: Go received %s, want %s", c.src, s, c.want)
		}
	}
}
