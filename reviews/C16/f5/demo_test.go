// Place this file in the root of the otto worktree (package otto), e.g.
//   cp demo_test.go /tmp/wt4/C16/zz_find_test.go
// and run
//   export GOFLAGS=-mod=mod GOPROXY=off GOSUMDB=off GOTOOLCHAIN=local
//   cd /tmp/wt4/C16 && go test -vet=off -count=1 -run 'TestFind5CyclicArgument' .
//
// Finding 5: passing a self-referencing array/object to a Go function whose parameter
// is interface{} (or []interface{}, map[string]interface{}, ...interface{}) makes
// Value.export recurse forever: "fatal error: stack overflow", which kills the whole
// process and cannot be recovered by the host or caught by the script.
//
// Because the failure is fatal, the test re-executes the test binary as a child
// process and fails when the child dies. (Run the body directly to see the crash.)
package otto

import (
	"os"
	"os/exec"
	"strings"
	"testing"
)

func TestFind5CyclicArgument(t *testing.T) {
	if src := os.Getenv("OTTO_F5_CHILD"); src != "" {
		vm := New()
		vm.Set("log", func(x interface{}) {})
		vm.Set("logAll", func(xs ...interface{}) {})
		vm.Set("logMap", func(m map[string]interface{}) {})
		_, err := vm.Run(src)
		t.Logf("survived, err = %v", err)
		return
	}

	for _, src := range []string{
		`var a = []; a[0] = a; try { log(a) } catch (e) {}`,
		`var o = {}; o.self = o; try { log(o) } catch (e) {}`,
		`var o = {}; o.self = o; try { logAll(1, o) } catch (e) {}`,
		`var o = {}; o.self = o; try { logMap({k: o}) } catch (e) {}`,
	} {
		cmd := exec.Command(os.Args[0], "-test.run=^TestFind5CyclicArgument$", "-test.v")
		cmd.Env = append(os.Environ(), "OTTO_F5_CHILD="+src)
		out, err := cmd.CombinedOutput()
		if err != nil {
			lines := strings.SplitN(string(out), "\n", 5)
			if len(lines) > 4 {
				lines = lines[:4]
			}
			t.Errorf("%s\n\tprocess died (%v):\n\t%s", src, err, strings.Join(lines, "\n\t"))
		}
	}
}
