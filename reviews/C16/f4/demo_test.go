// Place this file in the root of the otto worktree (package otto), e.g.
//   cp demo_test.go /tmp/wt4/C16/zz_find_test.go
// and run
//   export GOFLAGS=-mod=mod GOPROXY=off GOSUMDB=off GOTOOLCHAIN=local
//   cd /tmp/wt4/C16 && go test -vet=off -count=1 -run 'TestFind4SliceParamFromArrayLike' .
//
// Finding 4: a Go slice parameter accepts ANY object with a numeric "length" but only
// copies elements for class "Array"/bridged slices, and for arrays only own DATA
// properties read straight from the property table. `arguments`, array-likes, String
// objects and functions therefore arrive as a zero-filled slice of that length,
// accessor-defined elements arrive as 0, and {length:-1} makes reflect.MakeSlice
// panic out of vm.Run.
package otto

import (
	"fmt"
	"testing"
)

func f4Run(vm *Otto, src string) (v Value, err error, panicked interface{}) {
	defer func() {
		if r := recover(); r != nil {
			panicked = r
		}
	}()
	v, err = vm.Run(src)
	return v, err, nil
}

func TestFind4SliceParamFromArrayLike(t *testing.T) {
	vm := New()
	var got []int
	vm.Set("sum", func(xs []int) int {
		got = xs
		n := 0
		for _, x := range xs {
			n += x
		}
		return n
	})

	for _, c := range []struct {
		src  string
		want string // what Go must receive if the call succeeds
	}{
		{`(function(){ return sum(arguments) })(1, 2)`, "[1 2]"},
		{`sum({length: 2, 0: 7, 1: 8})`, "[7 8]"},
		{`sum(function(a, b){})`, "<TypeError>"},
		{`var a = [1, 2]; Object.defineProperty(a, "0", {get: function(){ return 5 }}); sum(a)`, "[5 2]"},
		{`sum({length: -1})`, "<TypeError/RangeError>"},
	} {
		got = nil
		v, err, p := f4Run(vm, c.src)
		if p != nil {
			t.Errorf("%s: Go panic escaped vm.Run: %v", c.src, p)
			continue
		}
		if err != nil {
			t.Logf("%s: failed loudly (fine): %v", c.src, err)
			continue
		}
		if s := fmt.Sprint(got); s != c.want {
			t.Errorf("%s: Go received %s (result %v), want %s or a TypeError", c.src, s, v, c.want)
		}
	}
}
