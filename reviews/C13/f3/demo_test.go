// Place as /tmp/wt4/C13/zz_find_test.go (package otto, module root) and run:
//   export GOFLAGS=-mod=mod GOPROXY=off GOSUMDB=off GOTOOLCHAIN=local
//   cd /tmp/wt4/C13 && go test -vet=off -count=1 -run 'TestFindUnescapeNonASCIIPassthrough' .
package otto

import "testing"

// ES5.1 B.2.2 unescape: a character that is not part of a %XX / %uXXXX escape is copied
// to the result unchanged (step 5 "Let c be the character at position k within Result(1)",
// step 18 "Let R be a new String value computed by concatenating the previous value of R and c").
func TestFindUnescapeNonASCIIPassthrough(t *testing.T) {
	vm := New()
	for _, tc := range []struct{ src, want string }{
		{`unescape("é")`, "é"},                    // é
		{`unescape("café%20au%20lait")`, "café au lait"},
		{`unescape("你好%21")`, "你好!"},    // 你好!
		{`unescape("€")`, "€"},                    // €
		{`unescape("😀")`, "\U0001F600"},          // astral, not escaped
		{`unescape("abc%41")`, "abcA"},                      // control (passes)
	} {
		v, err := vm.Run(tc.src)
		if err != nil {
			t.Fatal(err)
		}
		if got := v.String(); got != tc.want {
			t.Errorf("%s = %q, want %q", tc.src, got, tc.want)
		}
	}
	// "escape/unescape are mutual inverses": escape(unescape(s)) for s that is already
	// a legal escape() output must be s; and unescape must be the identity on text
	// that contains no '%'.
	for _, src := range []string{
		`unescape("é") === "é"`,
		`unescape("é").length === 1`,
		`unescape("你").charCodeAt(0) === 0x4f60`,
	} {
		v, err := vm.Run(src)
		if err != nil {
			t.Fatal(err)
		}
		if b, _ := v.ToBoolean(); !b {
			t.Errorf("%s  evaluated to false, want true", src)
		}
	}
}
