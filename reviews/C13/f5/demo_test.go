// Place as /tmp/wt4/C13/zz_find_test.go (package otto, module root) and run:
//   export GOFLAGS=-mod=mod GOPROXY=off GOSUMDB=off GOTOOLCHAIN=local
//   cd /tmp/wt4/C13 && go test -vet=off -count=1 -run 'TestFindMathNaNShortCircuit' .
package otto

import "testing"

// ES5.1 15.8.2.11 / 15.8.2.12: "Given zero or more arguments, calls ToNumber on each of the
// arguments and returns the largest/smallest of the resulting values."
// ES5.1 15.8.2: "Each of the following Math object functions applies the ToNumber abstract
// operator to each of its arguments (in left-to-right order if there is more than one)".
// ToNumber on an object runs user code (valueOf/toString), so skipping it is observable.
func TestFindMathNaNShortCircuit(t *testing.T) {
	vm := New()
	for _, tc := range []struct {
		src  string
		want string
	}{
		{`var log = []; function o(n, v) { return { valueOf: function () { log.push(n); return v } } }
		  Math.max(o("a", NaN), o("b", 1), o("c", 2)); log.join()`, "a,b,c"},
		{`var log = []; Math.min(1, NaN, o("c", 2)); log.join()`, "c"},
		{`var log = []; Math.max(NaN, o("b", 2)); log.join()`, "b"},
		{`var log = []; Math.atan2(NaN, o("x", 1)); log.join()`, "x"},
		{`var log = []; Math.atan2(o("y", NaN), o("x", 1)); log.join()`, "y,x"},
		// an abrupt completion inside ToNumber must propagate
		{`var r; try { r = String(Math.max(NaN, { valueOf: function () { throw new Error("boom") } })) } catch (e) { r = "threw " + e.message }; r`, "threw boom"},
		{`var r; try { r = String(Math.min("x", { valueOf: function () { throw new Error("boom") } })) } catch (e) { r = "threw " + e.message }; r`, "threw boom"},
		{`var r; try { r = String(Math.atan2(undefined, { valueOf: function () { throw new Error("boom") } })) } catch (e) { r = "threw " + e.message }; r`, "threw boom"},
		// control: without a NaN in front all arguments are converted (passes)
		{`var log = []; Math.max(o("a", 0), o("b", 1)); log.join()`, "a,b"},
		{`var log = []; Math.pow(o("a", NaN), o("b", 1)); log.join()`, "a,b"},
	} {
		v, err := vm.Run(tc.src)
		if err != nil {
			t.Fatal(err)
		}
		if got := v.String(); got != tc.want {
			t.Errorf("%s\n   => %q, want %q", tc.src, got, tc.want)
		}
	}
}
