// Place as /tmp/wt4/C13/zz_find_test.go (package otto, module root) and run:
//   export GOFLAGS=-mod=mod GOPROXY=off GOSUMDB=off GOTOOLCHAIN=local
//   cd /tmp/wt4/C13 && go test -vet=off -count=1 -run 'TestFindEscapeAstral' .
package otto

import "testing"

// ES5.1 B.2.1 escape works on the 16-bit code units of the string: every code unit
// >= 256 becomes "%uXXXX" (step 9).  An astral character is two code units, so
// U+1F600 must become "%uD83D%uDE00".
func TestFindEscapeAstral(t *testing.T) {
	vm := New()
	for _, tc := range []struct{ src, want string }{
		{`escape("😀")`, "%uD83D%uDE00"},
		{`escape("a😀b")`, "a%uD83D%uDE00b"},
		{`escape("𐀀")`, "%uD800%uDC00"}, // U+10000
		{`escape("􏿿")`, "%uDBFF%uDFFF"}, // U+10FFFF
		{`escape("你 é")`, "%u4F60%20%E9"}, // control (passes)
	} {
		v, err := vm.Run(tc.src)
		if err != nil {
			t.Fatal(err)
		}
		if got := v.String(); got != tc.want {
			t.Errorf("%s = %q, want %q (ES5.1 B.2.1)", tc.src, got, tc.want)
		}
	}
}

// Companion defect in the inverse direction (ES5.1 B.2.2 step 14-16: each %uXXXX yields
// the *code unit* XXXX): a surrogate pair written as two %u escapes must give back the
// astral character, so that unescape(escape(s)) === s.
func TestFindEscapeAstralUnescapePair(t *testing.T) {
	vm := New()
	for _, src := range []string{
		`unescape("%uD83D%uDE00") === "😀"`,
		`unescape("%uD83D%uDE00").charCodeAt(0) === 0xD83D`,
		`unescape(escape("😀")) === "😀"`,
		`unescape(escape("x😀y")).length === 4`,
	} {
		v, err := vm.Run(src)
		if err != nil {
			t.Fatal(err)
		}
		if b, _ := v.ToBoolean(); !b {
			t.Errorf("%s  evaluated to false, want true", src)
		}
	}
}
