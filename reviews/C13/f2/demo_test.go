// Place as /tmp/wt4/C13/zz_find_test.go (package otto, module root) and run:
//   export GOFLAGS=-mod=mod GOPROXY=off GOSUMDB=off GOTOOLCHAIN=local
//   cd /tmp/wt4/C13 && go test -vet=off -count=1 -run 'TestFindMathPowNaNExponent' .
package otto

import "testing"

// ES5.1 15.8.2.13, first bullet: "If y is NaN, the result is NaN." (no exception for x == 1).
func TestFindMathPowNaNExponent(t *testing.T) {
	vm := New()
	for _, src := range []string{
		`Math.pow(1, NaN)`,
		`Math.pow(1, undefined)`,
		`Math.pow(1)`,
		`Math.pow(1, "abc")`,
		`Math.pow(1, {})`,
		`Math.pow(true, NaN)`,
	} {
		v, err := vm.Run(`var r = ` + src + `; r !== r`) // true iff r is NaN
		if err != nil {
			t.Fatal(err)
		}
		if isNaN, _ := v.ToBoolean(); !isNaN {
			r, _ := vm.Run(`String(r)`)
			t.Errorf("%s = %s, want NaN (ES5.1 15.8.2.13: if y is NaN, the result is NaN)", src, r)
		}
	}
	// controls: the other x-with-NaN-y combinations are right
	for _, src := range []string{`Math.pow(2, NaN)`, `Math.pow(-1, NaN)`, `Math.pow(0, NaN)`, `Math.pow(1, Infinity)`} {
		v, _ := vm.Run(`var r = ` + src + `; r !== r`)
		if isNaN, _ := v.ToBoolean(); !isNaN {
			t.Errorf("control %s is not NaN", src)
		}
	}
}
