// Place as /tmp/wt4/C13/zz_find_test.go (package otto, module root) and run:
//   export GOFLAGS=-mod=mod GOPROXY=off GOSUMDB=off GOTOOLCHAIN=local
//   cd /tmp/wt4/C13 && go test -vet=off -count=1 -run 'TestFindMathRound' .
package otto

import (
	"math"
	"testing"
)

// refRound is ES5.1 15.8.2.15: the integer closest to x, ties towards +Infinity,
// computed without the inexact addition x+0.5.
func refRound(x float64) float64 {
	if math.IsNaN(x) || math.IsInf(x, 0) || x == 0 {
		return x
	}
	f := math.Floor(x) // exact
	r := f
	if x-f >= 0.5 { // x-f is exact for every double (Sterbenz / f integral)
		r = f + 1
	}
	if r == 0 {
		return math.Copysign(0, x)
	}
	return r
}

func TestFindMathRound(t *testing.T) {
	vm := New()
	inputs := []float64{
		0.49999999999999994,  // largest double below 0.5
		4503599627370497,     // 2^52+1 (already an integer)
		-4503599627370497,    // -(2^52+1)
		9007199254740991,     // 2^53-1
		-9007199254740991,    // -(2^53-1)
		6755399441055745,     // some odd integer in [2^52, 2^53)
		2.5, -2.5, -0.5, 0.5, // controls (pass)
	}
	for _, x := range inputs {
		if err := vm.Set("x", x); err != nil {
			t.Fatal(err)
		}
		v, err := vm.Run(`Math.round(x)`)
		if err != nil {
			t.Fatal(err)
		}
		got, _ := v.ToFloat()
		want := refRound(x)
		if got != want || math.Signbit(got) != math.Signbit(want) {
			t.Errorf("Math.round(%v) = %v, want %v (ES5.1 15.8.2.15)", x, got, want)
		}
	}
	// Same thing, pure JavaScript.
	for _, src := range []string{
		`Math.round(0.49999999999999994) === 0`,
		`Math.round(9007199254740991) === 9007199254740991`,
		`Math.round(4503599627370497) === 4503599627370497`,
		`Math.round(-4503599627370497) === -4503599627370497`,
	} {
		v, err := vm.Run(src)
		if err != nil {
			t.Fatal(err)
		}
		if b, _ := v.ToBoolean(); !b {
			t.Errorf("%s  evaluated to false, want true", src)
		}
	}
}
