// Finding C07/f2.
// Place this file in the root of the otto worktree (package otto) as zz_find_f2_test.go and run:
//   export GOFLAGS=-mod=mod GOPROXY=off GOSUMDB=off GOTOOLCHAIN=local
//   cd /tmp/wt4/C07 && go test -vet=off -count=1 -run 'TestFindF2ForInShadowed' .
// The test FAILS on the unmodified source.
package otto

import "testing"

// demoRunF2 runs src in a fresh VM and returns the completion value as a string.
// A Go panic escaping vm.Run (a host crash) is reported as a test failure.
func demoRunF2(t *testing.T, src string) string {
	t.Helper()
	var out string
	func() {
		defer func() {
			if r := recover(); r != nil {
				t.Fatalf("HOST CRASH: Go panic escaped vm.Run: %v\n  script: %s", r, src)
			}
		}()
		v, err := New().Run(src)
		if err != nil {
			out = "ERR " + err.Error()
			return
		}
		out, _ = v.ToString()
	}()
	return out
}

func demoExpectF2(t *testing.T, src, want string) {
	t.Helper()
	if got := demoRunF2(t, src); got != want {
		t.Errorf("\n  script: %s\n  got:    %s\n  want:   %s", src, got, want)
	}
}

// ES5.1 12.6.4: "A property of a prototype is not enumerated if it is shadowed because some
// previous object in the prototype chain has a property with the same name."
func TestFindF2ForInShadowed(t *testing.T) {
	// own enumerable property shadowing an inherited one: visited twice
	demoExpectF2(t, `var p = {x: 1, y: 1}; var o = Object.create(p); o.x = 2;
		var r = []; for (var k in o) r.push(k); r.join()`, "x,y")
	// own NON-enumerable property shadowing an enumerable inherited one: must not be visited at all
	demoExpectF2(t, `var p = {x: 1}; var o = Object.create(p);
		Object.defineProperty(o, 'x', {value: 2, enumerable: false});
		var r = []; for (var k in o) r.push(k); r.join()`, "")
	// the classic: overriding a prototype method on an instance
	demoExpectF2(t, `function C(){ this.toJSON = 1; } C.prototype.toJSON = 2; C.prototype.z = 3;
		var r = []; for (var k in new C()) r.push(k); r.join()`, "toJSON,z")
}
