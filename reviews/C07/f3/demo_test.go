// Finding C07/f3.
// Place this file in the root of the otto worktree (package otto) as zz_find_f3_test.go and run:
//   export GOFLAGS=-mod=mod GOPROXY=off GOSUMDB=off GOTOOLCHAIN=local
//   cd /tmp/wt4/C07 && go test -vet=off -count=1 -run 'TestFindF3DescriptorOfBuiltinAccessorCrash' .
// The test FAILS on the unmodified source.
package otto

import "testing"

// demoRunF3 runs src in a fresh VM and returns the completion value as a string.
// A Go panic escaping vm.Run (a host crash) is reported as a test failure.
func demoRunF3(t *testing.T, src string) string {
	t.Helper()
	var out string
	func() {
		defer func() {
			if r := recover(); r != nil {
				t.Fatalf("HOST CRASH: Go panic escaped vm.Run: %v\n  script: %s", r, src)
			}
		}()
		v, err := New().Run(src)
		if err != nil {
			out = "ERR " + err.Error()
			return
		}
		out, _ = v.ToString()
	}()
	return out
}

func demoExpectF3(t *testing.T, src, want string) {
	t.Helper()
	if got := demoRunF3(t, src); got != want {
		t.Errorf("\n  script: %s\n  got:    %s\n  want:   %s", src, got, want)
	}
}

// ES5.1 15.2.3.3 / 8.10.4: Object.getOwnPropertyDescriptor returns a descriptor object for every
// own property.  Here it brings down the host with a Go "interface conversion" panic.
func TestFindF3DescriptorOfBuiltinAccessorCrash(t *testing.T) {
	// what any mixin / extend / getOwnPropertyDescriptors polyfill does with a function
	demoExpectF3(t, `var f = function(){};
		var names = Object.getOwnPropertyNames(f), n = 0;
		for (var i = 0; i < names.length; i++) {
			if (typeof Object.getOwnPropertyDescriptor(f, names[i]) === 'object') n++;
		}
		n === names.length`, "true")
	demoExpectF3(t, `typeof Object.getOwnPropertyDescriptor(function(){}, 'caller')`, "object")
	demoExpectF3(t, `typeof Object.getOwnPropertyDescriptor(new Error("x"), 'stack')`, "object")
	demoExpectF3(t, `var r; try { null.x } catch (e) { r = typeof Object.getOwnPropertyDescriptor(e, 'stack') } r`, "object")
}
