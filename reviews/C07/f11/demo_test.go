// Finding C07/f11.
// Place this file in the root of the otto worktree (package otto) as zz_find_f11_test.go and run:
//   export GOFLAGS=-mod=mod GOPROXY=off GOSUMDB=off GOTOOLCHAIN=local
//   cd /tmp/wt4/C07 && go test -vet=off -count=1 -run 'TestFindF11StringIndexEnumerable' .
// The test FAILS on the unmodified source.
package otto

import "testing"

// demoRunF11 runs src in a fresh VM and returns the completion value as a string.
// A Go panic escaping vm.Run (a host crash) is reported as a test failure.
func demoRunF11(t *testing.T, src string) string {
	t.Helper()
	var out string
	func() {
		defer func() {
			if r := recover(); r != nil {
				t.Fatalf("HOST CRASH: Go panic escaped vm.Run: %v\n  script: %s", r, src)
			}
		}()
		v, err := New().Run(src)
		if err != nil {
			out = "ERR " + err.Error()
			return
		}
		out, _ = v.ToString()
	}()
	return out
}

func demoExpectF11(t *testing.T, src, want string) {
	t.Helper()
	if got := demoRunF11(t, src); got != want {
		t.Errorf("\n  script: %s\n  got:    %s\n  want:   %s", src, got, want)
	}
}

// ES5.1 15.5.5.2 step 9: String index properties are {[[Enumerable]]: true, [[Writable]]: false,
// [[Configurable]]: false}.  otto reports enumerable:false although Object.keys / for-in list them.
func TestFindF11StringIndexEnumerable(t *testing.T) {
	demoExpectF11(t, `var s = new String("abc"); [Object.getOwnPropertyDescriptor(s, '0').enumerable, s.propertyIsEnumerable('0'), Object.keys(s).join('')].join()`, "true,true,012")
}
