// Finding C07/f6.
// Place this file in the root of the otto worktree (package otto) as zz_find_f6_test.go and run:
//   export GOFLAGS=-mod=mod GOPROXY=off GOSUMDB=off GOTOOLCHAIN=local
//   cd /tmp/wt4/C07 && go test -vet=off -count=1 -run 'TestFindF6DefinePropertiesAtomicConversion' .
// The test FAILS on the unmodified source.
package otto

import "testing"

// demoRunF6 runs src in a fresh VM and returns the completion value as a string.
// A Go panic escaping vm.Run (a host crash) is reported as a test failure.
func demoRunF6(t *testing.T, src string) string {
	t.Helper()
	var out string
	func() {
		defer func() {
			if r := recover(); r != nil {
				t.Fatalf("HOST CRASH: Go panic escaped vm.Run: %v\n  script: %s", r, src)
			}
		}()
		v, err := New().Run(src)
		if err != nil {
			out = "ERR " + err.Error()
			return
		}
		out, _ = v.ToString()
	}()
	return out
}

func demoExpectF6(t *testing.T, src, want string) {
	t.Helper()
	if got := demoRunF6(t, src); got != want {
		t.Errorf("\n  script: %s\n  got:    %s\n  want:   %s", src, got, want)
	}
}

// ES5.1 15.2.3.7: step 5 converts EVERY descriptor with ToPropertyDescriptor (collecting them in a
// list) before step 6 defines the first property.  A malformed later descriptor must therefore
// leave the target untouched.
func TestFindF6DefinePropertiesAtomicConversion(t *testing.T) {
	demoExpectF6(t, `var o = {}, threw = false;
		try { Object.defineProperties(o, {a: {value: 1}, b: {get: 1}}); } catch (e) { threw = e instanceof TypeError; }
		[threw, o.hasOwnProperty('a')].join()`, "true,false")
	demoExpectF6(t, `var o = Object.preventExtensions({a: 1}), threw = false;
		try { Object.defineProperties(o, {a: {value: 2, writable: false}, b: {value: 1, get: function(){}}}); } catch (e) { threw = e instanceof TypeError; }
		[threw, o.a].join()`, "true,1")
}
