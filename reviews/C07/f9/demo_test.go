// Finding C07/f9.
// Place this file in the root of the otto worktree (package otto) as zz_find_f9_test.go and run:
//   export GOFLAGS=-mod=mod GOPROXY=off GOSUMDB=off GOTOOLCHAIN=local
//   cd /tmp/wt4/C07 && go test -vet=off -count=1 -run 'TestFindF9ArrayLengthSameValue' .
// The test FAILS on the unmodified source.
package otto

import "testing"

// demoRunF9 runs src in a fresh VM and returns the completion value as a string.
// A Go panic escaping vm.Run (a host crash) is reported as a test failure.
func demoRunF9(t *testing.T, src string) string {
	t.Helper()
	var out string
	func() {
		defer func() {
			if r := recover(); r != nil {
				t.Fatalf("HOST CRASH: Go panic escaped vm.Run: %v\n  script: %s", r, src)
			}
		}()
		v, err := New().Run(src)
		if err != nil {
			out = "ERR " + err.Error()
			return
		}
		out, _ = v.ToString()
	}()
	return out
}

func demoExpectF9(t *testing.T, src, want string) {
	t.Helper()
	if got := demoRunF9(t, src); got != want {
		t.Errorf("\n  script: %s\n  got:    %s\n  want:   %s", src, got, want)
	}
}

// ES5.1 15.4.5.1 step 3.f: "If newLen >= oldLen, then return the result of calling the default
// [[DefineOwnProperty]]" - and 8.12.9 accepts a redefinition with the same value on a
// non-writable property.  otto only takes that path for newLen > oldLen.
func TestFindF9ArrayLengthSameValue(t *testing.T) {
	demoExpectF9(t, `var r; try { Object.defineProperty(Object.freeze([1, 2]), 'length', {value: 2}); r = "ok"; } catch (e) { r = "threw " + e.name; } r`, "ok")
	demoExpectF9(t, `var a = [1, 2], r; Object.defineProperty(a, 'length', {writable: false});
		try { Object.defineProperty(a, 'length', {value: 2, writable: false}); r = "ok"; } catch (e) { r = "threw " + e.name; } r`, "ok")
}
