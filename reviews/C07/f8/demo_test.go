// Finding C07/f8.
// Place this file in the root of the otto worktree (package otto) as zz_find_f8_test.go and run:
//   export GOFLAGS=-mod=mod GOPROXY=off GOSUMDB=off GOTOOLCHAIN=local
//   cd /tmp/wt4/C07 && go test -vet=off -count=1 -run 'TestFindF8ArgumentsMapping' .
// The test FAILS on the unmodified source.
package otto

import "testing"

// demoRunF8 runs src in a fresh VM and returns the completion value as a string.
// A Go panic escaping vm.Run (a host crash) is reported as a test failure.
func demoRunF8(t *testing.T, src string) string {
	t.Helper()
	var out string
	func() {
		defer func() {
			if r := recover(); r != nil {
				t.Fatalf("HOST CRASH: Go panic escaped vm.Run: %v\n  script: %s", r, src)
			}
		}()
		v, err := New().Run(src)
		if err != nil {
			out = "ERR " + err.Error()
			return
		}
		out, _ = v.ToString()
	}()
	return out
}

func demoExpectF8(t *testing.T, src, want string) {
	t.Helper()
	if got := demoRunF8(t, src); got != want {
		t.Errorf("\n  script: %s\n  got:    %s\n  want:   %s", src, got, want)
	}
}

// ES5.1 10.6 [[DefineOwnProperty]] step 5: defining an accessor (5.a) or writable:false (5.b.ii)
// on a mapped index removes it from the parameter map.  otto never unmaps, so the "frozen"
// element keeps tracking the formal parameter, and an accessor is ignored by [[Get]].
func TestFindF8ArgumentsMapping(t *testing.T) {
	demoExpectF8(t, `function f(a){ Object.defineProperty(arguments, '0', {writable: false}); a = 2; return arguments[0]; } f(1)`, "1")
	demoExpectF8(t, `function g(a){ Object.defineProperty(arguments, '0', {get: function(){ return 9; }}); return arguments[0]; } g(1)`, "9")
	demoExpectF8(t, `function h(a){ Object.freeze(arguments); a = 2; return [Object.isFrozen(arguments), arguments[0]].join(); } h(1)`, "true,1")
}
