// Finding C07/f4.
// Place this file in the root of the otto worktree (package otto) as zz_find_f4_test.go and run:
//   export GOFLAGS=-mod=mod GOPROXY=off GOSUMDB=off GOTOOLCHAIN=local
//   cd /tmp/wt4/C07 && go test -vet=off -count=1 -run 'TestFindF4StringReplacementChar' .
// The test FAILS on the unmodified source.
package otto

import "testing"

// demoRunF4 runs src in a fresh VM and returns the completion value as a string.
// A Go panic escaping vm.Run (a host crash) is reported as a test failure.
func demoRunF4(t *testing.T, src string) string {
	t.Helper()
	var out string
	func() {
		defer func() {
			if r := recover(); r != nil {
				t.Fatalf("HOST CRASH: Go panic escaped vm.Run: %v\n  script: %s", r, src)
			}
		}()
		v, err := New().Run(src)
		if err != nil {
			out = "ERR " + err.Error()
			return
		}
		out, _ = v.ToString()
	}()
	return out
}

func demoExpectF4(t *testing.T, src, want string) {
	t.Helper()
	if got := demoRunF4(t, src); got != want {
		t.Errorf("\n  script: %s\n  got:    %s\n  want:   %s", src, got, want)
	}
}

// ES5.1 15.5.5.2: a String object has an own property for every index < length whose value is the
// one-character string at that position - whatever the character is.  otto uses U+FFFD as an
// in-band "no such index" marker, so a string that really contains U+FFFD loses that property,
// and Object.isFrozen / Object.isSealed dereference nil and crash the host.
func TestFindF4StringReplacementChar(t *testing.T) {
	demoExpectF4(t, `var s = new String("a\uFFFDb");
		[s.length, s.hasOwnProperty('1'), '1' in s, s[1] === "\uFFFD", "a\uFFFDb".charAt(1) === "\uFFFD", "a\uFFFDb".charCodeAt(1)].join()`,
		"3,true,true,true,true,65533")
	demoExpectF4(t, `Object.isFrozen(Object.preventExtensions(new String("\uFFFD")))`, "true")
	demoExpectF4(t, `Object.isSealed(Object.preventExtensions(new String("\uFFFD")))`, "true")
}
