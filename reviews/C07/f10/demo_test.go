// Finding C07/f10.
// Place this file in the root of the otto worktree (package otto) as zz_find_f10_test.go and run:
//   export GOFLAGS=-mod=mod GOPROXY=off GOSUMDB=off GOTOOLCHAIN=local
//   cd /tmp/wt4/C07 && go test -vet=off -count=1 -run 'TestFindF10ForInReturnContinues' .
// The test FAILS on the unmodified source.
package otto

import "testing"

// demoRunF10 runs src in a fresh VM and returns the completion value as a string.
// A Go panic escaping vm.Run (a host crash) is reported as a test failure.
func demoRunF10(t *testing.T, src string) string {
	t.Helper()
	var out string
	func() {
		defer func() {
			if r := recover(); r != nil {
				t.Fatalf("HOST CRASH: Go panic escaped vm.Run: %v\n  script: %s", r, src)
			}
		}()
		v, err := New().Run(src)
		if err != nil {
			out = "ERR " + err.Error()
			return
		}
		out, _ = v.ToString()
	}()
	return out
}

func demoExpectF10(t *testing.T, src, want string) {
	t.Helper()
	if got := demoRunF10(t, src); got != want {
		t.Errorf("\n  script: %s\n  got:    %s\n  want:   %s", src, got, want)
	}
}

// ES5.1 12.6.4 step 6.g / 7.g: "If stmt is an abrupt completion, return stmt."  A `return` inside
// for-in only leaves the enumeration of the CURRENT object of the prototype chain; the body is run
// again for the prototype's keys and the last return value wins.
func TestFindF10ForInReturnContinues(t *testing.T) {
	demoExpectF10(t, `var p = {b: 2}; var o = Object.create(p); o.a = 1;
		var n = 0; function f(o){ for (var k in o) { n++; return k; } } [f(o), n].join()`, "a,1")
	demoExpectF10(t, `function C(){ this.own = 1; } C.prototype.inherited = 2;
		function firstKey(o){ for (var k in o) return k; } firstKey(new C())`, "own")
}
