// Finding C07/f7.
// Place this file in the root of the otto worktree (package otto) as zz_find_f7_test.go and run:
//   export GOFLAGS=-mod=mod GOPROXY=off GOSUMDB=off GOTOOLCHAIN=local
//   cd /tmp/wt4/C07 && go test -vet=off -count=1 -run 'TestFindF7AccessorWithUndefinedGetSet' .
// The test FAILS on the unmodified source.
package otto

import "testing"

// demoRunF7 runs src in a fresh VM and returns the completion value as a string.
// A Go panic escaping vm.Run (a host crash) is reported as a test failure.
func demoRunF7(t *testing.T, src string) string {
	t.Helper()
	var out string
	func() {
		defer func() {
			if r := recover(); r != nil {
				t.Fatalf("HOST CRASH: Go panic escaped vm.Run: %v\n  script: %s", r, src)
			}
		}()
		v, err := New().Run(src)
		if err != nil {
			out = "ERR " + err.Error()
			return
		}
		out, _ = v.ToString()
	}()
	return out
}

func demoExpectF7(t *testing.T, src, want string) {
	t.Helper()
	if got := demoRunF7(t, src); got != want {
		t.Errorf("\n  script: %s\n  got:    %s\n  want:   %s", src, got, want)
	}
}

// ES5.1 8.10.1 IsAccessorDescriptor tests PRESENCE of [[Get]]/[[Set]], not definedness; 8.12.9
// step 4.b creates an accessor property (absent fields default to undefined); 8.10.4 step 4 then
// reports it with "get" and "set" keys.
func TestFindF7AccessorWithUndefinedGetSet(t *testing.T) {
	demoExpectF7(t, `var o = {}; Object.defineProperty(o, 'x', {get: undefined, enumerable: true});
		var d = Object.getOwnPropertyDescriptor(o, 'x');
		['get' in d, 'set' in d, 'value' in d, 'writable' in d].join()`, "true,true,false,false")
	demoExpectF7(t, `var o = {}; Object.defineProperty(o, 'x', {get: function(){ return 1; }, configurable: true});
		Object.defineProperty(o, 'x', {get: undefined});
		Object.getOwnPropertyNames(Object.getOwnPropertyDescriptor(o, 'x')).sort().join()`, "configurable,enumerable,get,set")
}
