// Finding C07/f5.
// Place this file in the root of the otto worktree (package otto) as zz_find_f5_test.go and run:
//   export GOFLAGS=-mod=mod GOPROXY=off GOSUMDB=off GOTOOLCHAIN=local
//   cd /tmp/wt4/C07 && go test -vet=off -count=1 -run 'TestFindF5StringIndexRedefine' .
// The test FAILS on the unmodified source.
package otto

import "testing"

// demoRunF5 runs src in a fresh VM and returns the completion value as a string.
// A Go panic escaping vm.Run (a host crash) is reported as a test failure.
func demoRunF5(t *testing.T, src string) string {
	t.Helper()
	var out string
	func() {
		defer func() {
			if r := recover(); r != nil {
				t.Fatalf("HOST CRASH: Go panic escaped vm.Run: %v\n  script: %s", r, src)
			}
		}()
		v, err := New().Run(src)
		if err != nil {
			out = "ERR " + err.Error()
			return
		}
		out, _ = v.ToString()
	}()
	return out
}

func demoExpectF5(t *testing.T, src, want string) {
	t.Helper()
	if got := demoRunF5(t, src); got != want {
		t.Errorf("\n  script: %s\n  got:    %s\n  want:   %s", src, got, want)
	}
}

// ES5.1 15.5.5.2 gives String index properties {[[Writable]]: false, [[Configurable]]: false};
// 8.12.9 steps 7-11 must therefore reject any redefinition that changes them.
// Property text: "a non-writable value never changes, a non-configurable property is never ...
// re-shaped ... no property is enumerated twice".
func TestFindF5StringIndexRedefine(t *testing.T) {
	demoExpectF5(t, `var s = new String("abc"), threw = false;
		try { Object.defineProperty(s, '0', {value: 'z'}); } catch (e) { threw = e instanceof TypeError; }
		[threw, s[0], Object.getOwnPropertyNames(s).join('')].join()`, "true,a,012length")
	demoExpectF5(t, `var s = new String("abc"), threw = false;
		try { Object.defineProperty(s, '1', {get: function(){ return 7; }}); } catch (e) { threw = e instanceof TypeError; }
		[threw, s[1]].join()`, "true,b")
	demoExpectF5(t, `var s = new String("abc"), threw = false;
		try { Object.defineProperties(s, {2: {value: 'q', writable: true, configurable: true}}); } catch (e) { threw = e instanceof TypeError; }
		[threw, s[2], delete s[2], s[2]].join()`, "true,c,false,c")
}
