// Finding C07/f1.
// Place this file in the root of the otto worktree (package otto) as zz_find_f1_test.go and run:
//   export GOFLAGS=-mod=mod GOPROXY=off GOSUMDB=off GOTOOLCHAIN=local
//   cd /tmp/wt4/C07 && go test -vet=off -count=1 -run 'TestFindF1GenericDescriptorKeepsWritable' .
// The test FAILS on the unmodified source.
package otto

import "testing"

// demoRunF1 runs src in a fresh VM and returns the completion value as a string.
// A Go panic escaping vm.Run (a host crash) is reported as a test failure.
func demoRunF1(t *testing.T, src string) string {
	t.Helper()
	var out string
	func() {
		defer func() {
			if r := recover(); r != nil {
				t.Fatalf("HOST CRASH: Go panic escaped vm.Run: %v\n  script: %s", r, src)
			}
		}()
		v, err := New().Run(src)
		if err != nil {
			out = "ERR " + err.Error()
			return
		}
		out, _ = v.ToString()
	}()
	return out
}

func demoExpectF1(t *testing.T, src, want string) {
	t.Helper()
	if got := demoRunF1(t, src); got != want {
		t.Errorf("\n  script: %s\n  got:    %s\n  want:   %s", src, got, want)
	}
}

// ES5.1 8.12.9 step 8 + step 12: a generic descriptor only changes the attributes it names.
func TestFindF1GenericDescriptorKeepsWritable(t *testing.T) {
	demoExpectF1(t, `var o = {x: 1};
		Object.defineProperty(o, 'x', {enumerable: false});
		var w = Object.getOwnPropertyDescriptor(o, 'x').writable;
		o.x = 2;
		[w, o.x].join()`, "true,2")
	demoExpectF1(t, `var o = {x: 1};
		Object.defineProperty(o, 'x', {configurable: false});
		o.x = 2; o.x`, "2")
	demoExpectF1(t, `var o = {x: 1};
		Object.defineProperties(o, {x: {enumerable: false}});
		o.x = 2; o.x`, "2")
	demoExpectF1(t, `var a = [1, 2, 3];
		Object.defineProperty(a, '1', {enumerable: false});
		a[1] = 9; a.join()`, "1,9,3")
}
