// Place this file in the root of the otto worktree (package otto), e.g.
//   cp demo_test.go /tmp/wt4/C02/zz_find_test.go
// and run
//   cd /tmp/wt4/C02 && go test -vet=off -count=1 -run 'TestFindInterrupt' .
//
// On the unmodified code:
//   TestFindInterruptSwallowed: "script still running 3s after the interrupt function panicked"
//   TestFindInterruptReplaced : Run returns "TypeError: invalid value (struct): missing runtime: {halt} ..."
//                               instead of letting the host's halt panic through.
package otto

import (
	"errors"
	"testing"
	"time"
)

// runWithHalt follows the "Halting Problem" recipe of the package documentation (otto.go):
// an interrupt function that panics with a sentinel which the host recovers around Run.
func runWithHalt(src string) (outcome interface{}, finished bool) {
	halt := errors.New("halt")
	vm := New()
	vm.Interrupt = make(chan func(), 1)
	result := make(chan interface{}, 1)
	go func() {
		defer func() {
			if r := recover(); r != nil {
				if r == halt {
					result <- "HALTED"
					return
				}
				result <- r
			}
		}()
		_, err := vm.Run(src)
		result <- err
	}()
	time.Sleep(100 * time.Millisecond)
	vm.Interrupt <- func() { panic(halt) }
	select {
	case r := <-result:
		return r, true
	case <-time.After(3 * time.Second):
		return nil, false
	}
}

func TestFindInterruptSwallowed(t *testing.T) {
	outcome, finished := runWithHalt(`for (;;) { try { try { for (;;) {} } catch (e) {} } catch (e2) {} }`)
	if !finished {
		t.Fatalf("script still running 3s after the interrupt function panicked: the script's try/catch swallowed the host's halt panic, Run never returns")
	}
	if outcome != "HALTED" {
		t.Fatalf("Run ended with %v, want the host's halt panic to reach the caller of Run", outcome)
	}
}

func TestFindInterruptReplaced(t *testing.T) {
	outcome, finished := runWithHalt(`try { for (;;) {} } catch (e) {}`)
	if !finished {
		t.Fatalf("script still running 3s after the interrupt")
	}
	if outcome != "HALTED" {
		t.Fatalf("Run ended with %v, want the host's halt panic to reach the caller of Run", outcome)
	}
}
