// Place this file in the root of the otto worktree (package otto), e.g.
//   cp demo_test.go /tmp/wt4/C02/zz_find_test.go
// and run
//   cd /tmp/wt4/C02 && go test -vet=off -count=1 -run 'TestFindInlineSourceMap' .
//
// On the unmodified code both cases fail with
//   Go panic escaped: runtime error: index out of range [0] with length 0
// raised in gopkg.in/sourcemap.v1 (*Consumer).Source, called from file.(*File).Position.
package otto

import (
	"encoding/base64"
	"testing"
)

// A syntactically valid version-3 source map whose mappings refer to source #0 and name #0
// although "sources" and "names" are empty.
//   "AACAA"  -> genCol 0, source 0, line +1, col 0, name 0
//   "UAAAA"  -> genCol +10 (so that a lookup at column 5 falls back to the first segment)
const findBadMap = `{"version":3,"sources":[],"names":[],"mappings":"AACAA,UAAAA"}`

func findTrailer() string {
	return "\n//# sourceMappingURL=data:application/json;base64," + base64.StdEncoding.EncodeToString([]byte(findBadMap))
}

func TestFindInlineSourceMapStack(t *testing.T) {
	src := `new Error("x").stack` + findTrailer() // the whole input is just source text
	defer func() {
		if r := recover(); r != nil {
			t.Fatalf("Go panic escaped Otto.Run: %v", r)
		}
	}()
	value, err := New().Run(src)
	if err != nil {
		t.Fatalf("unexpected error: %v", err)
	}
	if !value.IsString() {
		t.Fatalf("stack = %v, want a string", value)
	}
}

func TestFindInlineSourceMapErrorString(t *testing.T) {
	src := `null.x` + findTrailer()
	defer func() {
		if r := recover(); r != nil {
			t.Fatalf("Go panic escaped (*otto.Error).String(): %v", r)
		}
	}()
	_, err := New().Run(src)
	if err == nil {
		t.Fatal("expected a TypeError")
	}
	_ = err.(*Error).String() // what every host does to print the stack trace of a script error
}
