// Place this file in the root of the otto worktree (package otto), e.g.
//   cp demo_test.go /tmp/wt4/C02/zz_find_test.go
// and run
//   cd /tmp/wt4/C02 && go test -vet=off -count=1 -run 'TestFindSubstrInfinity' .
//
// On the unmodified code the test binary dies with
//   panic: runtime error: slice bounds out of range [:-9223372036854775808]
// raised in builtinStringSubstr and re-panicked by catchPanic out of Otto.Run.
package otto

import "testing"

func TestFindSubstrInfinity(t *testing.T) {
	for _, src := range []string{
		`"abc".substr(1, Infinity)`,
		`"abc".substr(1, 1e300)`,
		`"abc".substr(2, 9223372036854775807)`,
	} {
		func() {
			defer func() {
				if r := recover(); r != nil {
					t.Errorf("%s: Go panic escaped Otto.Run: %v", src, r)
				}
			}()
			vm := New()
			value, err := vm.Run(src)
			if err != nil {
				t.Errorf("%s: unexpected error %v", src, err)
				return
			}
			// ES5.1 B.2.3: Result(6) = min(max(ToInteger(length), 0), len - start)
			want := "abc"[len("abc")-len(value.String()):] // whatever is returned must be the tail ...
			if src[7] == '1' {
				want = "bc"
			} else {
				want = "c"
			}
			if value.String() != want {
				t.Errorf("%s = %q, want %q", src, value.String(), want)
			}
		}()
	}
}
