// Place this file in the root of the otto worktree (package otto), e.g.
//   cp demo_test.go /tmp/wt4/C02/zz_find_test.go
// and run
//   cd /tmp/wt4/C02 && go test -vet=off -count=1 -run 'TestFindDirectEvalRecursion' .
//
// On the unmodified code the TEST BINARY DIES with the unrecoverable
//   runtime: goroutine stack exceeds 67108864-byte limit
//   fatal error: stack overflow
// (debug.SetMaxStack is lowered to 64 MB only to make the crash quick and cheap; with Go's
// default 1 GB limit the result is the same "fatal error: stack overflow", it just takes a
// few seconds and 1 GB of memory first.)
package otto

import (
	"runtime/debug"
	"testing"
)

func TestFindDirectEvalRecursion(t *testing.T) {
	debug.SetMaxStack(64 << 20)

	vm := New()
	vm.SetStackDepthLimit(200) // the property: with a limit configured, recursion ends in a catchable RangeError

	value, err := vm.Run(`
		var s = "eval(s)";          // code that directly evals itself: unbounded recursion
		var caught = "nothing";
		try { eval(s) } catch (e) { caught = e instanceof RangeError ? "RangeError" : String(e) }
		caught
	`)
	if err != nil {
		t.Fatalf("unexpected error: %v", err)
	}
	if value.String() != "RangeError" {
		t.Fatalf("caught %q, want a catchable RangeError", value.String())
	}
}
