// EXTRAS - further confirmed C02 violations with root causes different from f1..f5
// (not written up in full; each test fails / crashes on the unmodified code).
//
// Place in the otto worktree root (package otto), e.g. cp demo_test.go /tmp/wt4/C02/zz_find_test.go
//   cd /tmp/wt4/C02 && go test -vet=off -count=1 -run 'TestExtra' .
// The two tests marked FATAL kill the test binary (unrecoverable); run them one by one:
//   go test -vet=off -count=1 -run 'TestExtraFatalExportCycle' .
//   go test -vet=off -count=1 -run 'TestExtraFatalApplyHugeLength' .
package otto

import (
	"runtime/debug"
	"testing"
)

func noPanic(t *testing.T, what string, f func()) {
	t.Helper()
	defer func() {
		if r := recover(); r != nil {
			t.Errorf("%s: Go panic escaped the public API: %v", what, r)
		}
	}()
	f()
}

// builtinStringLastIndexOf (builtin_string.go:135): end := int(start.int64) + len(target) overflows
// for position >= 2^63 -> value[:negative]. ES5.1 15.5.4.8: min(max(pos,0),len) -> result 2.
func TestExtraLastIndexOfHugePosition(t *testing.T) {
	noPanic(t, `"abc".lastIndexOf("c", 1e300)`, func() {
		v, err := New().Run(`"abc".lastIndexOf("c", 1e300)`)
		if err != nil || v.String() != "2" {
			t.Errorf("got %v, %v; want 2", v, err)
		}
	})
}

// Value.export (value.go:685-700): the "common type" of an exported array is decided from
// Kind/Elem().Kind() only, so [][]int64 and [][]string look alike and reflect.Set panics.
func TestExtraExportNestedArrays(t *testing.T) {
	v, err := New().Run(`[[[1]], [["a"]]]`)
	if err != nil {
		t.Fatal(err)
	}
	noPanic(t, "Value.Export()", func() { _, _ = v.Export() })
}

// FATAL: Value.export has no cycle detection -> infinite Go recursion -> "fatal error: stack overflow".
func TestExtraFatalExportCycle(t *testing.T) {
	debug.SetMaxStack(64 << 20)
	v, err := New().Run(`var a = {}; a.self = a; a`)
	if err != nil {
		t.Fatal(err)
	}
	_, _ = v.Export()
}

// FATAL: Function.prototype.apply (builtin_function.go:86-87, make([]Value, ToUint32(length))) allocates up front:
// {length:-1} -> 4294967295 * 24 bytes ~ 96 GiB -> "fatal error: runtime: out of memory".
func TestExtraFatalApplyHugeLength(t *testing.T) {
	_, _ = New().Run(`try { Math.max.apply(null, {length: -1}) } catch (e) {}`)
}

// (*runtime).clone (clone.go:73): out.globalObject.property["eval"].value.(Value).value.(*object)
// assumes the script left the global "eval" untouched.
func TestExtraCopyAfterDeleteEval(t *testing.T) {
	for _, src := range []string{`delete eval`, `eval = 1`} {
		vm := New()
		if _, err := vm.Run(src); err != nil {
			t.Fatal(err)
		}
		noPanic(t, "Otto.Copy() after "+src, func() { vm.Copy() })
	}
}

// Bridged Go values ---------------------------------------------------------------------------

// goSliceObject.setLength (type_go_slice.go:33-52): reflect.Value.SetLen on the unaddressable
// slice that vm.Set("s", []int{...}) stores -> every shrinking Array method crashes the host.
func TestExtraGoSlicePop(t *testing.T) {
	for _, src := range []string{`s.pop()`, `s.shift()`, `s.splice(0, 1)`, `s.length = 1`} {
		vm := New()
		_ = vm.Set("s", []int{1, 2, 3})
		noPanic(t, src, func() { _, _ = vm.Run(src) })
	}
}

// goSliceObject.setValue / Value.toReflectValue: undefined/null for an interface element gives an
// invalid reflect.Value -> "reflect: call of reflect.Value.Set on zero Value".
func TestExtraGoSliceOfInterfaceSetNull(t *testing.T) {
	vm := New()
	_ = vm.Set("s", []interface{}{1})
	noPanic(t, `s[0] = null`, func() { _, _ = vm.Run(`s[0] = null`) })
}

// stringToReflectValue / toReflectValue end in panic(fmt.Errorf(...)) - a foreign error value that
// catchPanic re-panics: any property access on map[interface{}]..., any store into map[string]*T.
func TestExtraGoMapForeignErrorPanic(t *testing.T) {
	vm := New()
	_ = vm.Set("m", map[interface{}]interface{}{"a": 1})
	noPanic(t, `m.a`, func() { _, _ = vm.Run(`m.a`) })
	vm = New()
	_ = vm.Set("m", map[string]*int{})
	noPanic(t, `m.a = 1`, func() { _, _ = vm.Run(`m.a = 1`) })
	vm = New()
	_ = vm.Set("m", map[string]int(nil))
	noPanic(t, `nil map: m.a = 1`, func() { _, _ = vm.Run(`m.a = 1`) })
}

// convertCallParameter, reflect.Slice case (runtime.go): reflect.MakeSlice(t, int(l), int(l)) with the
// script-controlled length.
func TestExtraGoFuncSliceParamNegativeLength(t *testing.T) {
	vm := New()
	_ = vm.Set("f", func(a []int) int { return len(a) })
	noPanic(t, `f({length: -1})`, func() { _, _ = vm.Run(`f({length: -1})`) })
}

// convertCallParameter, reflect.Func case: `if err != nil { panic(err) }` re-raises a thrown
// primitive as a plain *errors.errorString (foreign error value).
func TestExtraGoFuncCallbackThrowsPrimitive(t *testing.T) {
	vm := New()
	_ = vm.Set("f", func(cb func() int) int { return cb() })
	noPanic(t, `f(function(){ throw 1 })`, func() { _, _ = vm.Run(`f(function(){ throw 1 })`) })
}
