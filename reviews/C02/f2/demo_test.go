// Place this file in the root of the otto worktree (package otto), e.g.
//   cp demo_test.go /tmp/wt4/C02/zz_find_test.go
// and run
//   cd /tmp/wt4/C02 && go test -vet=off -count=1 -run 'TestFindDescriptorOfBuiltinAccessor' .
//
// On the unmodified code every case fails with
//   Go panic escaped Otto.Run: interface conversion: interface {} is otto.propertyGetSet, not otto.Value
// (without the recover() in this test the panic kills the embedding program).
package otto

import "testing"

func TestFindDescriptorOfBuiltinAccessor(t *testing.T) {
	cases := []string{
		// every script function object has an own accessor property "caller"
		`var d = Object.getOwnPropertyDescriptor(function(){}, "caller"); typeof d.get + "," + ("value" in d)`,
		// every Error object has an own accessor property "stack"
		`var d = Object.getOwnPropertyDescriptor(new Error("x"), "stack"); typeof d.get + "," + ("value" in d)`,
		// the usual "copy all own properties" idiom
		`var f = function(){}, d; Object.getOwnPropertyNames(f).forEach(function(n){ if (n === "caller") d = Object.getOwnPropertyDescriptor(f, n) }); typeof d.get + "," + ("value" in d)`,
	}
	for _, src := range cases {
		func() {
			defer func() {
				if r := recover(); r != nil {
					t.Errorf("%s\n\tGo panic escaped Otto.Run: %v", src, r)
				}
			}()
			value, err := New().Run(src)
			if err != nil {
				t.Errorf("%s\n\tunexpected error %v", src, err)
				return
			}
			// ES5.1 8.10.4 FromPropertyDescriptor: an accessor property yields get/set, no value/writable
			if value.String() != "function,false" {
				t.Errorf("%s\n\t= %q, want %q", src, value.String(), "function,false")
			}
		}()
	}
}
