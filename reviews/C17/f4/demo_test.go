// Place this file in the root of the otto module (package otto), e.g. /tmp/wt4/C17/zz_find_test.go, and run:
//   export GOFLAGS=-mod=mod GOPROXY=off GOSUMDB=off GOTOOLCHAIN=local
//   cd /tmp/wt4/C17 && go test -vet=off -count=1 -run 'TestFindCopyDeepHeap' .
//
// Needs about 2 GB of RAM and ~6 s. The test binary dies with
//   runtime: goroutine stack exceeds 1000000000-byte limit
//   fatal error: stack overflow
// which cannot be recovered by the embedding program.
package otto

import "testing"

// Copy() clones the heap by unbounded Go recursion (cloner.object -> objectClone ->
// cloner.property -> cloner.value -> cloner.object ...), one set of frames (~1.1 kB)
// per edge of the longest reference path. A plain one-million-node linked list built
// by an ordinary loop overflows the 1 GB Go stack and kills the process.
func TestFindCopyDeepHeap(t *testing.T) {
	vm := New()
	if _, err := vm.Run(`
		var list = null;
		for (var i = 0; i < 1000000; i++) { list = {next: list}; }
	`); err != nil {
		t.Fatalf("setup: %v", err)
	}
	cp := vm.Copy() // fatal error: stack overflow
	v, err := cp.Run(`var n = 0; for (var p = list; p; p = p.next) n++; n`)
	if err != nil || v.String() != "1000000" {
		t.Fatalf("copy: got %v, %v; want 1000000", v, err)
	}
}
