// Place this file in the root of the otto module (package otto), e.g. /tmp/wt4/C17/zz_find_test.go, and run:
//   export GOFLAGS=-mod=mod GOPROXY=off GOSUMDB=off GOTOOLCHAIN=local
//   cd /tmp/wt4/C17 && go test -vet=off -count=1 -run 'TestFindCopyArgumentsParameter' .
package otto

import "testing"

// A closure created inside a function that has a formal parameter called
// "arguments" (legal in non-strict ES5.1 code, 13.1 / 10.5 step 7) makes
// Copy() dereference a nil *object and panic in the host.
func TestFindCopyArgumentsParameter(t *testing.T) {
	const setup = `
		function mk(arguments) {           // no arguments object is created (10.5 step 7)
			var a = arguments;               // the parameter, 41
			return function () { return a + 1; };
		}
		var k = mk(41);
	`
	vm := New()
	if _, err := vm.Run(setup); err != nil {
		t.Fatalf("setup: %v", err)
	}
	if v, err := vm.Run(`k()`); err != nil || v.String() != "42" {
		t.Fatalf("original: got %v, %v; want 42", v, err)
	}

	var cp *Otto
	func() {
		defer func() {
			if r := recover(); r != nil {
				t.Fatalf("Copy() panicked in the host: %v", r)
			}
		}()
		cp = vm.Copy()
	}()

	v, err := cp.Run(`k()`)
	if err != nil || v.String() != "42" {
		t.Fatalf("copy: got %v, %v; want 42", v, err)
	}
}
