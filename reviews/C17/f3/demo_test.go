// Place this file in the root of the otto module (package otto), e.g. /tmp/wt4/C17/zz_find_test.go, and run:
//   export GOFLAGS=-mod=mod GOPROXY=off GOSUMDB=off GOTOOLCHAIN=local
//   cd /tmp/wt4/C17 && go test -vet=off -count=1 -run 'TestFindCopyFunctionCaller' .
package otto

import "testing"

// The "caller" accessor every function object carries is a Go closure over the
// ORIGINAL runtime and the ORIGINAL function object. Copy() copies the closure
// verbatim, so in the copy f.caller inspects the (idle) call stack of the original
// runtime and always answers null.
func TestFindCopyFunctionCaller(t *testing.T) {
	const setup = `
		function f() { return f.caller; }
		function g() { return f(); }
	`
	const query = `[g() === g, f() === null, typeof g()].join()`

	orig := New()
	replay := New()
	for _, vm := range []*Otto{orig, replay} {
		if _, err := vm.Run(setup); err != nil {
			t.Fatalf("setup: %v", err)
		}
	}
	cp := orig.Copy()
	cpcp := cp.Copy()

	want, err := replay.Run(query)
	if err != nil {
		t.Fatal(err)
	}
	if want.String() != "true,true,function" {
		t.Fatalf("replayed runtime: got %q", want)
	}
	for name, vm := range map[string]*Otto{"original": orig, "copy": cp, "copy of copy": cpcp} {
		got, err := vm.Run(query)
		if err != nil {
			t.Fatal(err)
		}
		if got.String() != want.String() {
			t.Errorf("%s: got %q, runtime that replayed the history: %q", name, got, want)
		}
	}
}
