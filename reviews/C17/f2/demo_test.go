// Place this file in the root of the otto module (package otto), e.g. /tmp/wt4/C17/zz_find_test.go, and run:
//   export GOFLAGS=-mod=mod GOPROXY=off GOSUMDB=off GOTOOLCHAIN=local
//   cd /tmp/wt4/C17 && go test -vet=off -count=1 -run 'TestFindCopyEval' .
package otto

import "testing"

// (a) Copy() panics in the host when the global property "eval" no longer holds a
// function object as a plain data property (it is writable + configurable, ES5.1 15.1).
func TestFindCopyEvalPanics(t *testing.T) {
	for _, setup := range []string{
		`eval = 5`,
		`delete eval`,
		`Object.defineProperty(this, "eval", {get: function () { return 1; }})`,
	} {
		vm := New()
		if _, err := vm.Run(setup); err != nil {
			t.Fatalf("%s: setup: %v", setup, err)
		}
		func() {
			defer func() {
				if r := recover(); r != nil {
					t.Errorf("%s: Copy() panicked in the host: %v", setup, r)
				}
			}()
			cp := vm.Copy()
			if _, err := cp.Run(`1`); err != nil {
				t.Errorf("%s: copy unusable: %v", setup, err)
			}
		}()
	}
}

// (b) No panic, but the copy forgets which object is the built-in eval: the copy
// takes whatever function happens to be stored in the global "eval" at Copy() time.
// Afterwards a direct call to the real eval (15.1.2.1.1) is treated as an indirect one.
func TestFindCopyEvalIdentity(t *testing.T) {
	const setup = `var x = "global"; var realEval = eval; eval = Math.abs;`
	const query = `eval = realEval; (function () { var x = "local"; return eval("x"); })()`

	orig := New()
	replay := New()
	for _, vm := range []*Otto{orig, replay} {
		if _, err := vm.Run(setup); err != nil {
			t.Fatalf("setup: %v", err)
		}
	}
	cp := orig.Copy()

	want, err := replay.Run(query)
	if err != nil {
		t.Fatal(err)
	}
	got, err := cp.Run(query)
	if err != nil {
		t.Fatal(err)
	}
	if want.String() != "local" {
		t.Fatalf("replayed runtime: got %q, want \"local\" (direct eval, ES5.1 15.1.2.1.1 / 10.4.2)", want)
	}
	if got.String() != want.String() {
		t.Errorf("copy: got %q, replayed original: %q", got, want)
	}
}
