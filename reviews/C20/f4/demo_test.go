// Place as zz_find_test.go in the root of the otto module (package otto).
// Deterministic part:  go test -vet=off -count=1 -run 'TestFindGoSliceSharedResult' .
// Race part:           go test -race -vet=off -count=1 -run 'TestFindGoSliceSharedRace' .
package otto

import (
	"sync"
	"testing"
)

// A Go slice handed (by value) to a template is wrapped in a *goSliceObject.
// Copy() does not clone that wrapper, so the template and all copies share one
// mutable slice header owned by otto: a push in one copy changes the others.
func TestFindGoSliceSharedResult(t *testing.T) {
	tmpl := New()
	if err := tmpl.Set("s", []int{1, 2, 3}); err != nil {
		t.Fatal(err)
	}
	a := tmpl.Copy()
	b := tmpl.Copy()

	if v, err := a.Run(`s.push(4); s.length`); err != nil || v.String() != "4" {
		t.Fatalf("a: %v %v", v, err)
	}
	// b and tmpl never ran anything that modifies s.
	if v, err := b.Run(`s.length`); err != nil || v.String() != "3" {
		t.Errorf("copy b: s.length = %v (err %v), want 3: changed by a script run on copy a", v, err)
	}
	if v, err := tmpl.Run(`s.length`); err != nil || v.String() != "3" {
		t.Errorf("template: s.length = %v (err %v), want 3: changed by a script run on copy a", v, err)
	}
}

func TestFindGoSliceSharedRace(t *testing.T) {
	tmpl := New()
	if err := tmpl.Set("s", []int{1, 2, 3}); err != nil {
		t.Fatal(err)
	}
	vms := []*Otto{tmpl.Copy(), tmpl.Copy(), tmpl.Copy()}
	var wg sync.WaitGroup
	for _, vm := range vms {
		vm := vm
		wg.Add(1)
		go func() {
			defer wg.Done()
			for i := 0; i < 200; i++ {
				if _, err := vm.Run(`s.push(1); s.length`); err != nil {
					t.Error(err)
					return
				}
			}
		}()
	}
	wg.Wait()
}
