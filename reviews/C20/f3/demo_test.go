// Place as zz_find_test.go in the root of the otto module (package otto).
// go test -vet=off -count=1 -run 'TestFindCopyEvalReplaced' .
package otto

import "testing"

// A template in which the global "eval" was removed or replaced (a common
// sandboxing step) cannot be copied: Copy() panics with a failed type assertion.
func TestFindCopyEvalReplaced(t *testing.T) {
	for _, setup := range []string{`delete this.eval`, `eval = undefined`, `eval = 1`} {
		tmpl := New()
		if _, err := tmpl.Run(setup); err != nil {
			t.Fatalf("%s: %v", setup, err)
		}
		want, err := tmpl.Run(`typeof eval`)
		if err != nil {
			t.Fatalf("%s: %v", setup, err)
		}
		var cp *Otto
		func() {
			defer func() {
				if r := recover(); r != nil {
					t.Errorf("%s: Copy() panicked: %v", setup, r)
				}
			}()
			cp = tmpl.Copy()
		}()
		if cp == nil {
			continue
		}
		got, err := cp.Run(`typeof eval`)
		if err != nil || got.String() != want.String() {
			t.Errorf("%s: copy gives %v %v, template gives %v", setup, got, err, want)
		}
	}
}
