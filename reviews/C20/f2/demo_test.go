// Place as zz_find_test.go in the root of the otto module (package otto).
// go test -vet=off -count=1 -run 'TestFindCopyArgumentsParam' .
package otto

import "testing"

// A template that holds a closure created inside a function with a formal
// parameter named "arguments" cannot be copied: Copy() dereferences nil.
func TestFindCopyArgumentsParam(t *testing.T) {
	tmpl := New()
	if _, err := tmpl.Run(`function mk(arguments){ return function(){ return 1 } } var h = mk(7);`); err != nil {
		t.Fatal(err)
	}
	want, err := tmpl.Run(`h()`)
	if err != nil || want.String() != "1" {
		t.Fatalf("template: %v %v", want, err)
	}

	var cp *Otto
	func() {
		defer func() {
			if r := recover(); r != nil {
				t.Fatalf("Copy() panicked: %v", r)
			}
		}()
		cp = tmpl.Copy()
	}()
	got, err := cp.Run(`h()`)
	if err != nil || got.String() != want.String() {
		t.Fatalf("copy: %v %v, want %v", got, err, want)
	}
}
