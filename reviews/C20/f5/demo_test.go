// Place as zz_find_test.go in the root of the otto module (package otto).
// Deterministic part:  go test -vet=off -count=1 -run 'TestFindGoFuncCopyResult' .
// Race part:           go test -race -vet=off -count=1 -run 'TestFindGoFuncCopyRace' .
package otto

import (
	"sync"
	"testing"
)

const goFuncProbe = `Array.prototype.tag = "mine"; [mk() instanceof Array, mk().tag].join()`

// A plain Go function (not func(FunctionCall) Value) registered on a template
// is wrapped in a closure bound to the template's runtime. In a copy the
// wrapper still converts results with the TEMPLATE runtime, so the returned
// objects belong to the template (template's Array.prototype).
func TestFindGoFuncCopyResult(t *testing.T) {
	mk := func() []string { return []string{"a", "b"} }

	alone := New()
	alone.Set("mk", mk)
	want, err := alone.Run(goFuncProbe)
	if err != nil {
		t.Fatal(err)
	}
	if want.String() != "true,mine" {
		t.Fatalf("runtime alone: %v", want)
	}

	tmpl := New()
	tmpl.Set("mk", mk)
	cp := tmpl.Copy()
	got, err := cp.Run(goFuncProbe)
	if err != nil {
		t.Fatal(err)
	}
	if got.String() != want.String() {
		t.Errorf("copy: %q, same script on a runtime alone: %q", got, want)
	}
	// ... and the copy's script must not have leaked into the template:
	if v, _ := tmpl.Run(`mk().tag`); v.IsDefined() {
		t.Errorf("template sees the copy's Array.prototype change: %v", v)
	}
}

func TestFindGoFuncCopyRace(t *testing.T) {
	tmpl := New()
	tmpl.Set("mk", func() []string { return []string{"a", "b"} })
	tmpl.Set("id", func(x int) int { return x })
	cp := tmpl.Copy()
	var wg sync.WaitGroup
	wg.Add(2)
	go func() {
		defer wg.Done()
		if _, err := tmpl.Run(`for (var i = 0; i < 20000; i++) id(1);`); err != nil {
			t.Error(err)
		}
	}()
	go func() {
		defer wg.Done()
		for i := 0; i < 2000; i++ {
			// id("x"): conversion error built with the template runtime (reads template scope)
			// mk().join(): join is looked up on, and executed by, the template runtime
			if _, err := cp.Run(`try { id("x") } catch (e) {}; mk().join("-")`); err != nil {
				t.Error(err)
				return
			}
		}
	}()
	wg.Wait()
}
