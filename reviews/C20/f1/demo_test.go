// Place as zz_find_test.go in the root of the otto module (package otto).
// Deterministic part:  go test -vet=off -count=1 -run 'TestFindCallerCopyResult' .
// Race part:           go test -race -vet=off -count=1 -run 'TestFindCallerCopyRace' .
package otto

import (
	"sync"
	"testing"
)

const callerSetup = `function f(){ return f.caller } function g(){ return f() }`

// The same script gives a different answer on a copy than on the runtime it
// was copied from (or on a fresh runtime): the "caller" getter of the copied
// function still walks the scope chain of the ORIGINAL runtime.
func TestFindCallerCopyResult(t *testing.T) {
	tmpl := New()
	if _, err := tmpl.Run(callerSetup); err != nil {
		t.Fatal(err)
	}
	cp := tmpl.Copy()

	alone, err := tmpl.Run(`g() === g`)
	if err != nil {
		t.Fatal(err)
	}
	got, err := cp.Run(`g() === g`)
	if err != nil {
		t.Fatal(err)
	}
	if alone.String() != "true" {
		t.Fatalf("template: g() === g is %v, want true", alone)
	}
	if got.String() != alone.String() {
		t.Fatalf("copy: g() === g is %v, template run alone gives %v", got, alone)
	}
}

// Template and copy are separate runtimes; running them concurrently must be
// race free. The copy's f.caller reads template.runtime.scope while the
// template writes it.
func TestFindCallerCopyRace(t *testing.T) {
	tmpl := New()
	if _, err := tmpl.Run(callerSetup); err != nil {
		t.Fatal(err)
	}
	cp := tmpl.Copy()
	var wg sync.WaitGroup
	wg.Add(2)
	go func() {
		defer wg.Done()
		if _, err := tmpl.Run(`for (var i = 0; i < 20000; i++) g();`); err != nil {
			t.Error(err)
		}
	}()
	go func() {
		defer wg.Done()
		for i := 0; i < 2000; i++ {
			if _, err := cp.Run(`g()`); err != nil {
				t.Error(err)
				return
			}
		}
	}()
	wg.Wait()
}
